package main

// R08.10 — pillar-keyed lookups of the eight-character chart are handed pillars.

import (
	"fmt"
	"go/ast"
	"go/token"
	"regexp"
	"sort"
	"strings"

	"golang.org/x/tools/go/ssa"
)

var pillarAccessor = regexp.MustCompile(`^Get(Year|Month|Day|Time)(Gan|Zhi|InGanZhi)(Index)?(ByLiChun|Exact2|Exact)?$`)

// pillarField: the pillar-index fields of Lunar, read directly (Lunar.dayGanIndexExact2 ...), in the shape of
// pillarAccessor's groups.
var pillarFieldRe = regexp.MustCompile(`^Lunar\.(year|month|day|time)(Gan|Zhi)Index(ByLiChun|Exact2|Exact)?$`)

func pillarFieldParts(f string) []string {
	m := pillarFieldRe.FindStringSubmatch(f)
	if m == nil {
		return nil
	}
	return []string{m[0], strings.ToUpper(m[1][:1]) + m[1][1:], m[2], "Index", m[3]}
}

// pillarKeyedMaps: the package-level maps whose key set is exactly the sixty pillars.
func pillarKeyedMaps(c *Ctx, v *vocab) map[string]*TVal {
	out := map[string]*TVal{}
	for _, sp := range c.tables.specs {
		if !sp.isVar {
			continue
		}
		if _, isMap := sp.expr.(*ast.CompositeLit); !isMap {
			continue
		}
		tv, err := c.tables.Var(sp.pkg, sp.name)
		if err != nil || tv == nil || tv.Kind != "map" || len(tv.Keys) != len(v.jiaZi) {
			continue
		}
		if len(missingKeys(tv, v.jiaZi)) == 0 {
			out[sp.pkg+"."+sp.name] = tv
		}
	}
	return out
}

// readsPillarMap: fn (or an unexported helper of it) looks a key up, without comma-ok, in one of the maps.
func readsPillarMap(c *Ctx, fn *ssa.Function, maps map[string]*TVal) string {
	for _, f := range withHelpers(c, fn) {
		for _, b := range f.Blocks {
			for _, ins := range b.Instrs {
				lk, ok := ins.(*ssa.Lookup)
				if !ok || lk.CommaOk {
					continue
				}
				ld, ok := lk.X.(*ssa.UnOp)
				if !ok || ld.Op != token.MUL {
					continue
				}
				if g, ok := ld.X.(*ssa.Global); ok && g.Pkg != nil {
					name := pkgShort(g.Pkg.Pkg.Path()) + "." + g.Name()
					if maps[name] != nil {
						return name
					}
				}
			}
		}
	}
	return ""
}

func pkgShort(path string) string {
	if i := strings.LastIndex(path, "/"); i >= 0 {
		return path[i+1:]
	}
	return path
}

func r08_10(c *Ctx, r *Report) {
	const rule = "R08.10"
	r.rule(rule, "Pillar-keyed lookups of the eight-character chart are handed pillars. Every exported zero-argument method of *EightChar that looks a key up (without comma-ok, itself or in an unexported helper) in a package-level map whose key set is the sixty pillars is followed by the evaluator (E12; search loops as tables over the iteration number, helpers and sibling methods inline) with the pillar accessors of the underlying Lunar as inputs: for both day-boundary schools, for every value of the pillars it consults (all sixty when stem and branch of a pillar are both read, else the ten stems or twelve branches) and with the variants of one pillar (exact / by Lichun / plain; early-rat / late-rat) equal or one apart, the result is a value of that map — never the zero value a key outside the sixty pillars yields. A stem taken from one variant and a branch from another gives such a key when the variants are one apart.")
	v := c.vocab(r, rule)
	if v == nil {
		return
	}
	maps := pillarKeyedMaps(c, v)
	r.check(len(maps) >= 1, rule, "package-level maps keyed by the sixty pillars", "-", fmt.Sprintf("%d found: %v", len(maps), sortedKeys(boolKeys(maps))))
	n := 0
	for _, fn := range c.methodsOf("calendar", "EightChar") {
		if fn.Object() == nil || !fn.Object().Exported() || len(fn.Params) != 1 || fn.Signature.Results().Len() != 1 || !isStringType(fn.Signature.Results().At(0).Type()) {
			continue
		}
		mname := readsPillarMap(c, fn, maps)
		if mname == "" {
			continue
		}
		n++
		values := map[string]bool{}
		for _, s := range mapValues(maps[mname]) {
			values[s] = true
		}
		construct := fname(fn) + " hands " + mname + " a pillar"
		// which pillars, and which halves of them, the method consults
		used := map[string]map[string]bool{}
		run := func(sect int64, st map[string]int, off int) (interface{}, string) {
			leaf := func(fr *evalFrame, x ssa.Value) (interface{}, bool) {
				if rc, f, ok := getterField(c, x); ok && structName(rc.Type()) == "EightChar" {
					switch f {
					case "EightChar.sect":
						return sect, true
					case "EightChar.lunar":
						return absPtr{"lunar", false}, true
					}
				}
				var m []string
				if _, f, ok := getterField(c, x); ok {
					m = pillarFieldParts(f) // a direct read of the field, or its plain getter
				}
				if m == nil {
					call, ok := x.(*ssa.Call)
					if !ok || call.Common().StaticCallee() == nil {
						return nil, false
					}
					callee := call.Common().StaticCallee()
					if callee.Signature.Recv() == nil || structName(callee.Signature.Recv().Type()) != "Lunar" {
						return nil, false
					}
					m = pillarAccessor.FindStringSubmatch(callee.Name())
				}
				if m == nil {
					return nil, false
				}
				if used[m[1]] == nil {
					used[m[1]] = map[string]bool{}
				}
				used[m[1]][m[2]] = true
				p := st[m[1]]
				// the variants of one pillar are equal or one apart
				if (m[1] == "Day" && m[4] == "Exact") || (m[1] != "Day" && m[4] != "Exact") {
					p += off
				}
				p = ((p % 60) + 60) % 60
				switch {
				case m[3] == "Index" && m[2] == "Gan":
					return int64(p % 10), true
				case m[3] == "Index" && m[2] == "Zhi":
					return int64(p % 12), true
				case m[3] == "Index":
					return nil, false
				case m[2] == "Gan":
					return v.stems[p%10], true
				case m[2] == "Zhi":
					return v.branches[p%12], true
				}
				return v.jiaZi[p], true
			}
			ev := &evaluator{inline: inlineLibrary, leaf: leaf}
			res, outcome := ev.run(fn, nil, nil, nil, nil)
			if outcome != "return" || len(res) != 1 {
				return nil, outcome + " " + ev.fail
			}
			return res[0], ""
		}
		_, problem := run(2, map[string]int{}, 0)
		if problem == "" {
			_, problem = run(1, map[string]int{}, 0)
		}
		if problem != "" {
			r.bad(rule, construct, c.fnPos(fn), "the evaluator cannot follow the method ("+problem+"; undecided = fail)")
			continue
		}
		var dims []string
		size := map[string]int{}
		for p, halves := range used {
			dims = append(dims, p)
			switch {
			case halves["InGanZhi"] || (halves["Gan"] && halves["Zhi"]):
				size[p] = 60
			case halves["Gan"]:
				size[p] = 10
			default:
				size[p] = 12
			}
		}
		sort.Strings(dims)
		total := 1
		for _, d := range dims {
			total *= size[d]
		}
		if total > 20000 {
			r.bad(rule, construct, c.fnPos(fn), fmt.Sprintf("%d input combinations over %v: too many to enumerate (undecided = fail)", total, dims))
			continue
		}
		var bad []string
		cases := 0
		st := map[string]int{}
		var rec func(i int)
		rec = func(i int) {
			if i < len(dims) {
				for k := 0; k < size[dims[i]]; k++ {
					st[dims[i]] = k
					rec(i + 1)
				}
				return
			}
			for _, sect := range []int64{1, 2} {
				for off := 0; off <= 1; off++ {
					cases++
					res, problem := run(sect, st, off)
					s, isS := res.(string)
					if problem == "" && isS && values[s] {
						continue
					}
					if len(bad) < 3 {
						var in []string
						for _, d := range dims {
							in = append(in, fmt.Sprintf("%s pillar %s", strings.ToLower(d), v.jiaZi[st[d]]))
						}
						what := fmt.Sprintf("%q", s)
						if problem != "" {
							what = problem
						}
						bad = append(bad, fmt.Sprintf("sect %d, %s, variants %d apart: %s", sect, strings.Join(in, ", "), off, what))
					} else if len(bad) == 3 {
						bad = append(bad, "…")
					}
				}
			}
		}
		rec(0)
		r.check(len(bad) == 0, rule, construct, c.fnPos(fn), fmt.Sprintf("%d cases over %v x school x variant distance; not a value of the map: %v", cases, dims, bad))
	}
	r.floor(rule, 3)
}

func boolKeys(m map[string]*TVal) map[string]bool {
	out := map[string]bool{}
	for k := range m {
		out[k] = true
	}
	return out
}
