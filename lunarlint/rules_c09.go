package main

// C09 — results do not depend on call history or on concurrent callers.

import (
	"fmt"
	"go/token"
	"go/types"
	"sort"
	"strings"

	"golang.org/x/tools/go/ssa"
)

func init() {
	register("C09",
		"anything about interleavings beyond what follows from the absence of unsynchronised shared writes; implicit run-time panics inside the critical section that depend on float-valued table indices (bounded under C08 R08.6); liveness beyond lock pairing; calls made through reflection by fmt (String methods are checked as accessors in their own right).",
		r09_1, r09_2, r09_3, r09_5, r09_6)
}

// package state that may be written after init, with the reason; every entry is
// itself constrained by another rule.
var allowedGlobalWriters = map[string]map[string]string{
	"calendar.CACHE_YEAR":    {"calendar.NewLunarYear": "one-slot year cache; every access must hold calendar.lock (R09.2)"},
	"HolidayUtil.dataInUse":  {"HolidayUtil.Fix": "Fix is the documented mutator of the holiday table (C14 R14.3 constrains how it writes)"},
	"HolidayUtil.namesInUse": {"HolidayUtil.Fix": "Fix is the documented mutator of the holiday names"},
}

// documented mutators: methods named Set* and HolidayUtil.Fix. They are outside
// "read-only accessor calls on a shared object".
func isDocumentedMutator(fn *ssa.Function) bool {
	if fname(fn) == "HolidayUtil.Fix" {
		return true
	}
	return fn.Signature.Recv() != nil && strings.HasPrefix(fn.Name(), "Set")
}

func isInit(fn *ssa.Function) bool {
	return fn.Name() == "init" || strings.HasPrefix(fn.Name(), "init#") || (fn.Parent() != nil && isInit(fn.Parent()))
}

func isSyncType(g *ssa.Global) bool {
	return strings.HasPrefix(g.Type().String(), "*sync.")
}

// libGlobals lists every package-level variable of the library packages.
func (c *Ctx) libGlobals() []*ssa.Global {
	var out []*ssa.Global
	for _, pn := range c.LibPkgs {
		sp := c.SSABy[pn]
		for _, m := range sp.Members {
			if g, ok := m.(*ssa.Global); ok && !strings.HasPrefix(g.Name(), "init$") {
				out = append(out, g)
			}
		}
	}
	sort.Slice(out, func(i, j int) bool { return gname(out[i]) < gname(out[j]) })
	return out
}

type gwrite struct {
	global string
	via    string
	pos    token.Pos
	key    string
}

// globalWrites collects every store to (or through) a package variable outside init.
func (c *Ctx) globalWrites() []gwrite {
	seen := map[string]bool{}
	var out []gwrite
	for _, fn := range c.Funcs {
		if isInit(fn) {
			continue
		}
		ef := c.eff.Of(fn)
		for k, l := range ef.Writes {
			if !strings.HasPrefix(l.Root, "g:") {
				continue
			}
			g := strings.TrimPrefix(l.Root, "g:")
			id := g + "|" + l.Via + "|" + k
			if seen[id] {
				continue
			}
			seen[id] = true
			out = append(out, gwrite{global: g, via: l.Via, pos: l.Pos, key: k})
		}
	}
	sort.Slice(out, func(i, j int) bool { return out[i].global+out[i].via+out[i].key < out[j].global+out[j].via+out[j].key })
	return out
}

func r09_1(c *Ctx, r *Report) {
	const rule = "R09.1"
	r.rule(rule, "Package state inventory. No package-level variable of the library is stored to, or through (element, map entry, field of reachable memory), outside package initialisation, except the declared mutable set {calendar.CACHE_YEAR in NewLunarYear, HolidayUtil.dataInUse/namesInUse in Fix} and variables initialised once (stored only by an input-free function under one package-level sync.Once, every use following the Do); computed from the effects (E2) of every library function, with callee writes mapped onto caller arguments.")
	writes := c.globalWrites()
	writerSets := map[string]map[string]bool{}
	for g, ws := range allowedGlobalWriters {
		writerSets[g] = map[string]bool{}
		for w := range ws {
			writerSets[g][w] = true
		}
	}
	c.closeOverHelpers(writerSets)
	byGlobal := map[string][]gwrite{}
	for _, w := range writes {
		byGlobal[w.global] = append(byGlobal[w.global], w)
	}
	n := 0
	for _, g := range c.libGlobals() {
		if isSyncType(g) {
			continue
		}
		n++
		name := gname(g)
		bad := false
		if reason, ok := c.onceBuilt(g, byGlobal[name]); ok {
			r.ok(rule, "var "+name, c.pos(g.Pos()), reason)
			continue
		}
		for _, w := range byGlobal[name] {
			if reason, ok := allowedGlobalWriters[name][w.via]; ok {
				r.ok(rule, "write to "+name+" in "+w.via, c.pos(w.pos), "declared mutable state: "+reason)
				continue
			}
			if writerSets[name][w.via] {
				r.ok(rule, "write to "+name+" in "+w.via, c.pos(w.pos), "declared mutable state, written by an unexported helper that only the declared writers call")
				continue
			}
			bad = true
			r.bad(rule, "write to "+name+" in "+w.via, c.pos(w.pos),
				fmt.Sprintf("package variable %s is written (%s) outside init by %s; results of later calls can depend on call history and concurrent callers race on it", name, w.key, w.via))
		}
		if !bad {
			r.ok(rule, "var "+name, c.pos(g.Pos()), "no store outside init (or only declared writers)")
		}
	}
	delete(byGlobal, "")
	r.floor(rule, 100)
	// dynamic calls and unmodelled externals make the inventory incomplete: fail closed
	dyn := map[string]token.Pos{}
	unk := map[string]token.Pos{}
	for _, fn := range c.Funcs {
		if isInit(fn) {
			continue
		}
		ef := c.eff.Of(fn)
		for k, p := range ef.Dyn {
			dyn[k] = p
		}
		for k, p := range ef.Unknown {
			unk[k] = p
		}
	}
	for _, k := range sortedPosKeys(dyn) {
		r.bad(rule, "dynamic call "+k, c.pos(dyn[k]), "call target not statically resolved; the write inventory cannot be completed (undecided = fail)")
	}
	for _, k := range sortedPosKeys(unk) {
		r.bad(rule, "external call "+k, c.pos(unk[k]), "external function without an effect model is called; the write inventory cannot be completed (undecided = fail)")
	}
	r.note("R09.1: %d package variables inventoried, %d store sites outside init", n, len(writes))
	if c.Tier == "thorough" {
		clientWrites(c, r, rule)
	}
	control(r, rule, "stores to package variables fx.COUNTER (direct) and fx.TABLE (element)", func(fc *Ctx) bool {
		a, b := false, false
		for _, w := range fc.globalWrites() {
			if w.global == "fx.COUNTER" && w.via == "fx.Bump" {
				a = true
			}
			if w.global == "fx.TABLE" && w.via == "fx.Patch" {
				b = true
			}
		}
		return a && b
	})
	control(r, rule, "once-initialised fx.lazyTab is accepted, fx.eagerTab (read without the Do in fx.EagerPeek) is not", func(fc *Ctx) bool {
		m := fc.onceGlobals()
		return m["fx.lazyTab"] && !m["fx.eagerTab"]
	})
}

func sortedPosKeys(m map[string]token.Pos) []string {
	out := make([]string, 0, len(m))
	for k := range m {
		out = append(out, k)
	}
	sort.Strings(out)
	return out
}

// entryPoints: exported functions and exported methods of exported types.
func (c *Ctx) entryPoints() []*ssa.Function {
	var out []*ssa.Function
	for _, fn := range c.Funcs {
		if fn.Parent() != nil || isInit(fn) || !isExported(fn.Name()) {
			continue
		}
		if recv := fn.Signature.Recv(); recv != nil {
			if !isExported(structName(recv.Type())) {
				continue
			}
		}
		out = append(out, fn)
	}
	return out
}

func r09_3(c *Ctx, r *Report) {
	const rule = "R09.3"
	r.rule(rule, "Read-only entry points are read-only. Every exported function or method other than the documented mutators (methods named Set*, HolidayUtil.Fix) writes only to objects allocated during its own activation: no store to a field, element, map entry or list reachable from a parameter/receiver, from a package variable (other than the lock-guarded cache, R09.2) or from any pre-existing object. Hence constructors publish fully built objects and accessors on shared objects cannot race.")
	type storeSite struct {
		flat, via string
		pos       token.Pos
		entries   []string
	}
	sites := map[string]*storeSite{}
	for _, fn := range c.entryPoints() {
		if isDocumentedMutator(fn) {
			continue
		}
		ef := c.eff.Of(fn)
		nbad := 0
		for _, l := range ef.Writes {
			if l.Root == "a" {
				continue
			}
			if strings.HasPrefix(l.Root, "g:") {
				g := strings.TrimPrefix(l.Root, "g:")
				if _, ok := allowedGlobalWriters[g][l.Via]; ok {
					continue
				}
				if c.onceGlobals()[g] {
					continue // initialised once under a sync.Once (R09.1)
				}
			}
			nbad++
			k := l.Via + "|" + l.Flat
			if sites[k] == nil {
				sites[k] = &storeSite{flat: l.Flat, via: l.Via, pos: l.Pos}
			}
			sites[k].entries = append(sites[k].entries, fname(fn))
		}
		if nbad == 0 {
			r.ok(rule, fname(fn), c.fnPos(fn), fmt.Sprintf("%d write locations, all in objects allocated by the activation", len(ef.Writes)))
		}
		if ef.Recursion {
			r.bad(rule, fname(fn)+" (recursion)", c.fnPos(fn), "recursive call cycle; effects are incomplete (undecided = fail)")
		}
	}
	var ks []string
	for k := range sites {
		ks = append(ks, k)
	}
	sort.Strings(ks)
	for _, k := range ks {
		st := sites[k]
		sort.Strings(st.entries)
		show := st.entries
		if len(show) > 6 {
			show = append(append([]string{}, show[:6]...), fmt.Sprintf("... %d more", len(st.entries)-6))
		}
		r.bad(rule, "store to "+st.flat+" in "+st.via, c.pos(st.pos),
			fmt.Sprintf("a non-mutator entry point stores to memory that existed before the call (%s); reached from: %s", st.flat, strings.Join(show, ", ")))
	}
	r.floor(rule, 500)
	control(r, rule, "caching getter fx.(*Thing).Memo", func(fc *Ctx) bool {
		fn := fc.FuncBy["fx.(*Thing).Memo"]
		if fn == nil {
			return false
		}
		for _, l := range fc.eff.Of(fn).Writes {
			if l.Root == "p0" && l.Path == ".memo" {
				return true
			}
		}
		return false
	})
}

// functions that may consult the wall clock: the "today" constructors and the
// end-year bound of the reverse eight-character lookup (the property allows both).
var allowedClockUsers = map[string]string{
	"calendar.NewSolarWeek":                       "constructor for the current week",
	"calendar.NewSolarMonth":                      "constructor for the current month",
	"calendar.NewSolarSeason":                     "constructor for the current season",
	"calendar.NewSolarHalfYear":                   "constructor for the current half-year",
	"calendar.NewSolarYear":                       "constructor for the current year",
	"calendar.ListSolarFromBaZiBySectAndBaseYear": "search window ends at the current year",
	"calendar.ListSolarFromBaZiBySect":            "the same search with the default base year",
	"calendar.ListSolarFromBaZi":                  "the same search with the default school and base year",
}

// clockUser: the function itself is a declared clock user, or it is an unexported helper (or function literal)
// every call of which sits in one.
func clockUser(c *Ctx, name string, depth int) (string, bool) {
	if reason, ok := allowedClockUsers[name]; ok {
		return reason, true
	}
	fn := c.FuncBy[name]
	if fn == nil || !isLocalHelper(fn) || depth > 3 {
		return "", false
	}
	sites := c.callSitesOf(fn)
	if len(sites) == 0 {
		return "", false
	}
	reason := ""
	for _, site := range sites {
		r, ok := clockUser(c, fname(site.Parent()), depth+1)
		if !ok {
			return "", false
		}
		reason = "helper of " + fname(site.Parent()) + ": " + r
	}
	return reason, true
}

type detSite struct {
	kind string // "range-map", "go", "clock", "ambient"
	fn   string
	what string
	pos  token.Pos
}

// determinismSites lists map ranges, go statements, wall-clock reads and ambient inputs.
func determinismSites(c *Ctx) (sites []detSite, scanned int) {
	for _, fn := range c.Funcs {
		if isInit(fn) {
			continue
		}
		scanned++
		for _, b := range fn.Blocks {
			for _, ins := range b.Instrs {
				switch x := ins.(type) {
				case *ssa.Range:
					if isMapType(x.X.Type()) {
						sites = append(sites, detSite{"range-map", fname(fn), "range over map", x.Pos()})
					}
				case *ssa.Go:
					sites = append(sites, detSite{"go", fname(fn), "go statement", x.Pos()})
				case *ssa.Call:
					callee := x.Common().StaticCallee()
					if callee == nil || callee.Pkg == nil {
						continue
					}
					p := callee.Pkg.Pkg.Path()
					full := callee.String()
					switch {
					case full == "time.Now":
						sites = append(sites, detSite{"clock", fname(fn), full, x.Pos()})
					case p == "math/rand" || p == "os" || p == "runtime" || p == "crypto/rand" || p == "os/exec" || p == "net" || p == "math/rand/v2":
						sites = append(sites, detSite{"ambient", fname(fn), full, x.Pos()})
					}
				}
			}
		}
	}
	return
}

func r09_5(c *Ctx, r *Report) {
	const rule = "R09.5"
	r.rule(rule, "Determinism sources. No library function ranges over a map (iteration order could reach a result); the wall clock (time.Now) is read only by the declared 'today' constructors and the reverse-lookup end year; no goroutine is started and no other ambient input (rand, os, env) is called.")
	sites, n := determinismSites(c)
	for _, s := range sites {
		switch s.kind {
		case "range-map":
			r.bad(rule, "range over map in "+s.fn, c.pos(s.pos), "iteration order of a map is unspecified and differs between runs; a result built from it depends on more than the arguments")
		case "go":
			r.bad(rule, "go statement in "+s.fn, c.pos(s.pos), "library starts a goroutine")
		case "clock":
			if reason, ok := clockUser(c, s.fn, 0); ok {
				r.ok(rule, "time.Now in "+s.fn, c.pos(s.pos), "declared clock user: "+reason)
			} else {
				r.bad(rule, "time.Now in "+s.fn, c.pos(s.pos), "wall clock read outside the declared 'today' constructors: the result depends on when the call is made")
			}
		case "ambient":
			r.bad(rule, s.what+" in "+s.fn, c.pos(s.pos), "ambient input consulted by the library")
		}
	}
	r.ok(rule, "library functions scanned", "-", fmt.Sprintf("%d functions scanned for map ranges, goroutines and ambient inputs", n))
	control(r, rule, "range over map and stray time.Now in the fixture", func(fc *Ctx) bool {
		fs, _ := determinismSites(fc)
		rm, ck := false, false
		for _, s := range fs {
			if s.kind == "range-map" && s.fn == "fx.Names" {
				rm = true
			}
			if s.kind == "clock" && s.fn == "fx.Stamp" {
				ck = true
			}
		}
		return rm && ck
	})
}

func isMapType(t types.Type) bool {
	_, ok := t.Underlying().(*types.Map)
	return ok
}

// clientWrites (thorough tier): the client packages of the repository (test, demo) do not
// store to, or through, package variables of the library either (Fix is the only mutator they use).
func clientWrites(c *Ctx, r *Report, rule string) {
	cc, err := load(c.Repo, "quick", c.GoArch, true)
	if err != nil {
		r.bad(rule, "client packages (test, demo)", "-", "cannot load the client packages: "+err.Error())
		return
	}
	n := 0
	bad := 0
	for _, fn := range cc.ClientFuncs {
		if isInit(fn) {
			continue
		}
		n++
		ef := cc.eff.Of(fn)
		for k, l := range ef.Writes {
			if !strings.HasPrefix(l.Root, "g:") || strings.HasSuffix(l.Via, ".init") || strings.Contains(l.Via, ".init#") {
				continue
			}
			g := strings.TrimPrefix(l.Root, "g:")
			if _, ok := allowedGlobalWriters[g][l.Via]; ok {
				continue
			}
			// a client's own package variables are its own business
			if strings.HasPrefix(g, "test.") || strings.HasPrefix(g, "main.") || strings.HasPrefix(g, "demo.") {
				continue
			}
			bad++
			// a client mutating an exported variable is the client's doing, not a property of the
			// library: listed for information, never a violation
			r.ok(rule, "client write to "+g+" in "+fn.String()+" (informational)", cc.pos(l.Pos), "a client package of the repository stores to library package state ("+k+"); the library cannot prevent writes to its exported variables")
		}
	}
	r.ok(rule, "client packages (test, demo)", "-", fmt.Sprintf("%d client functions analysed, %d store sites to library package state other than through HolidayUtil.Fix (listed)", n, bad))
	if n < 200 {
		r.bad(rule, "client packages loaded", "-", fmt.Sprintf("only %d client functions found (expected the 237 tests and the demo)", n))
	}
}

// R09.6: history-dependent state is read only where it is keyed.
func r09_6(c *Ctx, r *Report) {
	const rule = "R09.6"
	r.rule(rule, "Readers of history-dependent state. The package variables that are written after initialisation hold whatever the last caller — of any goroutine — left there. Each may be loaded only by the functions declared for it: calendar.CACHE_YEAR by NewLunarYear alone (which compares the slot's year with the requested year under the lock before handing it out, R09.2), the holiday tables by the HolidayUtil lookups and Fix. Any other reader (a helper returning 'the current table') makes a result depend on which call ran last.")
	allowed := map[string]map[string]bool{
		"calendar.CACHE_YEAR": {"calendar.NewLunarYear": true},
	}
	for g, ws := range allowedGlobalWriters {
		if _, ok := allowed[g]; !ok {
			allowed[g] = map[string]bool{}
			for w := range ws {
				allowed[g][w] = true
			}
		}
	}
	// an unexported helper all of whose callers are declared readers is part of the keyed lookup
	c.closeOverHelpers(allowed)
	n := 0
	seen := map[string]int{}
	for _, fn := range c.Funcs {
		if isInit(fn) {
			continue
		}
		for _, b := range fn.Blocks {
			for _, ins := range b.Instrs {
				ld, ok := ins.(*ssa.UnOp)
				if !ok || ld.Op != token.MUL {
					continue
				}
				g, ok := ld.X.(*ssa.Global)
				if !ok {
					continue
				}
				readers, tracked := allowed[gname(g)]
				if !tracked {
					continue
				}
				n++
				construct := uniq(seen, "load of "+gname(g)+" in "+fname(fn))
				switch {
				case readers[fname(fn)]:
					r.ok(rule, construct, c.pos(ld.Pos()), "declared reader")
				case strings.HasPrefix(gname(g), "HolidayUtil.") && strings.HasPrefix(fname(fn), "HolidayUtil."):
					r.ok(rule, construct, c.pos(ld.Pos()), "holiday lookups read the live table by design (C14 R14.5)")
				default:
					r.bad(rule, construct, c.pos(ld.Pos()), gname(g)+" holds what the most recent caller of any goroutine left there; "+fname(fn)+" reads it without being its keyed lookup, so its result depends on the calls made before and on concurrent callers")
				}
			}
		}
	}
	r.check(n >= 3, rule, "loads of history-dependent package state", "-", fmt.Sprintf("%d loads inventoried (floor 3)", n))
}

// closeOverHelpers extends each set of declared functions by the unexported helpers that are called
// only from functions already in the set (a piece of a declared function moved into a helper).
func (c *Ctx) closeOverHelpers(allowed map[string]map[string]bool) {
	callers := map[*ssa.Function]map[string]bool{}
	for _, fn := range c.Funcs {
		for _, b := range fn.Blocks {
			for _, ins := range b.Instrs {
				if call, ok := ins.(ssa.CallInstruction); ok {
					if callee := call.Common().StaticCallee(); callee != nil {
						if callers[callee] == nil {
							callers[callee] = map[string]bool{}
						}
						callers[callee][fname(fn)] = true
					}
				}
			}
		}
	}
	for changed := true; changed; {
		changed = false
		for _, fn := range c.Funcs {
			if fn.Object() == nil || fn.Object().Exported() || len(callers[fn]) == 0 {
				continue
			}
			for g, set := range allowed {
				if set[fname(fn)] {
					continue
				}
				all := true
				for caller := range callers[fn] {
					if !set[caller] {
						all = false
					}
				}
				if all {
					allowed[g][fname(fn)] = true
					changed = true
				}
			}
		}
	}
}
