package main

// C11 — alternative routes to the same fact give the same answer.

import (
	"fmt"
	"go/constant"
	"go/token"
	"regexp"
	"sort"
	"strings"

	"golang.org/x/tools/go/ssa"
)

func init() {
	register("C11",
		"equality of two routes' arithmetic when they read the same inputs (the duplicated nine-star formulas are each evaluated against one statement, R16.5); agreement of routes that are not paired by name or by the explicit pair table.",
		r11_1, r11_2, r11_3, r11_4, r11_5, r16_2, r11_6, r16_5, r18_6, r05_7, r11_7)
}

// ---------- delegation shape ----------

type delegation struct {
	callee *ssa.Function
	call   *ssa.Call
}

// pureDelegation: the function body is `return recv.M(args...)` (one call, its result returned).
func pureDelegation(fn *ssa.Function) *delegation {
	var calls []*ssa.Call
	var rets []*ssa.Return
	for _, b := range fn.Blocks {
		for _, ins := range b.Instrs {
			switch x := ins.(type) {
			case *ssa.Call:
				// calls of pure field getters are argument expressions, not the delegation
				if isPureGetterCall(x) {
					continue
				}
				calls = append(calls, x)
			case *ssa.Return:
				rets = append(rets, x)
			case *ssa.Store, *ssa.If, *ssa.Panic, *ssa.MapUpdate:
				return nil
			}
		}
	}
	if len(calls) != 1 || len(rets) != 1 || len(rets[0].Results) != 1 || rets[0].Results[0] != ssa.Value(calls[0]) {
		return nil
	}
	callee := calls[0].Common().StaticCallee()
	if callee == nil {
		return nil
	}
	return &delegation{callee: callee, call: calls[0]}
}

func isPureGetterCall(x *ssa.Call) bool {
	callee := x.Common().StaticCallee()
	if callee == nil || callee.Signature.Recv() == nil || len(x.Common().Args) != 1 || len(callee.Blocks) != 1 {
		return false
	}
	for _, ins := range callee.Blocks[0].Instrs {
		if ret, isRet := ins.(*ssa.Return); isRet && len(ret.Results) == 1 {
			if ld, isLd := ret.Results[0].(*ssa.UnOp); isLd && ld.Op == token.MUL {
				if fa, isFA := ld.X.(*ssa.FieldAddr); isFA && fa.X == ssa.Value(callee.Params[0]) {
					return true
				}
			}
		}
	}
	return false
}

// ---------- R11.1 sibling input signatures ----------

type inputSig struct {
	paths   map[string]bool
	globals map[string]bool
}

func (s inputSig) String() string {
	return "fields{" + strings.Join(sortedKeys(s.paths), " ") + "} tables{" + strings.Join(sortedKeys(s.globals), " ") + "}"
}

// signatureOf: the receiver-rooted access paths and package tables a method reads,
// after renaming through the declared field correspondence.
func signatureOf(c *Ctx, fn *ssa.Function, bind map[int]constant.Value, rename func(string) string) inputSig {
	ef := c.eff.With(fn, bind)
	s := inputSig{paths: map[string]bool{}, globals: map[string]bool{}}
	for _, p := range ef.paramReads(0) {
		p = rename(p)
		if p == "" {
			continue
		}
		s.paths[p] = true
	}
	for _, g := range ef.globalsRead() {
		s.globals[g] = true
	}
	return s
}

func diffSig(a, b inputSig) (onlyA, onlyB []string) {
	a.paths, b.paths = foldDerived(a.paths), foldDerived(b.paths)
	for k := range a.paths {
		if !b.paths[k] {
			onlyA = append(onlyA, k)
		}
	}
	for k := range b.paths {
		if !a.paths[k] {
			onlyB = append(onlyB, k)
		}
	}
	// which literal tables a route goes through is not an input: one sibling may index XUN by the pillar
	// indices while the other builds the pillar string from GAN and ZHI and searches for it (what the tables
	// hold and that lookups stay inside them is C08/C18)
	sort.Strings(onlyA)
	sort.Strings(onlyB)
	return
}

// pointer-valued intermediate paths carry no information of their own
func dropPointers(p string) string {
	switch p {
	case ".solar", ".lunar", ".jieQi", ".jieQiList", ".eightChar", ".months", ".jieQiJulianDays":
		return ""
	}
	return p
}

func renameLunarTime(p string) string {
	switch {
	case p == ".ganIndex":
		return ".timeGanIndex"
	case p == ".zhiIndex":
		return ".timeZhiIndex"
	case strings.HasPrefix(p, ".lunar"):
		return dropPointers(strings.TrimPrefix(p, ".lunar"))
	}
	return dropPointers(p)
}

func renameLunarYear(p string) string {
	switch p {
	case ".ganIndex":
		return ".yearGanIndex"
	case ".zhiIndex":
		return ".yearZhiIndex"
	}
	return dropPointers(p)
}

type siblingPair struct {
	a, b         *ssa.Function
	bindA, bindB map[int]constant.Value
	renameA      func(string) string
	why          string
}

func intBind(idx int, k int64) map[int]constant.Value {
	return map[int]constant.Value{idx: constant.MakeInt64(k)}
}

func (c *Ctx) siblingPairs(r *Report, rule string) []siblingPair {
	var out []siblingPair
	// LunarTime.GetX <-> Lunar.GetTimeX (by name), plus the irregular names
	irregular := map[string]string{"GetGanZhi": "GetTimeInGanZhi"}
	for _, m := range c.methodsOf("calendar", "LunarTime") {
		if !isExported(m.Name()) || !strings.HasPrefix(m.Name(), "Get") || len(m.Params) != 1 {
			continue
		}
		target := "GetTime" + strings.TrimPrefix(m.Name(), "Get")
		if alt, ok := irregular[m.Name()]; ok {
			target = alt
		}
		if l := c.Method("calendar", "Lunar", target); l != nil && len(l.Params) == 1 {
			out = append(out, siblingPair{a: m, b: l, renameA: renameLunarTime, why: "hour object vs the lunar date's own hour accessor"})
		}
	}
	// LunarYear.GetX <-> Lunar.GetYearX (New-Year based year accessors; sect 1 where a school exists)
	for _, m := range c.methodsOf("calendar", "LunarYear") {
		if !isExported(m.Name()) || !strings.HasPrefix(m.Name(), "Get") || len(m.Params) != 1 {
			continue
		}
		base := strings.TrimPrefix(m.Name(), "Get")
		if l := c.Method("calendar", "Lunar", "GetYear"+base+"BySect"); l != nil && len(l.Params) == 2 {
			out = append(out, siblingPair{a: m, b: l, bindB: intBind(1, 1), renameA: renameLunarYear, why: "lunar-year object vs the lunar date's New-Year-based accessor (sect 1)"})
		} else if l := c.Method("calendar", "Lunar", "GetYear"+base); l != nil && len(l.Params) == 1 && base != "" {
			out = append(out, siblingPair{a: m, b: l, renameA: renameLunarYear, why: "lunar-year object vs the lunar date's New-Year-based accessor"})
		}
	}
	return out
}

func r11_1(c *Ctx, r *Report) {
	const rule = "R11.1"
	r.rule(rule, "Sibling input signatures. Paired routes — LunarTime.GetX vs Lunar.GetTimeX, LunarYear.GetX vs Lunar.GetYearX[BySect(1)] — must read the same receiver fields (under the declared correspondence ganIndex=timeGanIndex/yearGanIndex, zhiIndex=timeZhiIndex/yearZhiIndex, LunarTime.lunar.*=Lunar.*), the same package tables and the same term-table keys, computed transitively with constant arguments specialised. Equality of inputs is necessary for equality of results whenever each input is live.")
	pairs := c.siblingPairs(r, rule)
	for _, p := range pairs {
		ra := p.renameA
		sa := signatureOf(c, p.a, p.bindA, ra)
		sb := signatureOf(c, p.b, p.bindB, dropPointers)
		onlyA, onlyB := diffSig(sa, sb)
		construct := fmt.Sprintf("%s ~ %s", fname(p.a), fname(p.b))
		if len(onlyA) == 0 && len(onlyB) == 0 {
			r.ok(rule, construct, c.fnPos(p.a), p.why+": equal inputs "+sa.String())
		} else {
			r.bad(rule, construct, c.fnPos(p.b), fmt.Sprintf("%s: the two routes read different inputs; only %s reads %v; only %s reads %v — for inputs where those differ the two answers differ",
				p.why, fname(p.a), onlyA, fname(p.b), onlyB))
		}
	}
	r.floor(rule, 30)
}

// ---------- R11.2 sect switch in EightChar ----------

var dayAccessor = regexp.MustCompile(`^GetDay(Gan|Zhi|InGanZhi|GanIndex|ZhiIndex|Xun|XunKong|NaYin|ShengXiao)(Exact2|Exact)?$`)

// sectGuard: does block b lie under eightChar.sect == 2 (true) or its negation (false)?
func sectGuard(fn *ssa.Function, b *ssa.BasicBlock) (under bool, value bool) {
	for _, blk := range fn.Blocks {
		if len(blk.Instrs) == 0 {
			continue
		}
		iff, ok := blk.Instrs[len(blk.Instrs)-1].(*ssa.If)
		if !ok {
			continue
		}
		bo, ok := iff.Cond.(*ssa.BinOp)
		if !ok || (bo.Op != token.EQL && bo.Op != token.NEQ) {
			continue
		}
		isSect := func(v ssa.Value) bool {
			ld, ok := v.(*ssa.UnOp)
			if !ok || ld.Op != token.MUL {
				return false
			}
			fa, ok := ld.X.(*ssa.FieldAddr)
			return ok && fieldKeyOf(fa) == "EightChar.sect"
		}
		is2 := func(v ssa.Value) bool {
			k, ok := v.(*ssa.Const)
			if !ok || k.Value == nil {
				return false
			}
			n, _ := constant.Int64Val(k.Value)
			return n == 2
		}
		if !(isSect(bo.X) && is2(bo.Y)) && !(isSect(bo.Y) && is2(bo.X)) {
			continue
		}
		t, f := blk.Succs[0], blk.Succs[1]
		if bo.Op == token.NEQ {
			t, f = f, t
		}
		if len(t.Preds) == 1 && t.Dominates(b) {
			return true, true
		}
		if len(f.Preds) == 1 && f.Dominates(b) {
			return true, false
		}
	}
	return false, false
}

func r11_2(c *Ctx, r *Report) {
	const rule = "R11.2"
	r.rule(rule, "Sect switch in EightChar. Every method of *EightChar that consults a day-pillar accessor of *Lunar is followed by the evaluator with the accessors as abstract inputs (early-rat, late-rat and plain variants get distinguishable values; helpers inline): under sect == 2 its result must not change when the early-rat or the plain value changes, under sect == 1 it must not change when the late-rat or the plain value changes (any other value, including the one a new chart starts with, counts as 2) — the attribute is computed from the day pillar the chart shows. Where the evaluator cannot follow a method (a search loop), the structural form is required instead: each accessor call sits in the matching branch of a test of the sect field, or is the early-rat default that is only merged with the late-rat value computed under sect == 2.")
	n := 0
	for _, fn := range c.methodsOf("calendar", "EightChar") {
		uses := false
		for _, f := range withHelpers(c, fn) {
			for _, b := range f.Blocks {
				for _, ins := range b.Instrs {
					if call, ok := ins.(*ssa.Call); ok {
						if callee := call.Common().StaticCallee(); callee != nil && callee.Signature.Recv() != nil && structName(callee.Signature.Recv().Type()) == "Lunar" && dayAccessor.MatchString(callee.Name()) {
							uses = true
						}
					}
					if v, ok := ins.(ssa.Value); ok {
						if _, fld, ok := getterField(c, v); ok {
							if m := pillarFieldParts(fld); m != nil && m[1] == "Day" {
								uses = true // the field read directly
							}
						}
					}
				}
			}
		}
		// methods that reach the accessors only through other exported EightChar methods are judged through those
		if !uses {
			continue
		}
		n++
		construct := fname(fn) + " follows the chart's sect"
		if msg, decided := sectNonInterference(c, fn); decided {
			r.check(msg == "", rule, construct, c.fnPos(fn), "followed for sect 1 and 2 with varied day-pillar variants; "+msg)
			continue
		}
		// structural fallback
		var bad []string
		for _, b := range fn.Blocks {
			for _, ins := range b.Instrs {
				call, ok := ins.(*ssa.Call)
				if !ok {
					continue
				}
				callee := call.Common().StaticCallee()
				if callee == nil || callee.Signature.Recv() == nil || structName(callee.Signature.Recv().Type()) != "Lunar" {
					continue
				}
				m := dayAccessor.FindStringSubmatch(callee.Name())
				if m == nil {
					continue
				}
				variant := m[2]
				under, val := sectGuard(fn, b)
				switch {
				case variant == "":
					bad = append(bad, callee.Name()+": the plain day pillar (no 23:00 convention) is used")
				case variant == "Exact2" && under && val, variant == "Exact" && under && !val:
				case variant == "Exact" && !under && onlyMergedWithSect2(fn, call):
				default:
					bad = append(bad, fmt.Sprintf("%s: variant %q is used regardless of (or against) the chart's sect", callee.Name(), variant))
				}
			}
		}
		r.check(len(bad) == 0, rule, construct, c.fnPos(fn), fmt.Sprintf("structural form (not followed by the evaluator); deviations: %v", bad))
	}
	r.check(n >= 1, rule, "EightChar methods that consult the day pillar", "-", fmt.Sprintf("%d methods consult a day-pillar accessor of the Lunar directly (the others are judged through them)", n))
}

// sectNonInterference follows fn for sect 1 and 2 while varying the values of the day-pillar
// variants. decided=false when the evaluator cannot follow the method.
type dayVariants struct{ e, e2, p int }

var dayVariantStrs = []string{"甲子", "乙丑", "丙寅", "丁卯", "戊辰", "己巳", "庚午"}

// eightCharRun follows a method of *EightChar with the chart's sect and the three variants of the day pillar
// (early-rat, late-rat, plain) given as small distinguishable numbers (strings: dayVariantStrs).
func eightCharRun(c *Ctx, fn *ssa.Function, sect int64, v dayVariants) (interface{}, bool) {
	recv := ssa.Value(fn.Params[0])
	strs := dayVariantStrs
	{
		leaf := func(fr *evalFrame, x ssa.Value) (interface{}, bool) {
			if rc, f, ok := getterField(c, x); ok {
				if _, o := fr.origin(rc); o == recv || structName(rc.Type()) == "EightChar" {
					switch f {
					case "EightChar.sect":
						return sect, true
					case "EightChar.lunar":
						return absPtr{"lunar", false}, true
					}
				}
			}
			if _, f, ok := getterField(c, x); ok {
				// a direct read of a pillar-index field of the Lunar (or its plain getter)
				if m := pillarFieldParts(f); m != nil {
					k := 6
					if m[1] == "Day" {
						switch m[4] {
						case "Exact":
							k = v.e
						case "Exact2":
							k = v.e2
						default:
							k = v.p
						}
					}
					return int64(k), true
				}
			}
			call, ok := x.(*ssa.Call)
			if !ok || call.Common().StaticCallee() == nil {
				return nil, false
			}
			callee := call.Common().StaticCallee()
			if callee.Signature.Recv() == nil || structName(callee.Signature.Recv().Type()) != "Lunar" {
				return nil, false
			}
			k := 0
			half := ""
			if m := dayAccessor.FindStringSubmatch(callee.Name()); m != nil {
				half = m[1]
				switch m[2] {
				case "Exact":
					k = v.e
				case "Exact2":
					k = v.e2
				default:
					k = v.p
				}
			} else if !strings.HasPrefix(callee.Name(), "Get") {
				return nil, false
			}
			res := callee.Signature.Results()
			if res.Len() != 1 {
				return nil, false
			}
			switch {
			case isIntType(res.At(0).Type()):
				return int64(k), true
			case isStringType(res.At(0).Type()):
				rs := []rune(strs[k])
				switch half {
				case "Gan":
					return string(rs[0]), true
				case "Zhi":
					return string(rs[1]), true
				}
				return strs[k], true
			}
			return nil, false
		}
		ev := &evaluator{inline: inlineLibrary, leaf: leaf}
		res, outcome := ev.run(fn, nil, nil, nil, nil)
		if outcome != "return" || len(res) == 0 {
			return nil, false
		}
		if len(res) > 1 {
			return fmt.Sprint(res...), true // a helper that hands out several values at once
		}
		return res[0], true
	}
}

func sectNonInterference(c *Ctx, fn *ssa.Function) (msg string, decided bool) {
	type vals = dayVariants
	run := func(sect int64, v vals) (interface{}, bool) { return eightCharRun(c, fn, sect, v) }
	base := vals{0, 2, 4}
	var out []string
	// the sect a new chart starts with (what NewEightChar stores, else the zero value) behaves as sect 2
	initial := int64(0)
	if ctor := c.FuncBy["calendar.NewEightChar"]; ctor != nil {
		for _, b := range ctor.Blocks {
			for _, ins := range b.Instrs {
				if st, ok := ins.(*ssa.Store); ok {
					if fa, ok := st.Addr.(*ssa.FieldAddr); ok && fieldKeyOf(fa) == "EightChar.sect" {
						if k, ok := constInt(st.Val); ok {
							initial = k
						}
					}
				}
			}
		}
	}
	sects := []int64{1, 2}
	if initial != 1 && initial != 2 {
		sects = append(sects, initial)
	}
	for _, sect := range sects {
		r0, ok0 := run(sect, base)
		rE, ok1 := run(sect, vals{1, 2, 4})
		rE2, ok2 := run(sect, vals{0, 3, 4})
		rP, ok3 := run(sect, vals{0, 2, 5})
		if !ok0 || !ok1 || !ok2 || !ok3 {
			return "", false
		}
		if r0 != rP {
			out = append(out, fmt.Sprintf("under sect %d the result changes with the plain day pillar (%v vs %v)", sect, r0, rP))
		}
		if sect != 1 && r0 != rE {
			out = append(out, fmt.Sprintf("under sect %d the result changes with the early-rat day pillar (%v vs %v)", sect, r0, rE))
		}
		if sect == 1 && r0 != rE2 {
			out = append(out, fmt.Sprintf("under sect %d the result changes with the late-rat day pillar (%v vs %v)", sect, r0, rE2))
		}
	}
	return strings.Join(out, "; "), true
}

// onlyMergedWithSect2: every use of the call result is a phi whose other incoming
// value is an Exact2 accessor result computed under sect == 2.
func onlyMergedWithSect2(fn *ssa.Function, call *ssa.Call) bool {
	refs := call.Referrers()
	if refs == nil || len(*refs) == 0 {
		return false
	}
	for _, ref := range *refs {
		phi, ok := ref.(*ssa.Phi)
		if !ok {
			return false
		}
		okPhi := false
		for _, e := range phi.Edges {
			if e == ssa.Value(call) {
				continue
			}
			other, ok := e.(*ssa.Call)
			if !ok {
				return false
			}
			oc := other.Common().StaticCallee()
			if oc == nil || !strings.HasSuffix(oc.Name(), "Exact2") {
				return false
			}
			if under, val := sectGuard(fn, other.Block()); under && val {
				okPhi = true
			}
		}
		if !okPhi {
			return false
		}
	}
	return true
}

// ---------- R11.3 deprecated aliases ----------

var deprecatedRe = regexp.MustCompile(`@Deprecated.*请使用(\w+)`)

func r11_3(c *Ctx, r *Report) {
	const rule = "R11.3"
	r.rule(rule, "Deprecated aliases. Every method whose doc comment says '@Deprecated … 请使用X' is a pure delegation to X on the same receiver with the same arguments; where X is GetEightChar (the GetBaZi* family) the receiver is used only as the receiver of GetEightChar().")
	for _, fn := range c.Funcs {
		m := deprecatedRe.FindStringSubmatch(c.doc(fn))
		if m == nil || fn.Signature.Recv() == nil {
			continue
		}
		target := m[1]
		construct := fmt.Sprintf("%s -> %s", fname(fn), target)
		if target == "GetEightChar" {
			okk := true
			detail := "receiver used only as the receiver of GetEightChar()"
			for _, ref := range *fn.Params[0].Referrers() {
				call, ok := ref.(*ssa.Call)
				if !ok || call.Common().StaticCallee() == nil || call.Common().StaticCallee().Name() != "GetEightChar" || call.Common().Args[0] != ssa.Value(fn.Params[0]) {
					okk = false
					detail = "the deprecated wrapper uses its receiver other than through GetEightChar(): " + describeInstr(ref)
				}
			}
			r.check(okk, rule, construct, c.fnPos(fn), detail)
			continue
		}
		d := pureDelegation(fn)
		if d == nil {
			r.bad(rule, construct, c.fnPos(fn), "deprecated alias is not a pure delegation (its body is more than 'return recv."+target+"(args)')")
			continue
		}
		okk := d.callee.Name() == target && len(d.call.Common().Args) == len(fn.Params)
		if okk {
			for i, a := range d.call.Common().Args {
				if a != ssa.Value(fn.Params[i]) {
					okk = false
				}
			}
		}
		r.check(okk, rule, construct, c.fnPos(fn), fmt.Sprintf("delegates to %s with the receiver and parameters passed through unchanged", fname(d.callee)))
	}
	r.floor(rule, 25)
}

// ---------- R11.4 default school ----------

// documented default schools (reviewed against the README/CHANGELOG of the pinned tree)
var defaultSect = map[string]int64{
	"PositionFu": 2, "PositionFuDesc": 2, "PositionTaiSui": 2, "PositionTaiSuiDesc": 2, "NineStar": 2,
	"Yi": 1, "Ji": 1, "Yun": 1,
}

var bySectRe = regexp.MustCompile(`^(Get(?:Year|Month|Day|Time)?)(\w+?)BySect$`)

func r11_4(c *Ctx, r *Report) {
	const rule = "R11.4"
	r.rule(rule, "Default school = documented explicit school. For every accessor family GetXBySect(…, sect) the accessor without the suffix is a pure delegation GetXBySect(…, c) with a constant c; c equals the documented default of the attribute (Fu position, Tai Sui position and nine stars: 2; day suitable/avoid lists and the fortune start: 1), and all objects that offer the same attribute use the same default.")
	byAttr := map[string]map[int64][]string{}
	for _, fn := range c.Funcs {
		if fn.Signature.Recv() == nil || fn.Parent() != nil {
			continue
		}
		m := bySectRe.FindStringSubmatch(fn.Name())
		if m == nil {
			continue
		}
		recv := structName(fn.Signature.Recv().Type())
		plainName := strings.TrimSuffix(fn.Name(), "BySect")
		plain := c.Method("calendar", recv, plainName)
		construct := fmt.Sprintf("calendar.(*%s).%s default school", recv, plainName)
		if plain == nil {
			r.bad(rule, construct, c.fnPos(fn), "no default accessor "+plainName+" beside "+fn.Name())
			continue
		}
		d := pureDelegation(plain)
		if d == nil || d.callee != fn {
			r.bad(rule, construct, c.fnPos(plain), fmt.Sprintf("%s is not a pure delegation to %s: the default route and the explicit school can diverge", plainName, fn.Name()))
			continue
		}
		args := d.call.Common().Args
		k, isC := args[len(args)-1].(*ssa.Const)
		if !isC || k.Value == nil {
			r.bad(rule, construct, c.fnPos(plain), "the school passed by the default accessor is not a constant")
			continue
		}
		kv, _ := constant.Int64Val(k.Value)
		for i, a := range args[:len(args)-1] {
			if a != ssa.Value(plain.Params[i]) {
				r.bad(rule, construct+" (arguments)", c.fnPos(plain), "the default accessor does not pass its receiver/arguments through unchanged")
			}
		}
		attr := m[2]
		want, known := defaultSect[attr]
		if !known {
			r.bad(rule, construct, c.fnPos(plain), fmt.Sprintf("attribute %q has no documented default school in the reviewed table (undecided = fail)", attr))
			continue
		}
		r.check(kv == want, rule, construct, c.fnPos(plain), fmt.Sprintf("delegates to %s(…, %d); documented default %d", fn.Name(), kv, want))
		if byAttr[attr] == nil {
			byAttr[attr] = map[int64][]string{}
		}
		byAttr[attr][kv] = append(byAttr[attr][kv], recv+"."+plainName)
	}
	for attr, m := range byAttr {
		var ks []string
		for k, who := range m {
			sort.Strings(who)
			ks = append(ks, fmt.Sprintf("%d: %s", k, strings.Join(who, ", ")))
		}
		sort.Strings(ks)
		r.check(len(m) == 1, rule, "one default school for attribute "+attr, "-", strings.Join(ks, " | "))
	}
	// plain delegation chains of the reverse lookup and the fortune start
	for _, t := range []struct {
		from, to string
		k        int64
	}{{"calendar.ListSolarFromBaZi", "calendar.ListSolarFromBaZiBySect", 2}, {"calendar.ListSolarFromBaZiBySect", "calendar.ListSolarFromBaZiBySectAndBaseYear", 1900}, {"calendar.(*EightChar).GetYun", "calendar.(*EightChar).GetYunBySect", 1}} {
		fn := c.Fn(r, rule, t.from)
		if fn == nil {
			continue
		}
		okk, detail := delegatesWithDefault(c, fn, c.FuncBy[t.to], t.k)
		r.check(okk, rule, fmt.Sprintf("%s -> %s(…, %d)", t.from, t.to, t.k), c.fnPos(fn), "does what the longer entry does with the documented default: "+detail)
	}
	r.floor(rule, 15)
}

// ---------- R11.5 no caching in accessors ----------

func r11_5(c *Ctx, r *Report) {
	const rule = "R11.5"
	r.rule(rule, "No memoisation in attribute accessors. No exported method of Lunar, LunarTime, LunarYear, LunarMonth or EightChar other than the documented mutators stores to its receiver: a cached attribute would survive SetSect and make two charts with the same pillars report different attributes (same analysis as R09.3, restricted to these types).")
	n := 0
	sites := map[string][]string{}
	sitePos := map[string]token.Pos{}
	for _, typ := range []string{"Lunar", "LunarTime", "LunarYear", "LunarMonth", "EightChar"} {
		for _, fn := range c.methodsOf("calendar", typ) {
			if !isExported(fn.Name()) || isDocumentedMutator(fn) {
				continue
			}
			n++
			for _, l := range c.eff.Of(fn).Writes {
				if l.Root == "p0" {
					k := "store to " + l.Flat + " in " + l.Via
					sites[k] = append(sites[k], fname(fn))
					sitePos[k] = l.Pos
				}
			}
		}
	}
	var ks []string
	for k := range sites {
		ks = append(ks, k)
	}
	sort.Strings(ks)
	for _, k := range ks {
		who := sites[k]
		sort.Strings(who)
		r.bad(rule, k, c.pos(sitePos[k]), "an attribute accessor stores to its receiver (memoisation); reached from: "+strings.Join(headList(who, 6), ", "))
	}
	r.ok(rule, "accessors of Lunar/LunarTime/LunarYear/LunarMonth/EightChar", "-", fmt.Sprintf("%d exported non-mutator methods, none stores to its receiver", n))
}

// R11.6: both hour routes (Lunar.computeTime and NewLunarTime) hand the same rendering to the one slot function.
func r11_6(c *Ctx, r *Report) {
	const rule = "R11.6"
	r.rule(rule, "Clock strings handed to the slot lookup are fixed-width. Every library call of LunarUtil.GetTimeZhiIndex passes a rendering of kind HH:MM or HH:MM:SS (zero-padded, so that the string order the lookup relies on is the clock order; what the lookup does with such a string is R05.7), or passes a client's string through unchanged.")
	fn := c.Fn(r, rule, "LunarUtil.GetTimeZhiIndex")
	if fn == nil {
		return
	}
	n := 0
	seen := map[string]int{}
	for _, caller := range c.Funcs {
		for _, b := range caller.Blocks {
			for _, ins := range b.Instrs {
				call, ok := ins.(*ssa.Call)
				if !ok || call.Common().StaticCallee() != fn || len(call.Common().Args) != 1 {
					continue
				}
				k := c.renderKind(call.Common().Args[0], 0)
				if k == "" {
					continue
				}
				n++
				construct := uniq(seen, fmt.Sprintf("%s: GetTimeZhiIndex(%s)", fname(caller), k))
				r.check(k == "HH:MM" || k == "HH:MM:SS", rule, construct, c.pos(call.Pos()), "the clock string is rendered as "+k+": a string that is not zero-padded to a fixed width does not sort like the time it shows")
			}
		}
	}
	if n < 2 {
		r.bad(rule, "instance floor "+rule, "-", fmt.Sprintf("only %d typed call sites found (floor 2)", n))
	}
}

// delegatesWithDefault: short(a…) does what long(a…, def) does. Both are resolved through pure delegations
// (a single call whose result is returned) to the function that does the work, the arguments handed on being
// evaluated over the entry's own parameters (markers for the shared ones; free trailing parameters of short, such
// as a school passed through, take a spread of values): the same worker must be reached with the same argument
// values. A delegation short -> long(a…, def) is the simplest case; two entries that each hand their arguments,
// already normalised, to a shared unexported worker is another.
func delegatesWithDefault(c *Ctx, short, long *ssa.Function, def int64) (bool, string) {
	if short == nil || long == nil || len(long.Params) != len(short.Params)+1 {
		return false, "the entries do not differ by one trailing parameter"
	}
	resolve := func(fn *ssa.Function, vals []interface{}) (*ssa.Function, []interface{}, bool) {
		for depth := 0; depth < 4; depth++ {
			d := pureDelegation(fn)
			if d == nil || len(d.call.Common().Args) != len(d.callee.Params) || d.callee.Blocks == nil {
				return fn, vals, true
			}
			cur, curVals := fn, vals
			leaf := func(fr *evalFrame, v ssa.Value) (interface{}, bool) {
				if p, ok := v.(*ssa.Parameter); ok && fr.parent == nil {
					for i, q := range cur.Params {
						if p == q {
							return curVals[i], true
						}
					}
				}
				return nil, false
			}
			var next []interface{}
			for _, a := range d.call.Common().Args {
				o, ok := evalWith(&evalFrame{fn: cur}, a, leaf)
				if !ok {
					return nil, nil, false
				}
				next = append(next, o)
			}
			fn, vals = d.callee, next
		}
		return fn, vals, true
	}
	// which parameters of short are integers passed on (a school): those are varied
	spreads := [][]interface{}{{}}
	for i, p := range short.Params {
		var opts []interface{}
		if isIntType(p.Type()) {
			for _, k := range []int64{-1, 0, 1, 2, 3, 1900, 1984} {
				opts = append(opts, k)
			}
		} else {
			opts = []interface{}{fmt.Sprintf("‹%d›", i)}
		}
		var next [][]interface{}
		for _, s := range spreads {
			for _, o := range opts {
				next = append(next, append(append([]interface{}{}, s...), o))
			}
		}
		spreads = next
	}
	n := 0
	for _, vals := range spreads {
		w1, a1, ok1 := resolve(short, vals)
		w2, a2, ok2 := resolve(long, append(append([]interface{}{}, vals...), def))
		n++
		if !ok1 || !ok2 {
			return false, "an argument handed on is not evaluable over the entry's parameters"
		}
		if w1 != w2 || fmt.Sprint(a1) != fmt.Sprint(a2) {
			return false, fmt.Sprintf("with arguments %v: %s reaches %s%v, %s(…, %d) reaches %s%v", vals, short.Name(), w1.Name(), a1, long.Name(), def, w2.Name(), a2)
		}
	}
	return true, fmt.Sprintf("%d argument combinations: the same worker with the same arguments", n)
}
