package main

// C10 — soundness, day-boundary convention, order shape and candidate construction of the
// eight-character reverse lookup, read from branch facts (facts.go) and by evaluation (E12):
// the rules do not depend on where the verification, the hour list or the candidate are computed
// (inline, in helpers, as if/else or early continue).

import (
	"fmt"
	"go/token"
	"go/types"
	"sort"
	"strings"

	"golang.org/x/tools/go/ssa"
)

var pillarAccessorNames = map[string]bool{
	"GetYearInGanZhi": true, "GetYearInGanZhiByLiChun": true, "GetYearInGanZhiExact": true,
	"GetMonthInGanZhi": true, "GetMonthInGanZhiExact": true,
	"GetDayInGanZhi": true, "GetDayInGanZhiExact": true, "GetDayInGanZhiExact2": true,
	"GetTimeInGanZhi": true,
}

// pillarAccessorFr: v (read in fr) is L.GetX(), or a merge of such calls, where L = S.GetLunar();
// returns the accessor names and S with its frame.
func pillarAccessorFr(fr *evalFrame, v ssa.Value, depth int) (names []string, sfr *evalFrame, solar ssa.Value, ok bool) {
	if depth > 6 {
		return nil, nil, nil, false
	}
	fr2, w := fr.origin(v)
	if phi, isPhi := w.(*ssa.Phi); isPhi {
		for _, e := range phi.Edges {
			if e == ssa.Value(phi) {
				continue
			}
			n, f, s, ok := pillarAccessorFr(fr2, e, depth+1)
			if !ok || (solar != nil && (s != solar || f.fn != sfr.fn)) {
				return nil, nil, nil, false
			}
			names, sfr, solar = append(names, n...), f, s
		}
		names = dedupe(names)
		sort.Strings(names)
		return names, sfr, solar, solar != nil
	}
	call, isCall := w.(*ssa.Call)
	if !isCall || call.Common().StaticCallee() == nil || !recvIsNamed(call.Common().StaticCallee(), "Lunar") || !pillarAccessorNames[call.Common().StaticCallee().Name()] {
		return nil, nil, nil, false
	}
	lfr, lv := fr2.origin(call.Common().Args[0])
	lc, isCall := lv.(*ssa.Call)
	if !isCall || lc.Common().StaticCallee() == nil || !recvIsNamed(lc.Common().StaticCallee(), "Solar") || lc.Common().StaticCallee().Name() != "GetLunar" {
		return nil, nil, nil, false
	}
	sf, sv := lfr.origin(lc.Common().Args[0])
	return []string{call.Common().StaticCallee().Name()}, sf, sv, true
}

// topParam: the index of the parameter of top that v (read in fr) originates at, or -1.
func topParam(fr *evalFrame, v ssa.Value, top *ssa.Function) int {
	ofr, o := fr.origin(v)
	if p, ok := o.(*ssa.Parameter); ok && ofr.fn == top {
		return paramIndex(top, p)
	}
	return -1
}

// dependsOnTopParam: is v computed from parameter idx of top (through arithmetic, conversions, slices and call arguments)?
func dependsOnTopParam(fr *evalFrame, v ssa.Value, top *ssa.Function, idx int, depth int) bool {
	if depth > 12 {
		return false
	}
	ofr, o := fr.origin(v)
	if p, ok := o.(*ssa.Parameter); ok {
		return ofr.fn == top && paramIndex(top, p) == idx
	}
	ins, ok := o.(ssa.Instruction)
	if !ok {
		return false
	}
	if _, isPhi := o.(*ssa.Phi); isPhi {
		return false
	}
	for _, op := range ins.Operands(nil) {
		if *op != nil && dependsOnTopParam(ofr, *op, top, idx, depth+1) {
			return true
		}
	}
	return false
}

type pushSite struct {
	fn   *ssa.Function
	call *ssa.Call
}

func reversePushSites(c *Ctx, fn *ssa.Function) []pushSite {
	var out []pushSite
	for _, f := range withHelpers(c, fn) {
		for _, b := range f.Blocks {
			for _, ins := range b.Instrs {
				call, ok := ins.(*ssa.Call)
				if ok && call.Common().StaticCallee() != nil && call.Common().StaticCallee().String() == "(*container/list.List).PushBack" && len(call.Common().Args) == 2 {
					out = append(out, pushSite{f, call})
				}
			}
		}
	}
	return out
}

// equalityFact: the fact states x == y on strings.
func equalityFact(f fact) (x, y ssa.Value, ok bool) {
	x, y, op, isAtom := stringCompareAtom(f.cond)
	if !isAtom {
		return nil, nil, false
	}
	if (op == token.EQL && f.truth) || (op == token.NEQ && !f.truth) {
		return x, y, true
	}
	return nil, nil, false
}

func r10_1(c *Ctx, r *Report) {
	const rule = "R10.1"
	r.rule(rule, "Soundness by branch facts. Whenever a moment is appended to the result of ListSolarFromBaZiBySectAndBaseYear (in the function or a helper of it), four string equalities are known to hold between the requested year, month, day and hour pillars (parameters 1-4) and GetYearInGanZhiExact, GetMonthInGanZhiExact, the day pillar and GetTimeInGanZhi of GetLunar() of that same moment, and the Jie moment's year is known to be >= the base year (last parameter). Facts are the dominating branch conditions with their polarity, boolean helpers expanded on their returning paths.")
	fn := reverseLookup(c, r, rule)
	if fn == nil {
		return
	}
	sites := reversePushSites(c, fn)
	for _, ps := range sites {
		// once per way control reaches the append (a helper or function literal called from several places)
		for _, ctx := range factsRooted(c, fn, ps.fn, ps.call.Block()) {
			fr, facts := ctx.fr, ctx.facts
			pfr, pushed := fr.origin(unwrapIface(ps.call.Common().Args[1]))
			found := map[int][]string{}
			base := false
			for _, f := range facts {
				if x, y, ok := equalityFact(f); ok {
					for _, pr := range [][2]ssa.Value{{x, y}, {y, x}} {
						idx := topParam(f.fr, pr[1], fn)
						if idx < 0 || idx > 3 {
							continue
						}
						names, sfr, solar, ok := pillarAccessorFr(f.fr, pr[0], 0)
						if !ok || solar != pushed || sfr.fn != pfr.fn {
							continue
						}
						found[idx] = append(found[idx], names...)
					}
				}
				if bo, ok := f.cond.(*ssa.BinOp); ok {
					x, y, op := bo.X, bo.Y, bo.Op
					if topParam(f.fr, x, fn) == len(fn.Params)-1 {
						x, y, op = y, x, flipOp(op)
					}
					if topParam(f.fr, y, fn) == len(fn.Params)-1 && ((op == token.GEQ && f.truth) || (op == token.LSS && !f.truth)) {
						if _, g := f.fr.origin(x); g != nil {
							if rc, fld, ok := getterField(c, g); ok && fld == "Solar.year" && structName(rc.Type()) == "Solar" {
								base = true
							}
						}
					}
				}
			}
			var got []string
			for i := 0; i < 4; i++ {
				ns := dedupe(found[i])
				sort.Strings(ns)
				got = append(got, fmt.Sprintf("%d:%s", i+1, strings.Join(ns, "|")))
			}
			day := strings.HasPrefix(got[2], "3:GetDayInGanZhiExact")
			okk := got[0] == "1:GetYearInGanZhiExact" && got[1] == "2:GetMonthInGanZhiExact" && day && got[3] == "4:GetTimeInGanZhi" && base
			r.check(okk, rule, "calendar.ListSolarFromBaZiBySectAndBaseYear: every pushed moment was verified by forward conversion", c.pos(ps.call.Pos()),
				fmt.Sprintf("known equalities between pillar parameters and accessors of the pushed moment's own lunar date: %v; Jie year >= base year known: %v", got, base))
		}
	}
	if len(sites) == 0 {
		r.bad(rule, "instance floor R10.1", c.fnPos(fn), "no PushBack found")
	}
}

// sectLeaf gives the raw sect parameter a value and names the day-pillar accessors.
func sectLeaf(top *ssa.Function, raw int64) leafX {
	return func(fr *evalFrame, v ssa.Value) (interface{}, bool) {
		if p, ok := v.(*ssa.Parameter); ok && fr.fn == top && fr.parent == nil && paramIndex(top, p) == 4 {
			return raw, true
		}
		if call, ok := v.(*ssa.Call); ok && call.Common().StaticCallee() != nil && recvIsNamed(call.Common().StaticCallee(), "Lunar") && pillarAccessorNames[call.Common().StaticCallee().Name()] {
			return call.Common().StaticCallee().Name(), true
		}
		return nil, false
	}
}

func topFrame(fr *evalFrame) *evalFrame {
	for fr.parent != nil {
		fr = fr.parent
	}
	return fr
}

func r10_2(c *Ctx, r *Report) {
	const rule = "R10.2"
	r.rule(rule, "Day-boundary convention, by evaluation over the raw sect argument (…, 0, 1, 2, 3): the day pillar compared in the verification is GetDayInGanZhiExact when sect is 1 and GetDayInGanZhiExact2 for every other value (sect is normalised to {1,2}); the hour 23 is added as a second candidate of the rat slot (second element of an hour list, or a second call of the helper or function literal that verifies one hour) only where a condition on sect that is false for 1 and true otherwise, and an equality of the hour computed from the hour pillar with 0, are known to hold.")
	fn := reverseLookup(c, r, rule)
	if fn == nil || len(fn.Params) != 6 {
		return
	}
	n := 0
	for _, ps := range reversePushSites(c, fn) {
		var facts []fact
		for _, ctx := range factsRooted(c, fn, ps.fn, ps.call.Block()) {
			facts = append(facts, ctx.facts...)
		}
		for _, f := range facts {
			x, y, ok := equalityFact(f)
			if !ok {
				continue
			}
			for _, pr := range [][2]ssa.Value{{x, y}, {y, x}} {
				if topParam(f.fr, pr[1], fn) != 2 {
					continue
				}
				n++
				var bad []string
				for _, raw := range []int64{-1, 0, 1, 2, 3} {
					want := "GetDayInGanZhiExact2"
					if raw == 1 {
						want = "GetDayInGanZhiExact"
					}
					got, ok := evalWith(f.fr, pr[0], sectLeaf(fn, raw))
					if !ok || got != interface{}(want) {
						bad = append(bad, fmt.Sprintf("sect %d: %v (evaluable: %v), stated %s", raw, got, ok, want))
					}
				}
				r.check(len(bad) == 0, rule, "the verified day pillar follows sect", c.pos(ps.call.Pos()), fmt.Sprintf("5 sect values; deviations: %v", bad))
			}
		}
	}
	if n == 0 {
		r.bad(rule, "the verified day pillar follows sect", c.fnPos(fn), "no day-pillar equality is known at a PushBack")
	}
	// the second candidate hour of the rat slot
	m := 0
	for _, site := range lateRatSites(c, fn) {
		m++
		var facts []fact
		for _, ctx := range factsRooted(c, fn, site.fn, site.block) {
			facts = append(facts, ctx.facts...)
		}
		sectKnown, ratKnown := false, false
		for _, fc := range facts {
			onSect := true
			for _, raw := range []int64{-1, 0, 1, 2, 3} {
				got, ok := evalWith(fc.fr, fc.cond, sectLeaf(fn, raw))
				bv, isB := got.(bool)
				if !ok || !isB || (bv == fc.truth) != (raw != 1) {
					onSect = false
				}
			}
			if onSect {
				sectKnown = true
			}
			if bo, ok := fc.cond.(*ssa.BinOp); ok && ((bo.Op == token.EQL && fc.truth) || (bo.Op == token.NEQ && !fc.truth)) {
				for _, pr := range [][2]ssa.Value{{bo.X, bo.Y}, {bo.Y, bo.X}} {
					if z, ok := constInt(pr[0]); ok && z == 0 && dependsOnTopParam(fc.fr, pr[1], fn, 3, 0) {
						ratKnown = true
					}
				}
			}
		}
		r.check(sectKnown && ratKnown, rule, "the rat slot is searched at hours {0, 23} only under the late-rat school", c.pos(site.pos),
			fmt.Sprintf("a condition equivalent to sect != 1 is known where the hour 23 is added: %v; the computed hour == 0 is known: %v", sectKnown, ratKnown))
	}
	if m == 0 {
		r.bad(rule, "the rat slot is searched at hours {0, 23} only under the late-rat school", c.fnPos(fn), "nowhere is the hour 23 added as a second candidate (a list {0, 23}, or a second call of the verifying helper)")
	}
}

func r10_3(c *Ctx, r *Report) {
	const rule = "R10.3"
	r.rule(rule, "Order shape. Results are only appended (PushBack, never PushFront/Insert/Move), inside loops whose candidates increase: the candidate year (the loop variable that reaches the year-table constructor) advances by exactly +60 on every iteration and the hour list of the rat slot is the ascending {0, 23} within one civil day.")
	fn := reverseLookup(c, r, rule)
	if fn == nil {
		return
	}
	// in the function and the unexported helpers it hands its work to (what the exported constructors it calls do
	// with lists of their own is not its result)
	onlyBack := true
	for _, f := range withHelpers(c, fn) {
		for _, b := range f.Blocks {
			for _, ins := range b.Instrs {
				if call, ok := ins.(*ssa.Call); ok && call.Common().StaticCallee() != nil {
					k := call.Common().StaticCallee().String()
					if strings.HasPrefix(k, "(*container/list.List).") && (strings.Contains(k, "PushFront") || strings.Contains(k, "Insert") || strings.Contains(k, "Move")) {
						onlyBack = false
					}
				}
			}
		}
	}
	stride, asc := false, false
	var steps []string
	for _, f := range withHelpers(c, fn) {
		for _, b := range f.Blocks {
			for _, ins := range b.Instrs {
				switch x := ins.(type) {
				case *ssa.Phi:
					if !isIntType(x.Type()) {
						continue
					}
					// a loop variable: some edge is the variable plus a constant
					var incs []int64
					for _, e := range x.Edges {
						if bo, ok := e.(*ssa.BinOp); ok && (bo.Op == token.ADD || bo.Op == token.SUB) {
							if k, isK := constInt(bo.Y); isK && bo.X == ssa.Value(x) {
								if bo.Op == token.SUB {
									k = -k
								}
								incs = append(incs, k)
							} else if k, isK := constInt(bo.X); isK && bo.Y == ssa.Value(x) && bo.Op == token.ADD {
								incs = append(incs, k)
							}
						}
					}
					if len(incs) == 0 {
						continue
					}
					// does it reach the year argument of a lunar constructor?
					reaches := false
					for _, ref := range *x.Referrers() {
						if call, ok := ref.(*ssa.Call); ok && call.Common().StaticCallee() != nil && len(call.Common().Args) > 0 && call.Common().Args[0] == ssa.Value(x) {
							switch call.Common().StaticCallee().Name() {
							case "NewLunarFromYmd", "NewLunarYear", "NewLunar", "NewLunarYearFromYear":
								reaches = true
							}
						}
					}
					if !reaches {
						continue
					}
					all60 := true
					for _, k := range incs {
						steps = append(steps, fmt.Sprint(k))
						if k != 60 {
							all60 = false
						}
					}
					if all60 {
						stride = true
					} else {
						stride = false
						steps = append(steps, "(not 60)")
					}
				}
			}
		}
	}
	sites23 := lateRatSites(c, fn)
	asc = len(sites23) > 0
	for _, site := range sites23 {
		if !site.asc {
			asc = false
		}
	}
	r.check(onlyBack && stride && asc, rule, "results are appended in increasing candidate order", c.fnPos(fn), fmt.Sprintf("append-only: %v; candidate year steps %v, all +60: %v; rat-slot hours ascending {0,23}: %v", onlyBack, steps, stride, asc))
}

// enclosingLoopBody: the innermost loop containing block t: returns the block the walk of one
// iteration starts at (the header's successor that dominates t) and the header.
func enclosingLoopBody(t *ssa.BasicBlock) (start, header *ssa.BasicBlock) {
	reach := func(from, to *ssa.BasicBlock) bool {
		seen := map[*ssa.BasicBlock]bool{}
		var dfs func(b *ssa.BasicBlock) bool
		dfs = func(b *ssa.BasicBlock) bool {
			if b == to {
				return true
			}
			if seen[b] {
				return false
			}
			seen[b] = true
			for _, s := range b.Succs {
				if dfs(s) {
					return true
				}
			}
			return false
		}
		for _, s := range from.Succs {
			if dfs(s) {
				return true
			}
		}
		return false
	}
	for h := t; h != nil; h = h.Idom() {
		back := false
		for _, p := range h.Preds {
			if h.Dominates(p) {
				back = true
			}
		}
		if !back || !reach(t, h) {
			continue
		}
		if h == t {
			return nil, h
		}
		for _, s := range h.Succs {
			if s == t || s.Dominates(t) {
				return s, h
			}
		}
		return nil, h
	}
	return nil, nil
}

type absMomentStep struct{ k int64 }

func r10_5(c *Ctx, r *Report) {
	const rule = "R10.5"
	r.rule(rule, "Candidate construction, by evaluation over the indices a (requested day pillar) and b (the civil-day, late-rat GetDayInGanZhiExact2 pillar of the Jie moment's own day) in 0..59 and over the candidate hour and the Jie moment's hour: the verified candidate is NewSolar(year, month, day of the Jie moment moved by (a-b) mod 60 whole civil days (Next(d, false) or NextDay(d)), candidate hour, minute, second) where minute and second are those of the Jie moment when the offset is 0 and the candidate hour is the Jie moment's hour, and 0 otherwise; the reference pillar is the same for both schools (a school-dependent reference shifts every candidate of a month whose Jie falls in 23:00-23:59 by one day). This is a necessary condition of completeness, which is otherwise not decided.")
	fn := reverseLookup(c, r, rule)
	if fn == nil || len(fn.Params) != 6 {
		return
	}
	n := 0
	for _, ps := range reversePushSites(c, fn) {
		// once per way control reaches the verification (a helper or function literal called once per candidate hour)
		for _, ctx := range factsRooted(c, fn, ps.fn, ps.call.Block()) {
			fr0 := ctx.fr
			cfr, cv := fr0.origin(unwrapIface(ps.call.Common().Args[1]))
			// a candidate built by an unexported helper (one return): the constructor call is looked for there
			for depth := 0; depth < 3; depth++ {
				hc, isCall := cv.(*ssa.Call)
				if !isCall || hc.Common().StaticCallee() == nil || !isLocalHelper(hc.Common().StaticCallee()) || hc.Common().StaticCallee().Blocks == nil {
					break
				}
				rets := returnsIn(hc.Common().StaticCallee(), nil)
				if len(rets) != 1 || len(rets[0].Results) != 1 {
					break
				}
				hfr := &evalFrame{fn: hc.Common().StaticCallee(), parent: cfr, call: hc}
				cfr, cv = hfr.origin(rets[0].Results[0])
			}
			ctor, ok := cv.(*ssa.Call)
			if !ok || ctor.Common().StaticCallee() == nil || ctor.Common().StaticCallee().Name() != "NewSolar" || len(ctor.Common().Args) != 6 {
				r.bad(rule, "the candidate is built by NewSolar", c.pos(ps.call.Pos()), "the pushed moment is not the result of a NewSolar call")
				continue
			}
			n++
			problems := map[string]bool{}
			var bad []string
			cases := 0
			type hc struct{ h, th int64 }
			for _, hh := range []hc{{5, 5}, {5, 7}, {0, 23}} {
				for a := int64(0); a < 60 && len(bad) < 4 && len(problems) == 0; a++ {
					for b := int64(0); b < 60 && len(bad) < 4 && len(problems) == 0; b++ {
						var leaf leafX
						stepOf := func(fr *evalFrame, v ssa.Value) (absMomentStep, bool) {
							o, ok := evalWith(fr, v, leaf)
							s, isS := o.(absMomentStep)
							return s, ok && isS
						}
						leaf = func(fr *evalFrame, v ssa.Value) (interface{}, bool) {
							if rc, f, ok := getterField(c, v); ok && strings.HasPrefix(f, "Solar.") {
								if s, ok := stepOf(fr, rc); ok {
									switch f {
									case "Solar.year":
										return int64(9000), true
									case "Solar.month":
										return int64(9), true
									case "Solar.day":
										return s.k, true
									case "Solar.hour":
										return hh.th, true
									case "Solar.minute":
										return int64(77), true
									case "Solar.second":
										return int64(88), true
									}
								}
							}
							switch x := v.(type) {
							case *ssa.Parameter:
								// the candidate hour handed to a helper or function literal that verifies one hour: the hour computed
								// from the hour pillar is the input; a constant (23) is left to be read as it is
								if fr.parent != nil && isIntType(x.Type()) {
									if ofr, ov := fr.origin(x); ofr != fr {
										if _, isK := ov.(*ssa.Const); !isK && dependsOnTopParam(ofr, ov, fn, 3, 0) {
											return hh.h, true
										}
									}
								}
							case *ssa.BinOp:
								// the hour computed from the hour pillar (slot index * 2), wherever it is consulted directly
								if x.Op == token.MUL && fr.fn == fn && isIntType(x.Type()) && dependsOnTopParam(fr, x, fn, 3, 0) {
									return hh.h, true
								}
							case *ssa.Lookup:
								if mt, isM := x.X.Type().Underlying().(*types.Map); isM && structName(mt.Elem()) == "Solar" {
									return absMomentStep{0}, true
								}
							case *ssa.Extract:
								if lk, isL := x.Tuple.(*ssa.Lookup); isL && lk.CommaOk {
									if mt, isM := lk.X.Type().Underlying().(*types.Map); isM && structName(mt.Elem()) == "Solar" {
										if x.Index == 1 {
											return true, true
										}
										return absMomentStep{0}, true
									}
								}
							case *ssa.UnOp:
								if ia, ok := x.X.(*ssa.IndexAddr); ok && x.Op == token.MUL && isIntType(x.Type()) {
									if _, isSlice := ia.X.Type().Underlying().(*types.Slice); isSlice {
										if ld, isLd := ia.X.(*ssa.UnOp); !isLd || !isGlobalLoad(ld) {
											return hh.h, true // the candidate hour taken from the hour list
										}
									}
								}
							case *ssa.Call:
								callee := x.Common().StaticCallee()
								if callee == nil {
									return nil, false
								}
								args := x.Common().Args
								switch {
								case callee.Name() == "GetJiaZiIndex" && len(args) == 1:
									if topParam(fr, args[0], fn) == 2 {
										return a, true
									}
									if names, _, solar, ok := pillarAccessorFr(fr, args[0], 0); ok {
										if s, ok := stepOf(fr, solar); !ok || s.k != 0 {
											problems["the reference pillar is not taken at the Jie moment"] = true
											return nil, false
										}
										if len(names) != 1 || names[0] != "GetDayInGanZhiExact2" {
											problems["the reference pillar is "+strings.Join(names, "|")+", not the civil-day GetDayInGanZhiExact2"] = true
											return nil, false
										}
										return b, true
									}
									return nil, false
								case recvIsNamed(callee, "Solar") && (callee.Name() == "Next" || callee.Name() == "NextDay"):
									s, ok := stepOf(fr, args[0])
									d, ok2 := evalWith(fr, args[1], leaf)
									dk, isI := d.(int64)
									if !ok || !ok2 || !isI {
										return nil, false
									}
									if callee.Name() == "Next" {
										if w, ok := evalWith(fr, args[2], leaf); !ok || w != interface{}(false) {
											problems["the offset is applied in working days"] = true
											return nil, false
										}
									}
									return absMomentStep{s.k + dk}, true
								}
							}
							return nil, false
						}
						// walk one iteration of the innermost loop around the constructor (or the helper from its entry)
						fr := &evalFrame{fn: cfr.fn, parent: cfr.parent, call: cfr.call, phiFrom: map[*ssa.BasicBlock]*ssa.BasicBlock{}}
						ev := &evaluator{leaf: leaf, inline: inlineLibrary}
						target := ctor.Block()
						start, header := enclosingLoopBody(target)
						if header != nil && start == nil {
							problems["the loop around the constructor has an unexpected shape"] = true
							break
						}
						if header != nil {
							fr.phiFrom[start] = header
						}
						if start != target {
							if start == nil {
								start = cfr.fn.Blocks[0]
							}
							if start != target {
								_, outcome := ev.runFrame(fr, start, func(bb *ssa.BasicBlock) bool { return bb == target })
								if outcome != fmt.Sprintf("stop:%d", target.Index) {
									problems["the path to the constructor is not walkable: "+outcome+" "+ev.fail] = true
									break
								}
							}
						}
						cases++
						d := ((a-b)%60 + 60) % 60
						// the candidate hour: the input, or the constant this context hands to the verifier
						candHour := hh.h
						if _, ov := fr.origin(ctor.Common().Args[3]); ov != nil {
							if k, isK := constInt(ov); isK {
								candHour = k
							}
						}
						wantMi, wantS := int64(0), int64(0)
						if d == 0 && candHour == hh.th {
							wantMi, wantS = 77, 88
						}
						want := []int64{9000, 9, d, candHour, wantMi, wantS}
						var got []string
						same := true
						for i, arg := range ctor.Common().Args {
							o, ok := ev.eval(fr, arg, 0)
							got = append(got, fmt.Sprint(o))
							if !ok || o != interface{}(want[i]) {
								same = false
							}
						}
						if !same && len(problems) == 0 {
							bad = append(bad, fmt.Sprintf("a=%d b=%d candidate hour %d, Jie hour %d: NewSolar(%s) with 9000-9-<days moved>, Jie minute 77 and second 88; stated %v", a, b, candHour, hh.th, strings.Join(got, ", "), want))
						}
					}
				}
			}
			for p := range problems {
				bad = append(bad, p)
			}
			sort.Strings(bad)
			r.check(len(bad) == 0 && cases > 0, rule, "the candidate is the Jie moment moved by (a-b) mod 60 civil days, with the Jie minute and second only in the Jie's own hour", c.pos(ctor.Pos()),
				fmt.Sprintf("%d assignments; deviations: %v", cases, headList(dedupe(bad), 3)))
		}
	}
	if n == 0 {
		r.bad(rule, "instance floor R10.5", c.fnPos(fn), "no verified candidate found")
	}
}

func isGlobalLoad(ld *ssa.UnOp) bool {
	_, ok := ld.X.(*ssa.Global)
	return ld.Op == token.MUL && ok
}

// loopBlocks: the blocks of the natural loop with the given header (the header and every block that
// reaches a back edge without leaving through the header).
func loopBlocks(header *ssa.BasicBlock) map[*ssa.BasicBlock]bool {
	body := map[*ssa.BasicBlock]bool{header: true}
	var stack []*ssa.BasicBlock
	for _, p := range header.Preds {
		if header.Dominates(p) && !body[p] {
			body[p] = true
			stack = append(stack, p)
		}
	}
	for len(stack) > 0 {
		b := stack[len(stack)-1]
		stack = stack[:len(stack)-1]
		for _, p := range b.Preds {
			if !body[p] {
				body[p] = true
				stack = append(stack, p)
			}
		}
	}
	return body
}

func r10_6(c *Ctx, r *Report) {
	const rule = "R10.6"
	r.rule(rule, "Every candidate is tried. The loops around the verified candidate (over the candidate years, and over the candidate hours where they are a list; around the append itself or around the calls of the helper or function literal that verifies one candidate) are left only through their own loop test: no block of a loop body jumps out of the loop (a break or return on a failed verification would skip the remaining candidate hours of that day — the late-rat 23:00 after a failed 00:00 — or the remaining years). A necessary condition of completeness, which is otherwise not decided.")
	fn := reverseLookup(c, r, rule)
	if fn == nil {
		return
	}
	n := 0
	// the loops around the append, and around every call of the helper or function literal it stands in
	type point struct {
		fn *ssa.Function
		b  *ssa.BasicBlock
	}
	var points []point
	seenPt := map[*ssa.BasicBlock]bool{}
	var addPoint func(f *ssa.Function, b *ssa.BasicBlock, depth int)
	addPoint = func(f *ssa.Function, b *ssa.BasicBlock, depth int) {
		if seenPt[b] || depth > 3 {
			return
		}
		seenPt[b] = true
		points = append(points, point{f, b})
		if f != fn && isLocalHelper(f) {
			for _, site := range c.callSitesOf(f) {
				addPoint(site.Parent(), site.Block(), depth+1)
			}
		}
	}
	for _, ps := range reversePushSites(c, fn) {
		addPoint(ps.fn, ps.call.Block(), 0)
	}
	seenLoop := map[*ssa.BasicBlock]bool{}
	for _, pt := range points {
		ps := struct {
			fn   *ssa.Function
			call *ssa.BasicBlock
		}{pt.fn, pt.b}
		for h := pt.b; h != nil; h = h.Idom() {
			back := false
			for _, p := range h.Preds {
				if h.Dominates(p) {
					back = true
				}
			}
			if !back || seenLoop[h] {
				continue
			}
			body := loopBlocks(h)
			if !body[ps.call] {
				continue
			}
			seenLoop[h] = true
			n++
			var exits []string
			for b := range body {
				if b == h {
					continue
				}
				for _, s := range b.Succs {
					if !body[s] {
						exits = append(exits, fmt.Sprintf("block %d -> %d (%s)", b.Index, s.Index, c.pos(b.Instrs[len(b.Instrs)-1].Pos())))
					}
				}
			}
			sort.Strings(exits)
			r.check(len(exits) == 0, rule, fmt.Sprintf("%s: loop #%d around the append is left only by its own test", fname(ps.fn), n), c.pos(h.Instrs[len(h.Instrs)-1].Pos()), fmt.Sprintf("%d blocks; exits from inside the body: %v", len(body), exits))
		}
	}
	if n < 1 {
		r.bad(rule, "instance floor R10.6", c.fnPos(fn), fmt.Sprintf("only %d loops found around the append (the candidate years, and the candidate hours where they are a list)", n))
	}
}

// lateRatSite: where the hour 23 is introduced as a further candidate of the rat slot: stored as the second
// element of an hour list, or handed to a local helper or function literal that verifies one candidate hour.
type lateRatSite struct {
	fn    *ssa.Function
	block *ssa.BasicBlock
	pos   token.Pos
	asc   bool // the hour-0 candidate comes before it (element 0 of the list, or an earlier call of the same verifier)
}

func lateRatSites(c *Ctx, fn *ssa.Function) []lateRatSite {
	var out []lateRatSite
	for _, f := range withHelpers(c, fn) {
		for _, b := range f.Blocks {
			for _, ins := range b.Instrs {
				switch x := ins.(type) {
				case *ssa.Store:
					ia, ok := x.Addr.(*ssa.IndexAddr)
					k, isK := constInt(x.Val)
					if !ok || !isK || k != 23 {
						continue
					}
					if i, ok := constInt(ia.Index); !ok || i != 1 {
						continue
					}
					site := lateRatSite{fn: f, block: b, pos: x.Pos()}
					for _, ins2 := range b.Instrs {
						if st2, ok := ins2.(*ssa.Store); ok {
							if ia2, ok := st2.Addr.(*ssa.IndexAddr); ok && ia2.X == ia.X {
								i2, ok1 := constInt(ia2.Index)
								k2, ok2 := constInt(st2.Val)
								if ok1 && ok2 && i2 == 0 && k2 == 0 {
									site.asc = true
								}
							}
						}
					}
					out = append(out, site)
				case *ssa.Call:
					callee := x.Common().StaticCallee()
					if callee == nil || !isLocalHelper(callee) || !inlineLibrary(callee) {
						continue
					}
					for ai, a := range x.Common().Args {
						if k, isK := constInt(a); !isK || k != 23 || !isIntType(a.Type()) {
							continue
						}
						site := lateRatSite{fn: f, block: b, pos: x.Pos()}
						// an earlier call of the same verifier with another hour
						for _, b2 := range f.Blocks {
							for _, ins2 := range b2.Instrs {
								c2, ok := ins2.(*ssa.Call)
								if !ok || c2 == x || c2.Common().StaticCallee() != callee || ai >= len(c2.Common().Args) {
									continue
								}
								if _, same := constInt(c2.Common().Args[ai]); same {
									if k2, _ := constInt(c2.Common().Args[ai]); k2 != 0 {
										continue
									}
								}
								if (b2 == b && instrIndex(b, c2) < instrIndex(b, x)) || (b2 != b && b2.Dominates(b)) {
									site.asc = true
								}
							}
						}
						out = append(out, site)
					}
				}
			}
		}
	}
	return out
}

// R10.7: the chart shows the day pillar the reverse lookup verifies.
func r10_7(c *Ctx, r *Report) {
	const rule = "R10.7"
	r.rule(rule, "The chart shows the day pillar the reverse lookup verifies. The pillars handed to the reverse lookup are those an EightChar shows; the lookup verifies a candidate's day against GetDayInGanZhiExact under sect 1 and GetDayInGanZhiExact2 otherwise (R10.2). EightChar.GetDay, GetDayGan + GetDayZhi, and the stem and branch at GetDayGanIndex / GetDayZhiIndex, followed by the evaluator (helpers inline) with the three variants of the Lunar's day pillar as distinguishable inputs, are the early-rat variant when the chart's sect is 1 and the late-rat variant otherwise — stem and branch both. A chart whose stem follows one variant and whose branch the other shows, at 23:00-23:59, a pair that is not one of the sixty pillars, for which the lookup returns nothing.")
	v := c.vocab(r, rule)
	if v == nil {
		return
	}
	pos := func(xs []string, s string) int {
		for i, x := range xs {
			if x == s {
				return i
			}
		}
		return -1
	}
	type probe struct {
		name string
		// what the result says about (stem index, branch index); -1 when it says nothing about that half
		read func(res interface{}) (int, int, bool)
	}
	probes := []probe{
		{"calendar.(*EightChar).GetDay", func(res interface{}) (int, int, bool) {
			s, ok := res.(string)
			rs := []rune(s)
			if !ok || len(rs) != 2 {
				return 0, 0, false
			}
			return pos(v.stems, string(rs[0])), pos(v.branches, string(rs[1])), true
		}},
		{"calendar.(*EightChar).GetDayGan", func(res interface{}) (int, int, bool) {
			s, ok := res.(string)
			return pos(v.stems, s), -1, ok
		}},
		{"calendar.(*EightChar).GetDayZhi", func(res interface{}) (int, int, bool) {
			s, ok := res.(string)
			return -1, pos(v.branches, s), ok
		}},
		{"calendar.(*EightChar).GetDayGanIndex", func(res interface{}) (int, int, bool) {
			k, ok := res.(int64)
			return int(k), -1, ok
		}},
		{"calendar.(*EightChar).GetDayZhiIndex", func(res interface{}) (int, int, bool) {
			k, ok := res.(int64)
			return -1, int(k), ok
		}},
	}
	for _, p := range probes {
		fn := c.Fn(r, rule, p.name)
		if fn == nil || len(fn.Params) != 1 {
			continue
		}
		var bad []string
		// the sect field holds 1 or 2 only: SetSect stores 2 for every other argument and a new chart starts with 2 (R11.2)
		for _, sect := range []int64{1, 2} {
			in := dayVariants{e: 1, e2: 2, p: 4}
			res, ok := eightCharRun(c, fn, sect, in)
			if !ok {
				bad = append(bad, fmt.Sprintf("sect %d: the method could not be followed", sect))
				continue
			}
			g, z, ok := p.read(res)
			want := in.e2
			if sect == 1 {
				want = in.e
			}
			// the inputs are the pillars number e, e2, p of the cycle: stem and branch index equal the number
			if !ok || (g >= 0 && g != want) || (z >= 0 && z != want) || (g < 0 && z < 0) {
				bad = append(bad, fmt.Sprintf("sect %d: %v (early-rat pillar %s, late-rat %s, plain %s), expected the %s", sect, res, dayVariantStrs[in.e], dayVariantStrs[in.e2], dayVariantStrs[in.p], dayVariantStrs[want]))
			}
		}
		r.check(len(bad) == 0, rule, p.name+" is the day pillar of the chart's sect", c.fnPos(fn), fmt.Sprintf("sect 1 and 2 followed; deviations: %v", headList(bad, 3)))
	}
	r.floor(rule, 5)
}
