package main

// R04.2 — where the October-1582 gap is handled, found by what is known at a block (E13 facts)
// rather than by the shape of the guard, and followed through the helpers a stepping function
// hands its work to.

import (
	"fmt"
	"go/token"
	"strings"

	"golang.org/x/tools/go/ssa"
)

// gapSite: a region of code that runs only when some x == 1582 and some y == 10.
type gapSite struct {
	fr          *evalFrame
	entry       *ssa.BasicBlock // first block of the region
	guard       *ssa.BasicBlock // the block of fr.fn whose branch starts the test
	year, month fact
}

func gapSitesIn(c *Ctx, fr *evalFrame) []gapSite {
	has := map[*ssa.BasicBlock]*gapSite{}
	for _, b := range fr.fn.Blocks {
		var y, m *fact
		fs := expandFacts(c, domFacts(fr, b), 0)
		for i := range fs {
			f := &fs[i]
			if !f.truth {
				continue
			}
			if _, ok := isEqConst(f.cond, 1582); ok && y == nil {
				y = f
			}
			if _, ok := isEqConst(f.cond, 10); ok && m == nil {
				m = f
			}
		}
		if y != nil && m != nil && y.at != nil {
			g := y.at
			if m.at != nil && m.at != g && m.at.Dominates(g) {
				g = m.at
			}
			has[b] = &gapSite{fr: fr, entry: b, guard: g, year: *y, month: *m}
		}
	}
	var out []gapSite
	for _, b := range fr.fn.Blocks {
		if s := has[b]; s != nil && (b.Idom() == nil || has[b.Idom()] == nil) {
			out = append(out, *s)
		}
	}
	return out
}

// mentions1582: the functions that compare something with 1582, and their direct callers (the test
// may sit in a boolean helper).
func mentions1582(c *Ctx) map[*ssa.Function]bool {
	direct := map[*ssa.Function]bool{}
	for _, fn := range c.Funcs {
		for _, b := range fn.Blocks {
			for _, ins := range b.Instrs {
				if bo, ok := ins.(*ssa.BinOp); ok {
					if _, is := isEqConst(bo, 1582); is {
						direct[fn] = true
					}
				}
			}
		}
	}
	out := map[*ssa.Function]bool{}
	for _, fn := range c.Funcs {
		if direct[fn] {
			out[fn] = true
			continue
		}
		for _, b := range fn.Blocks {
			for _, ins := range b.Instrs {
				if call, ok := ins.(*ssa.Call); ok && call.Common().StaticCallee() != nil && direct[call.Common().StaticCallee()] {
					out[fn] = true
				}
			}
		}
	}
	return out
}

// helperTree: fn and the library helpers it hands work to (functions in stop are decided on their
// own and not entered), each with the frame it is reached in.
func helperTree(c *Ctx, root *ssa.Function, stop map[string]bool) []*evalFrame {
	var out []*evalFrame
	var walk func(fr *evalFrame, depth int)
	walk = func(fr *evalFrame, depth int) {
		out = append(out, fr)
		if depth >= 3 {
			return
		}
		for _, b := range fr.fn.Blocks {
			for _, ins := range b.Instrs {
				call, ok := ins.(*ssa.Call)
				if !ok {
					continue
				}
				callee := call.Common().StaticCallee()
				if callee == nil || !inlineLibrary(callee) || stop[fname(callee)] {
					continue
				}
				rec := false
				for p := fr; p != nil; p = p.parent {
					if p.fn == callee {
						rec = true
					}
				}
				if !rec {
					walk(&evalFrame{fn: callee, parent: fr, call: call}, depth+1)
				}
			}
		}
	}
	walk(&evalFrame{fn: root}, 0)
	return out
}

// liftTo: the block of an ancestor frame in which the site's test happens.
func (s gapSite) liftTo(a *evalFrame) *ssa.BasicBlock {
	b := s.guard
	for fr := s.fr; fr != a; fr = fr.parent {
		if fr == nil || fr.call == nil {
			return nil
		}
		b = fr.call.Block()
	}
	return b
}

// reachAvoiding: the blocks reachable from start (start included) without entering avoid.
func reachAvoiding(start *ssa.BasicBlock, avoid ...*ssa.BasicBlock) map[*ssa.BasicBlock]bool {
	no := map[*ssa.BasicBlock]bool{}
	for _, a := range avoid {
		no[a] = true
	}
	seen := map[*ssa.BasicBlock]bool{}
	if no[start] {
		return seen
	}
	stack := []*ssa.BasicBlock{start}
	seen[start] = true
	for len(stack) > 0 {
		b := stack[len(stack)-1]
		stack = stack[:len(stack)-1]
		for _, s := range b.Succs {
			if !no[s] && !seen[s] {
				seen[s] = true
				stack = append(stack, s)
			}
		}
	}
	return seen
}

func returnsIn(fn *ssa.Function, in map[*ssa.BasicBlock]bool) []*ssa.Return {
	var out []*ssa.Return
	for _, b := range fn.Blocks {
		if in != nil && !in[b] {
			continue
		}
		if ret, ok := b.Instrs[len(b.Instrs)-1].(*ssa.Return); ok {
			out = append(out, ret)
		}
	}
	return out
}

// unchangedInput: v is handed on as it came in (a parameter, a field of a parameter, or a
// constructor call over such values).
func unchangedInput(c *Ctx, v ssa.Value, depth int) bool {
	switch x := v.(type) {
	case *ssa.Parameter:
		return true
	case *ssa.Call:
		if rc, _, ok := getterField(c, x); ok {
			_, isP := rc.(*ssa.Parameter)
			return isP
		}
		if depth > 0 || x.Common().StaticCallee() == nil {
			return false
		}
		for _, a := range x.Common().Args {
			if !unchangedInput(c, a, depth+1) {
				return false
			}
		}
		return true
	case *ssa.UnOp:
		if rc, _, ok := getterField(c, x); ok {
			_, isP := rc.(*ssa.Parameter)
			return isP
		}
	}
	return false
}

// nextDayGapDates: which date each of NextDay's two tests looks at, and that the two are passed as
// a pair.
func nextDayGapDates(c *Ctx, r *Report, rule string, root *ssa.Function, frames []*evalFrame, sites []gapSite, stop map[string]bool) {
	name := fname(root)
	var ctor *ssa.Call
	var ctorFr *evalFrame
	for _, fr := range frames {
		for _, b := range fr.fn.Blocks {
			for _, ins := range b.Instrs {
				if call, ok := ins.(*ssa.Call); ok && call.Common().StaticCallee() != nil && fname(call.Common().StaticCallee()) == "calendar.NewSolar" && len(call.Common().Args) == 6 {
					ctor, ctorFr = call, fr
				}
			}
		}
	}
	// the value the constructor is given, followed into the worker that returned it
	source := func(fr *evalFrame, v ssa.Value, s gapSite) (*evalFrame, ssa.Value) {
		for depth := 0; depth < 6; depth++ {
			fr, v = fr.origin(v)
			if _, _, isG := getterField(c, v); isG {
				return fr, v
			}
			var call *ssa.Call
			idx := 0
			switch x := v.(type) {
			case *ssa.Extract:
				call, _ = x.Tuple.(*ssa.Call)
				idx = x.Index
			case *ssa.Call:
				call = x
			}
			if call == nil {
				return fr, v
			}
			callee := call.Common().StaticCallee()
			if callee == nil || !inlineLibrary(callee) || stop[fname(callee)] {
				return fr, v
			}
			// the returns that can follow the site's test (all of them when the site is elsewhere)
			var from *ssa.BasicBlock
			for p := s.fr; p != nil; p = p.parent {
				if p.fn == callee && p.call == call {
					from = s.liftTo(p)
				}
			}
			var in map[*ssa.BasicBlock]bool
			if from != nil {
				in = reachAvoiding(from)
			}
			var rv ssa.Value
			for _, ret := range returnsIn(callee, in) {
				if idx >= len(ret.Results) || (rv != nil && ret.Results[idx] != rv) {
					return fr, v
				}
				rv = ret.Results[idx]
			}
			if rv == nil {
				return fr, v
			}
			fr, v = &evalFrame{fn: callee, parent: fr, call: call}, rv
		}
		return fr, v
	}
	isRecv := func(fr *evalFrame, v ssa.Value, field string) bool {
		rc, f, ok := getterField(c, v)
		if !ok || f != field {
			return false
		}
		rfr, rv := fr.origin(rc)
		return rfr.parent == nil && len(root.Params) > 0 && rv == ssa.Value(root.Params[0])
	}
	who := func(f fact, k int64, field string, arg int, s gapSite) string {
		v, _ := isEqConst(f.cond, k)
		ofr, ov := f.fr.origin(v)
		var sfr *evalFrame
		var sv ssa.Value
		if ctor != nil {
			sfr, sv = source(ctorFr, ctor.Common().Args[arg], s)
		}
		if isRecv(ofr, ov, field) {
			if sv != nil && isRecv(sfr, sv, field) {
				return "both" // the result is built with the receiver's own value (no stepping of this component)
			}
			return "receiver"
		}
		if sv != nil && sv == ov {
			return "result"
		}
		return "other: " + ov.String()
	}
	var desc []string
	okk := ctor != nil
	for i, s := range sites {
		wy, wm := who(s.year, 1582, "Solar.year", 0, s), who(s.month, 10, "Solar.month", 1, s)
		desc = append(desc, fmt.Sprintf("test %d looks at the year of the %s and the month of the %s", i+1, wy, wm))
		as, _ := analyseGapRegion(s)
		want := "receiver"
		if strings.Contains(gapTableString(as), "+10") {
			want = "result"
		}
		if (wy != want && wy != "both") || (wm != want && wm != "both") {
			okk = false
		}
	}
	r.check(okk, rule, name+": the removal looks at the receiver's date, the re-insertion at the stepped date", c.fnPos(root), strings.Join(desc, "; "))

	// the two tests are passed as a pair: in the function both belong to, no path reaches the
	// re-insertion test without the removal test or returns after the removal test without the
	// re-insertion test; a path that passes neither hands its input on unchanged
	s1, s2 := sites[0], sites[1]
	var a *evalFrame
	for p := s1.fr; p != nil && a == nil; p = p.parent {
		for q := s2.fr; q != nil; q = q.parent {
			if p == q {
				a = p
				break
			}
		}
	}
	if a == nil {
		r.bad(rule, name+": the two October-1582 tests are passed as a pair", c.fnPos(root), "the tests have no common enclosing function (undecided = fail)")
		return
	}
	b1, b2 := s1.liftTo(a), s2.liftTo(a)
	var bad []string
	var avoid []*ssa.BasicBlock
	if b1 == b2 {
		// both inside helpers called from one block: the calls are in order and nothing returns in between
		i1, i2 := -1, -1
		for i, ins := range b1.Instrs {
			if s1.fr != a && ins == ssa.Instruction(frameBelow(s1.fr, a).call) {
				i1 = i
			}
			if s2.fr != a && ins == ssa.Instruction(frameBelow(s2.fr, a).call) {
				i2 = i
			}
		}
		if i1 < 0 || i2 < 0 || i1 >= i2 {
			bad = append(bad, "the removal does not come before the re-insertion")
		}
		avoid = []*ssa.BasicBlock{b1}
	} else {
		if reachAvoiding(a.fn.Blocks[0], b1)[b2] {
			bad = append(bad, "the re-insertion test can be reached without passing the removal test")
		}
		for _, ret := range returnsIn(a.fn, reachAvoiding(b1, b2)) {
			bad = append(bad, fmt.Sprintf("the return at %s follows the removal test without passing the re-insertion test", c.pos(ret.Pos())))
		}
		if reachAvoiding(b2)[b1] {
			bad = append(bad, "the removal test can be reached again after the re-insertion test")
		}
		avoid = []*ssa.BasicBlock{b1, b2}
	}
	n := 0
	for fr := a; fr != nil; fr = fr.parent {
		for _, ret := range returnsIn(fr.fn, reachAvoiding(fr.fn.Blocks[0], avoid...)) {
			n++
			for _, res := range ret.Results {
				if !unchangedInput(c, res, 0) {
					bad = append(bad, fmt.Sprintf("the return at %s passes neither test and does not hand its input on unchanged", c.pos(ret.Pos())))
					break
				}
			}
		}
		if fr.call != nil {
			avoid = []*ssa.BasicBlock{fr.call.Block()}
		}
	}
	r.check(len(bad) == 0, rule, name+": the two October-1582 tests are passed as a pair", c.fnPos(root),
		fmt.Sprintf("in %s: removal test first, re-insertion test after it on every path to a return; %d returns pass neither and hand their input on unchanged; %s", fname(a.fn), n, strings.Join(bad, "; ")))
}

// frameBelow: the frame on fr's chain whose parent is a.
func frameBelow(fr, a *evalFrame) *evalFrame {
	for fr != nil && fr.parent != a {
		fr = fr.parent
	}
	return fr
}

// tenVia: v is the constant 10 (possibly an argument of the helper the region sits in); neg when -10.
func tenVia(fr *evalFrame, v ssa.Value) (is, neg bool) {
	_, ov := fr.origin(v)
	if k, ok := constInt(ov); ok {
		return k == 10 || k == -10, k == -10
	}
	return false, false
}

func gapAddAction(fr *evalFrame, x *ssa.BinOp) string {
	if x.Op != token.ADD && x.Op != token.SUB {
		return ""
	}
	is, neg := tenVia(fr, x.Y)
	if !is && x.Op == token.ADD {
		is, neg = tenVia(fr, x.X)
	}
	if !is {
		return ""
	}
	if (x.Op == token.ADD) != neg {
		return "+10"
	}
	return "-10"
}
