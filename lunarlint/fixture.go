package main

// Positive controls: rules whose expected violation count on the real tree is
// zero also analyse a tiny fixture module (testdata/fixture) that contains one
// violation each; the fixture must be flagged on every run, otherwise the rule
// itself is reported as broken.

import (
	"os"
	"path/filepath"
	"sync"
)

var (
	fixOnce sync.Once
	fixCtx  *Ctx
	fixErr  error
)

func fixtureDir() string {
	if d := os.Getenv("LUNARLINT_FIXTURE"); d != "" {
		return d
	}
	exe, err := os.Executable()
	if err == nil {
		// bin/lunarlint lives in /verif/bin, the fixture in /verif/lunarlint/testdata/fixture
		d := filepath.Join(filepath.Dir(filepath.Dir(exe)), "lunarlint", "testdata", "fixture")
		if _, err := os.Stat(d); err == nil {
			return d
		}
	}
	return "/verif/lunarlint/testdata/fixture"
}

func fixture() (*Ctx, error) {
	fixOnce.Do(func() {
		fixCtx, fixErr = loadWith(fixtureDir(), "quick", "", false, 1)
	})
	return fixCtx, fixErr
}

// control requires that hit(fixture) is true; otherwise the rule is broken.
func control(r *Report, rule, what string, hit func(fc *Ctx) bool) {
	fc, err := fixture()
	if err != nil {
		r.bad(rule, "positive control: "+what, "-", "fixture cannot be loaded: "+err.Error())
		return
	}
	if hit(fc) {
		r.ok(rule, "positive control: "+what, "lunarlint/testdata/fixture/fx/fx.go", "the seeded violation in the fixture is detected by this rule's matcher")
	} else {
		r.bad(rule, "positive control: "+what, "lunarlint/testdata/fixture/fx/fx.go", "the rule's matcher did not flag the seeded violation in the fixture: the rule is broken and its silence on the real tree means nothing")
	}
}
