package main

// C13 — the seasonal counters read as decision tables over a day algebra.
//
// The evaluator (E12) walks GetShuJiu, GetFu, GetOtherFestivals and GetHou with abstract
// leaves: a *Solar is a day number (with a flag saying whether it still carries its time of
// day), the term table maps the consulted term names to chosen day numbers, the day stem of
// day k is (g + k) mod 10, NextDay/Subtract/IsBefore/IsAfter/ToYmd are the day algebra on
// those numbers and NewFu/NewShuJiu build records. Branches are followed as the code's own
// conditions decide; no library code runs. The outcome for every assignment is compared with
// the rule's statement of the counter.

import (
	"fmt"
	"go/types"
	"sort"
	"strings"

	"golang.org/x/tools/go/ssa"
)

type absDay struct {
	k     int64
	timed bool
}

type absLunarOf struct{ k int64 }

type absRec struct {
	ctor string
	name string
	idx  int64
}

type absTerm struct {
	name string
	k    int64
}

type dayEnv struct {
	now      int64
	terms    map[string]int64
	stem     int64    // stem index of day 0
	prevTerm *absTerm // what GetPrevJieQiByWholeDay(true) answers
	lunarMD  [2]int64 // lunar month and day (for table keys)
	problems map[string]bool
	// integer fields by canonical name, whatever object they are read from (one date is in play)
	fields map[string]int64
	// pillar strings: the accessor name gives the variant, gz its sexagenary index; the day pillar of day k is (jiazi + k) mod 60
	gz    map[string]int64
	jiazi int64
	// extra is consulted first (rule-specific leaves); it receives the complete leaf for nested evaluation
	extra func(fr *evalFrame, v ssa.Value, leaf leafX) (interface{}, bool)
}

// absGZ is a pillar string known only by the accessor that produced it (or the day it is the pillar of).
type absGZ struct {
	variant string
	day     int64
}

func floorMod10(x int64) int64 { return ((x % 10) + 10) % 10 }

func recvIsNamed(callee *ssa.Function, name string) bool {
	if callee == nil || callee.Signature.Recv() == nil {
		return false
	}
	return structName(callee.Signature.Recv().Type()) == name
}

// dayLeaf is the leaf function of the day algebra for a method of *Lunar with receiver recv.
func dayLeaf(c *Ctx, recv ssa.Value, env *dayEnv) leafX {
	var leaf leafX
	dayOf := func(fr *evalFrame, v ssa.Value) (absDay, bool) {
		o, ok := evalWith(fr, v, leaf)
		d, isD := o.(absDay)
		return d, ok && isD
	}
	leaf = func(fr *evalFrame, v ssa.Value) (interface{}, bool) {
		if env.extra != nil {
			if o, ok := env.extra(fr, v, leaf); ok {
				return o, true
			}
		}
		if k, ok := v.(*ssa.Const); ok && k.Value == nil {
			if _, isPtr := k.Type().Underlying().(*types.Pointer); isPtr {
				return absPtr{"nil", true}, true
			}
		}
		// a local copy of a moment (d := *s) with its time of day reset: the same day, whole-day
		if al, ok := v.(*ssa.Alloc); ok && structName(al.Type()) == "Solar" && validSolarCopy(al) {
			zeroed := map[string]bool{}
			var src ssa.Value
			for _, ref := range *al.Referrers() {
				switch x := ref.(type) {
				case *ssa.Store:
					src = x.Val.(*ssa.UnOp).X
				case *ssa.FieldAddr:
					if x.Referrers() != nil {
						for _, r2 := range *x.Referrers() {
							if st, ok := r2.(*ssa.Store); ok {
								if k, isK := constInt(st.Val); isK && k == 0 {
									zeroed[fieldKeyOf(x)] = true
								}
							}
						}
					}
				}
			}
			if src != nil {
				if d, ok := dayOf(fr, src); ok {
					return absDay{d.k, d.timed && !(zeroed["Solar.hour"] && zeroed["Solar.minute"] && zeroed["Solar.second"])}, true
				}
			}
			return nil, false
		}
		if rc, f, ok := getterField(c, v); ok {
			if k, ok := env.fields[f]; ok {
				return k, true
			}
			if f == "Lunar.solar" && recv == nil {
				return absDay{env.now, true}, true
			}
			if ofr, o := fr.origin(rc); ofr.parent == nil && o == recv {
				switch f {
				case "Lunar.solar":
					return absDay{env.now, true}, true
				case "Lunar.month":
					return env.lunarMD[0], true
				case "Lunar.day":
					return env.lunarMD[1], true
				case "Lunar.dayGanIndex":
					// the date's own plain day stem: the stem of day 0 moved on by the day number
					return floorMod10(env.stem + env.now), true
				}
			}
			if strings.HasPrefix(f, "Solar.") {
				if d, ok := dayOf(fr, rc); ok {
					switch f {
					// the components of a moment are opaque: they can be compared like with like and handed to a
					// constructor together, not calculated with (a day number minus one is not the day before)
					case "Solar.year":
						return absOpaque{"year of a moment", 9000}, true
					case "Solar.month":
						return absOpaque{"month of a moment", 9}, true
					case "Solar.day":
						return absOpaque{"day of a moment", d.k}, true // the marker: the day number itself
					default:
						if d.timed {
							env.problems["the time of day of a moment is consulted ("+f+")"] = true
							return nil, false
						}
						return int64(0), true
					}
				}
			}
			if f == "Lunar.dayGanIndex" {
				if o, ok := evalWith(fr, rc, leaf); ok {
					if l, isL := o.(absLunarOf); isL {
						return floorMod10(env.stem + l.k), true
					}
				}
			}
			if strings.HasPrefix(f, "JieQi.") {
				if o, ok := evalWith(fr, rc, leaf); ok {
					if t, isT := o.(absTerm); isT {
						switch f {
						case "JieQi.name":
							return t.name, true
						case "JieQi.solar":
							return absDay{t.k, false}, true
						}
					}
				}
			}
		}
		termOf := func(lk *ssa.Lookup) (interface{}, bool) {
			mt, isM := lk.X.Type().Underlying().(*types.Map)
			if !isM || structName(mt.Elem()) != "Solar" {
				return nil, false
			}
			k, ok := evalWith(fr, lk.Index, leaf)
			ks, isS := k.(string)
			if !ok || !isS {
				return nil, false
			}
			d, known := env.terms[ks]
			if !known {
				env.problems["the term "+ks+" is consulted"] = true
				return nil, false
			}
			return absDay{d, true}, true
		}
		switch x := v.(type) {
		case *ssa.Lookup:
			if !x.CommaOk {
				return termOf(x)
			}
		case *ssa.Extract:
			if lk, isL := x.Tuple.(*ssa.Lookup); isL && lk.CommaOk {
				if d, ok := termOf(lk); ok {
					if x.Index == 1 {
						return true, true
					}
					return d, true
				}
			}
		case *ssa.Call:
			if b, isB := x.Common().Value.(*ssa.Builtin); isB && b.Name() == "len" {
				if ld, isLd := x.Common().Args[0].(*ssa.UnOp); isLd {
					if g, isG := ld.X.(*ssa.Global); isG {
						if tv := globalTVal(g); tv != nil && tv.Kind == "list" {
							return int64(len(tv.L)), true
						}
					}
				}
				return nil, false
			}
			callee := x.Common().StaticCallee()
			if callee == nil {
				return nil, false
			}
			args := x.Common().Args
			if callee.String() == "container/list.New" {
				return absPtr{"list", false}, true
			}
			if callee.Pkg == nil || !strings.HasPrefix(callee.Pkg.Pkg.Path(), c.ModPath) {
				return nil, false
			}
			intArg := func(i int) (int64, bool) {
				o, ok := evalWith(fr, args[i], leaf)
				k, isI := o.(int64)
				return k, ok && isI
			}
			strArg := func(i int) (string, bool) {
				o, ok := evalWith(fr, args[i], leaf)
				s, isS := o.(string)
				return s, ok && isS
			}
			if (recvIsNamed(callee, "Lunar") || recvIsNamed(callee, "LunarYear")) && len(args) == 1 {
				if _, ok := env.gz[callee.Name()]; ok {
					return absGZ{variant: callee.Name()}, true
				}
				if callee.Name() == "GetDayInGanZhi" {
					if o, ok := evalWith(fr, args[0], leaf); ok {
						if l, isL := o.(absLunarOf); isL {
							return absGZ{variant: "day", day: l.k}, true
						}
					}
				}
			}
			switch {
			case callee.Name() == "GetJiaZiIndex" && len(args) == 1 && env.gz != nil:
				if o, ok := evalWith(fr, args[0], leaf); ok {
					if g, isG := o.(absGZ); isG {
						if g.variant == "day" {
							return ((env.jiazi+g.day)%60 + 60) % 60, true
						}
						return env.gz[g.variant], true
					}
				}
				return nil, false
			case callee.Name() == "NewNineStar" && callee.Signature.Recv() == nil && len(args) == 1:
				if i, ok := intArg(0); ok {
					return absRec{"NewNineStar", "", i}, true
				}
				return nil, false
			case callee.Name() == "NewSolarFromYmd" && callee.Signature.Recv() == nil && len(args) == 3:
				mark := func(i int, kind string) (int64, bool) {
					o, ok := evalWith(fr, args[i], leaf)
					m, isM := o.(absOpaque)
					return m.k, ok && isM && m.kind == kind
				}
				y, ok1 := mark(0, "year of a moment")
				m, ok2 := mark(1, "month of a moment")
				d, ok3 := mark(2, "day of a moment")
				if ok1 && ok2 && ok3 && y == 9000 && m == 9 {
					return absDay{d, false}, true
				}
				env.problems["NewSolarFromYmd is not given the year, month and day of one moment"] = true
				return nil, false
			case (callee.Name() == "NewFu" || callee.Name() == "NewShuJiu") && callee.Signature.Recv() == nil && len(args) == 2:
				n, ok1 := strArg(0)
				i, ok2 := intArg(1)
				if ok1 && ok2 {
					return absRec{callee.Name(), n, i}, true
				}
				return nil, false
			case callee.Name() == "NewLunarFromSolar" && callee.Signature.Recv() == nil && len(args) == 1:
				if d, ok := dayOf(fr, args[0]); ok {
					return absLunarOf{d.k}, true
				}
				return nil, false
			case recvIsNamed(callee, "Lunar") && (callee.Name() == "GetPrevJieQiByWholeDay" || callee.Name() == "GetPrevJieQi"):
				if ofr, o := fr.origin(args[0]); ofr.parent == nil && o == recv && env.prevTerm != nil {
					whole := callee.Name() == "GetPrevJieQiByWholeDay"
					if whole {
						o, ok := evalWith(fr, args[1], leaf)
						b, isB := o.(bool)
						whole = ok && isB && b
					}
					if !whole {
						env.problems["the previous term is not taken by whole days"] = true
						return nil, false
					}
					return *env.prevTerm, true
				}
			case recvIsNamed(callee, "JieQi") && len(args) == 1:
				if o, ok := evalWith(fr, args[0], leaf); ok {
					if t, isT := o.(absTerm); isT {
						switch callee.Name() {
						case "GetName":
							return t.name, true
						case "GetSolar":
							return absDay{t.k, false}, true
						}
					}
				}
			case recvIsNamed(callee, "Lunar") && callee.Name() == "GetDayGanIndex" && len(args) == 1:
				if o, ok := evalWith(fr, args[0], leaf); ok {
					if l, isL := o.(absLunarOf); isL {
						return floorMod10(env.stem + l.k), true
					}
				}
			case recvIsNamed(callee, "Solar"):
				d, ok := dayOf(fr, args[0])
				if !ok {
					return nil, false
				}
				switch callee.Name() {
				case "NextDay":
					if n, ok := intArg(1); ok && len(args) == 2 {
						return absDay{d.k + n, d.timed}, true
					}
				case "Subtract":
					if e, ok := dayOf(fr, args[1]); ok {
						return d.k - e.k, true
					}
				case "IsBefore", "IsAfter":
					if e, ok := dayOf(fr, args[1]); ok {
						if d.timed || e.timed {
							env.problems["moments are ordered with their time of day ("+callee.Name()+")"] = true
							return nil, false
						}
						if callee.Name() == "IsBefore" {
							return d.k < e.k, true
						}
						return d.k > e.k, true
					}
				case "ToYmd":
					return fmt.Sprintf("D%07d", d.k+100000), true
				case "GetLunar":
					return absLunarOf{d.k}, true
				}
				return nil, false
			}
		}
		return nil, false
	}
	return leaf
}

func r13_5(c *Ctx, r *Report) {
	const rule = "R13.5"
	r.rule(rule, "The seasonal counters as decision tables over a day algebra (days as numbers, the consulted terms at chosen day numbers, the day stem of day k being (g+k) mod 10; the evaluator follows the code's own branches with helpers inline, no library code runs). Nine-nines: with the start at this winter's solstice day, or the previous winter's when the day precedes it, the count is absent unless start <= day < start+81 and otherwise is (NUMBER[d/9+1]+\"九\", d%9+1) for d = day-start. Dog days: the first period starts 20 days after the first geng day on or after the summer solstice; d = day - that start; d<0 none; d<10 (初伏,d+1); d<20 (中伏,d-9); then if Liqiu is strictly after the fifth geng day d<30 is (中伏,d-9) and d<40 is (末伏,d-29), else d<30 is (末伏,d-19); none afterwards. Cold Food is the day before Qingming; the spring and autumn She days are 40 days after the first wu day on or after Lichun and Liqiu. The pentad is HOU[min(days since the whole-day previous term / 5, len(HOU)-1)] after the term's name, and its phenological sign is WU_HOU[3*(position of that term in JIE_QI) + the same pentad number] (the search for the term as a table over the iteration number). All orderings are taken on whole days.")
	number := c.tabStrs(r, rule, "LunarUtil", "NUMBER")
	gan := c.tabStrs(r, rule, "LunarUtil", "GAN")
	stemPos := func(s string) int64 {
		for i, g := range gan {
			if g == s {
				return int64(i - 1)
			}
		}
		return -99
	}
	show := func(o interface{}) string {
		switch t := o.(type) {
		case absRec:
			return fmt.Sprintf("(%s,%d)", t.name, t.idx)
		case absPtr:
			if t.isNil {
				return "none"
			}
		}
		return fmt.Sprint(o)
	}
	report := func(fn *ssa.Function, construct string, n int, bad []string, problems map[string]bool) {
		for p := range problems {
			bad = append(bad, p)
		}
		sort.Strings(bad)
		r.check(len(bad) == 0 && n > 0, rule, construct, c.fnPos(fn), fmt.Sprintf("%d assignments; deviations: %v", n, headList(dedupe(bad), 3)))
	}
	if fn := c.Fn(r, rule, "calendar.(*Lunar).GetShuJiu"); fn != nil && len(fn.Params) == 1 && len(number) > 10 {
		problems := map[string]bool{}
		var bad []string
		n := 0
		for now := int64(-4); now <= 452 && len(bad) < 4 && len(problems) == 0; now++ {
			env := &dayEnv{now: now, terms: map[string]int64{"冬至": 0, "DONG_ZHI": 365}, problems: problems}
			ev := &evaluator{leaf: dayLeaf(c, fn.Params[0], env), inline: inlineLibrary}
			res, outcome := ev.run(fn, nil, nil, nil, nil)
			n++
			start := int64(365)
			if now < start {
				start = 0
			}
			want := "none"
			if d := now - start; d >= 0 && d < 81 {
				want = fmt.Sprintf("(%s,%d)", number[d/9+1]+"九", d%9+1)
			}
			got := outcome + " " + ev.fail
			if outcome == "return" && len(res) == 1 {
				got = show(res[0])
			}
			if got != want {
				bad = append(bad, fmt.Sprintf("day %d after the previous solstice (this winter's at 365): %s, stated %s", now, got, want))
			}
		}
		report(fn, "calendar.(*Lunar).GetShuJiu counts 81 days in nines from the winter solstice day", n, bad, problems)
	}
	if fn := c.Fn(r, rule, "calendar.(*Lunar).GetFu"); fn != nil && len(fn.Params) == 1 && stemPos("庚") >= 0 {
		problems := map[string]bool{}
		var bad []string
		n := 0
		geng := stemPos("庚")
		for g := int64(0); g < 10; g++ {
			for _, liqiu := range []int64{38, 39, 40, 41, 44, 47, 48, 49, 50, 51, 52} {
				for now := int64(-3); now <= 80 && len(bad) < 4 && len(problems) == 0; now++ {
					env := &dayEnv{now: now, stem: g, terms: map[string]int64{"夏至": 0, "立秋": liqiu}, problems: problems}
					ev := &evaluator{leaf: dayLeaf(c, fn.Params[0], env), inline: inlineLibrary}
					res, outcome := ev.run(fn, nil, nil, nil, nil)
					n++
					first := floorMod10(geng - g)
					d := now - (first + 20)
					want := "none"
					switch {
					case d < 0:
					case d < 10:
						want = fmt.Sprintf("(初伏,%d)", d+1)
					case d < 20:
						want = fmt.Sprintf("(中伏,%d)", d-9)
					case liqiu > first+40:
						if d < 30 {
							want = fmt.Sprintf("(中伏,%d)", d-9)
						} else if d < 40 {
							want = fmt.Sprintf("(末伏,%d)", d-29)
						}
					case d < 30:
						want = fmt.Sprintf("(末伏,%d)", d-19)
					}
					got := outcome + " " + ev.fail
					if outcome == "return" && len(res) == 1 {
						got = show(res[0])
					}
					if got != want {
						bad = append(bad, fmt.Sprintf("solstice stem %d, Liqiu at +%d, day +%d: %s, stated %s", g, liqiu, now, got, want))
					}
				}
			}
		}
		report(fn, "calendar.(*Lunar).GetFu counts the dog days from the third geng day after the summer solstice", n, bad, problems)
	}
	if fn := c.Fn(r, rule, "calendar.(*Lunar).GetOtherFestivals"); fn != nil && len(fn.Params) == 1 && stemPos("戊") >= 0 {
		problems := map[string]bool{}
		var bad []string
		n := 0
		wu := stemPos("戊")
		for g := int64(0); g < 10; g++ {
			for now := int64(-3); now <= 240 && len(bad) < 4 && len(problems) == 0; now++ {
				env := &dayEnv{now: now, stem: g, terms: map[string]int64{"立春": 0, "清明": 60, "立秋": 185}, lunarMD: [2]int64{0, 0}, problems: problems}
				ev := &evaluator{leaf: dayLeaf(c, fn.Params[0], env), inline: inlineLibrary}
				var pushed []string
				ev.collectList(&pushed, func(o interface{}, ok bool) string {
					if str, isS := o.(string); ok && isS {
						return str
					}
					return "?"
				})
				_, outcome := ev.run(fn, nil, nil, nil, nil)
				n++
				var want []string
				if now == 60-1 {
					want = append(want, "寒食节")
				}
				if now == 0+floorMod10(wu-g)+40 {
					want = append(want, "春社")
				}
				if now == 185+floorMod10(wu-(g+185))+40 {
					want = append(want, "秋社")
				}
				got := strings.Join(pushed, ",")
				if outcome != "return" {
					got = outcome + " " + ev.fail
				}
				if got != strings.Join(want, ",") {
					bad = append(bad, fmt.Sprintf("Lichun stem %d, Qingming at +60, Liqiu at +185, day +%d: [%s], stated [%s]", g, now, got, strings.Join(want, ",")))
				}
			}
		}
		report(fn, "calendar.(*Lunar).GetOtherFestivals: Cold Food is Qingming-1, the She days are the first wu day + 40", n, bad, problems)
	}
	hou := c.tabStrs(r, rule, "LunarUtil", "HOU")
	if fn := c.Fn(r, rule, "calendar.(*Lunar).GetHou"); fn != nil && len(fn.Params) == 1 && len(hou) > 0 {
		problems := map[string]bool{}
		var bad []string
		n := 0
		for now := int64(0); now <= 20 && len(bad) < 4 && len(problems) == 0; now++ {
			env := &dayEnv{now: now + 7, prevTerm: &absTerm{"T", 7}, problems: problems}
			ev := &evaluator{leaf: dayLeaf(c, fn.Params[0], env), inline: func(callee *ssa.Function) bool {
				return inlineLibrary(callee) && callee.Name() != "getNearJieQi"
			}}
			res, outcome := ev.run(fn, nil, nil, nil, nil)
			n++
			i := now / 5
			if i > int64(len(hou)-1) {
				i = int64(len(hou) - 1)
			}
			want := "T " + hou[i]
			got := outcome + " " + ev.fail
			if outcome == "return" && len(res) == 1 {
				got = fmt.Sprint(res[0])
			}
			if got != want {
				bad = append(bad, fmt.Sprintf("day +%d after the term: %q, stated %q", now, got, want))
			}
		}
		report(fn, "calendar.(*Lunar).GetHou names the pentad of the whole-day previous term", n, bad, problems)
	}
	wuHou := c.tabStrs(r, rule, "LunarUtil", "WU_HOU")
	jq := c.tabStrs(r, rule, "calendar", "JIE_QI")
	if fn := c.Fn(r, rule, "calendar.(*Lunar).GetWuHou"); fn != nil && len(fn.Params) == 1 && len(wuHou) == 72 && len(jq) == 24 {
		problems := map[string]bool{}
		var bad []string
		n := 0
		for ti, name := range jq {
			for _, now := range []int64{0, 4, 5, 9, 10, 14, 15, 16} {
				if len(bad) >= 4 || len(problems) > 0 {
					continue
				}
				env := &dayEnv{now: now + 7, prevTerm: &absTerm{name, 7}, problems: problems}
				ev := &evaluator{leaf: dayLeaf(c, fn.Params[0], env), inline: func(callee *ssa.Function) bool {
					return inlineLibrary(callee) && callee.Name() != "getNearJieQi"
				}, counted: 64}
				res, outcome := ev.run(fn, nil, nil, nil, nil)
				n++
				k := now / 5
				if k > 2 {
					k = 2
				}
				want := wuHou[(int64(ti)*3+k)%72]
				got := outcome + " " + ev.fail
				if outcome == "return" && len(res) == 1 {
					got = fmt.Sprint(res[0])
				}
				if got != want {
					bad = append(bad, fmt.Sprintf("term %s (no. %d), day +%d: %q, stated %q", name, ti, now, got, want))
				}
			}
		}
		report(fn, "calendar.(*Lunar).GetWuHou names the phenological sign of the pentad", n, bad, problems)
	}
	r.floor(rule, 5)
}
