package main

// Thorough tier extras: both-ways self-test on the seeded variants, GOARCH=386 re-analysis,
// client packages. None of the self-test machinery can produce a VIOLATION line or a
// non-zero exit: only the analysis of the repository itself decides.

import (
	"encoding/json"
	"fmt"
	"os"
	"os/exec"
	"path/filepath"
	"regexp"
	"sort"
	"strings"
	"sync"
)

type seedMeta struct {
	ID         string                         `json:"id"`
	Breaks     string                         `json:"breaks_property"`
	DetectedBy map[string][]map[string]string `json:"detected_by"`
}

type selfTestResult struct {
	Seed     string   `json:"seed"`
	Expected []string `json:"expected_rules"`
	Outcome  string   `json:"outcome"` // "detected" | "missed" | "skipped: …"
	Reported []string `json:"reported_rules,omitempty"`
}

func seededDir() string {
	exe, err := os.Executable()
	if err == nil {
		d := filepath.Join(filepath.Dir(filepath.Dir(exe)), "seeded")
		if _, err := os.Stat(d); err == nil {
			return d
		}
	}
	return "/verif/seeded"
}

var violationLine = regexp.MustCompile(`^\s+violation (\S+) `)

// runSelfTest applies every seeded change that is recorded as detectable by this property's
// check to a scratch copy of the repository (one process per variant) and requires a report.
func runSelfTest(prop, repo, findings, spec string) []selfTestResult {
	dir := seededDir()
	ents, err := os.ReadDir(dir)
	if err != nil {
		return []selfTestResult{{Seed: "-", Outcome: "skipped: no seeded directory: " + err.Error()}}
	}
	type job struct {
		meta  seedMeta
		patch string
	}
	var jobs []job
	for _, e := range ents {
		b, err := os.ReadFile(filepath.Join(dir, e.Name(), "meta.json"))
		if err != nil {
			continue
		}
		var m seedMeta
		if json.Unmarshal(b, &m) != nil {
			continue
		}
		if len(m.DetectedBy[prop]) == 0 {
			continue
		}
		jobs = append(jobs, job{m, filepath.Join(dir, e.Name(), "patch.diff")})
	}
	sort.Slice(jobs, func(i, j int) bool { return jobs[i].meta.ID < jobs[j].meta.ID })
	exe, _ := os.Executable()
	out := make([]selfTestResult, len(jobs))
	sem := make(chan struct{}, 8)
	var wg sync.WaitGroup
	for i, j := range jobs {
		wg.Add(1)
		go func(i int, j job) {
			defer wg.Done()
			sem <- struct{}{}
			defer func() { <-sem }()
			res := selfTestResult{Seed: j.meta.ID}
			set := map[string]bool{}
			for _, h := range j.meta.DetectedBy[prop] {
				set[h["rule"]] = true
			}
			res.Expected = sortedKeys(set)
			scratch, err := os.MkdirTemp("", "lunarlint-selftest-")
			if err != nil {
				res.Outcome = "skipped: " + err.Error()
				out[i] = res
				return
			}
			defer os.RemoveAll(scratch)
			wt := filepath.Join(scratch, "repo")
			if b, err := exec.Command("cp", "-a", repo, wt).CombinedOutput(); err != nil {
				res.Outcome = "skipped: copy failed: " + strings.TrimSpace(string(b))
				out[i] = res
				return
			}
			os.RemoveAll(filepath.Join(wt, ".git"))
			ap := exec.Command("git", "apply", "--unsafe-paths", j.patch)
			ap.Dir = wt
			if b, err := ap.CombinedOutput(); err != nil {
				res.Outcome = "skipped: the seeded patch no longer applies to this tree: " + head(strings.TrimSpace(string(b)), 120)
				out[i] = res
				return
			}
			cmd := exec.Command(exe, "-prop", prop, "-tier", "quick", "-repo", wt, "-evidence-dir", filepath.Join(scratch, "ev"), "-findings", findings, "-spec", spec)
			cmd.Env = append(os.Environ(), "LUNARLINT_NO_SELFTEST=1")
			b, _ := cmd.CombinedOutput()
			rep := map[string]bool{}
			for _, line := range strings.Split(string(b), "\n") {
				if m := violationLine.FindStringSubmatch(line); m != nil {
					rep[m[1]] = true
				}
			}
			res.Reported = sortedKeys(rep)
			hit := false
			for _, r := range res.Expected {
				if rep[r] {
					hit = true
				}
			}
			if hit {
				res.Outcome = "detected"
			} else if len(rep) > 0 {
				res.Outcome = "detected (by other rules than recorded)"
			} else {
				res.Outcome = "missed"
			}
			out[i] = res
		}(i, j)
	}
	wg.Wait()
	return out
}

type benignMeta struct {
	ID       string   `json:"id"`
	Relevant []string `json:"relevant_properties"`
}

// runBenignTest applies every kept behaviour-preserving refactoring that touches an anchor file of
// this property to a scratch copy of the repository and requires silence.
func runBenignTest(prop, repo, findings, spec string) []selfTestResult {
	dir := filepath.Join(filepath.Dir(seededDir()), "benign")
	ents, err := os.ReadDir(dir)
	if err != nil {
		return nil
	}
	type job struct {
		id, patch string
	}
	var jobs []job
	for _, e := range ents {
		b, err := os.ReadFile(filepath.Join(dir, e.Name(), "meta.json"))
		if err != nil {
			continue
		}
		var m benignMeta
		if json.Unmarshal(b, &m) != nil {
			continue
		}
		for _, p := range m.Relevant {
			if p == prop {
				jobs = append(jobs, job{m.ID, filepath.Join(dir, e.Name(), "patch.diff")})
			}
		}
	}
	sort.Slice(jobs, func(i, j int) bool { return jobs[i].id < jobs[j].id })
	exe, _ := os.Executable()
	out := make([]selfTestResult, len(jobs))
	sem := make(chan struct{}, 8)
	var wg sync.WaitGroup
	for i, j := range jobs {
		wg.Add(1)
		go func(i int, j job) {
			defer wg.Done()
			sem <- struct{}{}
			defer func() { <-sem }()
			res := selfTestResult{Seed: j.id}
			scratch, err := os.MkdirTemp("", "lunarlint-benign-")
			if err != nil {
				res.Outcome = "skipped: " + err.Error()
				out[i] = res
				return
			}
			defer os.RemoveAll(scratch)
			wt := filepath.Join(scratch, "repo")
			if b, err := exec.Command("cp", "-a", repo, wt).CombinedOutput(); err != nil {
				res.Outcome = "skipped: copy failed: " + strings.TrimSpace(string(b))
				out[i] = res
				return
			}
			os.RemoveAll(filepath.Join(wt, ".git"))
			ap := exec.Command("git", "apply", "--unsafe-paths", j.patch)
			ap.Dir = wt
			if b, err := ap.CombinedOutput(); err != nil {
				res.Outcome = "skipped: the refactoring no longer applies to this tree: " + head(strings.TrimSpace(string(b)), 120)
				out[i] = res
				return
			}
			cmd := exec.Command(exe, "-prop", prop, "-tier", "quick", "-repo", wt, "-evidence-dir", filepath.Join(scratch, "ev"), "-findings", findings, "-spec", spec)
			cmd.Env = append(os.Environ(), "LUNARLINT_NO_SELFTEST=1")
			b, _ := cmd.CombinedOutput()
			rep := map[string]bool{}
			for _, line := range strings.Split(string(b), "\n") {
				if m := violationLine.FindStringSubmatch(line); m != nil {
					rep[m[1]] = true
				}
			}
			res.Reported = sortedKeys(rep)
			if len(rep) == 0 {
				res.Outcome = "quiet"
			} else {
				res.Outcome = "false alarm"
			}
			out[i] = res
		}(i, j)
	}
	wg.Wait()
	return out
}

func printBenignTest(prop string, rs []selfTestResult) {
	quiet, alarm, skip := 0, 0, 0
	for _, r := range rs {
		switch {
		case r.Outcome == "quiet":
			quiet++
		case r.Outcome == "false alarm":
			alarm++
			fmt.Printf("SELFTEST-FALSE-ALARM property=%s refactoring=%s rules=%v\n", prop, r.Seed, r.Reported)
		default:
			skip++
			fmt.Printf("SELFTEST-SKIP property=%s refactoring=%s %s\n", prop, r.Seed, r.Outcome)
		}
	}
	fmt.Printf("selftest %s: %d behaviour-preserving refactorings quiet, %d raised an alarm, %d skipped\n", prop, quiet, alarm, skip)
}

func printSelfTest(prop string, rs []selfTestResult) {
	det, miss, skip := 0, 0, 0
	for _, r := range rs {
		switch {
		case strings.HasPrefix(r.Outcome, "detected"):
			det++
		case r.Outcome == "missed":
			miss++
			fmt.Printf("SELFTEST-MISS property=%s seed=%s expected=%v\n", prop, r.Seed, r.Expected)
		default:
			skip++
			fmt.Printf("SELFTEST-SKIP property=%s seed=%s %s\n", prop, r.Seed, r.Outcome)
		}
	}
	fmt.Printf("selftest %s: %d seeded variants detected, %d missed, %d skipped\n", prop, det, miss, skip)
}
