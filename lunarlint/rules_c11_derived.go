package main

// R11.7 — the New-Year-based year pillar indices are functions of the lunar year.

import (
	"fmt"
	"go/types"

	"golang.org/x/tools/go/ssa"
)

func r11_7(c *Ctx, r *Report) {
	const rule = "R11.7"
	r.rule(rule, "The New-Year-based year pillar indices are functions of the lunar year. NewLunarYear stores ganIndex = (year - 4) mod 10 and zhiIndex = (year - 4) mod 12 (mathematical remainders) into the year object, and computeYear stores the same two functions of the lunar date's own year into yearGanIndex and yearZhiIndex: both are followed by the evaluator (the month table's construction not entered; the civil date and the Lichun moments of computeYear as abstract moments before, on and after the start of spring) for lunar years -130 .. 130 and a spread up to 10000. A route that computes from the year and one that reads these indices therefore read the same input: the sibling signatures of R11.1 and R16.2 count a read of one of these indices as a read of the year.")
	years := []int64{}
	for y := int64(-130); y <= 130; y++ {
		years = append(years, y)
	}
	for y := int64(131); y <= 10000; y += 397 {
		years = append(years, y)
	}
	check := func(name, yearField, ganField, zhiField string, extra func(fn *ssa.Function, y int64) leafX, skip func(callee *ssa.Function) bool) {
		fn := c.Fn(r, rule, name)
		if fn == nil || len(fn.Params) != 1 {
			return
		}
		var bad []string
		n := 0
		for _, y := range years {
			if len(bad) >= 3 {
				break
			}
			leaf := extra(fn, y)
			ev := &evaluator{leaf: leaf, inline: func(callee *ssa.Function) bool { return inlineLibrary(callee) && !skip(callee) }, counted: 64, effectsOnly: true}
			got := map[string]interface{}{}
			ev.onStore = func(fr *evalFrame, st *ssa.Store, v interface{}, ok bool) {
				if fa, isF := st.Addr.(*ssa.FieldAddr); isF {
					if k := fieldKeyOf(fa); k == ganField || k == zhiField {
						if !ok {
							v = "?"
						}
						got[k] = v
					}
				}
			}
			_, outcome := ev.run(fn, nil, nil, nil, nil)
			n++
			wg, wz := floorModN(y-4, 10), floorModN(y-4, 12)
			switch {
			case outcome != "return":
				bad = append(bad, fmt.Sprintf("year %d: not followed (%s %s)", y, outcome, ev.fail))
			case got[ganField] != interface{}(wg) || got[zhiField] != interface{}(wz):
				bad = append(bad, fmt.Sprintf("year %d: stem index %v, branch index %v; stated %d, %d", y, got[ganField], got[zhiField], wg, wz))
			}
		}
		r.check(len(bad) == 0 && n == len(years), rule, name+" derives the year's stem and branch index from the year", c.fnPos(fn), fmt.Sprintf("%d years; deviations: %v", n, headList(bad, 3)))
	}
	// the year object
	check("calendar.NewLunarYear", "LunarYear.year", "LunarYear.ganIndex", "LunarYear.zhiIndex", func(fn *ssa.Function, y int64) leafX {
		return func(fr *evalFrame, v ssa.Value) (interface{}, bool) {
			if p, ok := v.(*ssa.Parameter); ok && fr.parent == nil && p == fn.Params[0] {
				return y, true
			}
			// no table cached yet
			if ld, ok := v.(*ssa.UnOp); ok {
				if g, isG := ld.X.(*ssa.Global); isG && g.Name() == "CACHE_YEAR" {
					return absPtr{"nil", true}, true
				}
			}
			if call, ok := v.(*ssa.Call); ok && call.Common().StaticCallee() != nil {
				switch call.Common().StaticCallee().String() {
				case "container/list.New":
					return absPtr{"list", false}, true
				case "(*sync.Mutex).Lock", "(*sync.Mutex).Unlock":
					return nil, true
				}
				if call.Common().StaticCallee().Name() == "compute" {
					return nil, true // the month table: R06.5
				}
			}
			return nil, false
		}
	}, func(callee *ssa.Function) bool { return callee.Name() == "compute" })
	// the lunar date
	for _, when := range []int64{-1, 0, 1} {
		when := when
		check("calendar.computeYear", "Lunar.year", "Lunar.yearGanIndex", "Lunar.yearZhiIndex", func(fn *ssa.Function, y int64) leafX {
			var leaf leafX
			leaf = func(fr *evalFrame, v ssa.Value) (interface{}, bool) {
				if p, ok := v.(*ssa.Parameter); ok && fr.parent == nil && p == fn.Params[0] {
					return absPtr{"lunar", false}, true
				}
				if rc, f, ok := getterField(c, v); ok && structName(rc.Type()) == "Lunar" {
					if o, ok := evalWith(fr, rc, leaf); ok && o == interface{}(absPtr{"lunar", false}) {
						switch f {
						case "Lunar.year":
							return y, true
						case "Lunar.solar":
							// the civil date: the day before, the day of, the day after the start of spring
							return absCivil{civilDayNo(2020, 2, 4) + when, 12 * 3600}, true
						}
					}
				}
				if lk, ok := v.(*ssa.Lookup); ok {
					if mt, isM := lk.X.Type().Underlying().(*types.Map); isM && structName(mt.Elem()) == "Solar" {
						return absCivil{civilDayNo(2020, 2, 4), 17 * 3600}, true
					}
				}
				return civilLeaf(c, fr, v, leaf)
			}
			return leaf
		}, func(callee *ssa.Function) bool { return false })
	}
	r.floor(rule, 4)
}

// foldDerived: in a sibling signature, a read of a New-Year-based year pillar index counts as a read of the year
// it is a function of (R11.7).
func foldDerived(paths map[string]bool) map[string]bool {
	out := map[string]bool{}
	for k := range paths {
		switch k {
		case ".yearGanIndex", ".yearZhiIndex":
			k = ".year"
		}
		out[k] = true
	}
	return out
}
