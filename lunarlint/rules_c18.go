package main

// C18 — almanac attributes are pure functions of the pillars they are defined on.

import (
	"fmt"
	"strings"
	"unicode/utf8"

	"golang.org/x/tools/go/ssa"
)

func init() {
	register("C18",
		"whether the table values are the classical ones beyond the internal laws checked here; liveness of each declared input (an accessor that reads an input but ignores it).",
		r18_1, r18_2, r18_3, r18_4, r18_5, r18_6, r11_2, r08_9, r08_11)
}

func r18_1(c *Ctx, r *Report) {
	const rule = "R18.1"
	r.rule(rule, "Declared inputs. Every attribute accessor of Lunar, LunarTime and EightChar reads (transitively, per constant school argument) exactly its defining inputs — pillar-index fields by pillar and variant, lunar month/day, weekday, civil day, named solar terms, and pillar fields of auxiliary Lunar objects (the Lunar of a term day) — as given by its name or by the reviewed table spec/inputs.json; together with R18.4 (no writes) any two moments that share those inputs share the attribute.")
	declaredInputsRule(c, r, rule, func(ai accessorInputs) bool {
		return ai.cls.typ == "Lunar" || ai.cls.typ == "LunarTime" || ai.cls.typ == "EightChar"
	}, 300)
}

// membershipLiterals: strings.Contains(lit, x) / strings.Index(lit, x) with a constant first argument.
type memberSite struct {
	fn  *ssa.Function
	ins *ssa.Call
	lit string
}

func membershipLiterals(c *Ctx) []memberSite {
	var out []memberSite
	for _, fn := range c.Funcs {
		for _, b := range fn.Blocks {
			for _, ins := range b.Instrs {
				call, ok := ins.(*ssa.Call)
				if !ok {
					continue
				}
				callee := call.Common().StaticCallee()
				if callee == nil || (callee.String() != "strings.Contains" && callee.String() != "strings.Index") {
					continue
				}
				if lit, ok := constString(call.Common().Args[0]); ok && utf8.RuneCountInString(lit) >= 2 {
					out = append(out, memberSite{fn, call, lit})
				}
			}
		}
	}
	return out
}

func r18_2(c *Ctx, r *Report) {
	const rule = "R18.2"
	r.rule(rule, "Membership literals use the vocabulary. Every string literal used as a set of stems, branches or pillars (strings.Contains/Index(literal, pillarString)) consists only of GAN / ZHI / JIA_ZI tokens: a look-alike character makes the member unreachable.")
	v := c.vocab(r, rule)
	if v == nil {
		return
	}
	tok := map[string]bool{}
	for _, s := range v.stems {
		tok[s] = true
	}
	for _, s := range v.branches {
		tok[s] = true
	}
	for _, s := range v.jiaZi {
		tok[s] = true
	}
	seen := map[string]int{}
	for _, s := range membershipLiterals(c) {
		if !strings.HasPrefix(fname(s.fn), "calendar.") {
			continue
		}
		var toks []string
		if strings.Contains(s.lit, ",") {
			toks = strings.Split(s.lit, ",")
		} else {
			for _, rn := range s.lit {
				toks = append(toks, string(rn))
			}
		}
		var bad []string
		for _, t := range toks {
			if !tok[t] {
				bad = append(bad, t)
			}
		}
		construct := uniq(seen, fmt.Sprintf("%s: member set %q", fname(s.fn), s.lit))
		r.check(len(bad) == 0, rule, construct, c.pos(s.ins.Pos()), fmt.Sprintf("tokens outside GAN/ZHI/JIA_ZI: %v (such a member can never match, so those days fall through to another branch)", bad))
	}
	r.floor(rule, 3)
}

var canon28 = strings.Split("角 亢 氐 房 心 尾 箕 斗 牛 女 虚 危 室 壁 奎 娄 胃 昴 毕 觜 参 井 鬼 柳 星 张 翼 轸", " ")

func r18_3(c *Ctx, r *Report) {
	const rule = "R18.3"
	r.rule(rule, "Classical laws on the literal tables. The 28 mansions advance by one per day in their fixed order in step with branch and weekday; XIU_27 is that order without 牛; ZHI_XING[1] is 建; CHONG[i] is the branch six places on; CHONG_GAN is the stem four places on and CHONG_GAN_TIE, HE_GAN_5, HE_ZHI_6 are permutations (the two 'he' tables involutions); the two pillars of each nayin pair share one nayin; ZHI_TIAN_SHEN_OFFSET follows the 12-spirit start rule.")
	v := c.vocab(r, rule)
	if v == nil {
		return
	}
	idx28 := map[string]int{}
	for i, s := range canon28 {
		idx28[s] = i
	}
	if xiu := c.tabMap(r, rule, "LunarUtil", "XIU"); xiu != nil {
		var bad []string
		for z := 0; z < 12; z++ {
			for w := 0; w < 7; w++ {
				a, okA := xiu.M[fmt.Sprintf("%s%d", v.branches[z], w)]
				b, okB := xiu.M[fmt.Sprintf("%s%d", v.branches[(z+1)%12], (w+1)%7)]
				if !okA || !okB {
					continue
				}
				ia, ok1 := idx28[a.S]
				ib, ok2 := idx28[b.S]
				if !ok1 || !ok2 || ib != (ia+1)%28 {
					bad = append(bad, fmt.Sprintf("%s%d=%s -> %s%d=%s", v.branches[z], w, a.S, v.branches[(z+1)%12], (w+1)%7, b.S))
				}
			}
		}
		r.check(len(bad) == 0, rule, "LunarUtil.XIU advances one mansion per day", c.pos(xiu.Pos), fmt.Sprintf("84 (branch, weekday) pairs checked; breaks: %v", headList(bad, 5)))
	}
	if x27 := c.tabStrs(r, rule, "FotoUtil", "XIU_27"); x27 != nil {
		var want []string
		for _, s := range canon28 {
			if s != "牛" {
				want = append(want, s)
			}
		}
		r.check(equalStrs(x27, want), rule, "FotoUtil.XIU_27 is the 28-mansion order without 牛", c.pos(c.tables.pos("FotoUtil", "XIU_27")), strings.Join(x27, ""))
	}
	if zx := c.tabStrs(r, rule, "LunarUtil", "ZHI_XING"); zx != nil && len(zx) > 1 {
		r.check(zx[1] == "建", rule, "LunarUtil.ZHI_XING[1] is 建", c.pos(c.tables.pos("LunarUtil", "ZHI_XING")), "duty god when day branch == month branch (offset 0 -> index 1)")
	}
	rot := func(name string, voc []string, shift int) {
		xs := c.tabStrs(r, rule, "LunarUtil", name)
		if xs == nil || len(xs) != len(voc) {
			return
		}
		var bad []string
		for i := range xs {
			if xs[i] != voc[(i+shift)%len(voc)] {
				bad = append(bad, fmt.Sprintf("[%d]=%s", i, xs[i]))
			}
		}
		r.check(len(bad) == 0, rule, fmt.Sprintf("LunarUtil.%s[i] is the entry %d places on", name, shift), c.pos(c.tables.pos("LunarUtil", name)), fmt.Sprintf("deviations: %v", bad))
	}
	rot("CHONG", v.branches, 6)
	rot("CHONG_GAN", v.stems, 4)
	rot("HE_GAN_5", v.stems, 5)
	perm := func(name string, voc []string, involution bool) {
		xs := c.tabStrs(r, rule, "LunarUtil", name)
		if xs == nil {
			return
		}
		seen := map[string]bool{}
		okk := len(xs) == len(voc)
		for _, x := range xs {
			if !containsStr(voc, x) || seen[x] {
				okk = false
			}
			seen[x] = true
		}
		if okk && involution {
			pos := map[string]int{}
			for i, s := range voc {
				pos[s] = i
			}
			for i, x := range xs {
				if xs[pos[x]] != voc[i] {
					okk = false
				}
			}
		}
		r.check(okk, rule, "LunarUtil."+name+" is a permutation of its vocabulary", c.pos(c.tables.pos("LunarUtil", name)), strings.Join(xs, ""))
	}
	perm("CHONG_GAN_TIE", v.stems, false)
	perm("HE_ZHI_6", v.branches, true)
	if ny := c.tabMap(r, rule, "LunarUtil", "NAYIN"); ny != nil {
		var bad []string
		for k := 0; k+1 < len(v.jiaZi); k += 2 {
			a, b := ny.M[v.jiaZi[k]], ny.M[v.jiaZi[k+1]]
			if a == nil || b == nil || a.S != b.S || a.S == "" {
				bad = append(bad, v.jiaZi[k]+"/"+v.jiaZi[k+1])
			}
		}
		r.check(len(bad) == 0, rule, "LunarUtil.NAYIN pairs share one nayin", c.pos(ny.Pos), fmt.Sprintf("pairs that differ: %v", bad))
	}
	if off := c.tabMap(r, rule, "LunarUtil", "ZHI_TIAN_SHEN_OFFSET"); off != nil {
		var bad []string
		for z, b := range v.branches {
			want := int64((12 - 2*((z+10)%6)) % 12)
			if e := off.M[b]; e == nil || e.I != want {
				bad = append(bad, b)
			}
		}
		r.check(len(bad) == 0, rule, "LunarUtil.ZHI_TIAN_SHEN_OFFSET follows the start rule of the twelve spirits", c.pos(off.Pos), fmt.Sprintf("offset(branch z) = (12 - 2*((z-2) mod 6)) mod 12; deviations: %v", bad))
	}
	// the duty-god index is (day branch - month branch) mod 12 + 1
	if fn := c.Fn(r, rule, "calendar.(*Lunar).GetZhiXing"); fn != nil {
		zx := c.tabStrs(r, rule, "LunarUtil", "ZHI_XING")
		var bad []string
		n := 0
		for dz := int64(0); dz < 12 && zx != nil; dz++ {
			for mz := int64(0); mz < 12; mz++ {
				ev := &evaluator{inline: inlineLibrary, leaf: func(fr *evalFrame, v ssa.Value) (interface{}, bool) {
					if rc, f, ok := getterField(c, v); ok {
						if ofr, o := fr.origin(rc); ofr.parent == nil && o == ssa.Value(fn.Params[0]) {
							switch f {
							case "Lunar.dayZhiIndex":
								return dz, true
							case "Lunar.monthZhiIndex":
								return mz, true
							}
						}
					}
					return nil, false
				}}
				res, outcome := ev.run(fn, nil, nil, nil, nil)
				n++
				k := int((dz-mz+12)%12) + 1
				if outcome != "return" || len(res) != 1 {
					bad = append(bad, "not followed: "+outcome+" "+ev.fail)
				} else if k >= len(zx) || res[0] != interface{}(zx[k]) {
					bad = append(bad, fmt.Sprintf("day branch %d, month branch %d: %v", dz, mz, res[0]))
				}
			}
		}
		r.check(len(bad) == 0 && n == 144, rule, "calendar.(*Lunar).GetZhiXing indexes by (day branch - month branch) mod 12 + 1", c.fnPos(fn), fmt.Sprintf("%d (day branch, month branch) pairs evaluated against ZHI_XING[(d - m) mod 12 + 1]; deviations: %v", n, headList(bad, 3)))
	}
	r.floor(rule, 10)
}

func r18_4(c *Ctx, r *Report) {
	r11_5(c, r)
}

func r18_5(c *Ctx, r *Report) {
	tableIndexRule(c, r, "R18.5", func(fn *ssa.Function) bool {
		if fn.Signature.Recv() == nil {
			return false
		}
		switch structName(fn.Signature.Recv().Type()) {
		case "Lunar", "LunarTime":
			return true
		}
		return false
	}, 60)
}
