package main

// R14.8 — Fix, followed on a checker-made table.

import (
	"fmt"
	"sort"
	"strings"

	"golang.org/x/tools/go/ssa"
)

func r14_8(c *Ctx, r *Report) {
	const rule = "R14.8"
	r.rule(rule, "Fix edits the record set as its segments say. HolidayUtil.Fix is followed by the evaluator (E12 with the walk's own stores to the package-level table read back where its loads stand; the loops over the argument, over the name table and the sorted insertion as tables over the iteration number; GetHoliday answers from the table as it stands at that point, by the checker's own decoding — the lookups themselves are R14.6) on a table of four records the checker supplies — one of them a working day, two whose day is not their target — and argument texts of one and two segments: a segment for a recorded day replaces exactly that record, a removal segment deletes exactly that record, a segment for an unrecorded day is inserted at its sorted position (before the first, between two, after the last record), a removal for an unrecorded day changes nothing; the table stored last is compared, as text, with the stated one.")
	fn := c.Fn(r, rule, "HolidayUtil.Fix")
	g := c.Global("HolidayUtil", "dataInUse")
	names := c.tabStrs(r, rule, "HolidayUtil", "NAMES")
	if fn == nil || g == nil || len(fn.Params) != 2 || len(names) < 3 {
		return
	}
	table0 := []string{"201902021020190205", "201902041120190205", "201902051120190205", "201904052120190405"}
	type scen struct {
		what string
		dt   []string
	}
	scens := []scen{
		{"a recorded day off becomes a working day", []string{"201902041020190205"}},
		{"a recorded working day whose day is not its target becomes a day off", []string{"201902021120190205"}},
		{"a recorded day whose day is not its target is removed", []string{"20190204~120190205"}},
		{"a recorded day that is its own target is removed", []string{"20190405~120190405"}},
		{"an unrecorded day between two records is added", []string{"201902031120190205"}},
		{"an unrecorded day before the first record is added", []string{"201901010120190101"}},
		{"an unrecorded day after the last record is added", []string{"201905013120190501"}},
		{"a removal for an unrecorded day", []string{"20190301~120190301"}},
		{"a replacement and an addition in one call", []string{"201902041020190205", "201902031120190205"}},
		{"two additions given out of order", []string{"201905013120190501", "201902031120190205"}},
		{"a removal and a replacement in one call", []string{"20190204~120190205", "201902051020190205"}},
	}
	dash := func(s string) string { return s[0:4] + "-" + s[4:6] + "-" + s[6:] }
	var bad []string
	n := 0
	for _, sc := range scens {
		// the stated result
		want := map[string]string{}
		for _, rec := range table0 {
			want[rec[:8]] = rec
		}
		for _, seg := range sc.dt {
			if seg[8:9] == "~" {
				delete(want, seg[:8])
			} else {
				want[seg[:8]] = seg
			}
		}
		var days []string
		for d := range want {
			days = append(days, d)
		}
		sort.Strings(days)
		stated := ""
		for _, d := range days {
			stated += want[d]
		}
		var ev *evaluator
		current := func() string {
			if s, ok := ev.globals[g].(string); ok {
				return s
			}
			return "?"
		}
		var leaf leafX
		leaf = func(fr *evalFrame, v ssa.Value) (interface{}, bool) {
			if p, ok := v.(*ssa.Parameter); ok && fr.parent == nil {
				switch p {
				case fn.Params[0]:
					return absPtr{"nil", true}, true
				case fn.Params[1]:
					return strings.Join(sc.dt, ""), true
				}
			}
			holidayOf := func(x ssa.Value) (string, bool) {
				o, ok := evalWith(fr, x, leaf)
				p, isP := o.(absPtr)
				if !ok || !isP || p.isNil || !strings.HasPrefix(p.tag, "holiday:") {
					return "", false
				}
				return p.tag[len("holiday:"):], true
			}
			if rc, f, ok := getterField(c, v); ok && structName(rc.Type()) == "Holiday" {
				rec, ok := holidayOf(rc)
				if !ok {
					return nil, false
				}
				switch f {
				case "Holiday.day":
					return dash(rec[:8]), true
				case "Holiday.name":
					if k := int(rec[8] - '0'); k >= 0 && k < len(names) {
						return names[k], true
					}
				case "Holiday.work":
					return rec[9] == '0', true
				case "Holiday.target":
					return dash(rec[10:]), true
				}
				return nil, false
			}
			if call, ok := v.(*ssa.Call); ok && call.Common().StaticCallee() != nil && fname(call.Common().StaticCallee()) == "HolidayUtil.GetHoliday" {
				o, ok := evalWith(fr, call.Common().Args[0], leaf)
				key, isS := o.(string)
				if !ok || !isS {
					return nil, false
				}
				key = strings.Replace(key, "-", "", -1)
				tab := current()
				for i := 0; i+18 <= len(tab); i += 18 {
					if len(key) == 8 && tab[i:i+8] == key {
						return absPtr{"holiday:" + tab[i:i+18], false}, true
					}
				}
				return absPtr{"nil", true}, true
			}
			return nil, false
		}
		ev = &evaluator{leaf: leaf, inline: inlineLibrary, counted: 64, maxDepth: 120, globals: map[*ssa.Global]interface{}{g: strings.Join(table0, "")}}
		_, outcome := ev.run(fn, nil, nil, nil, nil)
		n++
		switch {
		case outcome != "return":
			bad = append(bad, fmt.Sprintf("%s (%s): not followed (%s %s)", sc.what, strings.Join(sc.dt, " "), outcome, ev.fail))
		case current() != stated:
			bad = append(bad, fmt.Sprintf("%s (%s): the table becomes [%s], stated [%s]", sc.what, strings.Join(sc.dt, " "), spaced(current()), spaced(stated)))
		}
	}
	r.check(len(bad) == 0 && n == len(scens), rule, "HolidayUtil.Fix edits the record set as its segments say", c.fnPos(fn), fmt.Sprintf("%d argument texts on a table of %d records; deviations: %v", n, len(table0), headList(bad, 3)))
	r.floor(rule, 1)
}

// spaced: a table text with a blank between records.
func spaced(s string) string {
	var out []string
	for i := 0; i < len(s); i += 18 {
		j := i + 18
		if j > len(s) {
			j = len(s)
		}
		out = append(out, s[i:j])
	}
	return strings.Join(out, " ")
}
