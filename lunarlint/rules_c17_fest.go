package main

// R17.8 — the Taoist festival list reports the day classes its predicates decide.

import (
	"fmt"
	"sort"
	"strings"

	"golang.org/x/tools/go/ssa"
)

func r17_8(c *Ctx, r *Report) {
	const rule = "R17.8"
	r.rule(rule, "The festival list of a Taoist date reports the day classes the predicates decide. Tao.GetFestivals is followed by the evaluator (list model; the literal tables TaoUtil.FESTIVAL, BA_JIE and BA_HUI read from the source; the lunar month and day, the day's solar term and the day pillar abstract inputs; NewTaoFestival a marker) for every solar term of BA_JIE, two terms outside it and no term at all, a day pillar inside and one outside BA_HUI, and a month-day with and without fixed festivals: the entries listed are, in this order, the fixed festivals of the month-day, the birthday of the solstice (冬至, 夏至) when the term is one, the eight-festival name of the term exactly when IsDayBaJie — followed under the same inputs — is true, and the eight-assembly name of the day pillar exactly when IsDayBaHui is true.")
	fn := c.Fn(r, rule, "calendar.(*Tao).GetFestivals")
	baJie, baHui := c.tab(r, rule, "TaoUtil", "BA_JIE"), c.tab(r, rule, "TaoUtil", "BA_HUI")
	fest := c.tab(r, rule, "TaoUtil", "FESTIVAL")
	isJie, isHui := c.Fn(r, rule, "calendar.(*Tao).IsDayBaJie"), c.Fn(r, rule, "calendar.(*Tao).IsDayBaHui")
	if fn == nil || baJie == nil || baHui == nil || fest == nil || isJie == nil || isHui == nil || baJie.Kind != "map" || baHui.Kind != "map" || fest.Kind != "map" || len(fest.Keys) == 0 || len(baHui.Keys) == 0 {
		return
	}
	terms := append(append([]string{}, baJie.Keys...), "小寒", "谷雨", "")
	pillars := []string{baHui.Keys[0], "乙丑"}
	if baHui.M["乙丑"] != nil {
		pillars[1] = "丙寅"
	}
	// a month-day with fixed festivals (the first key of the table), and one without
	var fm, fd int64
	fmt.Sscanf(fest.Keys[0], "%d-%d", &fm, &fd)
	days := [][2]int64{{fm, fd}, {0, 0}}
	for d := int64(2); d <= 30 && days[1][0] == 0; d++ {
		if fest.M[fmt.Sprintf("6-%d", d)] == nil {
			days[1] = [2]int64{6, d}
		}
	}
	var bad []string
	n := 0
	for _, term := range terms {
		for _, gz := range pillars {
			for _, md := range days {
				mkLeaf := func(f *ssa.Function) leafX {
					var leaf leafX
					var lm *listModel
					_ = lm
					leaf = func(fr *evalFrame, v ssa.Value) (interface{}, bool) {
						if p, ok := v.(*ssa.Parameter); ok && fr.parent == nil && p == f.Params[0] {
							return absPtr{"tao", false}, true
						}
						tagOf := func(x ssa.Value) string {
							if o, ok := evalWith(fr, x, leaf); ok {
								if p, isP := o.(absPtr); isP && !p.isNil {
									return p.tag
								}
							}
							return ""
						}
						if rc, fld, ok := getterField(c, v); ok {
							switch t := tagOf(rc); {
							case t == "tao" && fld == "Tao.lunar":
								return absPtr{"lunar", false}, true
							case t == "lunar" && fld == "Lunar.month":
								return md[0], true
							case t == "lunar" && fld == "Lunar.day":
								return md[1], true
							}
						}
						if call, ok := v.(*ssa.Call); ok && call.Common().StaticCallee() != nil {
							callee := call.Common().StaticCallee()
							switch {
							case fname(callee) == "calendar.NewTaoFestival" && len(call.Common().Args) == 2:
								a, ok1 := evalWith(fr, call.Common().Args[0], leaf)
								b, ok2 := evalWith(fr, call.Common().Args[1], leaf)
								if ok1 && ok2 {
									return fmt.Sprintf("%v/%v", a, b), true
								}
								return nil, false
							case recvIsNamed(callee, "Lunar") && len(call.Common().Args) == 1 && tagOf(call.Common().Args[0]) == "lunar":
								switch callee.Name() {
								case "GetJieQi":
									return term, true
								case "GetDayInGanZhi":
									return gz, true
								}
							}
						}
						return nil, false
					}
					return leaf
				}
				pred := func(f *ssa.Function) (bool, string) {
					ev := &evaluator{leaf: mkLeaf(f), inline: inlineLibrary, counted: 64}
					res, outcome := ev.run(f, nil, nil, nil, nil)
					if outcome == "return" && len(res) == 1 {
						if b, isB := res[0].(bool); isB {
							return b, ""
						}
					}
					return false, "not followed: " + outcome + " " + ev.fail
				}
				jie, p1 := pred(isJie)
				hui, p2 := pred(isHui)
				var want []string
				if f := fest.M[fmt.Sprintf("%d-%d", md[0], md[1])]; f != nil {
					for _, o := range f.L {
						remark := ""
						if len(o.L) > 1 {
							remark = o.L[1].S
						}
						want = append(want, o.L[0].S+"/"+remark)
					}
				}
				switch term {
				case "冬至":
					want = append(want, "元始天尊圣诞/")
				case "夏至":
					want = append(want, "灵宝天尊圣诞/")
				}
				if jie && baJie.M[term] != nil {
					want = append(want, baJie.M[term].S+"/")
				}
				if hui && baHui.M[gz] != nil {
					want = append(want, baHui.M[gz].S+"/")
				}
				ev := &evaluator{inline: inlineLibrary, counted: 64}
				lm := newListModel(ev)
				base := mkLeaf(fn)
				ev.leaf = func(fr *evalFrame, v ssa.Value) (interface{}, bool) {
					if x, ok := lm.leaf(c, fr, v); ok {
						return x, true
					}
					return base(fr, v)
				}
				ev.visit = lm.visit
				res, outcome := ev.run(fn, nil, nil, nil, nil)
				n++
				what := fmt.Sprintf("term %q, day pillar %s, month-day %d-%d", term, gz, md[0], md[1])
				got := "no list"
				if outcome == "return" && len(res) == 1 {
					if p, isP := res[0].(absPtr); isP && strings.HasPrefix(p.tag, "list@") {
						got = strings.Join(lm.render(p.tag), ", ")
					}
				} else {
					got = "not followed: " + outcome + " " + ev.fail
				}
				switch {
				case p1 != "" || p2 != "":
					bad = append(bad, what+": a predicate was "+p1+p2)
				case (jie != (baJie.M[term] != nil)) || (hui != (baHui.M[gz] != nil)):
					bad = append(bad, fmt.Sprintf("%s: IsDayBaJie %v, IsDayBaHui %v against the tables", what, jie, hui))
				case got != strings.Join(want, ", "):
					bad = append(bad, fmt.Sprintf("%s: lists [%s], stated [%s]", what, got, strings.Join(want, ", ")))
				}
			}
		}
	}
	sort.Strings(bad)
	r.check(len(bad) == 0 && n == len(terms)*4, rule, "calendar.(*Tao).GetFestivals lists what the day-class predicates decide", c.fnPos(fn), fmt.Sprintf("%d combinations (term x day pillar x month-day); deviations: %v", n, headList(bad, 3)))
	r.floor(rule, 1)
}
