// Package fx is the positive-control fixture of lunarlint: every construct in
// here violates exactly one rule, and the corresponding rule must flag it on
// every run (a rule whose expected count on the real tree is zero would
// otherwise pass vacuously forever).
package fx

import (
	"container/list"
	"fmt"
	"strings"
	"sync"
	"time"
)

var TABLE = []string{"a", "b", "c"}
var COUNTER = 0
var byName = map[string]int{"x": 1, "y": 2}

var mu sync.Mutex
var cache *Thing

type Thing struct {
	n     int
	memo  string
	items *list.List
}

// R09.1: store to a package variable outside init.
func Bump() int {
	COUNTER++
	return COUNTER
}

// R09.1: store through a package variable.
func Patch(s string) {
	TABLE[0] = s
}

// R09.5: range over a map feeding a result.
func Names() string {
	s := ""
	for k := range byName {
		s += k
	}
	return s
}

// R09.5: wall clock outside the declared users.
func Stamp() int {
	return time.Now().Year()
}

// R09.3: a getter that caches in its receiver.
func (t *Thing) Memo() string {
	if t.memo == "" {
		t.memo = fmt.Sprintf("%d", t.n)
	}
	return t.memo
}

func NewThing(n int) *Thing {
	t := new(Thing)
	t.n = n
	t.items = list.New()
	t.items.PushBack(&Thing{n: 1})
	return t
}

// R08.1: the list holds *Thing, the assertion says Thing.
func (t *Thing) First() int {
	for i := t.items.Front(); i != nil; i = i.Next() {
		o := i.Value.(Thing)
		return o.n
	}
	return 0
}

// R09.2: cache read without the lock; unlock missing on one path.
func Cached(n int) *Thing {
	if cache != nil && cache.n == n {
		return cache
	}
	mu.Lock()
	t := NewThing(n)
	cache = t
	if n < 0 {
		return t
	}
	mu.Unlock()
	return t
}

// R15.1: a step that ignores its argument.
func (t *Thing) Next(n int) *Thing {
	if n == 0 {
		return NewThing(t.n)
	}
	u := NewThing(t.n)
	for i := 0; i < n; i++ {
		u := NewThing(u.n + 1)
		_ = u
	}
	return u
}

// R08.2: possibly-empty string into slicing.
func maybe(n int) string {
	if n < 1 {
		return ""
	}
	return "ab"
}

func head(s string) string {
	r := []rune(s)
	return string(r[:1])
}

func Head(n int) string {
	return head(maybe(n))
}

// R19/R03: comparing a day rendering with a second rendering.
func (t *Thing) Ymd() string    { return fmt.Sprintf("%04d-%02d-%02d", t.n, 1, 1) }
func (t *Thing) YmdHms() string { return fmt.Sprintf("%v %02d:%02d:%02d", t.Ymd(), 0, 0, 0) }
func Mixed(a, b *Thing) bool    { return strings.Compare(a.Ymd(), b.YmdHms()) < 0 }

// R09.1, once-initialised variables: lazyTab is built under lazyOnce and every use follows the Do
// (accepted); eagerTab has the same builder shape but one reader skips the Do (reported).
var lazyOnce sync.Once
var lazyTab []int

func Lazy(i int) int {
	lazyOnce.Do(func() {
		lazyTab = []int{1, 2, 3}
	})
	return lazyTab[i%3]
}

var eagerOnce sync.Once
var eagerTab []int

func Eager(i int) int {
	eagerOnce.Do(func() {
		eagerTab = []int{1, 2, 3}
	})
	return eagerTab[i%3]
}

func EagerPeek() int {
	return len(eagerTab)
}
