module fixture

go 1.14
