package main

// R08.11 — the day's suitable / avoid lists are decoded from the packed table as its records say.

import (
	"fmt"
	"strings"

	"golang.org/x/tools/go/ssa"
)

func r08_11(c *Ctx, r *Report) {
	const rule = "R08.11"
	r.rule(rule, "The day's suitable and avoid lists are the ones its record holds. LunarUtil.GetDayYi and GetDayJi are followed by the evaluator (their scans over the packed table dayYiJi as tables over the iteration number; text searches, slicing and hexadecimal conversion are the checker's own operations on the literal) for every month pillar and a spread of day pillars: the names returned are those of the first record of the day whose month list — two-character codes at even offsets — holds the month's code, read by the checker's own decoding of the literal (records DD=MM…:YY…,JJ…), and 无 when no record does. A month code matched across the boundary of two neighbouring codes selects another record's lists.")
	data, ok1 := c.tabStr(r, rule, "LunarUtil", "dayYiJi")
	names := c.tabStrs(r, rule, "LunarUtil", "yiJi")
	jiaZi := c.tabStrs(r, rule, "LunarUtil", "JIA_ZI")
	if !ok1 || len(names) == 0 || len(jiaZi) != 60 {
		return
	}
	// the checker's own decoding
	type rec struct{ day, months, yi, ji string }
	var recs []rec
	segs := strings.Split(data, "=")
	for i := 1; i < len(segs); i++ {
		day := segs[i-1][len(segs[i-1])-2:]
		body := segs[i]
		if i < len(segs)-1 {
			body = body[:len(body)-2]
		}
		colon, comma := strings.Index(body, ":"), strings.Index(body, ",")
		if colon < 0 || comma < colon {
			r.bad(rule, "LunarUtil.dayYiJi record grammar", c.pos(c.tables.pos("LunarUtil", "dayYiJi")), fmt.Sprintf("record %d is not DD=MM…:YY…,JJ…", i))
			return
		}
		recs = append(recs, rec{day, body[:colon], body[colon+1 : comma], body[comma+1:]})
	}
	decode := func(codes string) []string {
		var out []string
		for i := 0; i+2 <= len(codes); i += 2 {
			var k int
			fmt.Sscanf(codes[i:i+2], "%X", &k)
			if k < len(names) {
				out = append(out, names[k])
			} else {
				out = append(out, "?")
			}
		}
		return out
	}
	stated := func(m, d int, yi bool) []string {
		dh, mh := fmt.Sprintf("%02X", d), fmt.Sprintf("%02X", m)
		for _, rc := range recs {
			if rc.day != dh {
				continue
			}
			for i := 0; i+2 <= len(rc.months); i += 2 {
				if rc.months[i:i+2] == mh {
					if yi {
						return decode(rc.yi)
					}
					return decode(rc.ji)
				}
			}
		}
		return nil
	}
	days := []int{0, 7, 13, 19, 26, 31, 38, 44, 52, 59}
	if c.Tier == "thorough" {
		days = nil
		for d := 0; d < 60; d++ {
			days = append(days, d)
		}
	}
	for _, u := range []struct {
		name string
		yi   bool
	}{{"LunarUtil.GetDayYi", true}, {"LunarUtil.GetDayJi", false}} {
		fn := c.Fn(r, rule, u.name)
		if fn == nil || len(fn.Params) != 2 {
			continue
		}
		var bad []string
		n := 0
		for m := 0; m < 60 && len(bad) < 3; m++ {
			for _, d := range days {
				mp, dp := jiaZi[m], jiaZi[d]
				var lm *listModel
				leaf := func(fr *evalFrame, v ssa.Value) (interface{}, bool) {
					if p, ok := v.(*ssa.Parameter); ok && fr.parent == nil {
						switch p {
						case fn.Params[0]:
							return mp, true
						case fn.Params[1]:
							return dp, true
						}
					}
					if x, ok := lm.leaf(c, fr, v); ok {
						return x, true
					}
					if call, ok := v.(*ssa.Call); ok && call.Common().StaticCallee() != nil && fname(call.Common().StaticCallee()) == "LunarUtil.GetJiaZiIndex" {
						// the position of a pillar in the cycle (the search itself is R18.6 / R08.9)
						if o, ok := evalWith(fr, call.Common().Args[0], func(fr2 *evalFrame, v2 ssa.Value) (interface{}, bool) {
							if p, ok := v2.(*ssa.Parameter); ok && fr2.parent == nil {
								switch p {
								case fn.Params[0]:
									return mp, true
								case fn.Params[1]:
									return dp, true
								}
							}
							return nil, false
						}); ok {
							for k, p := range jiaZi {
								if o == interface{}(p) {
									return int64(k), true
								}
							}
						}
						return nil, false
					}
					return nil, false
				}
				ev := &evaluator{leaf: leaf, inline: inlineLibrary, counted: 4000, maxDepth: 200}
				lm = newListModel(ev)
				ev.visit = lm.visit
				res, outcome := ev.run(fn, nil, nil, nil, nil)
				n++
				want := stated(m, d, u.yi)
				if len(want) == 0 {
					want = []string{"无"}
				}
				got := "not followed: " + outcome + " " + ev.fail
				if outcome == "return" && len(res) == 1 {
					if p, isP := res[0].(absPtr); isP && strings.HasPrefix(p.tag, "list@") {
						got = strings.Join(lm.render(p.tag), ",")
					}
				}
				if got != strings.Join(want, ",") {
					bad = append(bad, fmt.Sprintf("month %s, day %s: [%s], the record says [%s]", mp, dp, head2(got, 40), head2(strings.Join(want, ","), 40)))
				}
			}
		}
		r.check(len(bad) == 0 && n == 60*len(days), rule, u.name+" returns the lists of the day's record for the month", c.fnPos(fn), fmt.Sprintf("%d (month pillar, day pillar) pairs on %d records; deviations: %v", n, len(recs), headList(bad, 3)))
	}
	r.floor(rule, 2)
}
