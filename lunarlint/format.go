package main

// E10: format / rendering typing.
//
// fmt.Sprintf format constants are parsed into verbs with width and padding;
// the rendering functions of *Solar (ToYmd, ToYmdHms) and the HH:MM renderings
// get a rendering kind; every string value that is one of these renderings (or
// a phi of them selected by one branch condition) is typed, and every
// strings.Compare of typed values must compare equal kinds.

import (
	"fmt"
	"go/constant"
	"go/token"
	"go/types"
	"os"
	"regexp"
	"sort"
	"strings"

	"golang.org/x/tools/go/ssa"
)

type fmtVerb struct {
	verb  byte
	width int
	zero  bool
	raw   string
}

var timeLikeFormat = regexp.MustCompile(`^%[0 ]?\d?d:%[0 ]?\d?d$`)
var dateLikeFormat = regexp.MustCompile(`^%[0 ]?\d?d-%[0 ]?\d?d-%[0 ]?\d?d$`)

var verbRe = regexp.MustCompile(`%([0#+\- ]*)(\d*)(?:\.\d+)?([a-zA-Z%])`)

// parseFormat splits a format string into literal separators and verbs.
func parseFormat(f string) (verbs []fmtVerb, literals []string) {
	last := 0
	for _, m := range verbRe.FindAllStringSubmatchIndex(f, -1) {
		literals = append(literals, f[last:m[0]])
		last = m[1]
		flags := f[m[2]:m[3]]
		w := 0
		fmt.Sscanf(f[m[4]:m[5]], "%d", &w)
		verbs = append(verbs, fmtVerb{verb: f[m[6]], width: w, zero: strings.Contains(flags, "0"), raw: f[m[0]:m[1]]})
	}
	literals = append(literals, f[last:])
	return
}

// sprintfCall matches a call of fmt.Sprintf with a constant format.
func sprintfCall(v ssa.Value) (call *ssa.Call, format string, args []ssa.Value, ok bool) {
	call, isCall := v.(*ssa.Call)
	if !isCall {
		return nil, "", nil, false
	}
	callee := call.Common().StaticCallee()
	if callee == nil || callee.String() != "fmt.Sprintf" {
		return nil, "", nil, false
	}
	f, isC := constString(call.Common().Args[0])
	if !isC {
		return nil, "", nil, false
	}
	return call, f, sprintfArgs(call), true
}

// renderKind of a string value: "Ymd", "YmdHms", "HH:MM", "Ymd8" (%04d%02d%02d), "" (unknown),
// or "sel(<cond>;k1;k2)" for a value chosen between two kinds by one condition.
func (c *Ctx) renderKind(v ssa.Value, depth int) string {
	if depth > 6 {
		return ""
	}
	switch x := v.(type) {
	case *ssa.Const:
		if s, ok := constString(x); ok {
			if regexp.MustCompile(`^\d\d:\d\d$`).MatchString(s) {
				return "HH:MM"
			}
			if regexp.MustCompile(`^\d{4}-\d\d-\d\d$`).MatchString(s) {
				return "Ymd"
			}
			if regexp.MustCompile(`^\d{4}-\d\d-\d\d \d\d:\d\d:\d\d$`).MatchString(s) {
				return "YmdHms"
			}

		}
	case *ssa.Call:
		// a formatter chosen once by a flag and called through the variable: format := T.A; if c { format = T.B }; format(x)
		if x.Common().StaticCallee() == nil && !x.Common().IsInvoke() {
			if phi, ok := x.Common().Value.(*ssa.Phi); ok && len(phi.Edges) == 2 {
				if cond, pol, ok := phiSelector(phi); ok {
					var kinds [2]string
					for i, e := range phi.Edges {
						if f, ok := funcValue(e); ok {
							cc := *x
							cc.Call.Value = f
							kinds[i] = c.renderKind(&cc, depth+1)
						}
					}
					a, b := kinds[0], kinds[1]
					if !pol {
						a, b = b, a
					}
					if a != "" && b != "" {
						if a == b {
							return a
						}
						return "sel(" + cond.Name() + ";" + a + ";" + b + ")"
					}
				}
			}
			return ""
		}
		if callee := x.Common().StaticCallee(); callee != nil {
			if _, f, args, ok := sprintfCall(x); ok {
				switch f {
				case "%02d:%02d", "%02d:00", "%02d:59":
					return "HH:MM"
				case "%04d-%02d-%02d":
					return "Ymd"
				case "%04d%02d%02d":
					return "Ymd8"
				case "%v %02d:%02d:%02d", "%s %02d:%02d:%02d":
					if len(args) == 4 && c.renderKind(args[0], depth+1) == "Ymd" {
						return "YmdHms"
					}
				}
				// a clock or date rendering whose components are not all zero-padded to a fixed width
				if timeLikeFormat.MatchString(f) {
					return "HH:MM(not fixed-width: " + f + ")"
				}
				if dateLikeFormat.MatchString(f) {
					return "Ymd(not fixed-width: " + f + ")"
				}
				return ""
			}
			// a library function that returns one rendering kind on every return
			if callee.Blocks != nil && callee.Pkg != nil && strings.HasPrefix(callee.Pkg.Pkg.Path(), c.ModPath) {
				kind := ""
				mixed := false
				for _, b := range callee.Blocks {
					for _, ins := range b.Instrs {
						if ret, ok := ins.(*ssa.Return); ok && len(ret.Results) == 1 {
							k := c.renderKind(ret.Results[0], depth+1)
							if kind == "" {
								kind = k
							} else if kind != k {
								mixed = true
							}
						}
					}
				}
				if mixed {
					return c.selectedKind(x, callee, depth)
				}
				return kind
			}
		}
	case *ssa.Parameter:
		// the common kind of the arguments at the library's call sites
		return c.paramKind(x, depth)
	case *ssa.Slice:
		// ts[11:16] of a YmdHms timestamp is its HH:MM part
		if lo, ok := constInt(x.Low); ok && x.High != nil {
			if hi, ok := constInt(x.High); ok && c.renderKind(x.X, depth+1) == "YmdHms" {
				switch {
				case lo == 11 && hi == 16:
					return "HH:MM"
				case lo == 0 && hi == 10:
					return "Ymd"
				}
			}
		}
		if lo, ok := constInt(x.Low); ok && lo == 11 && x.High == nil && c.renderKind(x.X, depth+1) == "YmdHms" {
			return "HH:MM:SS"
		}
		lowZero := x.Low == nil
		if x.Low != nil {
			if lo, ok := constInt(x.Low); ok && lo == 0 {
				lowZero = true
			}
		}
		if lowZero && x.High != nil {
			if hi, ok := constInt(x.High); ok && hi == 5 && clockKinds(c.renderKind(x.X, depth+1)) {
				return "HH:MM"
			}
		}
		return ""
	case *ssa.Phi:
		var kinds []string
		for _, e := range x.Edges {
			// the initial "" of a variable that is assigned a rendering before it is compared, and the
			// loop-carried value itself, say nothing about the kind
			if s, ok := constString(e); ok && s == "" {
				continue
			}
			if e == ssa.Value(x) {
				continue
			}
			if p2, ok := e.(*ssa.Phi); ok && phiOnlyOf(p2, x) {
				continue
			}
			kinds = append(kinds, c.renderKind(e, depth+1))
		}
		if len(kinds) == 0 {
			return ""
		}
		same := true
		for _, k := range kinds {
			if k != kinds[0] {
				same = false
			}
		}
		if same {
			return kinds[0]
		}
		// `if len(x) > 5 { x = x[0:5] }`: either way the first five characters of a clock rendering
		if len(x.Edges) == 2 {
			for i := 0; i < 2; i++ {
				if sl, ok := x.Edges[i].(*ssa.Slice); ok && sl.X == x.Edges[1-i] && kinds[1-i] != "" {
					if cond, _, ok := phiSelector(x); ok && isLenGreater(cond, sl.X, 5) {
						if clockKinds(kinds[1-i]) {
							return "HH:MM"
						}
						return kinds[1-i]
					}
				}
			}
		}
		// the initial "" of `x := ""; if c { x = a } else { x = b }` never reaches the merge
		if len(kinds) == 2 {
			if cond, pol, ok := phiSelector(x); ok {
				a, b := kinds[0], kinds[1]
				if !pol {
					a, b = b, a
				}
				if a == "" || b == "" {
					return ""
				}
				return "sel(" + cond.Name() + ";" + a + ";" + b + ")"
			}
		}
		return ""
	}
	return ""
}

// selectedKind: a helper `if flag { return a } return b` whose flag is one of its parameters renders
// sel(<caller's argument>;kind(a);kind(b)), the same type a caller-side if/else on that argument has.
func (c *Ctx) selectedKind(call *ssa.Call, callee *ssa.Function, depth int) string {
	entry := callee.Blocks[0]
	iff, ok := entry.Instrs[len(entry.Instrs)-1].(*ssa.If)
	if !ok {
		return ""
	}
	selName := ""
	switch cnd := iff.Cond.(type) {
	case *ssa.Parameter:
		for i, q := range callee.Params {
			if q == cnd && i < len(call.Common().Args) {
				selName = call.Common().Args[i].Name()
			}
		}
	case *ssa.UnOp:
		// a flag captured by a closure: named like the variable of the enclosing function
		if fv, ok := cnd.X.(*ssa.FreeVar); ok && cnd.Op == token.MUL {
			selName = fv.Name()
		}
	}
	if selName == "" {
		return ""
	}
	arm := func(b *ssa.BasicBlock) string {
		kind := ""
		n := 0
		for _, blk := range callee.Blocks {
			if !b.Dominates(blk) {
				continue
			}
			for _, ins := range blk.Instrs {
				if ret, ok := ins.(*ssa.Return); ok && len(ret.Results) == 1 {
					n++
					kind = c.renderKind(ret.Results[0], depth+1)
				}
			}
		}
		if n != 1 {
			return ""
		}
		return kind
	}
	a, b := arm(entry.Succs[0]), arm(entry.Succs[1])
	if a == "" || b == "" {
		return ""
	}
	return "sel(" + selName + ";" + a + ";" + b + ")"
}

func (c *Ctx) paramKind(p *ssa.Parameter, depth int) string {
	fn := p.Parent()
	idx := -1
	for i, q := range fn.Params {
		if q == p {
			idx = i
		}
	}
	if idx < 0 || depth > 3 {
		return ""
	}
	kinds := map[string]bool{}
	for _, caller := range c.Funcs {
		for _, b := range caller.Blocks {
			for _, ins := range b.Instrs {
				call, ok := ins.(*ssa.Call)
				if !ok || call.Common().StaticCallee() != fn || idx >= len(call.Common().Args) {
					continue
				}
				k := c.renderKind(call.Common().Args[idx], depth+1)
				if k == "" {
					continue // a pass-through of a client's string: says nothing about the library's own renderings
				}
				kinds[k] = true
			}
		}
	}
	if len(kinds) <= 1 {
		for k := range kinds {
			return k
		}
		return ""
	}
	// the library's own call sites disagree: the parameter has no single rendering
	var ks []string
	for k := range kinds {
		ks = append(ks, k)
	}
	sort.Strings(ks)
	return "mixed(" + strings.Join(ks, "|") + ")"
}

// clockKinds: a clock rendering whose first five characters are HH:MM (also when call sites mix the two).
func clockKinds(k string) bool {
	if k == "HH:MM" || k == "HH:MM:SS" {
		return true
	}
	if strings.HasPrefix(k, "mixed(") {
		for _, p := range strings.Split(strings.TrimSuffix(strings.TrimPrefix(k, "mixed("), ")"), "|") {
			if p != "HH:MM" && p != "HH:MM:SS" {
				return false
			}
		}
		return true
	}
	return false
}

// isLenGreater matches len(x) > n.
func isLenGreater(cond ssa.Value, x ssa.Value, n int64) bool {
	bo, ok := cond.(*ssa.BinOp)
	if !ok || bo.Op != token.GTR {
		return false
	}
	k, isK := constInt(bo.Y)
	call, isCall := bo.X.(*ssa.Call)
	if !isK || k != n || !isCall {
		return false
	}
	b, isB := call.Common().Value.(*ssa.Builtin)
	return isB && b.Name() == "len" && len(call.Common().Args) == 1 && call.Common().Args[0] == x
}

// phiSelector: for a two-edge phi, the branch condition that selects between the
// edges and whether edge 0 is the true side.
func phiSelector(phi *ssa.Phi) (cond ssa.Value, edge0True bool, ok bool) {
	p := phi.Block()
	d := p.Idom()
	if d == nil || len(d.Instrs) == 0 || len(phi.Edges) != 2 {
		return nil, false, false
	}
	iff, isIf := d.Instrs[len(d.Instrs)-1].(*ssa.If)
	if !isIf {
		return nil, false, false
	}
	side := func(pred *ssa.BasicBlock) int {
		if pred == d {
			if d.Succs[0] == p {
				return 1
			}
			return 0
		}
		if d.Succs[0] != p && d.Succs[0].Dominates(pred) {
			return 1
		}
		if d.Succs[1] != p && d.Succs[1].Dominates(pred) {
			return 0
		}
		return -1
	}
	s0, s1 := side(p.Preds[0]), side(p.Preds[1])
	if s0 < 0 || s1 < 0 || s0 == s1 {
		return nil, false, false
	}
	return iff.Cond, s0 == 1, true
}

type compareSite struct {
	fn     *ssa.Function
	call   ssa.Instruction
	kx, ky string
}

// compareSites: every strings.Compare (and ==/!= on strings) with at least one typed operand.
func (c *Ctx) compareSites() []compareSite {
	var out []compareSite
	for _, fn := range c.Funcs {
		for _, b := range fn.Blocks {
			for _, ins := range b.Instrs {
				var x, y ssa.Value
				switch v := ins.(type) {
				case *ssa.Call:
					callee := v.Common().StaticCallee()
					if callee == nil || callee.String() != "strings.Compare" {
						continue
					}
					x, y = v.Common().Args[0], v.Common().Args[1]
				case *ssa.BinOp:
					if !isStringType(v.X.Type()) || !isStringType(v.Y.Type()) {
						continue
					}
					switch v.Op {
					case token.LSS, token.LEQ, token.GTR, token.GEQ, token.EQL, token.NEQ:
						x, y = v.X, v.Y
					default:
						continue
					}
				default:
					continue
				}
				kx := c.renderKind(x, 0)
				ky := c.renderKind(y, 0)
				if os.Getenv("LUNARLINT_DEBUG_KINDS") != "" {
					fmt.Fprintf(os.Stderr, "kinds %s %s: %q vs %q\n", fname(fn), c.pos(ins.Pos()), kx, ky)
				}
				if kx == "" || ky == "" {
					continue // not (recognisably) a comparison of two rendered moments
				}
				out = append(out, compareSite{fn, ins, kx, ky})
			}
		}
	}
	return out
}

// likeWithLikeRule: at every typed string comparison in the selected functions both sides have the same rendering kind.
func likeWithLikeRule(c *Ctx, r *Report, rule string, pick func(fn *ssa.Function) bool, floor int) {
	r.rule(rule, "String-as-time comparisons compare like with like. Wherever a rendered civil moment is compared with strings.Compare, both operands have the same rendering kind (Ymd with Ymd, YmdHms with YmdHms, HH:MM with HH:MM), or both are selected between the same two kinds by the same branch condition (wholeDay).")
	seen := map[string]int{}
	n := 0
	for _, s := range c.compareSites() {
		if pick != nil && !pick(s.fn) {
			continue
		}
		n++
		construct := uniq(seen, fmt.Sprintf("%s: Compare(%s, %s)", fname(s.fn), kindOr(s.kx), kindOr(s.ky)))
		if s.kx == s.ky {
			r.ok(rule, construct, c.pos(s.call.Pos()), "both operands are "+s.kx)
		} else {
			r.bad(rule, construct, c.pos(s.call.Pos()), fmt.Sprintf("a %s rendering is compared with a %s rendering: the lexicographic comparison no longer orders the two moments (a day string is a proper prefix of a timestamp)", kindOr(s.kx), kindOr(s.ky)))
		}
	}
	if n < floor {
		r.bad(rule, "instance floor "+rule, "-", fmt.Sprintf("only %d typed comparisons matched (floor %d)", n, floor))
	}
}

func kindOr(k string) string {
	if k == "" {
		return "untyped"
	}
	return k
}

var _ = token.NoPos

// phiOnlyOf: p merges nothing but x itself and values that x already merges (a for.post copy of a loop-carried value).
func phiOnlyOf(p, x *ssa.Phi) bool {
	for _, e := range p.Edges {
		if e != ssa.Value(x) {
			return false
		}
	}
	return true
}

// funcValue: v denotes one function (a function, a method expression, a closure).
func funcValue(v ssa.Value) (ssa.Value, bool) {
	switch x := v.(type) {
	case *ssa.Function:
		return unthunk(x), true
	case *ssa.MakeClosure:
		return x, true
	case *ssa.ChangeType:
		return funcValue(x.X)
	}
	return nil, false
}

// funcTargets: the functions a called value can denote, when that is a finite set read off the code: a
// function or closure, a merge of such, or a parameter of an unexported function or closure whose every call
// site passes such a value. nil when some possibility is unknown.
// funcVal_: a function value: the function and, when it is a closure or a bound method value, the instruction
// that made it (its bindings are what the free variables denote).
type funcVal_ struct {
	fn *ssa.Function
	mc *ssa.MakeClosure
}

func funcValFuncs(vs []funcVal_) []*ssa.Function {
	if vs == nil {
		return nil
	}
	out := make([]*ssa.Function, 0, len(vs))
	for _, v := range vs {
		out = append(out, v.fn)
	}
	return out
}

// funcMapKeyConst, when set (by a specialised effects analysis while it resolves a call), gives the constant a map
// key has under the bindings of that analysis.
var funcMapKeyConst func(v ssa.Value) constant.Value

// localMapFuncVals: the functions a lookup in a map the function builds itself from a literal (make + one update
// per constant key, never handed on) can yield: the entry of the looked-up key when that is a known constant (none
// when no entry has it), else any entry.
func localMapFuncVals(c *Ctx, lk *ssa.Lookup, live func(phi *ssa.Phi, i int) bool, depth int) []funcVal_ {
	mm, ok := lk.X.(*ssa.MakeMap)
	if !ok || mm.Referrers() == nil {
		return nil
	}
	var key constant.Value
	if funcMapKeyConst != nil {
		key = funcMapKeyConst(lk.Index)
	} else if k, isK := lk.Index.(*ssa.Const); isK {
		key = k.Value
	}
	out := []funcVal_{}
	for _, ref := range *mm.Referrers() {
		switch y := ref.(type) {
		case *ssa.MapUpdate:
			kc, isK := y.Key.(*ssa.Const)
			if y.Map != ssa.Value(mm) || !isK || kc.Value == nil {
				return nil
			}
			if key != nil && !constant.Compare(key, token.EQL, kc.Value) {
				continue
			}
			t := funcValsLive(c, y.Value, live, depth+1)
			if t == nil {
				return nil
			}
			out = append(out, t...)
		case *ssa.Lookup, *ssa.DebugRef:
		default:
			return nil // ranged over, passed on, returned
		}
	}
	return out
}

func funcTargets(c *Ctx, v ssa.Value, depth int) []*ssa.Function {
	return funcTargetsLive(c, v, nil, depth)
}

func funcTargetsLive(c *Ctx, v ssa.Value, live func(phi *ssa.Phi, i int) bool, depth int) []*ssa.Function {
	return funcValFuncs(funcValsLive(c, v, live, depth))
}

func funcElems(c *Ctx, v ssa.Value, live func(phi *ssa.Phi, i int) bool, depth int) []*ssa.Function {
	return funcValFuncs(funcElemVals(c, v, live, depth))
}

// funcTargetsLive is funcTargets with a filter on the incoming edges of merges (edges that are dead under
// the constant bindings of a specialised analysis).
func funcValsLive(c *Ctx, v ssa.Value, live func(phi *ssa.Phi, i int) bool, depth int) []funcVal_ {
	if depth > 4 {
		return nil
	}
	switch x := v.(type) {
	case *ssa.Function:
		return []funcVal_{{unthunk(x), nil}}
	case *ssa.MakeClosure:
		if f, ok := x.Fn.(*ssa.Function); ok {
			return []funcVal_{{f, x}}
		}
	case *ssa.ChangeType:
		return funcValsLive(c, x.X, live, depth+1)
	case *ssa.Phi:
		var out []funcVal_
		for i, e := range x.Edges {
			if e == ssa.Value(x) || (live != nil && !live(x, i)) {
				continue
			}
			t := funcValsLive(c, e, live, depth+1)
			if t == nil {
				return nil
			}
			out = append(out, t...)
		}
		return out
	case *ssa.Extract:
		// the value half of `f, ok := m[k]` on a local map literal of functions
		if lk, ok := x.Tuple.(*ssa.Lookup); ok && lk.CommaOk && x.Index == 0 {
			return localMapFuncVals(c, lk, live, depth)
		}
	case *ssa.Lookup:
		if !x.CommaOk {
			return localMapFuncVals(c, x, live, depth)
		}
	case *ssa.Index:
		// an element of an array of functions: any of the functions the array can hold
		return funcElemVals(c, x.X, live, depth+1)
	case *ssa.UnOp:
		if ia, ok := x.X.(*ssa.IndexAddr); ok && x.Op == token.MUL {
			return funcElemVals(c, ia.X, live, depth+1)
		}
	case *ssa.Parameter:
		fn := x.Parent()
		if fn == nil || (fn.Object() != nil && fn.Object().Exported()) {
			return nil
		}
		idx := paramIndex(fn, x)
		var out []funcVal_
		n := 0
		for _, g := range c.Funcs {
			for _, b := range g.Blocks {
				for _, ins := range b.Instrs {
					call, ok := ins.(ssa.CallInstruction)
					if !ok {
						continue
					}
					var callee *ssa.Function
					if f := call.Common().StaticCallee(); f != nil {
						callee = f
					}
					if callee != fn || idx >= len(call.Common().Args) {
						continue
					}
					n++
					t := funcValsLive(c, call.Common().Args[idx], nil, depth+1)
					if t == nil {
						return nil
					}
					out = append(out, t...)
				}
			}
		}
		if n == 0 {
			return nil
		}
		return out
	}
	return nil
}

// funcElems: the functions an array or slice of functions (or a pointer to such an array) can hold: what
// the code stores into the local it lives in, or what every call site of an unexported function passes.
// nil when some possibility is unknown.
func funcElemVals(c *Ctx, v ssa.Value, live func(phi *ssa.Phi, i int) bool, depth int) []funcVal_ {
	if depth > 6 {
		return nil
	}
	switch x := v.(type) {
	case *ssa.Alloc:
		if x.Referrers() == nil {
			return nil
		}
		var out []funcVal_
		n := 0
		var uses func(addr ssa.Value) bool
		uses = func(addr ssa.Value) bool {
			if addr.Referrers() == nil {
				return true
			}
			for _, ref := range *addr.Referrers() {
				switch u := ref.(type) {
				case *ssa.Store:
					if u.Addr != addr {
						return false // the address itself escapes into memory
					}
					var t []funcVal_
					if addr == ssa.Value(x) {
						t = funcElemVals(c, u.Val, live, depth+1) // the whole array at once
					} else {
						t = funcValsLive(c, u.Val, live, depth+1)
					}
					if t == nil {
						if k, isK := u.Val.(*ssa.Const); isK && k.Value == nil {
							continue // the zero value: no function
						}
						return false
					}
					n++
					out = append(out, t...)
				case *ssa.IndexAddr:
					if !uses(u) {
						return false
					}
				case *ssa.UnOp, *ssa.Slice, *ssa.DebugRef:
					// read
				default:
					return false
				}
			}
			return true
		}
		if !uses(x) || n == 0 {
			return nil
		}
		return out
	case *ssa.UnOp:
		if x.Op == token.MUL {
			if al, ok := x.X.(*ssa.Alloc); ok {
				return funcElemVals(c, al, live, depth+1)
			}
		}
	case *ssa.Slice:
		return funcElemVals(c, x.X, live, depth+1)
	case *ssa.ChangeType:
		return funcElemVals(c, x.X, live, depth+1)
	case *ssa.Phi:
		var out []funcVal_
		for i, e := range x.Edges {
			if e == ssa.Value(x) || (live != nil && !live(x, i)) {
				continue
			}
			t := funcElemVals(c, e, live, depth+1)
			if t == nil {
				return nil
			}
			out = append(out, t...)
		}
		return out
	case *ssa.Parameter:
		fn := x.Parent()
		if fn == nil || (fn.Object() != nil && fn.Object().Exported()) {
			return nil
		}
		idx := paramIndex(fn, x)
		var out []funcVal_
		n := 0
		for _, g := range c.Funcs {
			for _, b := range g.Blocks {
				for _, ins := range b.Instrs {
					call, ok := ins.(ssa.CallInstruction)
					if !ok || call.Common().StaticCallee() != fn || idx >= len(call.Common().Args) {
						continue
					}
					n++
					t := funcElemVals(c, call.Common().Args[idx], nil, depth+1)
					if t == nil {
						return nil
					}
					out = append(out, t...)
				}
			}
		}
		if n == 0 {
			return nil
		}
		return out
	}
	return nil
}

// unthunk: the method behind the wrapper a method expression T.M denotes (same parameters, receiver first).
func unthunk(fn *ssa.Function) *ssa.Function {
	if fn.Synthetic != "" && fn.Pkg == nil && fn.Parent() == nil && strings.HasSuffix(fn.Name(), "$thunk") && fn.Object() != nil && fn.Prog != nil {
		if m, ok := fn.Object().(*types.Func); ok {
			if real := fn.Prog.FuncValue(m); real != nil && len(real.Params) == len(fn.Params) {
				return real
			}
		}
	}
	return fn
}
