package main

// R06.5 — the construction of a year's month table, followed on a synthetic ephemeris.

import (
	"fmt"
	"math"
	"sort"
	"strings"

	"golang.org/x/tools/go/ssa"
)

// synthetic ephemeris: terms every 15.2184 days on a grid through day 355 (a winter solstice), new moons
// every 29.5306 days on a grid through a chosen anchor; both as whole day numbers (relative to J2000).
type synthSky struct {
	moonAnchor float64
	// an irregular sky: every jitP-th new moon (those with number = jitR mod jitP) falls jit days late, so that
	// lunations of 27 to 32 days occur and a lunation after the leap one can hold two major terms
	jit        float64
	jitP, jitR int64
}

func (s synthSky) String() string {
	if s.jitP == 0 {
		return fmt.Sprintf("new-moon grid through day %.0f", s.moonAnchor)
	}
	return fmt.Sprintf("new-moon grid through day %.0f, every %dth new moon %.0f days late", s.moonAnchor, s.jitP, s.jit)
}

func (s synthSky) term(k int64) float64 { return math.Floor(355 + 15.2184*float64(k)) }
func (s synthSky) moon(k int64) float64 {
	m := s.moonAnchor + math.Floor(29.5306*float64(k))
	if s.jitP > 0 && ((k%s.jitP)+s.jitP)%s.jitP == s.jitR {
		m += s.jit
	}
	return m
}

// skyYear: the terms (0 = the winter solstice before the middle of year y) and lunations (0 = the one that holds
// that solstice) of a year in the sky.
func (s synthSky) skyYear(y int64) (jq, hs func(i int64) float64) {
	jd := math.Floor(float64(y-2000)*365.2422 + 180)
	k0, q := s.termNear(math.Floor((jd-355+183)/365.2422)*365.2422 + 355)
	if q > jd {
		k0, q = s.termNear(q - 365.2422)
	}
	jq = func(i int64) float64 { return s.term(k0 + i) }
	h0, m0 := s.moonNear(jq(0))
	if m0 > jq(0) {
		h0, _ = s.moonNear(m0 - 29.53)
	}
	hs = func(i int64) float64 { return s.moon(h0 + i) }
	return jq, hs
}

// irregularLeap: year y has thirteen new moons before the next winter solstice, every lunation before its first
// one without a major term holds exactly one (so that "the first lunation without a major term" is not in doubt),
// and a lunation after it holds two: the positions that satisfy the leap test are then not contiguous.
func (s synthSky) irregularLeap(y int64) bool {
	jq, hs := s.skyYear(y)
	if !(hs(0) <= jq(0) && jq(0) < hs(1)) || !(hs(13) <= jq(24)) {
		return false
	}
	count := func(i int64) int {
		n := 0
		for k := int64(0); k <= 28; k += 2 {
			if hs(i) <= jq(k) && jq(k) < hs(i+1) {
				n++
			}
		}
		return n
	}
	first := int64(-1)
	for i := int64(1); i <= 13 && first < 0; i++ {
		switch count(i) {
		case 0:
			first = i
		case 1:
		default:
			return false
		}
	}
	if first < 0 {
		return false
	}
	for i := first + 1; i <= 12; i++ {
		if !(hs(i+1) <= jq(2*i)) {
			return true
		}
	}
	return false
}

func (s synthSky) termNear(x float64) (int64, float64) {
	k := int64(math.Round((x - 355) / 15.2184))
	return k, s.term(k)
}
func (s synthSky) moonNear(x float64) (int64, float64) {
	k := int64(math.Round((x - s.moonAnchor) / 29.5306))
	return k, s.moon(k)
}

type monthRec struct {
	year, month, days int64
	first             float64
	index             int64
}

func (m monthRec) String() string {
	return fmt.Sprintf("(%d, %d, %d days, first day %.0f, #%d)", m.year, m.month, m.days, m.first, m.index)
}

// statedMonths: the month table of year y as the property states it, from the synthetic sky: fifteen
// lunations from the new moon at or before the winter solstice before the year's middle; twelve named
// 11, 12, 1 .. 10, 11(, 12); when thirteen new moons precede the next winter solstice, the first lunation
// after the first that holds no major term repeats its predecessor's number as a leap month (explicit
// override years aside); the year label turns over where the number drops; the index counts on within a
// year; the two historical renaming eras shift the names by one and close with a month 12 stored as -11.
func statedMonths(s synthSky, y int64, leap11, leap12 map[int64]bool) (recs []monthRec, terms []float64) {
	const j2000 = 2451545
	jq, hs := s.skyYear(y)
	// term table entries: the accurate instant (marker: + 0.125) of the term before estimate i
	for i := int64(0); i < 31; i++ {
		terms = append(terms, jq(i-1)+0.125+j2000)
	}
	leap := int64(16)
	switch {
	case leap11[y]:
		leap = 13
	case leap12[y]:
		leap = 14
	case hs(13) <= jq(24):
		// thirteen new moons before the next winter solstice: the first lunation (after the first) without a major term
		for i := int64(1); i <= 13; i++ {
			has := false
			for k := int64(0); k <= 26; k += 2 {
				if hs(i) <= jq(k) && jq(k) < hs(i+1) {
					has = true
				}
			}
			if !has || i == 13 {
				leap = i
				break
			}
		}
	}
	names := []int64{11, 12, 1, 2, 3, 4, 5, 6, 7, 8, 9, 10}
	year, prev, index := y-1, int64(-1), int64(-1)
	for i := int64(0); i < 15; i++ {
		dm := hs(i) + j2000
		v := i
		if i >= leap {
			v = i - 1
		}
		mc := names[v%12]
		seam := dm == 1729794 || dm == 1808699
		switch {
		case (1724360 <= dm && dm < 1729794) || (1807724 <= dm && dm < 1808699):
			mc = names[(v+1)%12]
		case seam:
			mc = 12
		}
		if prev == -1 {
			index = mc
		} else if mc < prev {
			year++
			index = 1
		}
		prev = mc
		stored := mc
		if i == leap {
			stored = -mc
		} else if seam {
			stored = -11
		}
		recs = append(recs, monthRec{year, stored, int64(hs(i+1) - hs(i)), dm, index})
		index++
	}
	return recs, terms
}

func r06_5(c *Ctx, r *Report) { computeTables(c, r, "R06.5", true) }

// R03.10: the same walk, looking at the term table only.
func r03_10(c *Ctx, r *Report) { computeTables(c, r, "R03.10", false) }

func computeTables(c *Ctx, r *Report, rule string, months bool) {
	if !months {
		r.rule(rule, "The term table of a year holds the accurate instants of its estimates. LunarYear.compute is followed as in R06.5 (synthetic ephemeris: terms on a 15.2184-day grid, CalcQi answering with the nearest grid point, QiAccurate2 with a marker): the 31 entries it stores into the table that ends up in jieQiJulianDays are, in order, the accurate instant of the term before the first estimate, of the 26 estimates, and of four more terms extrapolated from the last estimate at 15.2184 days each. That the real ephemeris is right is C02/C03's numeric part.")
	} else {
		r.rule(rule, "The month table of a year is built as stated. LunarYear.compute is followed by the evaluator (its seven loops as tables over the iteration number, local arrays in the walker's memory, helpers inline) on a synthetic ephemeris supplied by the checker — terms on a 15.2184-day grid, new moons on a 29.5306-day grid with several phases, both as whole days, and irregular skies in which every fifth new moon falls two days late (the years of those in which a lunation after the first one without a major term holds two, so that the positions satisfying the leap test are not contiguous); CalcQi and CalcShuo answer with the nearest grid point, QiAccurate2 with a marker — for 60 modern years per phase and for the years around the two historical renaming eras: the fifteen NewLunarMonth records it lists, in order, are (year label, month number, days, first day, index in the year) of the stated table — months 11, 12, 1 .. 10, 11, ... from the new moon at or before the winter solstice; a leap month where thirteen new moons precede the next solstice: the first lunation after the first without a major term (position 1 included), with the number of its predecessor, negative; the year label turning over where the number drops; day counts the differences of consecutive new moons. (The term table filled by the same function is R03.10.) That the real ephemeris is right is C02/C03.")
	}
	fn := c.Fn(r, rule, "calendar.(*LunarYear).compute")
	if fn == nil || len(fn.Params) != 1 {
		return
	}
	set := func(pkg, name string) map[int64]bool {
		out := map[int64]bool{}
		if tv := c.tab(r, rule, pkg, name); tv != nil && tv.Kind == "list" {
			for _, e := range tv.L {
				out[e.I] = true
			}
		}
		return out
	}
	leap11, leap12 := set("calendar", "LEAP_11"), set("calendar", "LEAP_12")
	type scenario struct {
		sky  synthSky
		year int64
	}
	var scen []scenario
	for _, anchor := range []float64{3, 11, 19, 27} {
		y0, y1 := int64(1990), int64(2050)
		if c.Tier == "thorough" {
			y0, y1 = 1900, 2100
		}
		for y := y0; y < y1; y++ {
			scen = append(scen, scenario{synthSky{moonAnchor: anchor}, y})
		}
	}
	// irregular skies: the years in which the positions that satisfy the leap test are not contiguous
	irregular := 0
	for _, jr := range []int64{0, 2} {
		for _, anchor := range []float64{3, 11, 19, 27} {
			sky := synthSky{moonAnchor: anchor, jit: 2, jitP: 5, jitR: jr}
			for y := int64(1990); y < 2050; y++ {
				if sky.irregularLeap(y) {
					scen = append(scen, scenario{sky, y})
					irregular++
				}
			}
		}
	}
	if irregular < 20 {
		r.bad(rule, "irregular skies", "-", fmt.Sprintf("only %d years with non-contiguous leap candidates among the checker's skies (instance floor 20)", irregular))
	}
	// the renaming eras: a grid that has a new moon exactly on each closing day
	for _, seam := range []float64{1729794, 1808699} {
		sky := synthSky{moonAnchor: seam - 2451545}
		y0 := int64(math.Floor((seam-2451545)/365.2422)) + 2000
		for y := y0 - 2; y <= y0+2; y++ {
			scen = append(scen, scenario{sky, y})
		}
	}
	var bad []string
	problems := map[string]bool{}
	n := 0
	// one walk per scenario serves both rules (and every property they are registered under)
	type scenRun struct {
		got      []monthRec
		terms    map[int64]float64
		outcome  string
		fail     string
		problems []string
	}
	cacheKey := fmt.Sprintf("%p", c)
	runs, cached := computeRunsCache[cacheKey].([]scenRun)
	if !cached {
		for _, sc := range scen {
			sky, year := sc.sky, sc.year
			problems := map[string]bool{}
			var got []monthRec
			termsGot := map[int64]float64{}
			var leaf leafX
			floats := func(fr *evalFrame, args []ssa.Value) ([]float64, bool) {
				var out []float64
				for _, a := range args {
					o, ok := evalWith(fr, a, leaf)
					switch t := o.(type) {
					case float64:
						out = append(out, t)
					case int64:
						out = append(out, float64(t))
					default:
						return nil, false
					}
					if !ok {
						return nil, false
					}
				}
				return out, true
			}
			leaf = func(fr *evalFrame, v ssa.Value) (interface{}, bool) {
				if rc, f, ok := getterField(c, v); ok {
					if ofr, o := fr.origin(rc); ofr.parent == nil && o == ssa.Value(fn.Params[0]) {
						switch f {
						case "LunarYear.year":
							return year, true
						case "LunarYear.months":
							return absPtr{"months", false}, true
						}
					}
				}
				call, ok := v.(*ssa.Call)
				if !ok || call.Common().StaticCallee() == nil {
					return nil, false
				}
				args := call.Common().Args
				switch fname(call.Common().StaticCallee()) {
				case "ShouXingUtil.CalcQi":
					if a, ok := floats(fr, args); ok {
						_, q := sky.termNear(a[0])
						return q, true
					}
					return nil, false
				case "ShouXingUtil.CalcShuo":
					if a, ok := floats(fr, args); ok {
						_, m := sky.moonNear(a[0])
						return m, true
					}
					return nil, false
				case "ShouXingUtil.QiAccurate2":
					if a, ok := floats(fr, args); ok {
						_, q := sky.termNear(a[0])
						return q + 0.125, true
					}
					return nil, false
				case "calendar.NewLunarMonth":
					if a, ok := floats(fr, args); ok && len(a) == 5 {
						got = append(got, monthRec{int64(a[0]), int64(a[1]), int64(a[2]), a[3], int64(a[4])})
						return absPtr{"month", false}, true
					}
					problems["a month record is built from values that cannot be followed"] = true
					return nil, false
				}
				return nil, false
			}
			ev := &evaluator{inline: inlineLibrary, leaf: leaf, counted: 4096}
			// the term table: the slice that ends up in lunarYear.jieQiJulianDays, filled element by element — through the
			// field or through a local that is stored into the field
			bySlice := map[ssa.Value]map[int64]float64{}
			var fieldSrc []ssa.Value
			ev.onStore = func(fr *evalFrame, st *ssa.Store, val interface{}, ok bool) {
				if _, f, isF := getterField(c, st.Addr); isF && f == "LunarYear.jieQiJulianDays" {
					return
				}
				if fa, isFA := st.Addr.(*ssa.FieldAddr); isFA && fieldKeyOf(fa) == "LunarYear.jieQiJulianDays" {
					_, src := fr.origin(st.Val)
					fieldSrc = append(fieldSrc, src)
					return
				}
				ia, isIA := st.Addr.(*ssa.IndexAddr)
				if !isIA || !isFloatType(st.Val.Type()) {
					return
				}
				var key ssa.Value
				if _, f, isF := getterField(c, ia.X); isF && f == "LunarYear.jieQiJulianDays" {
					key = nil // through the field
				} else if _, isLocalArr := localArrayOf(ia.X); isLocalArr {
					return // a local work array (estimates, new moons)
				} else {
					_, key = fr.origin(ia.X)
				}
				iv, ok2 := ev.eval(fr, ia.Index, 0)
				i, isI := iv.(int64)
				fv, isFl := val.(float64)
				if !ok || !ok2 || !isI || !isFl {
					problems["a store into a table of instants cannot be followed"] = true
					return
				}
				if bySlice[key] == nil {
					bySlice[key] = map[int64]float64{}
				}
				bySlice[key][i] = fv
			}
			ev.visit = func(fr *evalFrame, call *ssa.Call) {
				// the month handed to the list is read where it is pushed
				callee := call.Common().StaticCallee()
				if callee != nil && strings.HasPrefix(callee.String(), "(*container/list.List).Push") && len(call.Common().Args) == 2 {
					ev.eval(fr, unwrapIface(call.Common().Args[1]), 0)
				}
			}
			_, outcome := ev.run(fn, nil, nil, nil, nil)
			for k, v := range bySlice[nil] {
				termsGot[k] = v
			}
			for _, src := range fieldSrc {
				for k, v := range bySlice[src] {
					termsGot[k] = v
				}
			}
			runs = append(runs, scenRun{got, termsGot, outcome, ev.fail, sortedKeys(problems)})
			if outcome != "return" || len(problems) > 0 {
				break // the same trouble in every scenario
			}
		}
		computeRunsCache[cacheKey] = runs
	}
	for i, run := range runs {
		if len(bad) >= 4 || len(problems) > 0 {
			break
		}
		sky, year := scen[i].sky, scen[i].year
		got, termsGot, outcome := run.got, run.terms, run.outcome
		for _, p := range run.problems {
			problems[p] = true
		}
		n++
		if outcome != "return" {
			problems["the function could not be followed: "+outcome+" "+run.fail] = true
			continue
		}
		want, terms := statedMonths(sky, year, leap11, leap12)
		if !months {
			want, got = nil, nil
		} else {
			terms = nil
		}
		if len(got) != len(want) {
			bad = append(bad, fmt.Sprintf("year %d (%s): %d months listed, stated %d", year, sky, len(got), len(want)))
			continue
		}
		for i := range want {
			if got[i] != want[i] {
				bad = append(bad, fmt.Sprintf("year %d (%s), lunation %d: %s, stated %s", year, sky, i, got[i], want[i]))
				break
			}
		}
		for i, t := range terms {
			if g, ok := termsGot[int64(i)]; !ok || g != t {
				bad = append(bad, fmt.Sprintf("year %d: term-table entry %d is %v (stored: %v), stated %v", year, i, g, ok, t))
				break
			}
		}
	}
	for p := range problems {
		bad = append(bad, p)
	}
	sort.Strings(bad)
	construct := "calendar.(*LunarYear).compute builds the stated month table"
	if !months {
		construct = "calendar.(*LunarYear).compute fills the term table with the accurate instants of its estimates"
	}
	r.check(len(bad) == 0 && n == len(scen), rule, construct, c.fnPos(fn), fmt.Sprintf("%d of %d (sky, year) scenarios followed; deviations: %v", n, len(scen), headList(bad, 3)))
}

var computeRunsCache = map[string]interface{}{}

// R06.6 — LunarMonth.Next on year tables the checker supplies.
func r06_6(c *Ctx, r *Report) {
	const rule = "R06.6"
	r.rule(rule, "Moving n months reaches the month n places on. LunarMonth.Next(n) is followed by the evaluator (its nested loops as tables over the iteration number; lists as positions in a table) with NewLunarYear(y) answering with the stated month table of year y on a synthetic ephemeris (the tables of R06.5, which agree on the months neighbouring years share): from every month of its own year, for a common year, a leap year and the years beside them, and for n in 0, ±1, ±2, ±5, ±12, ±13, ±14, ±27, the month returned is the one n places further along the single sequence of months — same year label, same month number, same first day — and a table of the year it is labelled with or of a neighbour holds it.")
	fn := c.Fn(r, rule, "calendar.(*LunarMonth).Next")
	if fn == nil || len(fn.Params) != 2 {
		return
	}
	sky := synthSky{moonAnchor: 11}
	tables := map[int64][]monthRec{}
	table := func(y int64) []monthRec {
		if t, ok := tables[y]; ok {
			return t
		}
		t, _ := statedMonths(sky, y, nil, nil)
		tables[y] = t
		return t
	}
	// a run of years whose stated tables agree on the months they share (where a leap month falls at the very
	// start or end of a table the real calendar needs its explicit override years; such years are left out here)
	agree := func(y int64) bool { // tables y and y+1
		byFirst := map[float64]monthRec{}
		for _, m := range table(y) {
			byFirst[m.first] = m
		}
		for _, m := range table(y + 1) {
			if old, ok := byFirst[m.first]; ok && (old.year != m.year || old.month != m.month || old.days != m.days) {
				return false
			}
		}
		return true
	}
	lo, hi := int64(0), int64(-1)
	for y := int64(1950); y < 2100; {
		e := y
		for e < 2100 && agree(e) {
			e++
		}
		if e-y > hi-lo {
			lo, hi = y, e
		}
		y = e + 1
	}
	if hi-lo < 9 {
		r.bad(rule, "a run of years whose stated tables agree", c.fnPos(fn), fmt.Sprintf("the longest run on the synthetic sky has %d years: too short to apply the rule", hi-lo+1))
		return
	}
	// the single sequence of months, by first day
	seq := map[float64]monthRec{}
	var firsts []float64
	for y := lo; y <= hi; y++ {
		for _, m := range table(y) {
			if _, ok := seq[m.first]; ok {
				continue
			}
			seq[m.first] = m
			firsts = append(firsts, m.first)
		}
	}
	sort.Float64s(firsts)
	posOf := map[float64]int{}
	for i, f := range firsts {
		posOf[f] = i
	}
	parse := func(tag, kind string) (int64, int64, bool) {
		var y, i int64
		if n, err := fmt.Sscanf(tag, kind+":%d:%d", &y, &i); err == nil && n == 2 {
			return y, i, true
		}
		return 0, 0, false
	}
	var bad []string
	problems := map[string]bool{}
	n := 0
	leapSeen, commonSeen := false, false
	for y0 := lo + 3; y0 <= hi-3 && y0 < lo+13 && len(bad) < 4 && len(problems) == 0; y0++ {
		own := 0
		for _, m := range table(y0) {
			if m.year == y0 {
				own++
			}
		}
		if own == 13 {
			leapSeen = true
		} else {
			commonSeen = true
		}
		for _, start := range table(y0) {
			if start.year != y0 {
				continue
			}
			for _, steps := range []int64{0, 1, 2, 5, 12, 13, 14, 27, -1, -2, -5, -12, -13, -14, -27} {
				var leaf leafX
				ptr := func(fr *evalFrame, v ssa.Value) (string, bool) {
					o, ok := evalWith(fr, v, leaf)
					p, isP := o.(absPtr)
					return p.tag, ok && isP && !p.isNil
				}
				leaf = func(fr *evalFrame, v ssa.Value) (interface{}, bool) {
					if fr.parent == nil && v == ssa.Value(fn.Params[1]) {
						return steps, true
					}
					if rc, f, ok := getterField(c, v); ok {
						if ofr, o := fr.origin(rc); ofr.parent == nil && o == ssa.Value(fn.Params[0]) {
							switch f {
							case "LunarMonth.year":
								return start.year, true
							case "LunarMonth.month":
								return start.month, true
							}
							return nil, false
						}
						tag, ok := ptr(fr, rc)
						if !ok {
							return nil, false
						}
						_, isCall := v.(*ssa.Call)
						switch f {
						case "List.len", "List.root", "Element.next", "Element.prev":
							if !isCall {
								return nil, false
							}
							// a method of container/list that happens to be a plain getter: read as the list operation below
							goto calls
						case "LunarYear.months":
							if y, _, ok := parse(tag+":0", "year"); ok {
								return absPtr{fmt.Sprintf("months:%d:0", y), false}, true
							}
						case "LunarMonth.year", "LunarMonth.month", "LunarMonth.index", "LunarMonth.dayCount", "LunarMonth.firstJulianDay":
							if y, i, ok := parse(tag, "month"); ok && i >= 0 && int(i) < len(table(y)) {
								switch f {
								case "LunarMonth.year":
									return table(y)[i].year, true
								case "LunarMonth.month":
									return table(y)[i].month, true
								case "LunarMonth.index":
									return table(y)[i].index, true
								case "LunarMonth.dayCount":
									return table(y)[i].days, true
								}
								return table(y)[i].first, true
							}
						case "Element.Value":
							if y, i, ok := parse(tag, "elem"); ok {
								return absPtr{fmt.Sprintf("month:%d:%d", y, i), false}, true
							}
						}
						return nil, false
					}
				calls:
					call, ok := v.(*ssa.Call)
					if !ok || call.Common().StaticCallee() == nil {
						return nil, false
					}
					args := call.Common().Args
					callee := call.Common().StaticCallee()
					switch callee.String() {
					case "(*container/list.List).Front", "(*container/list.List).Back", "(*container/list.List).Len":
						tag, ok := ptr(fr, args[0])
						y, _, ok2 := parse(tag, "months")
						if !ok || !ok2 {
							return nil, false
						}
						switch callee.Name() {
						case "Len":
							return int64(len(table(y))), true
						case "Front":
							return absPtr{fmt.Sprintf("elem:%d:0", y), false}, true
						}
						return absPtr{fmt.Sprintf("elem:%d:%d", y, len(table(y))-1), false}, true
					case "(*container/list.Element).Next", "(*container/list.Element).Prev":
						tag, ok := ptr(fr, args[0])
						y, i, ok2 := parse(tag, "elem")
						if !ok || !ok2 {
							return nil, false
						}
						if callee.Name() == "Next" {
							i++
						} else {
							i--
						}
						if i < 0 || int(i) >= len(table(y)) {
							return absPtr{"nil", true}, true
						}
						return absPtr{fmt.Sprintf("elem:%d:%d", y, i), false}, true
					}
					switch fname(callee) {
					case "calendar.NewLunarYear":
						if o, ok := evalWith(fr, args[0], leaf); ok {
							if y, isI := o.(int64); isI && y >= lo && y <= hi {
								return absPtr{fmt.Sprintf("year:%d", y), false}, true
							}
						}
						return nil, false
					case "calendar.NewLunarMonthFromYm":
						yo, ok1 := evalWith(fr, args[0], leaf)
						mo, ok2 := evalWith(fr, args[1], leaf)
						y, isY := yo.(int64)
						m, isM := mo.(int64)
						if ok1 && ok2 && isY && isM {
							for i, rec := range table(y) {
								if rec.year == y && rec.month == m {
									return absPtr{fmt.Sprintf("month:%d:%d", y, i), false}, true
								}
							}
							return absPtr{"nil", true}, true
						}
						return nil, false
					}
					return nil, false
				}
				ev := &evaluator{inline: inlineLibrary, leaf: leaf, counted: 4096}
				res, outcome := ev.run(fn, nil, nil, nil, nil)
				n++
				target := posOf[start.first] + int(steps)
				if target < 0 || target >= len(firsts) {
					continue
				}
				want := seq[firsts[target]]
				if outcome != "return" || len(res) != 1 {
					problems["the function could not be followed: "+outcome+" "+ev.fail] = true
					continue
				}
				p, isP := res[0].(absPtr)
				ty, ti, okP := parse(p.tag, "month")
				if !isP || p.isNil || !okP {
					bad = append(bad, fmt.Sprintf("from %d-%d by %+d: no month is returned (%v), stated %d-%d", start.year, start.month, steps, res[0], want.year, want.month))
					continue
				}
				got := table(ty)[ti]
				if got.year != want.year || got.month != want.month || got.first != want.first {
					bad = append(bad, fmt.Sprintf("from %d-%d by %+d: %d-%d (first day %.0f), stated %d-%d (first day %.0f)", start.year, start.month, steps, got.year, got.month, got.first, want.year, want.month, want.first))
				}
			}
		}
	}
	for p := range problems {
		bad = append(bad, p)
	}
	sort.Strings(bad)
	r.check(len(bad) == 0 && n > 1500 && leapSeen && commonSeen, rule, "calendar.(*LunarMonth).Next(n) reaches the month n places on", c.fnPos(fn), fmt.Sprintf("%d cases (start month x n) over years with 12 and with 13 months; deviations: %v", n, headList(bad, 3)))
}
