package main

// R06.5 — the construction of a year's month table, followed on a synthetic ephemeris.

import (
	"fmt"
	"math"
	"sort"
	"strings"

	"golang.org/x/tools/go/ssa"
)

// synthetic ephemeris: terms every 15.2184 days on a grid through day 355 (a winter solstice), new moons
// every 29.5306 days on a grid through a chosen anchor; both as whole day numbers (relative to J2000).
type synthSky struct {
	moonAnchor float64
}

func (s synthSky) term(k int64) float64 { return math.Floor(355 + 15.2184*float64(k)) }
func (s synthSky) moon(k int64) float64 { return s.moonAnchor + math.Floor(29.5306*float64(k)) }
func (s synthSky) termNear(x float64) (int64, float64) {
	k := int64(math.Round((x - 355) / 15.2184))
	return k, s.term(k)
}
func (s synthSky) moonNear(x float64) (int64, float64) {
	k := int64(math.Round((x - s.moonAnchor) / 29.5306))
	return k, s.moon(k)
}

type monthRec struct {
	year, month, days int64
	first             float64
	index             int64
}

func (m monthRec) String() string {
	return fmt.Sprintf("(%d, %d, %d days, first day %.0f, #%d)", m.year, m.month, m.days, m.first, m.index)
}

// statedMonths: the month table of year y as the property states it, from the synthetic sky: fifteen
// lunations from the new moon at or before the winter solstice before the year's middle; twelve named
// 11, 12, 1 .. 10, 11(, 12); when thirteen new moons precede the next winter solstice, the first lunation
// after the first that holds no major term repeats its predecessor's number as a leap month (explicit
// override years aside); the year label turns over where the number drops; the index counts on within a
// year; the two historical renaming eras shift the names by one and close with a month 12 stored as -11.
func statedMonths(s synthSky, y int64, leap11, leap12 map[int64]bool) (recs []monthRec, terms []float64) {
	const j2000 = 2451545
	jd := math.Floor(float64(y-2000)*365.2422 + 180)
	// the winter solstice at or before that day
	k0, q := s.termNear(math.Floor((jd-355+183)/365.2422)*365.2422 + 355)
	if q > jd {
		k0, q = s.termNear(q - 365.2422)
	}
	jq := func(i int64) float64 { return s.term(k0 + i) }
	h0, m0 := s.moonNear(jq(0))
	if m0 > jq(0) {
		h0, m0 = s.moonNear(m0 - 29.53)
	}
	_ = m0
	hs := func(i int64) float64 { return s.moon(h0 + i) }
	// term table entries: the accurate instant (marker: + 0.125) of the term before estimate i
	for i := int64(0); i < 31; i++ {
		terms = append(terms, jq(i-1)+0.125+j2000)
	}
	leap := int64(16)
	switch {
	case leap11[y]:
		leap = 13
	case leap12[y]:
		leap = 14
	case hs(13) <= jq(24):
		// thirteen new moons before the next winter solstice: the first lunation (after the first) without a major term
		for i := int64(1); i <= 13; i++ {
			has := false
			for k := int64(0); k <= 26; k += 2 {
				if hs(i) <= jq(k) && jq(k) < hs(i+1) {
					has = true
				}
			}
			if !has || i == 13 {
				leap = i
				break
			}
		}
	}
	names := []int64{11, 12, 1, 2, 3, 4, 5, 6, 7, 8, 9, 10}
	year, prev, index := y-1, int64(-1), int64(-1)
	for i := int64(0); i < 15; i++ {
		dm := hs(i) + j2000
		v := i
		if i >= leap {
			v = i - 1
		}
		mc := names[v%12]
		seam := dm == 1729794 || dm == 1808699
		switch {
		case (1724360 <= dm && dm < 1729794) || (1807724 <= dm && dm < 1808699):
			mc = names[(v+1)%12]
		case seam:
			mc = 12
		}
		if prev == -1 {
			index = mc
		} else if mc < prev {
			year++
			index = 1
		}
		prev = mc
		stored := mc
		if i == leap {
			stored = -mc
		} else if seam {
			stored = -11
		}
		recs = append(recs, monthRec{year, stored, int64(hs(i+1) - hs(i)), dm, index})
		index++
	}
	return recs, terms
}

func r06_5(c *Ctx, r *Report) { computeTables(c, r, "R06.5", true) }

// R03.10: the same walk, looking at the term table only.
func r03_10(c *Ctx, r *Report) { computeTables(c, r, "R03.10", false) }

func computeTables(c *Ctx, r *Report, rule string, months bool) {
	if !months {
		r.rule(rule, "The term table of a year holds the accurate instants of its estimates. LunarYear.compute is followed as in R06.5 (synthetic ephemeris: terms on a 15.2184-day grid, CalcQi answering with the nearest grid point, QiAccurate2 with a marker): the 31 entries it stores into the table that ends up in jieQiJulianDays are, in order, the accurate instant of the term before the first estimate, of the 26 estimates, and of four more terms extrapolated from the last estimate at 15.2184 days each. That the real ephemeris is right is C02/C03's numeric part.")
	} else {
		r.rule(rule, "The month table of a year is built as stated. LunarYear.compute is followed by the evaluator (its seven loops as tables over the iteration number, local arrays in the walker's memory, helpers inline) on a synthetic ephemeris supplied by the checker — terms on a 15.2184-day grid, new moons on a 29.5306-day grid with several phases, both as whole days; CalcQi and CalcShuo answer with the nearest grid point, QiAccurate2 with a marker — for 60 modern years per phase and for the years around the two historical renaming eras: the fifteen NewLunarMonth records it lists, in order, are (year label, month number, days, first day, index in the year) of the stated table — months 11, 12, 1 .. 10, 11, ... from the new moon at or before the winter solstice; a leap month where thirteen new moons precede the next solstice: the first lunation after the first without a major term (position 1 included), with the number of its predecessor, negative; the year label turning over where the number drops; day counts the differences of consecutive new moons. (The term table filled by the same function is R03.10.) That the real ephemeris is right is C02/C03.")
	}
	fn := c.Fn(r, rule, "calendar.(*LunarYear).compute")
	if fn == nil || len(fn.Params) != 1 {
		return
	}
	set := func(pkg, name string) map[int64]bool {
		out := map[int64]bool{}
		if tv := c.tab(r, rule, pkg, name); tv != nil && tv.Kind == "list" {
			for _, e := range tv.L {
				out[e.I] = true
			}
		}
		return out
	}
	leap11, leap12 := set("calendar", "LEAP_11"), set("calendar", "LEAP_12")
	type scenario struct {
		sky  synthSky
		year int64
	}
	var scen []scenario
	for _, anchor := range []float64{3, 11, 19, 27} {
		for y := int64(1990); y < 2050; y++ {
			scen = append(scen, scenario{synthSky{anchor}, y})
		}
	}
	// the renaming eras: a grid that has a new moon exactly on each closing day
	for _, seam := range []float64{1729794, 1808699} {
		sky := synthSky{seam - 2451545}
		y0 := int64(math.Floor((seam-2451545)/365.2422)) + 2000
		for y := y0 - 2; y <= y0+2; y++ {
			scen = append(scen, scenario{sky, y})
		}
	}
	var bad []string
	problems := map[string]bool{}
	n := 0
	for _, sc := range scen {
		if len(bad) >= 4 || len(problems) > 0 {
			break
		}
		sky, year := sc.sky, sc.year
		var got []monthRec
		termsGot := map[int64]float64{}
		var leaf leafX
		floats := func(fr *evalFrame, args []ssa.Value) ([]float64, bool) {
			var out []float64
			for _, a := range args {
				o, ok := evalWith(fr, a, leaf)
				switch t := o.(type) {
				case float64:
					out = append(out, t)
				case int64:
					out = append(out, float64(t))
				default:
					return nil, false
				}
				if !ok {
					return nil, false
				}
			}
			return out, true
		}
		leaf = func(fr *evalFrame, v ssa.Value) (interface{}, bool) {
			if rc, f, ok := getterField(c, v); ok {
				if ofr, o := fr.origin(rc); ofr.parent == nil && o == ssa.Value(fn.Params[0]) {
					switch f {
					case "LunarYear.year":
						return year, true
					case "LunarYear.months":
						return absPtr{"months", false}, true
					}
				}
			}
			call, ok := v.(*ssa.Call)
			if !ok || call.Common().StaticCallee() == nil {
				return nil, false
			}
			args := call.Common().Args
			switch fname(call.Common().StaticCallee()) {
			case "ShouXingUtil.CalcQi":
				if a, ok := floats(fr, args); ok {
					_, q := sky.termNear(a[0])
					return q, true
				}
				return nil, false
			case "ShouXingUtil.CalcShuo":
				if a, ok := floats(fr, args); ok {
					_, m := sky.moonNear(a[0])
					return m, true
				}
				return nil, false
			case "ShouXingUtil.QiAccurate2":
				if a, ok := floats(fr, args); ok {
					_, q := sky.termNear(a[0])
					return q + 0.125, true
				}
				return nil, false
			case "calendar.NewLunarMonth":
				if a, ok := floats(fr, args); ok && len(a) == 5 {
					got = append(got, monthRec{int64(a[0]), int64(a[1]), int64(a[2]), a[3], int64(a[4])})
					return absPtr{"month", false}, true
				}
				problems["a month record is built from values that cannot be followed"] = true
				return nil, false
			}
			return nil, false
		}
		ev := &evaluator{inline: inlineLibrary, leaf: leaf, counted: 4096}
		// the term table: the slice that ends up in lunarYear.jieQiJulianDays, filled element by element — through the
		// field or through a local that is stored into the field
		bySlice := map[ssa.Value]map[int64]float64{}
		var fieldSrc []ssa.Value
		ev.onStore = func(fr *evalFrame, st *ssa.Store, val interface{}, ok bool) {
			if _, f, isF := getterField(c, st.Addr); isF && f == "LunarYear.jieQiJulianDays" {
				return
			}
			if fa, isFA := st.Addr.(*ssa.FieldAddr); isFA && fieldKeyOf(fa) == "LunarYear.jieQiJulianDays" {
				_, src := fr.origin(st.Val)
				fieldSrc = append(fieldSrc, src)
				return
			}
			ia, isIA := st.Addr.(*ssa.IndexAddr)
			if !isIA || !isFloatType(st.Val.Type()) {
				return
			}
			var key ssa.Value
			if _, f, isF := getterField(c, ia.X); isF && f == "LunarYear.jieQiJulianDays" {
				key = nil // through the field
			} else if _, isLocalArr := localArrayOf(ia.X); isLocalArr {
				return // a local work array (estimates, new moons)
			} else {
				_, key = fr.origin(ia.X)
			}
			iv, ok2 := ev.eval(fr, ia.Index, 0)
			i, isI := iv.(int64)
			fv, isFl := val.(float64)
			if !ok || !ok2 || !isI || !isFl {
				problems["a store into a table of instants cannot be followed"] = true
				return
			}
			if bySlice[key] == nil {
				bySlice[key] = map[int64]float64{}
			}
			bySlice[key][i] = fv
		}
		ev.visit = func(fr *evalFrame, call *ssa.Call) {
			// the month handed to the list is read where it is pushed
			callee := call.Common().StaticCallee()
			if callee != nil && strings.HasPrefix(callee.String(), "(*container/list.List).Push") && len(call.Common().Args) == 2 {
				ev.eval(fr, unwrapIface(call.Common().Args[1]), 0)
			}
		}
		_, outcome := ev.run(fn, nil, nil, nil, nil)
		n++
		if outcome != "return" {
			problems["the function could not be followed: "+outcome+" "+ev.fail] = true
			continue
		}
		want, terms := statedMonths(sky, year, leap11, leap12)
		if !months {
			want, got = nil, nil
		} else {
			terms = nil
		}
		if len(got) != len(want) {
			bad = append(bad, fmt.Sprintf("year %d (new-moon grid through day %.0f): %d months listed, stated %d", year, sky.moonAnchor, len(got), len(want)))
			continue
		}
		for i := range want {
			if got[i] != want[i] {
				bad = append(bad, fmt.Sprintf("year %d (new-moon grid through day %.0f), lunation %d: %s, stated %s", year, sky.moonAnchor, i, got[i], want[i]))
				break
			}
		}
		for k, v := range bySlice[nil] {
			termsGot[k] = v
		}
		for _, src := range fieldSrc {
			for k, v := range bySlice[src] {
				termsGot[k] = v
			}
		}
		for i, t := range terms {
			if g, ok := termsGot[int64(i)]; !ok || g != t {
				bad = append(bad, fmt.Sprintf("year %d: term-table entry %d is %v (stored: %v), stated %v", year, i, g, ok, t))
				break
			}
		}
	}
	for p := range problems {
		bad = append(bad, p)
	}
	sort.Strings(bad)
	construct := "calendar.(*LunarYear).compute builds the stated month table"
	if !months {
		construct = "calendar.(*LunarYear).compute fills the term table with the accurate instants of its estimates"
	}
	r.check(len(bad) == 0 && n == len(scen), rule, construct, c.fnPos(fn), fmt.Sprintf("%d of %d (sky, year) scenarios followed; deviations: %v", n, len(scen), headList(bad, 3)))
}
