package main

// E11b — affine forms with rational coefficients over the parameters of a function, read off the
// expression that computes a value (helpers with one return inline; what is not affine — a
// truncation, a merge, an opaque call — is an atom of its own).

import (
	"fmt"
	"go/constant"
	"go/token"
	"math/big"
	"sort"
	"strings"

	"golang.org/x/tools/go/ssa"
)

type ratForm struct {
	coef map[string]*big.Rat
	k    *big.Rat
}

func ratConst(k *big.Rat) ratForm { return ratForm{coef: map[string]*big.Rat{}, k: k} }
func ratVar(n string) ratForm {
	return ratForm{coef: map[string]*big.Rat{n: big.NewRat(1, 1)}, k: new(big.Rat)}
}

func (a ratForm) isConst() bool { return len(a.coef) == 0 }

func (a ratForm) scale(s *big.Rat) ratForm {
	out := ratForm{coef: map[string]*big.Rat{}, k: new(big.Rat).Mul(a.k, s)}
	for n, c := range a.coef {
		if v := new(big.Rat).Mul(c, s); v.Sign() != 0 {
			out.coef[n] = v
		}
	}
	return out
}

func (a ratForm) add(b ratForm) ratForm {
	out := ratForm{coef: map[string]*big.Rat{}, k: new(big.Rat).Add(a.k, b.k)}
	for n, c := range a.coef {
		out.coef[n] = new(big.Rat).Set(c)
	}
	for n, c := range b.coef {
		if o, ok := out.coef[n]; ok {
			o.Add(o, c)
			if o.Sign() == 0 {
				delete(out.coef, n)
			}
		} else {
			out.coef[n] = new(big.Rat).Set(c)
		}
	}
	return out
}

func (a ratForm) String() string {
	var ns []string
	for n := range a.coef {
		ns = append(ns, n)
	}
	sort.Strings(ns)
	var parts []string
	for _, n := range ns {
		parts = append(parts, a.coef[n].RatString()+"*"+n)
	}
	if a.k.Sign() != 0 || len(parts) == 0 {
		parts = append(parts, a.k.RatString())
	}
	return strings.Join(parts, " + ")
}

// ratAffineOf: the form of v, read in frame fr (parameters of helper frames are the caller's arguments;
// the parameters of the outermost frame are the variables, by name).
func ratAffineOf(fr *evalFrame, v ssa.Value, depth int) ratForm {
	atom := func() ratForm {
		n := v.Name()
		if v.Parent() != nil {
			n += "@" + v.Parent().Name()
		}
		return ratVar("[" + n + "]")
	}
	if depth > 24 {
		return atom()
	}
	fr, v = fr.origin(v)
	switch x := v.(type) {
	case *ssa.Const:
		if x.Value != nil && (x.Value.Kind() == constant.Int || x.Value.Kind() == constant.Float) {
			if q, ok := new(big.Rat).SetString(x.Value.ExactString()); ok {
				return ratConst(q)
			}
		}
	case *ssa.Parameter:
		if fr.parent == nil {
			return ratVar(x.Name())
		}
	case *ssa.Convert:
		// exact widenings: integer to float, integer to integer, float to float
		if isIntType(x.X.Type()) || (isFloatType(x.X.Type()) && isFloatType(x.Type())) {
			return ratAffineOf(fr, x.X, depth+1)
		}
	case *ssa.ChangeType:
		return ratAffineOf(fr, x.X, depth+1)
	case *ssa.UnOp:
		if x.Op == token.SUB {
			return ratAffineOf(fr, x.X, depth+1).scale(big.NewRat(-1, 1))
		}
	case *ssa.BinOp:
		switch x.Op {
		case token.ADD:
			return ratAffineOf(fr, x.X, depth+1).add(ratAffineOf(fr, x.Y, depth+1))
		case token.SUB:
			return ratAffineOf(fr, x.X, depth+1).add(ratAffineOf(fr, x.Y, depth+1).scale(big.NewRat(-1, 1)))
		case token.MUL:
			l, r := ratAffineOf(fr, x.X, depth+1), ratAffineOf(fr, x.Y, depth+1)
			if l.isConst() {
				return r.scale(l.k)
			}
			if r.isConst() {
				return l.scale(r.k)
			}
		case token.QUO:
			if isFloatType(x.Type()) {
				if r := ratAffineOf(fr, x.Y, depth+1); r.isConst() && r.k.Sign() != 0 {
					return ratAffineOf(fr, x.X, depth+1).scale(new(big.Rat).Inv(r.k))
				}
			}
		}
	case *ssa.Call:
		callee := x.Common().StaticCallee()
		if callee != nil && inlineLibrary(callee) && callee.Signature.Results().Len() == 1 {
			var ret *ssa.Return
			n := 0
			for _, b := range callee.Blocks {
				if r, ok := b.Instrs[len(b.Instrs)-1].(*ssa.Return); ok {
					ret = r
					n++
				}
			}
			if n == 1 && len(ret.Results) == 1 {
				return ratAffineOf(&evalFrame{fn: callee, parent: fr, call: x}, ret.Results[0], depth+1)
			}
		}
	}
	return atom()
}

func ratCoefString(a ratForm, n string) string {
	if c, ok := a.coef[n]; ok {
		return c.RatString()
	}
	return "0"
}

var _ = fmt.Sprintf
