package main

// E11b — affine forms with rational coefficients over the parameters of a function, read off the
// expression that computes a value (helpers with one return inline; what is not affine — a
// truncation, a merge, an opaque call — is an atom of its own).

import (
	"fmt"
	"go/constant"
	"go/token"
	"math/big"
	"sort"
	"strings"

	"golang.org/x/tools/go/ssa"
)

type ratForm struct {
	coef map[string]*big.Rat
	k    *big.Rat
}

func ratConst(k *big.Rat) ratForm { return ratForm{coef: map[string]*big.Rat{}, k: k} }
func ratVar(n string) ratForm {
	return ratForm{coef: map[string]*big.Rat{n: big.NewRat(1, 1)}, k: new(big.Rat)}
}

func (a ratForm) isConst() bool { return len(a.coef) == 0 }

func (a ratForm) scale(s *big.Rat) ratForm {
	out := ratForm{coef: map[string]*big.Rat{}, k: new(big.Rat).Mul(a.k, s)}
	for n, c := range a.coef {
		if v := new(big.Rat).Mul(c, s); v.Sign() != 0 {
			out.coef[n] = v
		}
	}
	return out
}

func (a ratForm) add(b ratForm) ratForm {
	out := ratForm{coef: map[string]*big.Rat{}, k: new(big.Rat).Add(a.k, b.k)}
	for n, c := range a.coef {
		out.coef[n] = new(big.Rat).Set(c)
	}
	for n, c := range b.coef {
		if o, ok := out.coef[n]; ok {
			o.Add(o, c)
			if o.Sign() == 0 {
				delete(out.coef, n)
			}
		} else {
			out.coef[n] = new(big.Rat).Set(c)
		}
	}
	return out
}

func (a ratForm) String() string {
	var ns []string
	for n := range a.coef {
		ns = append(ns, n)
	}
	sort.Strings(ns)
	var parts []string
	for _, n := range ns {
		parts = append(parts, a.coef[n].RatString()+"*"+n)
	}
	if a.k.Sign() != 0 || len(parts) == 0 {
		parts = append(parts, a.k.RatString())
	}
	return strings.Join(parts, " + ")
}

// ratAffineOf: the form of v, read in frame fr (parameters of helper frames are the caller's arguments;
// the parameters of the outermost frame are the variables, by name).
func ratAffineOf(fr *evalFrame, v ssa.Value, depth int) ratForm {
	atom := func() ratForm {
		n := v.Name()
		if v.Parent() != nil {
			n += "@" + v.Parent().Name()
		}
		return ratVar("[" + n + "]")
	}
	if depth > 24 {
		return atom()
	}
	fr, v = fr.origin(v)
	switch x := v.(type) {
	case *ssa.Const:
		if x.Value != nil && (x.Value.Kind() == constant.Int || x.Value.Kind() == constant.Float) {
			if q, ok := new(big.Rat).SetString(x.Value.ExactString()); ok {
				return ratConst(q)
			}
		}
	case *ssa.Parameter:
		if fr.parent == nil {
			return ratVar(x.Name())
		}
	case *ssa.Convert:
		// exact widenings: integer to float, integer to integer, float to float
		if isIntType(x.X.Type()) || (isFloatType(x.X.Type()) && isFloatType(x.Type())) {
			return ratAffineOf(fr, x.X, depth+1)
		}
	case *ssa.ChangeType:
		return ratAffineOf(fr, x.X, depth+1)
	case *ssa.UnOp:
		if x.Op == token.SUB {
			return ratAffineOf(fr, x.X, depth+1).scale(big.NewRat(-1, 1))
		}
	case *ssa.BinOp:
		switch x.Op {
		case token.ADD:
			return ratAffineOf(fr, x.X, depth+1).add(ratAffineOf(fr, x.Y, depth+1))
		case token.SUB:
			return ratAffineOf(fr, x.X, depth+1).add(ratAffineOf(fr, x.Y, depth+1).scale(big.NewRat(-1, 1)))
		case token.MUL:
			l, r := ratAffineOf(fr, x.X, depth+1), ratAffineOf(fr, x.Y, depth+1)
			if l.isConst() {
				return r.scale(l.k)
			}
			if r.isConst() {
				return l.scale(r.k)
			}
		case token.QUO:
			if isFloatType(x.Type()) {
				if r := ratAffineOf(fr, x.Y, depth+1); r.isConst() && r.k.Sign() != 0 {
					return ratAffineOf(fr, x.X, depth+1).scale(new(big.Rat).Inv(r.k))
				}
			}
		}
	case *ssa.Call:
		callee := x.Common().StaticCallee()
		if callee != nil && inlineLibrary(callee) && callee.Signature.Results().Len() == 1 {
			var ret *ssa.Return
			n := 0
			for _, b := range callee.Blocks {
				if r, ok := b.Instrs[len(b.Instrs)-1].(*ssa.Return); ok {
					ret = r
					n++
				}
			}
			if n == 1 && len(ret.Results) == 1 {
				return ratAffineOf(&evalFrame{fn: callee, parent: fr, call: x}, ret.Results[0], depth+1)
			}
		}
	}
	return atom()
}

func ratCoefString(a ratForm, n string) string {
	if c, ok := a.coef[n]; ok {
		return c.RatString()
	}
	return "0"
}

var _ = fmt.Sprintf

// ---- polynomial forms ----

// polyForm: a polynomial with rational coefficients over atoms (values that are not sums, differences,
// products or quotients by a constant of other values): monomial (sorted atom names joined by "·", "" for
// the constant term) -> coefficient.
type polyForm map[string]*big.Rat

func polyConst(k *big.Rat) polyForm {
	if k.Sign() == 0 {
		return polyForm{}
	}
	return polyForm{"": new(big.Rat).Set(k)}
}

func (a polyForm) add(b polyForm, sign int64) polyForm {
	out := polyForm{}
	for m, c := range a {
		out[m] = new(big.Rat).Set(c)
	}
	s := big.NewRat(sign, 1)
	for m, c := range b {
		v := new(big.Rat).Mul(c, s)
		if o, ok := out[m]; ok {
			o.Add(o, v)
			if o.Sign() == 0 {
				delete(out, m)
			}
		} else if v.Sign() != 0 {
			out[m] = v
		}
	}
	return out
}

func mulMono(a, b string) string {
	var parts []string
	for _, m := range []string{a, b} {
		if m != "" {
			parts = append(parts, strings.Split(m, "·")...)
		}
	}
	sort.Strings(parts)
	return strings.Join(parts, "·")
}

func (a polyForm) mul(b polyForm) polyForm {
	out := polyForm{}
	for m1, c1 := range a {
		for m2, c2 := range b {
			m := mulMono(m1, m2)
			v := new(big.Rat).Mul(c1, c2)
			if o, ok := out[m]; ok {
				o.Add(o, v)
				if o.Sign() == 0 {
					delete(out, m)
				}
			} else {
				out[m] = v
			}
		}
	}
	return out
}

func (a polyForm) String() string {
	var ms []string
	for m := range a {
		ms = append(ms, m)
	}
	sort.Strings(ms)
	var parts []string
	for _, m := range ms {
		if m == "" {
			parts = append(parts, a[m].RatString())
		} else {
			parts = append(parts, a[m].RatString()+"·"+m)
		}
	}
	if len(parts) == 0 {
		return "0"
	}
	return strings.Join(parts, " + ")
}

// polyEnv names atoms: elements of literal package tables by table and index form, quotients by their
// numerator and denominator (recorded in quot for the rule to look at), anything else by its SSA name.
type polyEnv struct {
	fn     *ssa.Function
	quot   map[string][2]polyForm
	quotID map[string]string
	memo   map[ssa.Value]polyForm
}

func (e *polyEnv) of(v ssa.Value, depth int) polyForm {
	if p, ok := e.memo[v]; ok {
		return p
	}
	p := e.of1(v, depth)
	e.memo[v] = p
	return p
}

func (e *polyEnv) atom(name string) polyForm { return polyForm{name: big.NewRat(1, 1)} }

func (e *polyEnv) of1(v ssa.Value, depth int) polyForm {
	name := func() string { return "[" + v.Name() + "]" }
	if depth > 40 {
		return e.atom(name())
	}
	switch x := v.(type) {
	case *ssa.Const:
		if x.Value != nil && (x.Value.Kind() == constant.Int || x.Value.Kind() == constant.Float) {
			if q, ok := new(big.Rat).SetString(x.Value.ExactString()); ok {
				return polyConst(q)
			}
		}
	case *ssa.Parameter:
		return e.atom(x.Name())
	case *ssa.Convert:
		if isIntType(x.X.Type()) || (isFloatType(x.X.Type()) && isFloatType(x.Type())) {
			return e.of(x.X, depth+1)
		}
	case *ssa.UnOp:
		if x.Op == token.SUB {
			return polyForm{}.add(e.of(x.X, depth+1), -1)
		}
		if x.Op == token.MUL {
			if ia, ok := x.X.(*ssa.IndexAddr); ok {
				if ld, ok := ia.X.(*ssa.UnOp); ok && ld.Op == token.MUL {
					if g, ok := ld.X.(*ssa.Global); ok {
						idx := ratAffineOf(&evalFrame{fn: e.fn}, ia.Index, 0)
						return e.atom(gname(g) + "[" + idx.String() + "]")
					}
				}
			}
		}
	case *ssa.BinOp:
		switch x.Op {
		case token.ADD:
			return e.of(x.X, depth+1).add(e.of(x.Y, depth+1), 1)
		case token.SUB:
			return e.of(x.X, depth+1).add(e.of(x.Y, depth+1), -1)
		case token.MUL:
			return e.of(x.X, depth+1).mul(e.of(x.Y, depth+1))
		case token.QUO:
			if !isFloatType(x.Type()) {
				break
			}
			num, den := e.of(x.X, depth+1), e.of(x.Y, depth+1)
			if len(den) == 1 {
				if k, ok := den[""]; ok && k.Sign() != 0 {
					return num.mul(polyConst(new(big.Rat).Inv(k)))
				}
			}
			desc := "(" + num.String() + ")/(" + den.String() + ")"
			if e.quotID == nil {
				e.quotID = map[string]string{}
			}
			n, seen := e.quotID[desc]
			if !seen {
				n = fmt.Sprintf("q%d", len(e.quotID)+1) // an opaque name: monomials are joined strings
				e.quotID[desc] = n
			}
			e.quot[n] = [2]polyForm{num, den}
			return e.atom(n)
		}
	}
	return e.atom(name())
}
