package main

// R09.1, once-initialised package variables: a variable written only inside the function given to
// one package-level sync.Once's Do, by a function that takes no input, and read only where that
// Do has already been called, is a constant to every caller (sync.Once orders the build before
// every return of Do), so results cannot depend on call history through it.

import (
	"fmt"
	"sort"
	"strings"

	"golang.org/x/tools/go/ssa"
)

// onceKey names the sync.Once a Do call is made on when it is a package-level variable (or a field of one).
func onceKey(v ssa.Value) string {
	switch x := v.(type) {
	case *ssa.Global:
		return gname(x)
	case *ssa.FieldAddr:
		if g, ok := x.X.(*ssa.Global); ok {
			return fmt.Sprintf("%s.#%d", gname(g), x.Field)
		}
	}
	return ""
}

// onceDoCalls lists, per function given to (*sync.Once).Do, the Do call sites.
func (c *Ctx) onceDoCalls() map[*ssa.Function][]*ssa.Call {
	out := map[*ssa.Function][]*ssa.Call{}
	for _, fn := range c.Funcs {
		for _, b := range fn.Blocks {
			for _, ins := range b.Instrs {
				call, ok := ins.(*ssa.Call)
				if !ok {
					continue
				}
				callee := call.Common().StaticCallee()
				if callee == nil || callee.String() != "(*sync.Once).Do" || len(call.Common().Args) != 2 {
					continue
				}
				var f *ssa.Function
				switch v := call.Common().Args[1].(type) {
				case *ssa.MakeClosure:
					f, _ = v.Fn.(*ssa.Function)
				case *ssa.Function:
					f = v
				}
				if f != nil {
					out[f] = append(out[f], call)
				}
			}
		}
	}
	return out
}

func within(fn, outer *ssa.Function) bool {
	for f := fn; f != nil; f = f.Parent() {
		if f == outer {
			return true
		}
	}
	return false
}

// onceBuilt decides whether g, written at the given sites, is a once-initialised variable.
func (c *Ctx) onceBuilt(g *ssa.Global, ws []gwrite) (string, bool) {
	if len(ws) == 0 {
		return "", false
	}
	dos := c.onceDoCalls()
	var builder *ssa.Function
	for _, w := range ws {
		f := c.FuncBy[w.via]
		if f == nil {
			return "", false
		}
		if builder != nil && f != builder {
			return "", false
		}
		builder = f
	}
	sites := dos[builder]
	if len(sites) == 0 || len(builder.Params) != 0 || len(builder.FreeVars) != 0 {
		return "", false
	}
	key := ""
	for _, s := range sites {
		k := onceKey(s.Common().Args[0])
		if k == "" || (key != "" && k != key) {
			return "", false
		}
		key = k
	}
	// nothing else calls the builder, and it consults no clock or random source
	for _, fn := range c.Funcs {
		for _, b := range fn.Blocks {
			for _, ins := range b.Instrs {
				if call, ok := ins.(ssa.CallInstruction); ok && call.Common().StaticCallee() == builder {
					return "", false
				}
			}
		}
	}
	for ext := range c.eff.Of(builder).Ext {
		if strings.HasPrefix(ext, "time.Now") || strings.HasPrefix(ext, "math/rand") || strings.HasPrefix(ext, "os.") {
			return "", false
		}
	}
	// every use of g outside the builder follows a Do on the same Once in the same function
	var readers []string
	for _, fn := range c.Funcs {
		if within(fn, builder) || isInit(fn) {
			continue
		}
		for _, b := range fn.Blocks {
			for i, ins := range b.Instrs {
				uses := false
				for _, op := range ins.Operands(nil) {
					if *op == ssa.Value(g) {
						uses = true
					}
				}
				if !uses {
					continue
				}
				dominated := false
				for _, ob := range fn.Blocks {
					for j, oins := range ob.Instrs {
						call, ok := oins.(*ssa.Call)
						if !ok || call.Common().StaticCallee() == nil || call.Common().StaticCallee().String() != "(*sync.Once).Do" || onceKey(call.Common().Args[0]) != key {
							continue
						}
						if (ob == b && j < i) || (ob != b && ob.Dominates(b)) {
							dominated = true
						}
					}
				}
				if !dominated {
					return "", false
				}
				readers = append(readers, fname(fn))
			}
		}
	}
	readers = dedupe(readers)
	sort.Strings(readers)
	return fmt.Sprintf("once-initialised: stored only by %s, which takes no input and runs under %s.Do; every use (in %s) follows that Do, so the variable is a constant to all callers (assuming the builder does not panic part-way)", fname(builder), key, strings.Join(readers, ", ")), true
}

var onceGlobalsCache = map[*Ctx]map[string]bool{}

// onceGlobals: the package variables R09.1 accepts as once-initialised.
func (c *Ctx) onceGlobals() map[string]bool {
	if m, ok := onceGlobalsCache[c]; ok {
		return m
	}
	m := map[string]bool{}
	by := map[string][]gwrite{}
	for _, w := range c.globalWrites() {
		by[w.global] = append(by[w.global], w)
	}
	for _, g := range c.libGlobals() {
		if ws := by[gname(g)]; len(ws) > 0 {
			if _, ok := c.onceBuilt(g, ws); ok {
				m[gname(g)] = true
			}
		}
	}
	onceGlobalsCache[c] = m
	return m
}
