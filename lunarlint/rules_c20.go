package main

// C20 — zodiac signs and weekday-based civil festivals.

import (
	"fmt"
	"go/constant"
	"go/token"
	"math"
	"sort"
	"strings"

	"golang.org/x/tools/go/ssa"
)

func init() {
	register("C20",
		"that a k-th-weekday festival is reported exactly once per year (that needs the weekday arithmetic of C04) and the contents of the festival name tables.",
		r20_1, r20_2, r20_3)
}

func r20_1(c *Ctx, r *Report) {
	const rule = "R20.1"
	r.rule(rule, "Zodiac partition (complete for this function). The if-chain of GetXingZuo is read as index -> set of month*100+day codes by path enumeration with interval constraints; over the 366 valid codes each has exactly one sign, each sign is one cyclically contiguous run, the runs appear in XINGZUO order and start on 3/21, 4/20, 5/21, 6/22, 7/23, 8/23, 9/23, 10/24, 11/23, 12/22, 1/20, 2/19; the function reads only month and day of its receiver.")
	fn := c.Fn(r, rule, "calendar.(*Solar).GetXingZuo")
	if fn == nil {
		return
	}
	reads := c.eff.Of(fn).paramReads(0)
	sort.Strings(reads)
	r.check(equalStrs(reads, []string{".day", ".month"}), rule, "calendar.(*Solar).GetXingZuo reads only month and day", c.fnPos(fn), "receiver fields read: "+strings.Join(reads, " "))
	paths, ok := enumPaths(fn.Blocks[0], nil, 20000)
	construct := "calendar.(*Solar).GetXingZuo partitions the year into the twelve signs"
	if !ok {
		r.bad(rule, construct, c.fnPos(fn), "not loop-free (undecided = fail)")
		return
	}
	// the code variable: m*100 + d
	isCode := func(v ssa.Value) bool {
		s := symExpr(c, v, nil, map[ssa.Value]string{}, 0)
		return s == "((100 * solar.month) + solar.day)" || s == "(solar.day + (100 * solar.month))"
	}
	// the index used for the XINGZUO lookup
	var idxVal ssa.Value
	for _, b := range fn.Blocks {
		for _, ins := range b.Instrs {
			if ia, ok := ins.(*ssa.IndexAddr); ok && isLoadOfTable(ia.X, "SolarUtil.XINGZUO") {
				idxVal = ia.Index
			}
		}
	}
	if idxVal == nil {
		r.bad(rule, construct, c.fnPos(fn), "no lookup XINGZUO[index] found (undecided = fail)")
		return
	}
	dim := []int{31, 29, 31, 30, 31, 30, 31, 31, 30, 31, 30, 31}
	sign := map[int]int{}
	var problems []string
	for m := 1; m <= 12; m++ {
		for d := 1; d <= dim[m-1]; d++ {
			code := int64(m*100 + d)
			feasible := 0
			for pi := range paths {
				p := &paths[pi]
				okp := true
				for _, pc := range p.conds {
					bo, isBin := pc.cond.(*ssa.BinOp)
					if !isBin || !isCode(bo.X) {
						problems = append(problems, "branch condition is not a comparison of month*100+day with a constant: "+pc.cond.String())
						okp = false
						break
					}
					k, isK := constInt(bo.Y)
					if !isK {
						problems = append(problems, "comparison with a non-constant")
						okp = false
						break
					}
					rel := 0
					if code < k {
						rel = -1
					} else if code > k {
						rel = 1
					}
					if cmpHolds(rel, bo.Op) != pc.truth {
						okp = false
						break
					}
				}
				if !okp {
					continue
				}
				feasible++
				iv := p.resolve(idxVal)
				k, isK := constInt(iv)
				if !isK {
					problems = append(problems, "sign index is not a constant on some path")
					continue
				}
				sign[m*100+d] = int(k)
			}
			if feasible != 1 {
				problems = append(problems, fmt.Sprintf("%d-%d selects %d paths", m, d, feasible))
			}
		}
	}
	if len(problems) > 0 {
		sort.Strings(problems)
		r.bad(rule, construct, c.fnPos(fn), strings.Join(headList(dedupe(problems), 4), "; "))
		return
	}
	// runs in calendar order starting 3/21
	starts := [][2]int{{3, 21}, {4, 20}, {5, 21}, {6, 22}, {7, 23}, {8, 23}, {9, 23}, {10, 24}, {11, 23}, {12, 22}, {1, 20}, {2, 19}}
	var order []int
	for m := 3; m <= 12; m++ {
		for d := 1; d <= dim[m-1]; d++ {
			order = append(order, m*100+d)
		}
	}
	for m := 1; m <= 2; m++ {
		for d := 1; d <= dim[m-1]; d++ {
			order = append(order, m*100+d)
		}
	}
	// rotate to start at 3/21
	for i, code := range order {
		if code == 321 {
			order = append(order[i:], order[:i]...)
			break
		}
	}
	var bad []string
	cur := 0
	for i, code := range order {
		if cur+1 < 12 && code == starts[cur+1][0]*100+starts[cur+1][1] {
			cur++
		}
		if sign[code] != cur {
			bad = append(bad, fmt.Sprintf("%d-%d has sign %d, expected %d", code/100, code%100, sign[code], cur))
		}
		_ = i
	}
	r.check(len(bad) == 0 && len(order) == 366, rule, construct, c.fnPos(fn), fmt.Sprintf("366 month-day codes over %d paths; deviations: %v", len(paths), headList(bad, 5)))
	if xs := c.tabStrs(r, rule, "SolarUtil", "XINGZUO"); xs != nil {
		d, e := distinctNonEmpty(xs)
		r.check(len(xs) == 12 && len(d) == 0 && e == 0, rule, "SolarUtil.XINGZUO has twelve distinct names", c.pos(c.tables.pos("SolarUtil", "XINGZUO")), strings.Join(xs, " "))
	}
}

// evalIntExpr evaluates an int/float SSA expression tree for one assignment of its leaves
// (the checker's own arithmetic over a finite domain; no library code runs).
func evalNumExpr(v ssa.Value, leaf func(ssa.Value) (float64, bool), depth int) (float64, bool) {
	if depth > 12 {
		return 0, false
	}
	if x, ok := leaf(v); ok {
		return x, true
	}
	switch x := v.(type) {
	case *ssa.Const:
		if x.Value != nil && (x.Value.Kind() == constant.Int || x.Value.Kind() == constant.Float) {
			f, _ := constant.Float64Val(x.Value)
			return f, true
		}
	case *ssa.Convert:
		f, ok := evalNumExpr(x.X, leaf, depth+1)
		if !ok {
			return 0, false
		}
		if isIntType(x.Type()) {
			return math.Trunc(f), true
		}
		return f, true
	case *ssa.BinOp:
		l, ok1 := evalNumExpr(x.X, leaf, depth+1)
		rr, ok2 := evalNumExpr(x.Y, leaf, depth+1)
		if !ok1 || !ok2 {
			return 0, false
		}
		switch x.Op {
		case token.ADD:
			return l + rr, true
		case token.SUB:
			return l - rr, true
		case token.MUL:
			return l * rr, true
		case token.QUO:
			if rr == 0 {
				return 0, false
			}
			if isIntType(x.Type()) {
				return math.Trunc(l / rr), true
			}
			return l / rr, true
		case token.REM:
			if rr == 0 {
				return 0, false
			}
			return math.Mod(l, rr), true
		}
	case *ssa.Call:
		if callee := x.Common().StaticCallee(); callee != nil {
			switch callee.String() {
			case "math.Ceil":
				f, ok := evalNumExpr(x.Common().Args[0], leaf, depth+1)
				return math.Ceil(f), ok
			case "math.Floor":
				f, ok := evalNumExpr(x.Common().Args[0], leaf, depth+1)
				return math.Floor(f), ok
			}
		}
	}
	return 0, false
}

func r20_2(c *Ctx, r *Report) {
	const rule = "R20.2"
	r.rule(rule, "Festival keys. Fixed-date festivals are looked up under \"%d-%d\" of (month, day); k-th-weekday festivals under \"%d-%d-%d\" of (month, occurrence, weekday) where the occurrence expression equals ceil(day/7) for every day 1..31 (evaluated symbolically over the 31 days); last-weekday festivals under \"%d-0-%d\" exactly when day + 7 > GetDaysOfMonth(year, month) of the receiver's own year and month; the key grammars match the tables (R08.7).")
	fn := c.Fn(r, rule, "calendar.(*Solar).GetFestivals")
	if fn == nil {
		return
	}
	formats := map[string][]string{}
	var occ ssa.Value
	for _, b := range fn.Blocks {
		for _, ins := range b.Instrs {
			if _, f, args, ok := sprintfCall(valueOf(ins)); ok {
				var as []string
				for i, a := range args {
					d := describeArg(c, fn, a)
					as = append(as, d)
					if f == "%d-%d-%d" && i == 1 {
						occ = a
					}
				}
				formats[f] = as
			}
		}
	}
	okFixed := equalStrs(formats["%d-%d"], []string{"p0.month", "p0.day"})
	r.check(okFixed, rule, "calendar.(*Solar).GetFestivals keys fixed-date festivals by month-day", c.fnPos(fn), fmt.Sprintf("%v", formats["%d-%d"]))
	kth := formats["%d-%d-%d"]
	last := formats["%d-0-%d"]
	r.check(len(kth) == 3 && kth[0] == "p0.month" && len(last) == 2 && last[0] == "p0.month", rule, "calendar.(*Solar).GetFestivals keys weekday festivals by month-occurrence-weekday and month-0-weekday", c.fnPos(fn), fmt.Sprintf("k-th: %v; last: %v", kth, last))
	// occurrence == ceil(day/7)
	if occ != nil {
		var bad []string
		for d := 1; d <= 31; d++ {
			got, ok := evalNumExpr(occ, func(v ssa.Value) (float64, bool) {
				if _, f, ok := getterField(c, v); ok && f == "Solar.day" {
					return float64(d), true
				}
				return 0, false
			}, 0)
			want := float64((d + 6) / 7)
			if !ok {
				bad = append(bad, "expression not evaluable")
				break
			}
			if got != want {
				bad = append(bad, fmt.Sprintf("day %d -> %v (expected %v)", d, got, want))
			}
		}
		r.check(len(bad) == 0, rule, "the occurrence index is ceil(day/7)", c.fnPos(fn), fmt.Sprintf("31 days evaluated; deviations: %v", headList(bad, 4)))
	} else {
		r.bad(rule, "the occurrence index is ceil(day/7)", c.fnPos(fn), "occurrence argument not found (undecided = fail)")
	}
	// weekday argument is GetWeek of the receiver
	wk := false
	for _, b := range fn.Blocks {
		for _, ins := range b.Instrs {
			if call, ok := ins.(*ssa.Call); ok && call.Common().StaticCallee() != nil && fname(call.Common().StaticCallee()) == "calendar.(*Solar).GetWeek" && call.Common().Args[0] == ssa.Value(fn.Params[0]) {
				wk = true
			}
		}
	}
	r.check(wk, rule, "the weekday in the key is the receiver's own weekday", c.fnPos(fn), "solar.GetWeek()")
	// last-occurrence test
	lastOK := false
	for _, b := range fn.Blocks {
		iff, ok := b.Instrs[len(b.Instrs)-1].(*ssa.If)
		if !ok {
			continue
		}
		s := symExpr(c, iff.Cond, nil, map[ssa.Value]string{}, 0)
		if s == "((7 + solar.day) > SolarUtil.GetDaysOfMonth(solar.year,solar.month))" {
			lastOK = true
		}
	}
	r.check(lastOK, rule, "the last-occurrence key is used iff day + 7 > days of the month", c.fnPos(fn), "day + 7 > GetDaysOfMonth(year, month) on the receiver's own fields")
}

func r20_3(c *Ctx, r *Report) {
	festivalTables(c, r, "R20.3")
}
