package main

// C20 — zodiac signs and weekday-based civil festivals.

import (
	"fmt"
	"go/constant"
	"go/token"
	"math"
	"sort"
	"strings"

	"golang.org/x/tools/go/ssa"
)

func init() {
	register("C20",
		"that a k-th-weekday festival is reported exactly once per year (that needs the weekday arithmetic of C04) and the contents of the festival name tables.",
		r20_1, r20_3, r20_4, r04_3, r17_5)
}

func r20_1(c *Ctx, r *Report) {
	const rule = "R20.1"
	r.rule(rule, "Zodiac partition (complete for this function). GetXingZuo is followed by the evaluator for each of the 366 valid month-day codes (whatever its form: a chain of comparisons, a switch, a local table of start days walked by a loop), the sign being the position of the returned name in SolarUtil.XINGZUO; over the 366 codes each has exactly one sign, each sign is one cyclically contiguous run, the runs appear in XINGZUO order and start on 3/21, 4/20, 5/21, 6/22, 7/23, 8/23, 9/23, 10/24, 11/23, 12/22, 1/20, 2/19; the function reads only month and day of its receiver.")
	fn := c.Fn(r, rule, "calendar.(*Solar).GetXingZuo")
	if fn == nil {
		return
	}
	reads := c.eff.Of(fn).paramReads(0)
	sort.Strings(reads)
	r.check(equalStrs(reads, []string{".day", ".month"}), rule, "calendar.(*Solar).GetXingZuo reads only month and day", c.fnPos(fn), "receiver fields read: "+strings.Join(reads, " "))
	construct := "calendar.(*Solar).GetXingZuo partitions the year into the twelve signs"
	names := c.tabStrs(r, rule, "SolarUtil", "XINGZUO")
	if len(names) != 12 || len(fn.Params) != 1 {
		r.bad(rule, construct, c.fnPos(fn), "SolarUtil.XINGZUO does not have twelve entries (undecided = fail)")
		return
	}
	dim := []int{31, 29, 31, 30, 31, 30, 31, 31, 30, 31, 30, 31}
	sign := map[int]int{}
	var problems []string
	for m := 1; m <= 12 && len(problems) < 8; m++ {
		for d := 1; d <= dim[m-1] && len(problems) < 8; d++ {
			leaf := func(fr *evalFrame, v ssa.Value) (interface{}, bool) {
				if rc, f, ok := getterField(c, v); ok {
					if ofr, o := fr.origin(rc); ofr.parent == nil && o == ssa.Value(fn.Params[0]) {
						switch f {
						case "Solar.month":
							return int64(m), true
						case "Solar.day":
							return int64(d), true
						}
					}
				}
				return nil, false
			}
			ev := &evaluator{leaf: leaf, inline: inlineLibrary}
			res, outcome := ev.run(fn, nil, nil, nil, nil)
			if outcome != "return" || len(res) != 1 {
				problems = append(problems, fmt.Sprintf("%d-%d: the function could not be followed: %s %s", m, d, outcome, ev.fail))
				continue
			}
			idx := -1
			for i, nm := range names {
				if res[0] == interface{}(nm) {
					idx = i
				}
			}
			if idx < 0 {
				problems = append(problems, fmt.Sprintf("%d-%d: the result %v is not a name of SolarUtil.XINGZUO", m, d, res[0]))
				continue
			}
			sign[m*100+d] = idx
		}
	}
	if len(problems) > 0 {
		sort.Strings(problems)
		r.bad(rule, construct, c.fnPos(fn), strings.Join(headList(dedupe(problems), 4), "; "))
		return
	}
	// runs in calendar order starting 3/21
	starts := [][2]int{{3, 21}, {4, 20}, {5, 21}, {6, 22}, {7, 23}, {8, 23}, {9, 23}, {10, 24}, {11, 23}, {12, 22}, {1, 20}, {2, 19}}
	var order []int
	for m := 3; m <= 12; m++ {
		for d := 1; d <= dim[m-1]; d++ {
			order = append(order, m*100+d)
		}
	}
	for m := 1; m <= 2; m++ {
		for d := 1; d <= dim[m-1]; d++ {
			order = append(order, m*100+d)
		}
	}
	// rotate to start at 3/21
	for i, code := range order {
		if code == 321 {
			order = append(order[i:], order[:i]...)
			break
		}
	}
	var bad []string
	cur := 0
	for i, code := range order {
		if cur+1 < 12 && code == starts[cur+1][0]*100+starts[cur+1][1] {
			cur++
		}
		if sign[code] != cur {
			bad = append(bad, fmt.Sprintf("%d-%d has sign %d, expected %d", code/100, code%100, sign[code], cur))
		}
		_ = i
	}
	r.check(len(bad) == 0 && len(order) == 366, rule, construct, c.fnPos(fn), fmt.Sprintf("366 month-day codes followed; deviations: %v", headList(bad, 5)))
	if xs := c.tabStrs(r, rule, "SolarUtil", "XINGZUO"); xs != nil {
		d, e := distinctNonEmpty(xs)
		r.check(len(xs) == 12 && len(d) == 0 && e == 0, rule, "SolarUtil.XINGZUO has twelve distinct names", c.pos(c.tables.pos("SolarUtil", "XINGZUO")), strings.Join(xs, " "))
	}
}

// evalIntExpr evaluates an int/float SSA expression tree for one assignment of its leaves
// (the checker's own arithmetic over a finite domain; no library code runs).
func evalNumExpr(v ssa.Value, leaf func(ssa.Value) (float64, bool), depth int) (float64, bool) {
	if depth > 12 {
		return 0, false
	}
	if x, ok := leaf(v); ok {
		return x, true
	}
	switch x := v.(type) {
	case *ssa.Const:
		if x.Value != nil && (x.Value.Kind() == constant.Int || x.Value.Kind() == constant.Float) {
			f, _ := constant.Float64Val(x.Value)
			return f, true
		}
	case *ssa.Convert:
		f, ok := evalNumExpr(x.X, leaf, depth+1)
		if !ok {
			return 0, false
		}
		if isIntType(x.Type()) {
			return math.Trunc(f), true
		}
		return f, true
	case *ssa.BinOp:
		l, ok1 := evalNumExpr(x.X, leaf, depth+1)
		rr, ok2 := evalNumExpr(x.Y, leaf, depth+1)
		if !ok1 || !ok2 {
			return 0, false
		}
		switch x.Op {
		case token.ADD:
			return l + rr, true
		case token.SUB:
			return l - rr, true
		case token.MUL:
			return l * rr, true
		case token.QUO:
			if rr == 0 {
				return 0, false
			}
			if isIntType(x.Type()) {
				return math.Trunc(l / rr), true
			}
			return l / rr, true
		case token.REM:
			if rr == 0 {
				return 0, false
			}
			return math.Mod(l, rr), true
		}
	case *ssa.Call:
		if callee := x.Common().StaticCallee(); callee != nil {
			switch callee.String() {
			case "math.Ceil":
				f, ok := evalNumExpr(x.Common().Args[0], leaf, depth+1)
				return math.Ceil(f), ok
			case "math.Floor":
				f, ok := evalNumExpr(x.Common().Args[0], leaf, depth+1)
				return math.Floor(f), ok
			}
		}
	}
	return 0, false
}

func r20_3(c *Ctx, r *Report) {
	festivalTables(c, r, "R20.3")
}

func r20_4(c *Ctx, r *Report) {
	const rule = "R20.4"
	r.rule(rule, "Every festival of the day is listed. Solar.GetFestivals is followed (evaluator, tables folded, appended names collected in order) for every month 1..12, day 1..31, weekday 0..6 and month length 28..31: the list is the fixed-date festival of month-day if there is one, then the festival of the (ceil(day/7))-th such weekday of the month if there is one, then — when day + 7 exceeds the month length — the festival of the last such weekday if there is one: three independent lookups, none of which suppresses another (a fixed-date festival and a weekday festival can fall on one day). This also decides how the lookup keys are composed and from what (a wrongly composed key changes a list). Solar.GetOtherFestivals likewise, for every month-day: the names SolarUtil.OTHER_FESTIVAL records for it, all of them, in the order of the table, and nothing on other days.")
	fn := c.Fn(r, rule, "calendar.(*Solar).GetFestivals")
	fest := c.tabMap(r, rule, "SolarUtil", "FESTIVAL")
	wfest := c.tabMap(r, rule, "SolarUtil", "WEEK_FESTIVAL")
	if fn == nil || len(fn.Params) != 1 || fest == nil || wfest == nil {
		return
	}
	var bad []string
	n := 0
	for m := int64(1); m <= 12; m++ {
		for d := int64(1); d <= 31; d++ {
			for w := int64(0); w < 7; w++ {
				for _, ml := range []int64{28, 29, 30, 31} {
					if d > ml || len(bad) >= 4 {
						continue
					}
					leaf := func(fr *evalFrame, v ssa.Value) (interface{}, bool) {
						if rc, f, ok := getterField(c, v); ok {
							if ofr, o := fr.origin(rc); ofr.parent == nil && o == ssa.Value(fn.Params[0]) {
								switch f {
								case "Solar.year":
									return int64(2023), true
								case "Solar.month":
									return m, true
								case "Solar.day":
									return d, true
								}
							}
						}
						if call, ok := v.(*ssa.Call); ok && call.Common().StaticCallee() != nil {
							switch fname(call.Common().StaticCallee()) {
							case "calendar.(*Solar).GetWeek":
								return w, true
							case "SolarUtil.GetDaysOfMonth":
								return ml, true
							}
							if call.Common().StaticCallee().String() == "container/list.New" {
								return absPtr{"list", false}, true
							}
						}
						return nil, false
					}
					ev := &evaluator{leaf: leaf, inline: inlineLibrary}
					var pushed []string
					ev.collectList(&pushed, func(o interface{}, ok bool) string {
						if !ok {
							return "?"
						}
						return fmt.Sprint(o)
					})
					_, outcome := ev.run(fn, nil, nil, nil, nil)
					n++
					var want []string
					if e, ok := fest.M[fmt.Sprintf("%d-%d", m, d)]; ok {
						want = append(want, e.S)
					}
					if e, ok := wfest.M[fmt.Sprintf("%d-%d-%d", m, (d+6)/7, w)]; ok {
						want = append(want, e.S)
					}
					if d+7 > ml {
						if e, ok := wfest.M[fmt.Sprintf("%d-0-%d", m, w)]; ok {
							want = append(want, e.S)
						}
					}
					got := strings.Join(pushed, ",")
					if outcome != "return" {
						got = outcome + " " + ev.fail
					}
					if got != strings.Join(want, ",") {
						bad = append(bad, fmt.Sprintf("%d-%d on weekday %d in a month of %d days: [%s], stated [%s]", m, d, w, ml, got, strings.Join(want, ",")))
					}
				}
			}
		}
	}
	r.check(len(bad) == 0 && n > 0, rule, "calendar.(*Solar).GetFestivals lists the fixed-date, the n-th weekday and the last weekday festival", c.fnPos(fn), fmt.Sprintf("%d assignments; deviations: %v", n, headList(bad, 3)))
	// the other commemorative days: the entry of month-day, every name of it, in the table's order
	ofn := c.Fn(r, rule, "calendar.(*Solar).GetOtherFestivals")
	other := c.tabMap(r, rule, "SolarUtil", "OTHER_FESTIVAL")
	if ofn == nil || len(ofn.Params) != 1 || other == nil {
		return
	}
	bad, n = nil, 0
	for m := int64(1); m <= 12; m++ {
		for d := int64(1); d <= 31 && len(bad) < 4; d++ {
			leaf := func(fr *evalFrame, v ssa.Value) (interface{}, bool) {
				if rc, f, ok := getterField(c, v); ok {
					if ofr, o := fr.origin(rc); ofr.parent == nil && o == ssa.Value(ofn.Params[0]) {
						switch f {
						case "Solar.year":
							return int64(2023), true
						case "Solar.month":
							return m, true
						case "Solar.day":
							return d, true
						}
					}
				}
				if call, ok := v.(*ssa.Call); ok && call.Common().StaticCallee() != nil && call.Common().StaticCallee().String() == "container/list.New" {
					return absPtr{"list", false}, true
				}
				return nil, false
			}
			ev := &evaluator{leaf: leaf, inline: inlineLibrary}
			var pushed []string
			ev.collectList(&pushed, func(o interface{}, ok bool) string {
				if !ok {
					return "?"
				}
				return fmt.Sprint(o)
			})
			_, outcome := ev.run(ofn, nil, nil, nil, nil)
			n++
			var want []string
			if e, ok := other.M[fmt.Sprintf("%d-%d", m, d)]; ok {
				for _, x := range e.L {
					want = append(want, x.S)
				}
			}
			got := strings.Join(pushed, ",")
			if outcome != "return" {
				got = outcome + " " + ev.fail
			}
			if got != strings.Join(want, ",") {
				bad = append(bad, fmt.Sprintf("%d-%d: [%s], stated [%s]", m, d, got, strings.Join(want, ",")))
			}
		}
	}
	r.check(len(bad) == 0 && n == 372, rule, "calendar.(*Solar).GetOtherFestivals lists the names recorded for month-day, all of them, in order", c.fnPos(ofn), fmt.Sprintf("%d month-day pairs (%d recorded); deviations: %v", n, len(other.Keys), headList(bad, 3)))
}
