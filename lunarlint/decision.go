package main

// E5: decision tables over a finite predicate abstraction.
//
// For a loop-free region of a function the CFG paths are enumerated; each path
// carries the branch conditions (SSA value, polarity) it takes. Rules interpret
// the conditions as atoms over abstract operands (component orderings, string
// comparisons against constants, nil tests), enumerate the finitely many
// orderings of those operands, and compare the outcome of the unique feasible
// path with a specification. No concrete values of the program are computed.

import (
	"go/constant"
	"go/token"
	"go/types"

	"golang.org/x/tools/go/ssa"
)

type pathCond struct {
	cond  ssa.Value
	truth bool
}

type cfgPath struct {
	blocks  []*ssa.BasicBlock
	conds   []pathCond
	end     *ssa.BasicBlock // last block (ends in Return/Panic or is a stop block)
	stopped bool            // set by the caller when the stop block is the loop header the path started below: its phis stay symbolic
}

// enumPaths enumerates paths from start until a block without successors or a
// block for which stop returns true (the stop block is included as the end).
// It gives up (ok=false) on a cycle or when maxPaths is exceeded.
func enumPaths(start *ssa.BasicBlock, stop func(from, to *ssa.BasicBlock) bool, maxPaths int) (paths []cfgPath, ok bool) {
	ok = true
	var walk func(b *ssa.BasicBlock, blocks []*ssa.BasicBlock, conds []pathCond, on map[*ssa.BasicBlock]bool)
	walk = func(b *ssa.BasicBlock, blocks []*ssa.BasicBlock, conds []pathCond, on map[*ssa.BasicBlock]bool) {
		if !ok {
			return
		}
		if on[b] {
			ok = false
			return
		}
		blocks = append(append([]*ssa.BasicBlock{}, blocks...), b)
		if len(b.Succs) == 0 {
			paths = append(paths, cfgPath{blocks: blocks, conds: append([]pathCond{}, conds...), end: b})
			if len(paths) > maxPaths {
				ok = false
			}
			return
		}
		on[b] = true
		defer delete(on, b)
		last := b.Instrs[len(b.Instrs)-1]
		for i, s := range b.Succs {
			nc := conds
			if iff, isIf := last.(*ssa.If); isIf {
				nc = append(append([]pathCond{}, conds...), pathCond{iff.Cond, i == 0})
			}
			if stop != nil && stop(b, s) {
				paths = append(paths, cfgPath{blocks: append(append([]*ssa.BasicBlock{}, blocks...), s), conds: append([]pathCond{}, nc...), end: s})
				if len(paths) > maxPaths {
					ok = false
				}
				continue
			}
			walk(s, blocks, nc, on)
		}
	}
	walk(start, nil, nil, map[*ssa.BasicBlock]bool{})
	return
}

// resolve follows phis along the path: the value v has when control reaches the end of the path.
func (p *cfgPath) resolve(v ssa.Value) ssa.Value {
	for depth := 0; depth < 16; depth++ {
		phi, ok := v.(*ssa.Phi)
		if !ok {
			return v
		}
		if p.stopped && phi.Block() == p.end {
			return v
		}
		idx := -1
		for i := len(p.blocks) - 1; i > 0; i-- {
			if p.blocks[i] == phi.Block() {
				pred := p.blocks[i-1]
				for k, pb := range phi.Block().Preds {
					if pb == pred {
						idx = k
					}
				}
				break
			}
		}
		if idx < 0 {
			return v
		}
		v = phi.Edges[idx]
	}
	return v
}

// stringCompareAtom matches strings.Compare(x, y) <op> 0 and returns x, y and the
// comparison as it applies to x vs y.
func stringCompareAtom(cond ssa.Value) (x, y ssa.Value, op token.Token, ok bool) {
	bo, isBin := cond.(*ssa.BinOp)
	if !isBin {
		return nil, nil, 0, false
	}
	// the direct form a < b / a == b on strings
	if isStringType(bo.X.Type()) && isStringType(bo.Y.Type()) {
		switch bo.Op {
		case token.LSS, token.LEQ, token.GTR, token.GEQ, token.EQL, token.NEQ:
			return bo.X, bo.Y, bo.Op, true
		}
	}
	match := func(a, b ssa.Value, op token.Token) (ssa.Value, ssa.Value, token.Token, bool) {
		call, isCall := a.(*ssa.Call)
		if !isCall {
			return nil, nil, 0, false
		}
		callee := call.Common().StaticCallee()
		if callee == nil || callee.String() != "strings.Compare" {
			return nil, nil, 0, false
		}
		k, isC := b.(*ssa.Const)
		if !isC || k.Value == nil || k.Value.Kind() != constant.Int || constant.Sign(k.Value) != 0 {
			return nil, nil, 0, false
		}
		return call.Common().Args[0], call.Common().Args[1], op, true
	}
	if x, y, op, ok := match(bo.X, bo.Y, bo.Op); ok {
		return x, y, op, true
	}
	return match(bo.Y, bo.X, flipOp(bo.Op))
}

// cmpHolds: does "a op b" hold when a is (-1: less, 0: equal, +1: greater) than b?
func cmpHolds(rel int, op token.Token) bool {
	switch op {
	case token.LSS:
		return rel < 0
	case token.LEQ:
		return rel <= 0
	case token.GTR:
		return rel > 0
	case token.GEQ:
		return rel >= 0
	case token.EQL:
		return rel == 0
	case token.NEQ:
		return rel != 0
	}
	return false
}

func isStringType(t types.Type) bool {
	b, ok := t.Underlying().(*types.Basic)
	return ok && b.Info()&types.IsString != 0
}

func constString(v ssa.Value) (string, bool) {
	k, ok := v.(*ssa.Const)
	if !ok || k.Value == nil || k.Value.Kind() != constant.String {
		return "", false
	}
	return constant.StringVal(k.Value), true
}

func constInt(v ssa.Value) (int64, bool) {
	k, ok := v.(*ssa.Const)
	if !ok || k.Value == nil || k.Value.Kind() != constant.Int {
		return 0, false
	}
	return constant.Int64Val(k.Value)
}

func constBool(v ssa.Value) (bool, bool) {
	k, ok := v.(*ssa.Const)
	if !ok || k.Value == nil || k.Value.Kind() != constant.Bool {
		return false, false
	}
	return constant.BoolVal(k.Value), true
}

// getterField: if call is a static call of a method that returns a field of its
// receiver (a pure getter), the field name and the receiver value.
var getterCache = map[*ssa.Function]string{}

func getterField(c *Ctx, v ssa.Value) (recv ssa.Value, field string, ok bool) {
	switch x := v.(type) {
	case *ssa.Call:
		callee := x.Common().StaticCallee()
		if callee == nil || callee.Signature.Recv() == nil || len(x.Common().Args) != 1 {
			return nil, "", false
		}
		f, cached := getterCache[callee]
		if !cached {
			// a pure getter has one block: load field, return
			if len(callee.Blocks) == 1 {
				for _, ins := range callee.Blocks[0].Instrs {
					if ret, isRet := ins.(*ssa.Return); isRet && len(ret.Results) == 1 {
						if ld, isLd := ret.Results[0].(*ssa.UnOp); isLd && ld.Op == token.MUL {
							if fa, isFA := ld.X.(*ssa.FieldAddr); isFA && fa.X == ssa.Value(callee.Params[0]) {
								f = fieldKeyOf(fa)
							}
						}
					}
				}
			}
			getterCache[callee] = f
		}
		if f == "" {
			return nil, "", false
		}
		return x.Common().Args[0], f, true
	case *ssa.UnOp:
		if x.Op == token.MUL {
			if fa, isFA := x.X.(*ssa.FieldAddr); isFA {
				return fa.X, fieldKeyOf(fa), true
			}
		}
	}
	return nil, "", false
}
