package main

// C05 — change-over decisions of the year and month pillars as decision tables (R05.4, R05.6).

import (
	"fmt"
	"go/token"
	"go/types"
	"sort"
	"strings"

	"golang.org/x/tools/go/ssa"
)

func floorMod(a, n int64) int64 { return ((a % n) + n) % n }

// fieldIndexOf finds the index of the field with the given canonical name in the struct a value points to.
func fieldIndexOf(v ssa.Value, name string) int {
	pt, ok := v.Type().Underlying().(*types.Pointer)
	if !ok {
		return -1
	}
	st, ok := pt.Elem().Underlying().(*types.Struct)
	if !ok {
		return -1
	}
	for i := 0; i < st.NumFields(); i++ {
		if fieldName(pt.Elem(), i) == name {
			return i
		}
	}
	return -1
}

// momentLeaf interprets rendered moments as abstract values: who(fr, recv) names the Solar a
// rendering belongs to, order gives the relation of two of them for one rendering kind. Comparisons
// of unlike kinds or of moments the rule has no relation for are recorded in problems.
func momentLeaf(c *Ctx, who func(fr *evalFrame, recv ssa.Value) (string, bool), order func(x, y absMoment) (int, bool), problems map[string]bool, rest leafX) leafX {
	var leaf leafX
	moment := func(fr *evalFrame, v ssa.Value) (absMoment, bool) {
		o, ok := evalWith(fr, v, leaf)
		m, isM := o.(absMoment)
		return m, ok && isM
	}
	rel := func(x, y absMoment) (int, bool) {
		if x.kind != y.kind {
			problems["a "+x.kind+" rendering is compared with a "+y.kind+" rendering"] = true
			return 0, false
		}
		if x.who == y.who {
			return 0, true
		}
		if r, ok := order(x, y); ok {
			return r, true
		}
		if r, ok := order(y, x); ok {
			return -r, true
		}
		problems["a comparison of "+x.who+" with "+y.who] = true
		return 0, false
	}
	leaf = func(fr *evalFrame, v ssa.Value) (interface{}, bool) {
		if rest != nil {
			if x, ok := rest(fr, v); ok {
				return x, true
			}
		}
		switch x := v.(type) {
		case *ssa.BinOp:
			if isStringType(x.X.Type()) && isStringType(x.Y.Type()) && x.Op != token.ADD {
				mx, ok1 := moment(fr, x.X)
				my, ok2 := moment(fr, x.Y)
				if ok1 && ok2 {
					if r, ok := rel(mx, my); ok {
						return cmpHolds(r, x.Op), true
					}
				}
				return nil, false
			}
		case *ssa.Call:
			callee := x.Common().StaticCallee()
			if callee == nil {
				return nil, false
			}
			switch fname(callee) {
			case "calendar.(*Solar).ToYmd", "calendar.(*Solar).ToYmdHms":
				if w, ok := who(fr, x.Common().Args[0]); ok {
					return absMoment{w, strings.TrimPrefix(callee.Name(), "To")}, true
				}
				return nil, false
			}
			if callee.String() == "strings.Compare" {
				mx, ok1 := moment(fr, x.Common().Args[0])
				my, ok2 := moment(fr, x.Common().Args[1])
				if ok1 && ok2 {
					if r, ok := rel(mx, my); ok {
						return int64(r), true
					}
				}
				return nil, false
			}
		}
		return nil, false
	}
	return leaf
}

func sortedProblemKeys(m map[string]bool) []string {
	var ks []string
	for k := range m {
		ks = append(ks, k)
	}
	sort.Strings(ks)
	return ks
}

func r05_4(c *Ctx, r *Report) {
	const rule = "R05.4"
	r.rule(rule, "Change-over boundaries are half-open, read as decision tables. computeYear: for a lunar year equal to or one behind the civil year, and the civil day / the instant before, on or after Lichun (rendered moments are abstract values that can only be compared), the stored pillar indices are the plain (year-4) mod 10/12, the by-Lichun-day pair shifted by -1 exactly when the lunar year equals the civil year and the day is before the Lichun day, by +1 exactly when it is behind and the day is on or after it, and the exact pair likewise with the instant: so the Lichun day and the Lichun instant themselves belong to the new pillar. computeMonth: each of the two term searches leaves its loop exactly when (no previous term or now >= previous term) and now < this term, i.e. the intervals are [start, end), per variant.")
	if fn := c.Fn(r, rule, "calendar.computeYear"); fn != nil && len(fn.Params) == 1 {
		recv := ssa.Value(fn.Params[0])
		problems := map[string]bool{}
		n := 0
		idx := map[string]int{}
		for _, f := range []string{"yearGanIndex", "yearZhiIndex", "yearGanIndexByLiChun", "yearZhiIndexByLiChun", "yearGanIndexExact", "yearZhiIndexExact"} {
			idx[f] = fieldIndexOf(recv, f)
			if idx[f] < 0 {
				problems["field "+f+" not found"] = true
			}
		}
		for _, y := range []int64{2020, 4, 3, 1983} {
			for _, behind := range []bool{false, true} {
				for _, dRel := range []int{-1, 0, 1} {
					for _, iRel := range []int{-1, 0, 1} {
						if (dRel < 0 && iRel >= 0) || (dRel > 0 && iRel <= 0) || len(problems) > 6 {
							continue
						}
						solarYear := y
						if behind {
							solarYear = y + 1
						}
						who := func(fr *evalFrame, v ssa.Value) (string, bool) {
							o, ok := evalWith(fr, v, nil)
							_ = o
							_ = ok
							return "", false
						}
						var leaf leafX
						ptrOf := func(fr *evalFrame, v ssa.Value) (absPtr, bool) {
							o, ok := evalWith(fr, v, leaf)
							p, isP := o.(absPtr)
							return p, ok && isP
						}
						who = func(fr *evalFrame, v ssa.Value) (string, bool) {
							p, ok := ptrOf(fr, v)
							return p.tag, ok
						}
						rest := func(fr *evalFrame, v ssa.Value) (interface{}, bool) {
							if rc, f, ok := getterField(c, v); ok {
								if ofr, o := fr.origin(rc); ofr.parent == nil && o == recv {
									switch f {
									case "Lunar.year":
										return y, true
									case "Lunar.solar":
										return absPtr{"now", false}, true
									}
								}
								if f == "Solar.year" {
									if p, ok := ptrOf(fr, rc); ok {
										switch p.tag {
										case "now", "立春":
											return solarYear, true
										case "LI_CHUN":
											return solarYear + 1, true
										}
									}
								}
							}
							if lk, ok := v.(*ssa.Lookup); ok && !lk.CommaOk {
								if mt, isM := lk.X.Type().Underlying().(*types.Map); isM && structName(mt.Elem()) == "Solar" {
									if k, ok := evalWith(fr, lk.Index, leaf); ok {
										if ks, isS := k.(string); isS && (ks == "立春" || ks == "LI_CHUN") {
											return absPtr{ks, false}, true
										}
										problems[fmt.Sprintf("the term %v is consulted", k)] = true
									}
								}
							}
							return nil, false
						}
						leaf = momentLeaf(c, who, func(x, yy absMoment) (int, bool) {
							if x.who == "now" && yy.who == "立春" {
								if x.kind == "Ymd" {
									return dRel, true
								}
								return iRel, true
							}
							if x.who == "now" && yy.who == "LI_CHUN" {
								return -1, true
							}
							return 0, false
						}, problems, rest)
						ev := &evaluator{inline: inlineLibrary, leaf: leaf}
						fr := &evalFrame{fn: fn, phiFrom: map[*ssa.BasicBlock]*ssa.BasicBlock{}}
						_, outcome := ev.runFrame(fr, nil, nil)
						n++
						if outcome != "return" {
							problems["the function could not be followed: "+outcome+" "+ev.fail] = true
							continue
						}
						shift := func(rel int) int64 {
							if !behind && rel < 0 {
								return -1
							}
							if behind && rel >= 0 {
								return 1
							}
							return 0
						}
						want := map[string]int64{
							"yearGanIndex": floorMod(y-4, 10), "yearZhiIndex": floorMod(y-4, 12),
							"yearGanIndexByLiChun": floorMod(y-4+shift(dRel), 10), "yearZhiIndexByLiChun": floorMod(y-4+shift(dRel), 12),
							"yearGanIndexExact": floorMod(y-4+shift(iRel), 10), "yearZhiIndexExact": floorMod(y-4+shift(iRel), 12),
						}
						for f, w := range want {
							got, has := fr.mem[memKey{recv, idx[f]}]
							if !has || got != interface{}(w) {
								problems[fmt.Sprintf("lunar year %d, civil year %d, day %s Lichun day, instant %s Lichun: %s = %v, expected %d", y, solarYear, relWord(dRel), relWord(iRel), f, got, w)] = true
							}
						}
					}
				}
			}
		}
		ps := sortedProblemKeys(problems)
		r.check(len(ps) == 0 && n == 40, rule, "calendar.computeYear boundary comparisons are < start-of-next and >= start", c.fnPos(fn), fmt.Sprintf("%d abstract cases followed; deviations: %v", n, headList(ps, 3)))
	}
	if fn := c.Fn(r, rule, "calendar.computeMonth"); fn != nil && len(fn.Params) == 1 {
		recv := ssa.Value(fn.Params[0])
		nLoops := 0
		for _, site := range termSearchSites(fn) {
			li := site.li
			var startPhi *ssa.Phi
			for _, ins := range li.header.Instrs {
				if phi, ok := ins.(*ssa.Phi); ok && structName(phi.Type()) == "Solar" {
					startPhi = phi
				}
			}
			if startPhi == nil {
				continue
			}
			nLoops++
			var entry *ssa.BasicBlock
			for _, sc := range li.header.Succs {
				if li.body[sc] {
					entry = sc
				}
			}
			problems := map[string]bool{}
			n := 0
			kinds := map[string]bool{}
			for _, startNil := range []bool{true, false} {
				for _, ns := range []int{-1, 0, 1} {
					for _, ne := range []int{-1, 0, 1} {
						if startNil && ns != 0 {
							continue
						}
						var leaf leafX
						who := func(fr *evalFrame, v ssa.Value) (string, bool) {
							o, ok := evalWith(fr, v, leaf)
							p, isP := o.(absPtr)
							if ok && isP && p.isNil {
								problems["the previous term is rendered while there is none"] = true
								return "", false
							}
							return p.tag, ok && isP
						}
						rest := func(fr *evalFrame, v ssa.Value) (interface{}, bool) {
							if v == ssa.Value(startPhi) {
								return absPtr{"start", startNil}, true
							}
							if rc, f, ok := getterField(c, v); ok && f == "Lunar.solar" {
								if ofr, o := fr.origin(rc); ofr.parent == nil && o == recv {
									return absPtr{"now", false}, true
								}
							}
							if lk, ok := v.(*ssa.Lookup); ok && !lk.CommaOk {
								if mt, isM := lk.X.Type().Underlying().(*types.Map); isM && structName(mt.Elem()) == "Solar" {
									return absPtr{"end", false}, true
								}
							}
							return nil, false
						}
						leaf = momentLeaf(c, who, func(x, y absMoment) (int, bool) {
							kinds[x.kind] = true
							if x.who == "now" && y.who == "start" {
								return ns, true
							}
							if x.who == "now" && y.who == "end" {
								return ne, true
							}
							return 0, false
						}, problems, rest)
						ev := &evaluator{inline: inlineLibrary, leaf: leaf}
						fr := &evalFrame{fn: site.fn, parent: site.parent, call: site.call, phiFrom: map[*ssa.BasicBlock]*ssa.BasicBlock{entry: li.header}}
						_, outcome := ev.runFrame(fr, entry, func(b *ssa.BasicBlock) bool { return b == li.header || !li.body[b] })
						n++
						if !strings.HasPrefix(outcome, "stop:") {
							problems["the loop body could not be followed: "+outcome+" "+ev.fail] = true
							continue
						}
						found := outcome != fmt.Sprintf("stop:%d", li.header.Index)
						want := (startNil || ns >= 0) && ne < 0
						if found != want {
							problems[fmt.Sprintf("previous term %s, now %s previous, now %s this term: the search stops here=%v, expected %v", map[bool]string{true: "absent", false: "present"}[startNil], relWord(ns), relWord(ne), found, want)] = true
						}
					}
				}
			}
			var ks []string
			for k := range kinds {
				ks = append(ks, k)
			}
			sort.Strings(ks)
			ps := sortedProblemKeys(problems)
			r.check(len(ps) == 0 && n == 12 && len(ks) == 1, rule, fmt.Sprintf("calendar.computeMonth term search #%d stops in [start, end)", nLoops), c.pos(startPhi.Pos()), fmt.Sprintf("%d abstract cases followed, renderings compared: %v; deviations: %v", n, ks, headList(ps, 3)))
		}
		r.check(nLoops == 2, rule, "calendar.computeMonth has a day-level and an exact term search", c.fnPos(fn), fmt.Sprintf("%d searches found", nLoops))
	}
}

func relWord(r int) string {
	switch {
	case r < 0:
		return "before"
	case r > 0:
		return "after"
	}
	return "on"
}

func r05_6(c *Ctx, r *Report) {
	const rule = "R05.6"
	r.rule(rule, "The month pillar is a function of the term index and the year stem. After each of computeMonth's two term searches, with the index of the interval found (-3 .. 12: before the previous Daxue .. after the next Jingzhe; 0 = from Lichun) and the year stem of the same variant as abstract inputs, the evaluator follows the code up to the next search (or the end) and the stored indices must be: branch = (index + 2) mod 12 (寅 at Lichun), stem = (first + index) mod 10 with first = 丙, 戊, 庚, 壬, 甲 for year stems 甲己, 乙庚, 丙辛, 丁壬, 戊癸 (five tigers), the year stem being the next one for the months before Lichun (index < 0), which belong to the coming pillar year's sequence.")
	fn := c.Fn(r, rule, "calendar.computeMonth")
	if fn == nil || len(fn.Params) != 1 {
		return
	}
	recv := ssa.Value(fn.Params[0])
	loops, _ := findLoops(fn)
	type search struct {
		li   *loopInfo
		exit *ssa.BasicBlock
		idx  *ssa.Phi
	}
	var searches []search
	for _, li := range loops {
		hasStart := false
		for _, ins := range li.header.Instrs {
			if phi, ok := ins.(*ssa.Phi); ok && structName(phi.Type()) == "Solar" {
				hasStart = true
			}
		}
		if !hasStart {
			continue
		}
		// the index the search leaves behind: the loop-carried integer that is used after the loop;
		// the code after the search starts at the block outside the loop that the loop's exits lead to
		var idx *ssa.Phi
		for _, ins := range li.header.Instrs {
			phi, ok := ins.(*ssa.Phi)
			if !ok || !isIntType(phi.Type()) {
				continue
			}
			for _, ref := range *phi.Referrers() {
				if ref.Block() != nil && !li.body[ref.Block()] {
					idx = phi
				}
			}
		}
		var exit *ssa.BasicBlock
		for blk := range li.body {
			for _, sc := range blk.Succs {
				if !li.body[sc] && (exit == nil || sc.Index < exit.Index) {
					exit = sc
				}
			}
		}
		if idx != nil && exit != nil {
			searches = append(searches, search{li, exit, idx})
		}
	}
	sort.Slice(searches, func(i, j int) bool { return searches[i].exit.Index < searches[j].exit.Index })
	if len(searches) == 0 {
		// the searches live in a function literal or helper: their results are the values of its two calls
		var calls []*ssa.Call
		for _, site := range termSearchSites(fn) {
			if site.call != nil && (len(calls) == 0 || calls[len(calls)-1] != site.call) && isIntType(site.call.Type()) {
				calls = append(calls, site.call)
			}
		}
		if len(calls) == 2 {
			r05_6_calls(c, r, rule, fn, calls)
			return
		}
	}
	if len(searches) != 2 {
		r.bad(rule, "calendar.computeMonth: two term searches with a merged index", c.fnPos(fn), fmt.Sprintf("%d found (undecided = fail)", len(searches)))
		return
	}
	first := []int64{2, 4, 6, 8, 0}
	for si, sr := range searches {
		variant := map[int]string{0: "ByLiChun", 1: "Exact"}[si]
		ganField, zhiField := "monthGanIndex", "monthZhiIndex"
		if si == 1 {
			ganField, zhiField = "monthGanIndexExact", "monthZhiIndexExact"
		}
		gi, zi := fieldIndexOf(recv, ganField), fieldIndexOf(recv, zhiField)
		var stopAt *ssa.BasicBlock
		if si == 0 {
			stopAt = searches[1].li.header
		}
		problems := map[string]bool{}
		n := 0
		for k := int64(-3); k <= 12; k++ {
			for g := int64(0); g < 10 && len(problems) < 6; g++ {
				leaf := func(fr *evalFrame, v ssa.Value) (interface{}, bool) {
					if v == ssa.Value(sr.idx) {
						return k, true
					}
					if rc, f, ok := getterField(c, v); ok && f == "Lunar.yearGanIndex"+variant {
						if ofr, o := fr.origin(rc); ofr.parent == nil && o == recv {
							return g, true
						}
					}
					return nil, false
				}
				ev := &evaluator{inline: inlineLibrary, leaf: leaf}
				fr := &evalFrame{fn: fn, phiFrom: map[*ssa.BasicBlock]*ssa.BasicBlock{}}
				_, outcome := ev.runFrame(fr, sr.exit, func(b *ssa.BasicBlock) bool { return b == stopAt })
				n++
				if outcome != "return" && !(stopAt != nil && outcome == fmt.Sprintf("stop:%d", stopAt.Index)) {
					problems["the code after the search could not be followed: "+outcome+" "+ev.fail] = true
					continue
				}
				gRef := g
				if k < 0 {
					gRef = g + 1
				}
				wantGan := floorMod(first[gRef%5]+k, 10)
				wantZhi := floorMod(k+2, 12)
				if got := fr.mem[memKey{recv, gi}]; got != interface{}(wantGan) {
					problems[fmt.Sprintf("term index %d, year stem %d: month stem %v, expected %d", k, g, got, wantGan)] = true
				}
				if got := fr.mem[memKey{recv, zi}]; got != interface{}(wantZhi) {
					problems[fmt.Sprintf("term index %d: month branch %v, expected %d", k, got, wantZhi)] = true
				}
			}
		}
		ps := sortedProblemKeys(problems)
		r.check(len(ps) == 0 && n == 160, rule, "calendar.computeMonth: "+ganField+"/"+zhiField+" from the term index and the year stem ("+variant+")", c.pos(sr.idx.Pos()), fmt.Sprintf("%d (index, year stem) pairs followed; deviations: %v", n, headList(ps, 3)))
	}
}

// termSearchSite: a loop that searches the term table for the interval the moment lies in (it carries the start of
// the interval, a *Solar, from one iteration to the next), in fn itself or in a function literal or unexported
// helper that fn calls — then once per call, in a frame whose parameters and captured variables resolve to fn's.
type termSearchSite struct {
	fn     *ssa.Function
	li     *loopInfo
	parent *evalFrame
	call   *ssa.Call
}

func solarCarryingLoops(f *ssa.Function) []*loopInfo {
	loops, _ := findLoops(f)
	var out []*loopInfo
	for _, li := range loops {
		for _, ins := range li.header.Instrs {
			if phi, ok := ins.(*ssa.Phi); ok && structName(phi.Type()) == "Solar" {
				out = append(out, li)
				break
			}
		}
	}
	sort.Slice(out, func(i, j int) bool { return out[i].header.Index < out[j].header.Index })
	return out
}

func termSearchSites(fn *ssa.Function) []termSearchSite {
	var out []termSearchSite
	for _, li := range solarCarryingLoops(fn) {
		out = append(out, termSearchSite{fn: fn, li: li})
	}
	top := &evalFrame{fn: fn}
	for _, b := range fn.Blocks {
		for _, ins := range b.Instrs {
			call, ok := ins.(*ssa.Call)
			if !ok {
				continue
			}
			callee := call.Common().StaticCallee()
			if callee == nil || callee.Blocks == nil || callee == fn {
				continue
			}
			if callee.Parent() == nil && (callee.Object() == nil || callee.Object().Exported() || callee.Pkg != fn.Pkg) {
				continue
			}
			for _, li := range solarCarryingLoops(callee) {
				out = append(out, termSearchSite{fn: callee, li: li, parent: top, call: call})
			}
		}
	}
	return out
}

// r05_6_calls: R05.6 when the two term searches are calls (of a function literal or helper) whose results are the
// term indices: computeMonth is then followed as a whole, the two results being abstract inputs.
func r05_6_calls(c *Ctx, r *Report, rule string, fn *ssa.Function, calls []*ssa.Call) {
	recv := ssa.Value(fn.Params[0])
	first := []int64{2, 4, 6, 8, 0}
	problems := map[string]bool{}
	n := 0
	for k := int64(-3); k <= 12; k++ {
		for g := int64(0); g < 10 && len(problems) < 6; g++ {
			leaf := func(fr *evalFrame, v ssa.Value) (interface{}, bool) {
				if fr.parent == nil && (v == ssa.Value(calls[0]) || v == ssa.Value(calls[1])) {
					return k, true
				}
				if rc, f, ok := getterField(c, v); ok && (f == "Lunar.yearGanIndexByLiChun" || f == "Lunar.yearGanIndexExact") {
					if ofr, o := fr.origin(rc); ofr.parent == nil && o == recv {
						return g, true
					}
				}
				return nil, false
			}
			ev := &evaluator{inline: inlineLibrary, leaf: leaf}
			fr := &evalFrame{fn: fn, phiFrom: map[*ssa.BasicBlock]*ssa.BasicBlock{}}
			_, outcome := ev.runFrame(fr, nil, nil)
			n++
			if outcome != "return" {
				problems["computeMonth could not be followed: "+outcome+" "+ev.fail] = true
				continue
			}
			gRef := g
			if k < 0 {
				gRef = g + 1
			}
			wantGan := floorMod(first[gRef%5]+k, 10)
			wantZhi := floorMod(k+2, 12)
			for _, fs := range [][2]string{{"monthGanIndex", "monthZhiIndex"}, {"monthGanIndexExact", "monthZhiIndexExact"}} {
				gi, zi := fieldIndexOf(recv, fs[0]), fieldIndexOf(recv, fs[1])
				if got := fr.mem[memKey{recv, gi}]; got != interface{}(wantGan) {
					problems[fmt.Sprintf("term index %d, year stem %d: %s %v, expected %d", k, g, fs[0], got, wantGan)] = true
				}
				if got := fr.mem[memKey{recv, zi}]; got != interface{}(wantZhi) {
					problems[fmt.Sprintf("term index %d: %s %v, expected %d", k, fs[1], got, wantZhi)] = true
				}
			}
		}
	}
	ps := sortedProblemKeys(problems)
	r.check(len(ps) == 0 && n == 160, rule, "calendar.computeMonth: month stem and branch from the term index and the year stem (both variants)", c.fnPos(fn), fmt.Sprintf("%d (index, year stem) pairs followed; deviations: %v", n, headList(ps, 3)))
}
