package main

// R03.11 — the regimes of delta-T beyond its table.

import (
	"fmt"
	"math"

	"golang.org/x/tools/go/ssa"
)

func r03_11(c *Ctx, r *Report) {
	const rule = "R03.11"
	r.rule(rule, "Delta-T beyond its table joins the table and then follows the long-term parabola. With (y0, t0) the last knot year and value of DT_AT, dtCalc is followed by the evaluator (the table read from its literal, the knot search as a table over the iteration number; the parabola dtExt is an abstract input E supplied by the checker, so no constant of it is assumed) for years from y0 to 9999: within a century of the table's end it returns E(y) - (E(y0) - t0)·(y0 + 100 - y)/100 — t0 at y0, E(y0 + 100) at the century's end — and beyond that E(y) alone. A correction that is not switched off after the century grows without bound and moves every term instant after y0 + 100.")
	fn := c.Fn(r, rule, "ShouXingUtil.dtCalc")
	if fn == nil || len(fn.Params) != 1 {
		return
	}
	tv := c.tab(r, rule, "ShouXingUtil", "DT_AT")
	if tv == nil || tv.Kind != "list" || len(tv.L) < 7 {
		return
	}
	y0, t0 := tv.L[len(tv.L)-2].F, tv.L[len(tv.L)-1].F
	E := func(y float64) float64 { return 3 + 0.004*(y-1700)*(y-1700) }
	var bad []string
	n := 0
	years := []float64{y0, y0 + 0.5, y0 + 1, y0 + 37, y0 + 99.5, y0 + 100, y0 + 100.25, y0 + 101, y0 + 150, y0 + 1000, 9999}
	if c.Tier == "thorough" {
		for y := y0 + 0.125; y < y0+300; y += 0.625 {
			years = append(years, y)
		}
		for y := y0 + 300; y < 9999; y += 97 {
			years = append(years, y)
		}
	}
	for _, y := range years {
		var leaf leafX
		leaf = func(fr *evalFrame, v ssa.Value) (interface{}, bool) {
			if p, ok := v.(*ssa.Parameter); ok && fr.parent == nil && p == fn.Params[0] {
				return y, true
			}
			if call, ok := v.(*ssa.Call); ok && call.Common().StaticCallee() != nil && fname(call.Common().StaticCallee()) == "ShouXingUtil.dtExt" {
				if o, ok := evalWith(fr, call.Common().Args[0], leaf); ok {
					if x, isF := o.(float64); isF {
						return E(x), true
					}
				}
				return nil, false
			}
			return nil, false
		}
		ev := &evaluator{leaf: leaf, inline: inlineLibrary, counted: 256}
		res, outcome := ev.run(fn, nil, nil, nil, nil)
		n++
		want := E(y)
		if y <= y0+100 {
			want = E(y) - (E(y0)-t0)*(y0+100-y)/100
		}
		got, isF := float64(0), false
		if outcome == "return" && len(res) == 1 {
			got, isF = res[0].(float64)
		}
		switch {
		case !isF:
			bad = append(bad, fmt.Sprintf("year %v: not followed (%s %s)", y, outcome, ev.fail))
		case math.Abs(got-want) > 1e-9*math.Max(1, math.Abs(want)):
			bad = append(bad, fmt.Sprintf("year %v (table ends %v): %v, stated %v", y, y0, got, want))
		}
	}
	r.check(len(bad) == 0 && n == len(years), rule, "ShouXingUtil.dtCalc joins the table over a century and then follows the parabola", c.fnPos(fn), fmt.Sprintf("%d years from the table's end %v (value %v) to 9999; deviations: %v", n, y0, t0, headList(bad, 3)))
	r.floor(rule, 1)
}
