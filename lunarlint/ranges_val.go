package main

// Abstract values of the range analysis (E3): small disjunctions of integer
// intervals with a taint set naming the axioms a value depends on, and float
// intervals for the few values that pass through float64.

import (
	"fmt"
	"math"
	"sort"
	"strings"
)

const (
	ninf     = math.MinInt64
	pinf     = math.MaxInt64
	maxSpans = 4
)

type span struct{ lo, hi int64 }

type aval struct {
	bot bool
	sp  []span // sorted, disjoint, non-adjacent; never empty unless bot
	ax  uint32
}

var axNames []string

func axBit(name string) uint32 {
	for i, n := range axNames {
		if n == name {
			return 1 << uint(i)
		}
	}
	axNames = append(axNames, name)
	return 1 << uint(len(axNames)-1)
}

func axList(bits uint32) []string {
	var out []string
	for i, n := range axNames {
		if bits&(1<<uint(i)) != 0 {
			out = append(out, n)
		}
	}
	sort.Strings(out)
	return out
}

func botVal() aval               { return aval{bot: true} }
func topVal() aval               { return aval{sp: []span{{ninf, pinf}}} }
func constVal(k int64) aval      { return aval{sp: []span{{k, k}}} }
func rangeVal(lo, hi int64) aval { return aval{sp: []span{{lo, hi}}} }

func (a aval) isTop() bool {
	return !a.bot && len(a.sp) == 1 && a.sp[0].lo == ninf && a.sp[0].hi == pinf
}
func (a aval) lo() int64 {
	if a.bot {
		return pinf
	}
	return a.sp[0].lo
}
func (a aval) hi() int64 {
	if a.bot {
		return ninf
	}
	return a.sp[len(a.sp)-1].hi
}
func (a aval) known() bool { return !a.bot && a.lo() != ninf && a.hi() != pinf }
func (a aval) contains(k int64) bool {
	for _, s := range a.sp {
		if s.lo <= k && k <= s.hi {
			return true
		}
	}
	return false
}
func (a aval) isConst() (int64, bool) {
	if !a.bot && len(a.sp) == 1 && a.sp[0].lo == a.sp[0].hi {
		return a.sp[0].lo, true
	}
	return 0, false
}

func (a aval) withAx(ax uint32) aval { a.ax |= ax; return a }

func (a aval) String() string {
	if a.bot {
		return "⊥"
	}
	var parts []string
	for _, s := range a.sp {
		lo, hi := "-inf", "+inf"
		if s.lo != ninf {
			lo = fmt.Sprint(s.lo)
		}
		if s.hi != pinf {
			hi = fmt.Sprint(s.hi)
		}
		if s.lo == s.hi {
			parts = append(parts, "{"+lo+"}")
		} else {
			parts = append(parts, "["+lo+","+hi+"]")
		}
	}
	s := strings.Join(parts, "∪")
	if a.ax != 0 {
		s += " under " + strings.Join(axList(a.ax), ",")
	}
	return s
}

func normalize(sp []span) []span {
	if len(sp) == 0 {
		return sp
	}
	sort.Slice(sp, func(i, j int) bool { return sp[i].lo < sp[j].lo })
	out := []span{sp[0]}
	for _, s := range sp[1:] {
		l := &out[len(out)-1]
		if l.hi == pinf || s.lo <= l.hi+1 {
			if s.hi > l.hi {
				l.hi = s.hi
			}
		} else {
			out = append(out, s)
		}
	}
	for len(out) > maxSpans {
		// merge the two closest spans
		best, gap := 0, int64(pinf)
		for i := 0; i+1 < len(out); i++ {
			g := out[i+1].lo - out[i].hi
			if g < gap {
				gap, best = g, i
			}
		}
		out[best].hi = out[best+1].hi
		out = append(out[:best+1], out[best+2:]...)
	}
	return out
}

func joinVal(a, b aval) aval {
	if a.bot {
		return b
	}
	if b.bot {
		return a
	}
	sp := append(append([]span{}, a.sp...), b.sp...)
	return aval{sp: normalize(sp), ax: a.ax | b.ax}
}

func eqVal(a, b aval) bool {
	if a.bot != b.bot || a.ax != b.ax || len(a.sp) != len(b.sp) {
		return false
	}
	for i := range a.sp {
		if a.sp[i] != b.sp[i] {
			return false
		}
	}
	return true
}

// meet with [lo,hi]
func (a aval) clamp(lo, hi int64) aval {
	if a.bot {
		return a
	}
	var sp []span
	for _, s := range a.sp {
		l, h := s.lo, s.hi
		if lo > l {
			l = lo
		}
		if hi < h {
			h = hi
		}
		if l <= h {
			sp = append(sp, span{l, h})
		}
	}
	if len(sp) == 0 {
		return aval{bot: true}
	}
	return aval{sp: sp, ax: a.ax}
}

func (a aval) remove(k int64) aval {
	if a.bot {
		return a
	}
	var sp []span
	for _, s := range a.sp {
		if k < s.lo || k > s.hi {
			sp = append(sp, s)
			continue
		}
		if s.lo <= k-1 && k != ninf {
			sp = append(sp, span{s.lo, k - 1})
		}
		if k+1 <= s.hi && k != pinf {
			sp = append(sp, span{k + 1, s.hi})
		}
	}
	if len(sp) == 0 {
		return aval{bot: true}
	}
	return aval{sp: normalize(sp), ax: a.ax}
}

func satAdd(a, b int64) int64 {
	if a == ninf || b == ninf {
		if a == pinf || b == pinf {
			return ninf
		}
		return ninf
	}
	if a == pinf || b == pinf {
		return pinf
	}
	s := a + b
	if (a > 0 && b > 0 && s < 0) || s == pinf {
		return pinf
	}
	if (a < 0 && b < 0 && s >= 0) || s == ninf {
		return ninf
	}
	return s
}

func satNeg(a int64) int64 {
	if a == ninf {
		return pinf
	}
	if a == pinf {
		return ninf
	}
	return -a
}

func satMul(a, b int64) int64 {
	if a == 0 || b == 0 {
		return 0
	}
	neg := (a < 0) != (b < 0)
	if a == ninf || a == pinf || b == ninf || b == pinf {
		if neg {
			return ninf
		}
		return pinf
	}
	p := a * b
	if p/b != a || p == ninf || p == pinf {
		if neg {
			return ninf
		}
		return pinf
	}
	return p
}

func binSpans(a, b aval, f func(x, y span) []span) aval {
	if a.bot || b.bot {
		return botVal()
	}
	var sp []span
	for _, x := range a.sp {
		for _, y := range b.sp {
			sp = append(sp, f(x, y)...)
		}
	}
	if len(sp) == 0 {
		return aval{bot: true}
	}
	return aval{sp: normalize(sp), ax: a.ax | b.ax}
}

func addVal(a, b aval) aval {
	return binSpans(a, b, func(x, y span) []span { return []span{{satAdd(x.lo, y.lo), satAdd(x.hi, y.hi)}} })
}

func negVal(a aval) aval {
	if a.bot {
		return a
	}
	var sp []span
	for _, s := range a.sp {
		sp = append(sp, span{satNeg(s.hi), satNeg(s.lo)})
	}
	return aval{sp: normalize(sp), ax: a.ax}
}

func subVal(a, b aval) aval { return addVal(a, negVal(b)) }

func mulVal(a, b aval) aval {
	return binSpans(a, b, func(x, y span) []span {
		c := []int64{satMul(x.lo, y.lo), satMul(x.lo, y.hi), satMul(x.hi, y.lo), satMul(x.hi, y.hi)}
		lo, hi := c[0], c[0]
		for _, v := range c[1:] {
			if v < lo {
				lo = v
			}
			if v > hi {
				hi = v
			}
		}
		return []span{{lo, hi}}
	})
}

func quoInt(a, b int64) int64 {
	if a == ninf || a == pinf {
		if (a < 0) != (b < 0) {
			return ninf
		}
		return pinf
	}
	return a / b
}

// quoVal: Go integer division (truncation toward zero). Divisor spans containing 0 give top.
func quoVal(a, b aval) aval {
	if a.bot || b.bot {
		return botVal()
	}
	if b.contains(0) {
		return topVal().withAx(a.ax | b.ax)
	}
	return binSpans(a, b, func(x, y span) []span {
		if y.lo == ninf || y.hi == pinf {
			// |result| <= |x|
			m := x.hi
			if satNeg(x.lo) > m {
				m = satNeg(x.lo)
			}
			return []span{{satNeg(m), m}}
		}
		c := []int64{quoInt(x.lo, y.lo), quoInt(x.lo, y.hi), quoInt(x.hi, y.lo), quoInt(x.hi, y.hi)}
		lo, hi := c[0], c[0]
		for _, v := range c[1:] {
			if v < lo {
				lo = v
			}
			if v > hi {
				hi = v
			}
		}
		if x.lo <= 0 && x.hi >= 0 {
			if 0 < lo {
				lo = 0
			}
			if 0 > hi {
				hi = 0
			}
		}
		return []span{{lo, hi}}
	})
}

// remVal: Go remainder; the sign follows the dividend.
func remVal(a, b aval) aval {
	if a.bot || b.bot {
		return botVal()
	}
	if b.contains(0) {
		return topVal().withAx(a.ax | b.ax)
	}
	return binSpans(a, b, func(x, y span) []span {
		// magnitude of the divisor
		m := y.hi
		if satNeg(y.lo) > m {
			m = satNeg(y.lo)
		}
		if m == pinf {
			return []span{x}
		}
		if yc := y.lo; y.lo == y.hi && x.lo != ninf && x.hi != pinf && x.hi-x.lo < m && x.lo >= 0 {
			// a short non-negative run: exact when it does not wrap
			l, h := x.lo%yc, x.hi%yc
			if yc < 0 {
				l, h = x.lo%(-yc), x.hi%(-yc)
			}
			if l <= h {
				return []span{{l, h}}
			}
			return []span{{0, h}, {l, m - 1}}
		}
		var out []span
		if x.hi >= 0 {
			h := m - 1
			if x.hi < h {
				h = x.hi
			}
			out = append(out, span{0, h})
		}
		if x.lo < 0 {
			l := -(m - 1)
			if x.lo > l {
				l = x.lo
			}
			out = append(out, span{l, 0})
		}
		return out
	})
}

// ---- float intervals ----

type fval struct {
	bot    bool
	lo, hi float64
	ax     uint32
}

func ftop() fval            { return fval{lo: math.Inf(-1), hi: math.Inf(1)} }
func fbot() fval            { return fval{bot: true} }
func fconst(x float64) fval { return fval{lo: x, hi: x} }
func (f fval) isTop() bool  { return !f.bot && math.IsInf(f.lo, -1) && math.IsInf(f.hi, 1) }
func joinF(a, b fval) fval {
	if a.bot {
		return b
	}
	if b.bot {
		return a
	}
	return fval{lo: math.Min(a.lo, b.lo), hi: math.Max(a.hi, b.hi), ax: a.ax | b.ax}
}
func eqF(a, b fval) bool { return a.bot == b.bot && a.lo == b.lo && a.hi == b.hi && a.ax == b.ax }
func (f fval) String() string {
	if f.bot {
		return "⊥"
	}
	return fmt.Sprintf("[%g,%g]f", f.lo, f.hi)
}

func intToF(a aval) fval {
	if a.bot {
		return fbot()
	}
	lo, hi := math.Inf(-1), math.Inf(1)
	if a.lo() != ninf {
		lo = float64(a.lo())
	}
	if a.hi() != pinf {
		hi = float64(a.hi())
	}
	return fval{lo: lo, hi: hi, ax: a.ax}
}

// fToInt: Go conversion float64 -> int truncates toward zero.
func fToInt(f fval) aval {
	if f.bot {
		return botVal()
	}
	lo, hi := int64(ninf), int64(pinf)
	if !math.IsInf(f.lo, 0) && !math.IsNaN(f.lo) && math.Abs(f.lo) < 9e18 {
		lo = int64(math.Trunc(f.lo))
	}
	if !math.IsInf(f.hi, 0) && !math.IsNaN(f.hi) && math.Abs(f.hi) < 9e18 {
		hi = int64(math.Trunc(f.hi))
	}
	return aval{sp: []span{{lo, hi}}, ax: f.ax}
}

func fbin(op string, a, b fval) fval {
	if a.bot || b.bot {
		return fbot()
	}
	ax := a.ax | b.ax
	switch op {
	case "+":
		return fval{lo: a.lo + b.lo, hi: a.hi + b.hi, ax: ax}
	case "-":
		return fval{lo: a.lo - b.hi, hi: a.hi - b.lo, ax: ax}
	case "*", "/":
		if op == "/" {
			if b.lo <= 0 && b.hi >= 0 {
				return fval{lo: math.Inf(-1), hi: math.Inf(1), ax: ax}
			}
			b = fval{lo: 1 / b.hi, hi: 1 / b.lo}
		}
		c := []float64{a.lo * b.lo, a.lo * b.hi, a.hi * b.lo, a.hi * b.hi}
		lo, hi := math.Inf(1), math.Inf(-1)
		for _, v := range c {
			if math.IsNaN(v) {
				return fval{lo: math.Inf(-1), hi: math.Inf(1), ax: ax}
			}
			lo = math.Min(lo, v)
			hi = math.Max(hi, v)
		}
		return fval{lo: lo, hi: hi, ax: ax}
	}
	return fval{lo: math.Inf(-1), hi: math.Inf(1), ax: ax}
}
