package main

// R14.6 — the lookups read on the built-in holiday table.
//
// The scans behind GetHolidays / GetHolidaysByTarget are loops over a constant table. Each loop's
// carried values have a closed form in the iteration number (a string that loses one record per
// iteration, or an index that advances by the record size), so the lookups are read as tables over
// (key, iteration): the evaluator (E12, runCounted) follows the code for a key and collects the
// records it appends; the result is compared with the records the checker's own parser of the table
// selects for that key. The table is the literal one (what Fix does to it at run time is not decided).

import (
	"fmt"
	"sort"
	"strings"

	"golang.org/x/tools/go/ssa"
)

func r14_6(c *Ctx, r *Report) {
	const rule = "R14.6"
	r.rule(rule, "Lookups on the built-in table return exactly the matching records, in table order. GetHolidays(key) for every day key, every month key and every year key of the literal table (and keys that are absent), and GetHolidaysByTarget(key) for a spread of targets including the first, the last and those whose records are not adjacent, are followed through the code — each scan loop as a table over the iteration number, its carried values in closed form; helpers inline; no library code runs — and the appended records (day and target of each NewHoliday) are those whose day field starts with the key, respectively whose target field is the key, in table order, as selected by the checker's own parser.")
	data, ok := c.tabStr(r, rule, "HolidayUtil", "data")
	if !ok || len(data)%18 != 0 || len(data) == 0 {
		return
	}
	type rec struct{ day, target string }
	var recs []rec
	for i := 0; i+18 <= len(data); i += 18 {
		recs = append(recs, rec{data[i : i+8], data[i+10 : i+18]})
	}
	dash := func(s string) string {
		if len(s) == 8 {
			return s[0:4] + "-" + s[4:6] + "-" + s[6:]
		}
		return s
	}
	run := func(fn *ssa.Function, key string) (string, string) {
		var pushed []string
		var ev *evaluator
		leaf := func(fr *evalFrame, v ssa.Value) (interface{}, bool) {
			if p, ok := v.(*ssa.Parameter); ok && fr.parent == nil && p == fn.Params[0] {
				return key, true
			}
			if call, ok := v.(*ssa.Call); ok && call.Common().StaticCallee() != nil {
				callee := call.Common().StaticCallee()
				switch {
				case callee.String() == "container/list.New":
					return absPtr{"list", false}, true
				case callee.Name() == "NewHoliday" && callee.Signature.Recv() == nil && len(call.Common().Args) == 4:
					d, ok1 := ev.eval(fr, call.Common().Args[0], 0)
					t, ok2 := ev.eval(fr, call.Common().Args[3], 0)
					ds, isD := d.(string)
					ts, isT := t.(string)
					if ok1 && ok2 && isD && isT {
						return absRec{ctor: "NewHoliday", name: strings.Replace(ds, "-", "", -1) + ">" + strings.Replace(ts, "-", "", -1)}, true
					}
					return nil, false
				}
			}
			return nil, false
		}
		ev = &evaluator{leaf: leaf, inline: inlineLibrary, counted: len(recs) + 8}
		ev.collectList(&pushed, func(o interface{}, ok bool) string {
			if rc, isR := o.(absRec); ok && isR {
				return rc.name
			}
			return "?"
		})
		_, outcome := ev.run(fn, nil, nil, nil, nil)
		if outcome != "return" {
			return "", outcome + " " + ev.fail
		}
		return strings.Join(pushed, " "), ""
	}
	check := func(name string, keys []string, sel func(rc rec, key string) bool, construct string) {
		fn := c.Fn(r, rule, name)
		if fn == nil || len(fn.Params) != 1 {
			return
		}
		var bad []string
		n := 0
		for _, k := range keys {
			if len(bad) >= 4 {
				break
			}
			var want []string
			for _, rc := range recs {
				if sel(rc, k) {
					want = append(want, rc.day+">"+rc.target)
				}
			}
			got, problem := run(fn, dash(k))
			n++
			if problem != "" {
				bad = append(bad, fmt.Sprintf("key %s: %s", k, problem))
			} else if got != strings.Join(want, " ") {
				bad = append(bad, fmt.Sprintf("key %s: %d records [%s], the table has %d [%s]", k, len(strings.Fields(got)), head(got, 80), len(want), head(strings.Join(want, " "), 80)))
			}
		}
		sort.Strings(bad)
		r.check(len(bad) == 0 && n > 0, rule, construct, c.fnPos(fn), fmt.Sprintf("%d keys; deviations: %v", n, headList(bad, 3)))
	}
	// day, month and year keys
	seen := map[string]bool{}
	var keys []string
	add := func(k string) {
		if !seen[k] {
			seen[k] = true
			keys = append(keys, k)
		}
	}
	for _, rc := range recs {
		add(rc.day)
		add(rc.day[:6])
		add(rc.day[:4])
	}
	for _, k := range []string{"19990101", "199901", "1999", "20991231", "2099", recs[0].day[:4] + "1301", recs[len(recs)-1].day[:6] + "32"} {
		add(k)
	}
	check("HolidayUtil.GetHolidays", keys, func(rc rec, k string) bool { return strings.HasPrefix(rc.day, k) }, "HolidayUtil.GetHolidays returns the records of the day, month or year")
	// targets: first, last, every 7th, and every target whose records are not adjacent
	var targets []string
	tseen := map[string]bool{}
	last := map[string]int{}
	nonAdj := map[string]bool{}
	for i, rc := range recs {
		if j, ok := last[rc.target]; ok && j != i-1 {
			nonAdj[rc.target] = true
		}
		last[rc.target] = i
	}
	cnt := 0
	for i, rc := range recs {
		if tseen[rc.target] {
			continue
		}
		tseen[rc.target] = true
		cnt++
		if i == 0 || cnt%7 == 0 || nonAdj[rc.target] || rc.target == recs[len(recs)-1].target {
			targets = append(targets, rc.target)
		}
	}
	targets = append(targets, "19990101", recs[len(recs)-1].day)
	check("HolidayUtil.GetHolidaysByTarget", targets, func(rc rec, k string) bool { return rc.target == k }, "HolidayUtil.GetHolidaysByTarget returns every record of the target")
	r.floor(rule, 2)
}
