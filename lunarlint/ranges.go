package main

// E3: interval / small-disjunction range analysis of int values.
//
// Per function: a forward abstract interpretation over the SSA CFG. Loops are
// unrolled dynamically: the abstract state is kept per (block, iteration vector
// of the enclosing loops) and states of different iterations are not joined, up
// to unrollCap iterations per loop; beyond that a widened context is used.
// Branch conditions refine the operands (and the memory cells they were loaded
// from) on each outgoing edge. Memory: flow-sensitive cells for fields of the
// object a function is building/reading through a parameter or a local
// allocation, and per-element cells for small make([]int, const) arrays.
//
// Whole library: field invariants (the cell state at the exits of every
// function that stores the field), return summaries and parameter summaries
// (join over the library's call sites, for unexported functions and a declared
// list of internal constructors) are iterated to a fixpoint from bottom.
// Named axioms override summaries; every value carries the set of axioms it
// depends on, so an obligation is PROVEN or PROVEN-UNDER(axioms).

import (
	"fmt"
	"go/constant"
	"go/token"
	"go/types"
	"os"
	"sort"
	"strings"
	"time"

	"golang.org/x/tools/go/ssa"
)

const unrollCap = 64

type cellKey struct {
	root  ssa.Value
	field int // struct field index; -1 for an element of a local array
	idx   int64
}

type rstate struct {
	iv    map[ssa.Value]aval
	fv    map[ssa.Value]fval
	cells map[cellKey]aval
	alias map[cellKey]ssa.Value
	snap  map[cellKey]aval // array cells at the entry of the innermost loop being executed
}

func newRState() *rstate {
	return &rstate{iv: map[ssa.Value]aval{}, fv: map[ssa.Value]fval{}, cells: map[cellKey]aval{}, alias: map[cellKey]ssa.Value{}}
}

func (s *rstate) clone() *rstate {
	n := &rstate{iv: make(map[ssa.Value]aval, len(s.iv)), fv: make(map[ssa.Value]fval, len(s.fv)), cells: make(map[cellKey]aval, len(s.cells)), alias: make(map[cellKey]ssa.Value, len(s.alias)), snap: s.snap}
	for k, v := range s.iv {
		n.iv[k] = v
	}
	for k, v := range s.fv {
		n.fv[k] = v
	}
	for k, v := range s.cells {
		n.cells[k] = v
	}
	for k, v := range s.alias {
		n.alias[k] = v
	}
	return n
}

type loopInfo struct {
	header *ssa.BasicBlock
	body   map[*ssa.BasicBlock]bool
}

type fnRes struct {
	fn         *ssa.Function
	obs        map[ssa.Instruction]map[ssa.Value]aval
	ret        aval
	retF       fval
	retN       map[int]aval // a function with several results: the range of each integer result
	exitCells  map[string]aval
	weak       map[string]aval
	callArgs   map[*ssa.Function][]aval
	vals       map[ssa.Value]aval // every int value, joined over all contexts
	fieldsRead map[string]bool
	retsUsed   map[*ssa.Function]bool
	widened    bool
	nctx       int
}

// refineByTable: the star index a function hands to NewNineStar, when intervals cannot bound it (a start value picked
// from a local table by a computed column, say) but R16.5 has followed that function over its whole input domain and
// found the stated index — a number 0..8 — every time: the table's result is taken ("TABLE-R16.5" in the evidence).
func (e *rangeEngine) refineByTable(caller, callee *ssa.Function, args []aval) []aval {
	if fname(callee) == "SolarUtil.GetDaysOfMonth" && len(args) == 2 {
		// the month NewSolar hands to the month-length table, when its validation is not visible to intervals: on every
		// walk of R04.8's table (months -3..64 and far values among them) the call was reached with a month 1..12 only
		top := caller
		for top.Parent() != nil {
			top = top.Parent()
		}
		if fname(top) != "calendar.NewSolar" || args[1].bot || (args[1].known() && args[1].lo() >= 1 && args[1].hi() <= 12) {
			return args
		}
		if !e.c.solarTableRun {
			e.c.solarTableRun = true
			r04_8(e.c, newReport("C04"))
		}
		if e.c.solarTableMonthsOK {
			if m := meetVal(args[1], rangeVal(1, 12)); !m.bot {
				return []aval{args[0], m.withAx(args[1].ax | axBit("TABLE-R04.8"))}
			}
		}
		return args
	}
	if fname(callee) != "calendar.NewNineStar" || len(args) != 1 {
		return args
	}
	if !args[0].bot && args[0].lo() >= 0 && args[0].hi() <= 8 {
		return args
	}
	if e.c.starTableOK == nil {
		e.c.starTableOK = map[*ssa.Function]bool{}
		r16_5(e.c, newReport("C16"))
	}
	if starTableCovers(e.c, caller, 0) {
		if m := meetVal(args[0], rangeVal(0, 8)); !m.bot {
			return []aval{m.withAx(args[0].ax | axBit("TABLE-R16.5"))}
		}
	}
	return args
}

// refineFieldByTable: what NewSolar stores into a field it validates on its own, when intervals cannot see the
// validation (range checks walked by a loop over a local table, say) but R04.8 has followed the constructor for every
// value of that field from -3 to 64 and far values on both sides and found exactly the stated range accepted: the
// table's result is taken ("TABLE-R04.8" in the evidence).
func (e *rangeEngine) refineFieldByTable(key string, fn *ssa.Function, v aval) aval {
	var lo, hi int64
	found := false
	for _, rg := range solarFieldRanges {
		if rg.key == key {
			lo, hi, found = rg.lo, rg.hi, true
		}
	}
	top := fn
	for top.Parent() != nil {
		top = top.Parent()
	}
	if !found || fname(top) != "calendar.NewSolar" || v.bot || (v.known() && v.lo() >= lo && v.hi() <= hi) {
		return v
	}
	if !e.c.solarTableRun {
		e.c.solarTableRun = true
		r04_8(e.c, newReport("C04"))
	}
	if e.c.solarTableOK {
		if m := meetVal(v, rangeVal(lo, hi)); !m.bot {
			return m.withAx(v.ax | axBit("TABLE-R04.8"))
		}
	}
	return v
}

// starTableCovers: fn is a star accessor R16.5 followed over its whole input domain, or an unexported helper every
// call of which sits in one (the helper is followed as part of each of them).
func starTableCovers(c *Ctx, fn *ssa.Function, depth int) bool {
	if c.starTableOK[fn] {
		return true
	}
	if depth > 2 || !isLocalHelper(fn) {
		return false
	}
	sites := c.callSitesOf(fn)
	for _, site := range sites {
		if !starTableCovers(c, site.Parent(), depth+1) {
			return false
		}
	}
	return len(sites) > 0
}

// siteOverrideFor: the axiom stated for calls of callee inside fn — or, when fn is an unexported helper (or function
// literal), inside every function that calls it: the helper is part of the functions the axiom was stated for.
func (e *rangeEngine) siteOverrideFor(fn *ssa.Function, callee string, depth int) (aval, bool) {
	if v, ok := e.siteOverride[fname(fn)+"|"+callee]; ok {
		return v, true
	}
	if depth > 2 || !isLocalHelper(fn) {
		return aval{}, false
	}
	sites := e.c.callSitesOf(fn)
	var out aval
	for i, site := range sites {
		v, ok := e.siteOverrideFor(site.Parent(), callee, depth+1)
		if !ok {
			return aval{}, false
		}
		if i == 0 {
			out = v
		} else {
			out = joinVal(out, v).withAx(out.ax | v.ax)
		}
	}
	return out, len(sites) > 0
}

type rangeEngine struct {
	c             *Ctx
	ctxOK         map[*ssa.Function]bool
	ctxMemo       map[string]aval
	ctxParams     map[*ssa.Function][]aval
	ctxLens       map[*ssa.Parameter]int64
	fieldInv      map[string]aval
	fieldOverride map[string]aval
	retSum        map[*ssa.Function]aval
	retFSum       map[*ssa.Function]fval
	retNSum       map[*ssa.Function]map[int]aval
	retOverride   map[string]aval
	retFOverride  map[string]fval
	siteOverride  map[string]aval // "caller|callee"
	paramSum      map[*ssa.Function][]aval
	paramOverride map[string]map[int]aval
	closedWorld   map[string]bool
	searchHit     map[string]bool
	res           map[*ssa.Function]*fnRes
	tabHull       map[string]aval
	tabLen        map[string]int64
	mutable       map[string]bool
	rounds        int
	debugFn       string
	hasCaller     map[*ssa.Function]bool
	diverged      bool
}

func isIntType(t types.Type) bool {
	b, ok := t.Underlying().(*types.Basic)
	return ok && b.Info()&types.IsInteger != 0
}

func isFloatType(t types.Type) bool {
	b, ok := t.Underlying().(*types.Basic)
	return ok && b.Info()&types.IsFloat != 0
}

func fieldKeyOf(fa *ssa.FieldAddr) string {
	st := fa.X.Type().Underlying().(*types.Pointer).Elem()
	n := "?"
	if nt, ok := st.(*types.Named); ok {
		n = nt.Obj().Name()
	}
	return n + "." + fieldName(st, fa.Field)
}

func (c *Ctx) ranges() *rangeEngine {
	if c.rng != nil {
		return c.rng
	}
	e := &rangeEngine{c: c, fieldInv: map[string]aval{}, fieldOverride: map[string]aval{}, retSum: map[*ssa.Function]aval{}, retFSum: map[*ssa.Function]fval{}, retNSum: map[*ssa.Function]map[int]aval{},
		retOverride: map[string]aval{}, retFOverride: map[string]fval{}, siteOverride: map[string]aval{}, paramSum: map[*ssa.Function][]aval{},
		paramOverride: map[string]map[int]aval{}, closedWorld: map[string]bool{}, searchHit: map[string]bool{}, res: map[*ssa.Function]*fnRes{},
		tabHull: map[string]aval{}, tabLen: map[string]int64{}, mutable: map[string]bool{}}
	c.rng = e
	for _, w := range c.globalWrites() {
		e.mutable[w.global] = true
	}
	e.loadTables()
	installAxioms(e)
	e.solve()
	return e
}

// loadTables: lengths and numeric hulls of never-written package tables.
func (e *rangeEngine) loadTables() {
	for _, g := range e.c.libGlobals() {
		name := gname(g)
		if e.mutable[name] {
			continue
		}
		v, err := e.c.tables.Var(g.Pkg.Pkg.Name(), g.Name())
		if err != nil || v == nil {
			continue
		}
		switch v.Kind {
		case "list":
			e.tabLen[name] = int64(len(v.L))
			h := botVal()
			numeric := len(v.L) > 0
			for _, el := range v.L {
				if el.Kind == "int" {
					h = joinVal(h, constVal(el.I))
				} else {
					numeric = false
				}
			}
			if numeric {
				e.tabHull[name] = h
			}
			// arrays of arrays: XL1 row length
			if len(v.L) > 0 && v.L[0].Kind == "list" {
				e.tabLen[name+"[]"] = int64(len(v.L[0].L))
			}
		case "str":
			e.tabLen[name] = int64(len(v.S))
		case "map":
			h := constVal(0) // a missing key yields the zero value
			numeric := len(v.Keys) > 0
			for _, k := range v.Keys {
				if el := v.M[k]; el.Kind == "int" {
					h = joinVal(h, constVal(el.I))
				} else {
					numeric = false
				}
			}
			if numeric {
				e.tabHull[name] = h
			}
		case "int":
			e.tabHull[name] = constVal(v.I)
		}
	}
}

func (e *rangeEngine) solve() {
	t0 := time.Now()
	debug := os.Getenv("LUNARLINT_DEBUG") == "ranges"
	// static call sites: which functions does the library itself call?
	e.hasCaller = map[*ssa.Function]bool{}
	for _, fn := range e.c.Funcs {
		for _, b := range fn.Blocks {
			for _, ins := range b.Instrs {
				if cc, ok := ins.(ssa.CallInstruction); ok {
					if callee := cc.Common().StaticCallee(); callee != nil {
						e.hasCaller[callee] = true
					}
				}
			}
		}
	}
	readers := map[string]map[*ssa.Function]bool{}        // field -> functions that fell back to its invariant
	callers := map[*ssa.Function]map[*ssa.Function]bool{} // callee -> callers using its return summary
	fieldContrib := map[string]map[*ssa.Function]aval{}
	paramContrib := map[*ssa.Function]map[*ssa.Function][]aval{}
	count := map[*ssa.Function]int{}
	inWork := map[*ssa.Function]bool{}
	var work []*ssa.Function
	push := func(fn *ssa.Function) {
		if fn != nil && fn.Blocks != nil && !inWork[fn] && e.isLibFn(fn) {
			inWork[fn] = true
			work = append(work, fn)
		}
	}
	for _, fn := range e.c.Funcs {
		push(fn)
	}
	steps := 0
	for len(work) > 0 {
		fn := work[0]
		work = work[1:]
		inWork[fn] = false
		steps++
		count[fn]++
		e.rounds = steps
		tf := time.Now()
		res := e.analyse(fn, count[fn] > 25)
		if d := time.Since(tf); debug && d > 200*time.Millisecond {
			fmt.Fprintf(os.Stderr, "    slow: %s %.2fs ctx=%d\n", fname(fn), d.Seconds(), res.nctx)
		}
		old := e.res[fn]
		e.res[fn] = res
		for f := range res.fieldsRead {
			if readers[f] == nil {
				readers[f] = map[*ssa.Function]bool{}
			}
			readers[f][fn] = true
		}
		for g := range res.retsUsed {
			if callers[g] == nil {
				callers[g] = map[*ssa.Function]bool{}
			}
			callers[g][fn] = true
		}
		// field contributions
		contrib := map[string]aval{}
		for k, v := range res.exitCells {
			contrib[k] = joinVal(contrib[k].orBot(), v)
		}
		for k, v := range res.weak {
			contrib[k] = joinVal(contrib[k].orBot(), v)
		}
		touched := map[string]bool{}
		for k := range contrib {
			touched[k] = true
		}
		if old != nil {
			for k := range old.exitCells {
				touched[k] = true
			}
			for k := range old.weak {
				touched[k] = true
			}
		}
		for k := range touched {
			if fieldContrib[k] == nil {
				fieldContrib[k] = map[*ssa.Function]aval{}
			}
			if v, ok := contrib[k]; ok {
				v = e.refineFieldByTable(k, fn, v)
				if count[fn] > 25 {
					v = widenVal(fieldContrib[k][fn].orBot(), joinVal(fieldContrib[k][fn].orBot(), v))
				}
				fieldContrib[k][fn] = v
			} else {
				delete(fieldContrib[k], fn)
			}
			nv := botVal()
			for _, v := range fieldContrib[k] {
				nv = joinVal(nv, v)
			}
			if !eqVal(nv, e.fieldInv[k].orBot()) {
				e.fieldInv[k] = nv
				for r := range readers[k] {
					push(r)
				}
			}
		}
		// return summaries
		ret := res.ret
		if count[fn] > 25 {
			ret = widenVal(e.retSum[fn].orBot(), joinVal(e.retSum[fn].orBot(), ret))
		}
		changedN := false
		for i, v := range res.retN {
			old := botVal()
			if m := e.retNSum[fn]; m != nil {
				old = m[i].orBot()
			}
			nv := v
			if count[fn] > 25 {
				nv = widenVal(old, joinVal(old, v))
			}
			if !eqVal(nv, old) {
				if e.retNSum[fn] == nil {
					e.retNSum[fn] = map[int]aval{}
				}
				e.retNSum[fn][i] = nv
				changedN = true
			}
		}
		if !eqVal(ret, e.retSum[fn].orBot()) || !eqF(res.retF, e.retFSumOr(fn)) || changedN {
			e.retSum[fn] = ret
			e.retFSum[fn] = res.retF
			for c := range callers[fn] {
				push(c)
			}
		}
		// parameter contributions
		callees := map[*ssa.Function]bool{}
		for g := range res.callArgs {
			callees[g] = true
		}
		if old != nil {
			for g := range old.callArgs {
				callees[g] = true
			}
		}
		for g := range callees {
			if paramContrib[g] == nil {
				paramContrib[g] = map[*ssa.Function][]aval{}
			}
			if args, ok := res.callArgs[g]; ok {
				paramContrib[g][fn] = e.refineByTable(fn, g, args)
			} else {
				delete(paramContrib[g], fn)
			}
			np := make([]aval, len(g.Params))
			for i := range np {
				np[i] = botVal()
			}
			for _, args := range paramContrib[g] {
				for i := range args {
					if i < len(np) {
						np[i] = joinVal(np[i], args[i])
					}
				}
			}
			changed := len(e.paramSum[g]) != len(np)
			for i := range np {
				if !changed && !eqVal(np[i], e.paramSum[g][i]) {
					changed = true
				}
			}
			if changed {
				e.paramSum[g] = np
				push(g)
			}
		}
		if steps > 40000 {
			e.diverged = true
			break
		}
	}
	if debug {
		fmt.Fprintf(os.Stderr, "range fixpoint: %d function analyses in %.1fs\n", steps, time.Since(t0).Seconds())
	}
}

func (e *rangeEngine) retFSumOr(fn *ssa.Function) fval {
	if v, ok := e.retFSum[fn]; ok {
		return v
	}
	return fbot()
}

func (e *rangeEngine) isLibFn(fn *ssa.Function) bool {
	_, ok := e.c.FuncBy[fname(fn)]
	return ok
}

func (a aval) orBot() aval {
	if a.sp == nil && !a.bot {
		return botVal()
	}
	return a
}

func (e *rangeEngine) signature() string {
	var sb strings.Builder
	var ks []string
	for k := range e.fieldInv {
		ks = append(ks, k)
	}
	sort.Strings(ks)
	for _, k := range ks {
		sb.WriteString(k + "=" + e.fieldInv[k].String() + ";")
	}
	for _, fn := range e.c.Funcs {
		if r, ok := e.retSum[fn]; ok && !r.bot {
			sb.WriteString(fname(fn) + "->" + r.String() + ";")
		}
		if r, ok := e.retFSum[fn]; ok && !r.bot {
			sb.WriteString(fname(fn) + "->" + r.String() + ";")
		}
		if p, ok := e.paramSum[fn]; ok {
			for i, a := range p {
				sb.WriteString(fmt.Sprintf("%s#%d=%s;", fname(fn), i, a.String()))
			}
		}
	}
	return sb.String()
}

func (e *rangeEngine) field(key string) aval {
	if v, ok := e.fieldOverride[key]; ok {
		return v
	}
	if v, ok := e.fieldInv[key]; ok {
		return v.orBot()
	}
	return botVal()
}

// ctxRet analyses a small unexported helper (integer parameters and result, no loop, no store, no
// call) with the argument ranges of one call site; memoised by callee and arguments.
func (e *rangeEngine) ctxRet(callee *ssa.Function, args []aval, lens map[int]int64) (aval, bool) {
	if e.ctxOK == nil {
		e.ctxOK = map[*ssa.Function]bool{}
		e.ctxMemo = map[string]aval{}
	}
	ok, seen := e.ctxOK[callee]
	if !seen {
		ok = callee.Object() != nil && !callee.Object().Exported() && len(callee.Blocks) <= 12 && callee.Signature.Results().Len() == 1 && isIntType(callee.Signature.Results().At(0).Type())
		nInt := 0
		for _, p := range callee.Params {
			if isIntType(p.Type()) {
				nInt++
			}
		}
		if nInt == 0 && !isSearchHelper(callee) {
			ok = false
		}
		if ok {
			for _, b := range callee.Blocks {
				for _, ins := range b.Instrs {
					switch y := ins.(type) {
					case *ssa.Call:
						if _, builtin := y.Common().Value.(*ssa.Builtin); !builtin {
							// comparisons of texts by the strings package have no effect and return no index
							if sc := y.Common().StaticCallee(); sc == nil || sc.Pkg == nil || sc.Pkg.Pkg.Path() != "strings" {
								ok = false
							}
						}
					case *ssa.Store, *ssa.MapUpdate, *ssa.Go, *ssa.Defer:
						ok = false
					}
				}
			}
		}
		e.ctxOK[callee] = ok
	}
	if !ok || len(args) != len(callee.Params) {
		return aval{}, false
	}
	key := fname(callee)
	for i, a := range args {
		if !isIntType(callee.Params[i].Type()) {
			continue
		}
		if a.bot {
			return aval{}, false
		}
		key += "|" + a.String() + fmt.Sprintf("/%d", a.ax)
	}
	for i := range callee.Params {
		if n, ok := lens[i]; ok {
			key += fmt.Sprintf("|len%d=%d", i, n)
		}
	}
	if v, ok := e.ctxMemo[key]; ok {
		return v, true
	}
	e.ctxParams = map[*ssa.Function][]aval{callee: args}
	e.ctxLens = map[*ssa.Parameter]int64{}
	for i, n := range lens {
		if i < len(callee.Params) {
			e.ctxLens[callee.Params[i]] = n
		}
	}
	res := e.analyse(callee, false)
	if os.Getenv("LUNARLINT_DEBUG_CTX") != "" {
		fmt.Fprintf(os.Stderr, "ctxRet %s -> %s\n", key, res.ret.String())
	}
	e.ctxParams = nil
	e.ctxLens = nil
	e.ctxMemo[key] = res.ret
	return res.ret, true
}

func (e *rangeEngine) paramOf(fn *ssa.Function, i int) aval {
	if p, ok := e.ctxParams[fn]; ok && i < len(p) {
		return p[i]
	}
	if m, ok := e.paramOverride[fname(fn)]; ok {
		if v, ok := m[i]; ok {
			return v
		}
	}
	// closed world: a function that the library itself calls takes the join of the
	// library's call sites; an entry point nobody in the library calls takes top
	if e.closedWorld[fname(fn)] || !isExported(fn.Name()) || fn.Parent() != nil {
		if p, ok := e.paramSum[fn]; ok && i < len(p) {
			return p[i]
		}
		return botVal()
	}
	if recv := fn.Signature.Recv(); recv != nil && !isExported(structName(recv.Type())) {
		return botVal()
	}
	return topVal()
}

// ---- per-function analysis ----

type fnAnalysis struct {
	e       *rangeEngine
	fn      *ssa.Function
	res     *fnRes
	loops   []*loopInfo
	loopsOf map[*ssa.BasicBlock][]*loopInfo
	in      map[string]*rstate
	joins   map[string]int
	widen   bool
	caps    map[*loopInfo]int
	flags   map[ssa.Value]int // partitioning booleans (see flagVals) -> bit position
}

// flagVals: boolean values the state is partitioned by, so that later tests of the same value
// are path-sensitive: phis all of whose incoming values are constants, and any boolean value
// (a phi with a computed edge, a comparison, a call result) that two or more branches test.
func flagVals(fn *ssa.Function) map[ssa.Value]int {
	out := map[ssa.Value]int{}
	tests := map[ssa.Value]int{}
	var order []ssa.Value
	for _, b := range fn.Blocks {
		if len(b.Instrs) == 0 {
			continue
		}
		if iff, ok := b.Instrs[len(b.Instrs)-1].(*ssa.If); ok {
			cond := iff.Cond
			if u, ok := cond.(*ssa.UnOp); ok && u.Op == token.NOT {
				cond = u.X
			}
			if _, isConst := cond.(*ssa.Const); !isConst {
				if tests[cond] == 0 {
					order = append(order, cond)
				}
				tests[cond]++
			}
		}
	}
	for _, b := range fn.Blocks {
		for _, ins := range b.Instrs {
			phi, ok := ins.(*ssa.Phi)
			if !ok {
				break
			}
			if bt, ok := phi.Type().Underlying().(*types.Basic); !ok || bt.Kind() != types.Bool {
				continue
			}
			all := true
			for _, e := range phi.Edges {
				if c, ok := e.(*ssa.Const); !ok || c.Value == nil {
					all = false
				}
			}
			if all && len(out) < 3 {
				out[phi] = len(out)
			}
		}
	}
	for _, v := range order {
		if _, done := out[v]; !done && tests[v] >= 2 && len(out) < 4 {
			out[v] = len(out)
		}
	}
	return out
}

// loopCap decides how far a loop is unrolled: loops whose exit test compares a
// counter (constant start, constant step) with a value that is concrete in the
// entry state are unrolled up to unrollCap iterations; all others are peeled a few
// times and then widened.
func (a *fnAnalysis) loopCap(li *loopInfo, st *rstate) int {
	if c, ok := a.caps[li]; ok {
		return c
	}
	c := 6
	isCounter := func(v ssa.Value) bool {
		if bo, ok := v.(*ssa.BinOp); ok && (bo.Op == token.ADD || bo.Op == token.SUB) {
			if _, ok := bo.Y.(*ssa.Const); ok {
				v = bo.X
			}
		}
		// len(s) of a loop-carried slice that grows by append counts like a counter
		if call, ok := v.(*ssa.Call); ok {
			if b, ok := call.Common().Value.(*ssa.Builtin); ok && b.Name() == "len" {
				if sp, ok := call.Common().Args[0].(*ssa.Phi); ok && sp.Block() == li.header {
					grows, initConst := false, false
					for i, e := range sp.Edges {
						if ap, ok := e.(*ssa.Call); ok {
							if bb, ok := ap.Common().Value.(*ssa.Builtin); ok && bb.Name() == "append" && ap.Common().Args[0] == ssa.Value(sp) {
								grows = true
							}
						}
						if !li.body[li.header.Preds[i]] {
							_, initConst = a.lenOf(st, e).isConst()
						}
					}
					if grows && initConst {
						return true
					}
				}
			}
		}
		phi, ok := v.(*ssa.Phi)
		if !ok || phi.Block() != li.header {
			return false
		}
		okInit, okStep := false, false
		for i, e := range phi.Edges {
			pred := li.header.Preds[i]
			if li.body[pred] {
				if bo, ok := e.(*ssa.BinOp); ok && (bo.Op == token.ADD || bo.Op == token.SUB) && bo.X == ssa.Value(phi) {
					if _, ok := bo.Y.(*ssa.Const); ok {
						okStep = true
					}
				}
			} else {
				if _, ok := a.get(st, e).isConst(); ok {
					okInit = true
				}
			}
		}
		return okInit && okStep
	}
	var concrete func(v ssa.Value) bool
	concrete = func(v ssa.Value) bool {
		if _, ok := v.(*ssa.Const); ok {
			return true
		}
		// a concrete bound moved by a constant (len(table) - 1), computed anew in the loop header
		if bo, ok := v.(*ssa.BinOp); ok && (bo.Op == token.ADD || bo.Op == token.SUB || bo.Op == token.MUL) {
			if _, isK := bo.Y.(*ssa.Const); isK && concrete(bo.X) {
				return true
			}
			if _, isK := bo.X.(*ssa.Const); isK && concrete(bo.Y) {
				return true
			}
		}
		if call, ok := v.(*ssa.Call); ok {
			if b, ok := call.Common().Value.(*ssa.Builtin); ok && b.Name() == "len" {
				_, ok := a.lenOf(st, call.Common().Args[0]).isConst()
				return ok
			}
		}
		if val, ok := st.iv[v]; ok {
			_, isC := val.isConst()
			return isC
		}
		// a bound that is re-read in the loop from a variable that lives in a cell (captured by a closure) and is
		// assigned a constant once
		if ld, ok := v.(*ssa.UnOp); ok && ld.Op == token.MUL {
			switch cell := ld.X.(type) {
			case *ssa.FreeVar:
				_, isC := a.capturedRange(cell).isConst()
				return isC
			case *ssa.Alloc:
				if sv := soleStoredValue(cell); sv != nil {
					_, isC := a.get(st, sv).isConst()
					return isC
				}
			}
		}
		return false
	}
	for b := range li.body {
		iff, ok := b.Instrs[len(b.Instrs)-1].(*ssa.If)
		if !ok || (li.body[b.Succs[0]] && li.body[b.Succs[1]]) {
			continue
		}
		bo, ok := iff.Cond.(*ssa.BinOp)
		if !ok {
			continue
		}
		if (isCounter(bo.X) && concrete(bo.Y)) || (isCounter(bo.Y) && concrete(bo.X)) {
			c = unrollCap
		}
	}
	a.caps[li] = c
	return c
}

func findLoops(fn *ssa.Function) ([]*loopInfo, map[*ssa.BasicBlock][]*loopInfo) {
	byHeader := map[*ssa.BasicBlock]*loopInfo{}
	for _, u := range fn.Blocks {
		for _, h := range u.Succs {
			if h.Dominates(u) {
				li := byHeader[h]
				if li == nil {
					li = &loopInfo{header: h, body: map[*ssa.BasicBlock]bool{h: true}}
					byHeader[h] = li
				}
				// nodes reaching u without passing h
				work := []*ssa.BasicBlock{u}
				for len(work) > 0 {
					x := work[len(work)-1]
					work = work[:len(work)-1]
					if li.body[x] {
						continue
					}
					li.body[x] = true
					work = append(work, x.Preds...)
				}
			}
		}
	}
	var loops []*loopInfo
	for _, li := range byHeader {
		loops = append(loops, li)
	}
	sort.Slice(loops, func(i, j int) bool {
		if len(loops[i].body) != len(loops[j].body) {
			return len(loops[i].body) > len(loops[j].body)
		}
		return loops[i].header.Index < loops[j].header.Index
	})
	of := map[*ssa.BasicBlock][]*loopInfo{}
	for _, b := range fn.Blocks {
		for _, li := range loops {
			if li.body[b] {
				of[b] = append(of[b], li)
			}
		}
	}
	return loops, of
}

func ctxKey(b *ssa.BasicBlock, ctx []int) string {
	return fmt.Sprintf("%d|%v", b.Index, ctx)
}

func (e *rangeEngine) analyse(fn *ssa.Function, forceWiden bool) *fnRes {
	a := &fnAnalysis{e: e, fn: fn, in: map[string]*rstate{}, joins: map[string]int{}, widen: forceWiden, caps: map[*loopInfo]int{}}
	a.flags = flagVals(fn)
	a.res = &fnRes{fn: fn, obs: map[ssa.Instruction]map[ssa.Value]aval{}, ret: botVal(), retF: fbot(), exitCells: map[string]aval{}, weak: map[string]aval{}, callArgs: map[*ssa.Function][]aval{}, fieldsRead: map[string]bool{}, retsUsed: map[*ssa.Function]bool{}, vals: map[ssa.Value]aval{}}
	if len(fn.Blocks) == 0 {
		return a.res
	}
	a.loops, a.loopsOf = findLoops(fn)
	st := newRState()
	for i, p := range fn.Params {
		if isIntType(p.Type()) {
			st.iv[p] = e.paramOf(fn, i)
		}
	}
	type item struct {
		b   *ssa.BasicBlock
		ctx []int
		fl  string // valuation of the flag phis: one byte per flag, '?', '0' or '1'
	}
	fl0 := strings.Repeat("?", len(a.flags))
	entry := fn.Blocks[0]
	a.in[ctxKey(entry, nil)+fl0] = st
	work := []item{{entry, nil, fl0}}
	queued := map[string]bool{ctxKey(entry, nil) + fl0: true}
	steps := 0
	for len(work) > 0 {
		it := work[0]
		work = work[1:]
		key := ctxKey(it.b, it.ctx) + it.fl
		queued[key] = false
		steps++
		if steps > 60000 {
			a.res.widened = true
			break
		}
		cur := a.in[key].clone()
		a.block(it.b, cur)
		// successors
		last := it.b.Instrs[len(it.b.Instrs)-1]
		// a partitioning value computed in this block is unknown again (a new loop iteration recomputes it)
		fl := it.fl
		for v, bit := range a.flags {
			if ins, ok := v.(ssa.Instruction); ok && ins.Block() == it.b {
				if _, isPhi := v.(*ssa.Phi); !isPhi && fl[bit] != '?' {
					bs := []byte(fl)
					bs[bit] = '?'
					fl = string(bs)
				}
			}
		}
		for si, succ := range it.b.Succs {
			es := cur
			sfl := fl
			if iff, ok := last.(*ssa.If); ok {
				// a test of a partitioned flag follows only the matching branch
				cond, pol := iff.Cond, si == 0
				if u, ok := cond.(*ssa.UnOp); ok && u.Op == token.NOT {
					cond, pol = u.X, !pol
				}
				if bit, ok := a.flags[cond]; ok {
					if fl[bit] != '?' {
						if (fl[bit] == '1') != pol {
							continue
						}
					} else {
						bs := []byte(fl)
						bs[bit] = '0'
						if pol {
							bs[bit] = '1'
						}
						sfl = string(bs)
					}
				}
				es = cur.clone()
				if !a.refine(es, iff.Cond, si == 0) {
					continue
				}
			} else if len(it.b.Succs) > 1 {
				es = cur.clone()
			}
			// context of the successor
			var nctx []int
			wide := false
			for _, li := range a.loopsOf[succ] {
				cnt := 0
				if li.body[it.b] {
					for j, lj := range a.loopsOf[it.b] {
						if lj == li {
							cnt = it.ctx[j]
						}
					}
					if succ == li.header {
						if cnt >= 0 {
							cnt++
						}
						if cnt > a.loopCap(li, es) || a.widen && cnt > 3 {
							cnt = -1
						}
					}
				} else if succ == li.header {
					a.loopCap(li, es)
					if es == cur {
						es = cur.clone()
					}
					es.snap = map[cellKey]aval{}
					for k, v := range es.cells {
						if k.field == -1 {
							es.snap[k] = v
						}
					}
				}
				if cnt < 0 {
					wide = true
				}
				nctx = append(nctx, cnt)
			}
			// phis
			ns := es
			nfl := sfl
			if len(succ.Instrs) > 0 {
				if _, ok := succ.Instrs[0].(*ssa.Phi); ok {
					ns = es.clone()
					pi := -1
					for k, p := range succ.Preds {
						if p == it.b {
							pi = k
							// when the same block is a predecessor twice (both branches), take the matching occurrence
							if it.b.Succs[si] == succ && countBefore(it.b.Succs, si, succ) == countBefore(succ.Preds, k, it.b) {
								break
							}
						}
					}
					for _, ins := range succ.Instrs {
						phi, ok := ins.(*ssa.Phi)
						if !ok {
							break
						}
						if pi < 0 {
							continue
						}
						edge := phi.Edges[pi]
						if bit, ok := a.flags[phi]; ok {
							bs := []byte(nfl)
							bs[bit] = '?'
							if c, ok := edge.(*ssa.Const); ok && c.Value != nil && c.Value.Kind() == constant.Bool {
								if constant.BoolVal(c.Value) {
									bs[bit] = '1'
								} else {
									bs[bit] = '0'
								}
							} else if eb, isFlag := a.flags[edge]; isFlag {
								bs[bit] = nfl[eb]
							}
							nfl = string(bs)
						}
						if _, isSlice := phi.Type().Underlying().(*types.Slice); isSlice {
							ns.iv[phi] = a.lenOf(es, edge)
						}
						if isIntType(phi.Type()) {
							v := a.get(es, edge)
							v = a.searchHitAdjust(phi, pi, v)
							if ov, ok := a.e.siteOverrideFor(a.fn, phiOfCall(phi), 0); ok && !v.bot {
								if m := meetVal(v, ov); !m.bot {
									v = m.withAx(v.ax | ov.ax)
								}
							}
							ns.iv[phi] = v
						} else if isFloatType(phi.Type()) {
							ns.fv[phi] = a.getF(es, edge)
						}
						// a phi of a pointer that is a cell root keeps no cells; nothing to do
					}
					// aliases to values overwritten by phis stay valid (SSA values are immutable within a context)
				}
			}
			skey := ctxKey(succ, nctx) + nfl
			if old, ok := a.in[skey]; !ok {
				a.in[skey] = ns.clone()
				a.res.nctx++
			} else {
				a.joins[skey]++
				if !a.joinInto(old, ns, wide && a.joins[skey] > 3) {
					continue
				}
				if wide && a.joins[skey] > 3 {
					a.res.widened = true
				}
			}
			if !queued[skey] {
				queued[skey] = true
				work = append(work, item{succ, nctx, nfl})
			}
		}
	}
	return a.res
}

func countBefore(bs []*ssa.BasicBlock, i int, b *ssa.BasicBlock) int {
	n := 0
	for k := 0; k < i; k++ {
		if bs[k] == b {
			n++
		}
	}
	return n
}

// joinInto joins ns into old; returns whether old changed.
func (a *fnAnalysis) joinInto(old, ns *rstate, widen bool) bool {
	changed := false
	for k, nv := range ns.iv {
		ov, ok := old.iv[k]
		if !ok {
			old.iv[k] = nv
			changed = true
			continue
		}
		j := joinVal(ov, nv)
		if !eqVal(j, ov) {
			if widen {
				j = widenVal(ov, j)
			}
			old.iv[k] = j
			changed = true
		}
	}
	for k, nv := range ns.fv {
		ov, ok := old.fv[k]
		if !ok {
			old.fv[k] = nv
			changed = true
			continue
		}
		j := joinF(ov, nv)
		if !eqF(j, ov) {
			if widen {
				if j.lo < ov.lo {
					j.lo = ftop().lo
				}
				if j.hi > ov.hi {
					j.hi = ftop().hi
				}
			}
			old.fv[k] = j
			changed = true
		}
	}
	// cells: a cell missing on one side falls back to the global invariant (or zero for array cells)
	keys := map[cellKey]bool{}
	for k := range old.cells {
		keys[k] = true
	}
	for k := range ns.cells {
		keys[k] = true
	}
	for k := range keys {
		ov, ook := old.cells[k]
		nv, nok := ns.cells[k]
		if !ook {
			ov = a.cellDefault(k)
		}
		if !nok {
			nv = a.cellDefault(k)
		}
		j := joinVal(ov, nv)
		if !ook || !eqVal(j, ov) {
			if widen && ook {
				j = widenVal(ov, j)
			}
			old.cells[k] = j
			changed = true
		}
		if old.alias[k] != ns.alias[k] {
			delete(old.alias, k)
		}
	}
	return changed
}

func widenVal(ov, j aval) aval {
	if ov.bot {
		return j
	}
	lo, hi := j.lo(), j.hi()
	if lo < ov.lo() {
		lo = ninf
	}
	if hi > ov.hi() {
		hi = pinf
	}
	return aval{sp: []span{{lo, hi}}, ax: j.ax}
}

func (a *fnAnalysis) cellDefault(k cellKey) aval {
	if k.field == -1 {
		return constVal(0)
	}
	if st, ok := k.root.Type().Underlying().(*types.Pointer); ok {
		if nt, ok := st.Elem().(*types.Named); ok {
			if s, ok := nt.Underlying().(*types.Struct); ok && k.field < s.NumFields() {
				a.res.fieldsRead[nt.Obj().Name()+"."+fieldName(nt, k.field)] = true
				return a.e.field(nt.Obj().Name() + "." + fieldName(nt, k.field))
			}
		}
	}
	return topVal()
}

func (a *fnAnalysis) get(st *rstate, v ssa.Value) aval {
	switch x := v.(type) {
	case *ssa.Const:
		if x.Value != nil && x.Value.Kind() == constant.Int {
			if k, ok := constant.Int64Val(x.Value); ok {
				return constVal(k)
			}
		}
		return topVal()
	}
	if r, ok := st.iv[v]; ok {
		return r
	}
	if p, ok := v.(*ssa.Parameter); ok {
		for i, q := range a.fn.Params {
			if q == p {
				return a.e.paramOf(a.fn, i)
			}
		}
	}
	return topVal()
}

func (a *fnAnalysis) getF(st *rstate, v ssa.Value) fval {
	if c, ok := v.(*ssa.Const); ok && c.Value != nil && (c.Value.Kind() == constant.Float || c.Value.Kind() == constant.Int) {
		f, _ := constant.Float64Val(c.Value)
		return fconst(f)
	}
	if r, ok := st.fv[v]; ok {
		return r
	}
	return ftop()
}

func (a *fnAnalysis) observe(ins ssa.Instruction, v ssa.Value, val aval) {
	m := a.res.obs[ins]
	if m == nil {
		m = map[ssa.Value]aval{}
		a.res.obs[ins] = m
	}
	if old, ok := m[v]; ok {
		m[v] = joinVal(old, val)
	} else {
		m[v] = val
	}
}

func isCellRoot(v ssa.Value) bool {
	switch v.(type) {
	case *ssa.Parameter, *ssa.Alloc:
		return true
	}
	return false
}

func (a *fnAnalysis) block(b *ssa.BasicBlock, st *rstate) {
	for _, ins := range b.Instrs {
		if v, ok := ins.(ssa.Value); ok && isIntType(v.Type()) {
			defer func(v ssa.Value) {
				if val, ok := st.iv[v]; ok {
					a.res.vals[v] = joinVal(a.res.vals[v].orBot(), val)
				}
			}(v)
		}
		switch x := ins.(type) {
		case *ssa.Phi:
			// set on the incoming edge
		case *ssa.BinOp:
			if isIntType(x.Type()) {
				l, r := a.get(st, x.X), a.get(st, x.Y)
				var v aval
				switch x.Op {
				case token.ADD:
					v = addVal(l, r)
				case token.SUB:
					v = a.digitIdiom(st, x)
					if v.bot {
						v = a.remIdiom(st, x)
					}
					if v.bot {
						v = subVal(l, r)
					}
				case token.MUL:
					v = mulVal(l, r)
				case token.QUO:
					v = quoVal(l, r)
				case token.REM:
					v = remVal(l, r)
				case token.AND:
					if k, ok := r.isConst(); ok && k >= 0 {
						v = rangeVal(0, k).withAx(l.ax)
					} else {
						v = topVal().withAx(l.ax | r.ax)
					}
				default:
					v = topVal().withAx(l.ax | r.ax)
				}
				if l.bot || r.bot {
					v = botVal()
				}
				st.iv[x] = v
			} else if isFloatType(x.Type()) {
				l, r := a.getF(st, x.X), a.getF(st, x.Y)
				switch x.Op {
				case token.ADD:
					st.fv[x] = fbin("+", l, r)
				case token.SUB:
					st.fv[x] = fbin("-", l, r)
				case token.MUL:
					st.fv[x] = fbin("*", l, r)
				case token.QUO:
					st.fv[x] = fbin("/", l, r)
				default:
					st.fv[x] = ftop()
				}
			}
		case *ssa.UnOp:
			switch x.Op {
			case token.SUB:
				if isIntType(x.Type()) {
					st.iv[x] = negVal(a.get(st, x.X))
				} else if isFloatType(x.Type()) {
					f := a.getF(st, x.X)
					if !f.bot {
						st.fv[x] = fval{lo: -f.hi, hi: -f.lo, ax: f.ax}
					}
				}
			case token.MUL:
				a.load(st, x)
			}
		case *ssa.Convert:
			from, to := x.X.Type(), x.Type()
			switch {
			case isIntType(from) && isIntType(to):
				st.iv[x] = a.get(st, x.X)
			case isFloatType(from) && isIntType(to):
				st.iv[x] = fToInt(a.getF(st, x.X))
			case isIntType(from) && isFloatType(to):
				st.fv[x] = intToF(a.get(st, x.X))
			case isFloatType(from) && isFloatType(to):
				st.fv[x] = a.getF(st, x.X)
			}
		case *ssa.ChangeType:
			if isIntType(x.Type()) {
				st.iv[x] = a.get(st, x.X)
			}
		case *ssa.IndexAddr:
			a.observe(x, x.Index, a.get(st, x.Index))
		case *ssa.Index:
			a.observe(x, x.Index, a.get(st, x.Index))
		case *ssa.Slice:
			if x.Low != nil {
				a.observe(x, x.Low, a.get(st, x.Low))
			}
			if x.High != nil {
				a.observe(x, x.High, a.get(st, x.High))
			}
		case *ssa.Lookup:
			if isIntType(x.Index.Type()) {
				a.observe(x, x.Index, a.get(st, x.Index))
			}
			if isIntType(x.Type()) {
				// map[string]int tables
				v := topVal()
				if ld, ok := x.X.(*ssa.UnOp); ok && ld.Op == token.MUL {
					if g, ok := ld.X.(*ssa.Global); ok {
						if h, ok := a.e.tabHull[gname(g)]; ok {
							v = h
						}
					}
				}
				// an integer read out of a map the function writes itself: one of the values it put there, or zero
				if mm, ok := x.X.(*ssa.MakeMap); ok && !x.CommaOk {
					v = a.localMapValues(st, mm)
				}
				st.iv[x] = v
			}
		case *ssa.Extract:
			if isIntType(x.Type()) {
				st.iv[x] = a.extract(st, x)
				if lk, ok := x.Tuple.(*ssa.Lookup); ok && lk.CommaOk && x.Index == 0 {
					if mm, ok := lk.X.(*ssa.MakeMap); ok {
						st.iv[x] = a.localMapValues(st, mm)
					}
				}
			}
		case *ssa.Store:
			a.store(st, x)
		case *ssa.Call:
			a.call(st, x)
		case *ssa.Return:
			for i, r := range x.Results {
				if isIntType(r.Type()) && len(x.Results) > 1 {
					if a.res.retN == nil {
						a.res.retN = map[int]aval{}
					}
					a.res.retN[i] = joinVal(a.res.retN[i].orBot(), a.get(st, r))
				}
				if isIntType(r.Type()) && len(x.Results) == 1 {
					a.res.ret = joinVal(a.res.ret, a.get(st, r))
				} else if _, isSlice := r.Type().Underlying().(*types.Slice); isSlice && len(x.Results) == 1 {
					// a function returning one slice is summarised by the length of what it returns
					a.res.ret = joinVal(a.res.ret, a.lenOf(st, r))
				} else if isFloatType(r.Type()) && len(x.Results) == 1 {
					a.res.retF = joinF(a.res.retF, a.getF(st, r))
				}
			}
			for k, v := range st.cells {
				if k.field >= 0 && isCellRoot(k.root) {
					if pt, ok := k.root.Type().Underlying().(*types.Pointer); ok {
						if nt, ok := pt.Elem().(*types.Named); ok {
							if s, ok := nt.Underlying().(*types.Struct); ok && isIntType(s.Field(k.field).Type()) {
								key := nt.Obj().Name() + "." + fieldName(nt, k.field)
								if a.stored(k) {
									a.res.exitCells[key] = joinVal(a.res.exitCells[key].orBot(), v)
								}
							}
						}
					}
				}
			}
		}
	}
}

// stored: does this function contain a store to the cell (as opposed to a cell created by a load)?
func (a *fnAnalysis) stored(k cellKey) bool {
	for _, ref := range *k.root.Referrers() {
		if fa, ok := ref.(*ssa.FieldAddr); ok && fa.Field == k.field {
			for _, r2 := range *fa.Referrers() {
				if st, ok := r2.(*ssa.Store); ok && st.Addr == ssa.Value(fa) {
					return true
				}
			}
		}
	}
	return false
}

func (a *fnAnalysis) extract(st *rstate, x *ssa.Extract) aval {
	switch t := x.Tuple.(type) {
	case *ssa.Next:
		if t.IsString && x.Index == 1 {
			return rangeVal(0, pinf)
		}
	case *ssa.Call:
		// one result of a library function that returns several
		if callee := t.Common().StaticCallee(); callee != nil && callee.Blocks != nil {
			a.res.retsUsed[callee] = true
			if m := a.e.retNSum[callee]; m != nil {
				if v, ok := m[x.Index]; ok {
					return v
				}
			}
			if inlineLibrary(callee) {
				return botVal() // not analysed yet: the fixpoint comes back here
			}
		}
	case *ssa.Lookup:
		if x.Index == 0 {
			if ld, ok := t.X.(*ssa.UnOp); ok && ld.Op == token.MUL {
				if g, ok := ld.X.(*ssa.Global); ok {
					if h, ok := a.e.tabHull[gname(g)]; ok {
						return h
					}
				}
			}
		}
	}
	return topVal()
}

// tableOf: if v is (a load of) a never-written package table, its name.
func (a *fnAnalysis) tableOf(v ssa.Value) (string, bool) {
	switch x := v.(type) {
	case *ssa.UnOp:
		if x.Op == token.MUL {
			if g, ok := x.X.(*ssa.Global); ok && !a.e.mutable[gname(g)] {
				return gname(g), true
			}
		}
	case *ssa.Global:
		// arrays are indexed through their address
		if !a.e.mutable[gname(x)] {
			return gname(x), true
		}
	}
	return "", false
}

func (a *fnAnalysis) load(st *rstate, x *ssa.UnOp) {
	intT, floatT := isIntType(x.Type()), isFloatType(x.Type())
	if !intT && !floatT {
		return
	}
	switch addr := x.X.(type) {
	case *ssa.FieldAddr:
		if !intT {
			return
		}
		key := fieldKeyOf(addr)
		if isCellRoot(addr.X) {
			ck := cellKey{root: addr.X, field: addr.Field}
			v, ok := st.cells[ck]
			if !ok {
				v = a.e.field(key)
				a.res.fieldsRead[key] = true
				st.cells[ck] = v
			}
			st.alias[ck] = x
			st.iv[x] = v
			return
		}
		a.res.fieldsRead[key] = true
		st.iv[x] = a.e.field(key)
	case *ssa.IndexAddr:
		if ms, ln, ok := localArray(addr.X); ok && intT {
			if ln <= 64 {
				idx := a.get(st, addr.Index).clamp(0, ln-1)
				v := botVal()
				if !idx.bot {
					for _, s := range idx.sp {
						for k := s.lo; k <= s.hi; k++ {
							cv, ok := st.cells[cellKey{root: ms, field: -1, idx: k}]
							if !ok {
								cv = constVal(0)
							}
							v = joinVal(v, cv)
						}
					}
				}
				st.iv[x] = v.withAx(idx.ax)
				return
			}
		}
		if name, ok := a.tableOf(addr.X); ok && intT {
			if h, ok := a.e.tabHull[name]; ok {
				st.iv[x] = h
				return
			}
		}
		if intT {
			st.iv[x] = topVal()
		}
	case *ssa.Alloc:
		// a local variable that lives in a cell (captured by a closure) and is assigned once
		if intT {
			if v := soleStoredValue(addr); v != nil {
				if r := a.get(st, v); !r.bot {
					st.iv[x] = r
					return
				}
			}
			st.iv[x] = topVal()
		}
	case *ssa.FreeVar:
		// a variable of the enclosing function, captured by reference and assigned once there
		if intT {
			st.iv[x] = a.capturedRange(addr)
		}
	case *ssa.Global:
		if intT {
			if h, ok := a.e.tabHull[gname(addr)]; ok && !a.e.mutable[gname(addr)] {
				st.iv[x] = h
				return
			}
			st.iv[x] = topVal()
		}
	default:
		if intT {
			st.iv[x] = topVal()
		}
	}
}

func constLen(ms *ssa.MakeSlice) (int64, bool) {
	if c, ok := ms.Len.(*ssa.Const); ok && c.Value != nil {
		return constant.Int64Val(c.Value)
	}
	return 0, false
}

// localArray recognises make([]T, const): go/ssa builds it as new([n]T)[:] (or MakeSlice
// with a constant length). It returns the allocation that identifies the array and its length.
func localArray(v ssa.Value) (ssa.Value, int64, bool) {
	switch x := v.(type) {
	case *ssa.MakeSlice:
		if n, ok := constLen(x); ok {
			return x, n, true
		}
	case *ssa.Slice:
		if x.Low == nil && x.Max == nil {
			if al, ok := x.X.(*ssa.Alloc); ok {
				if at, ok := al.Type().Underlying().(*types.Pointer).Elem().Underlying().(*types.Array); ok {
					if x.High == nil {
						return al, at.Len(), true
					}
					if c, ok := x.High.(*ssa.Const); ok && c.Value != nil {
						if k, ok := constant.Int64Val(c.Value); ok && k == at.Len() {
							return al, at.Len(), true
						}
					}
				}
			}
		}
	}
	return nil, 0, false
}

func (a *fnAnalysis) store(st *rstate, x *ssa.Store) {
	if !isIntType(x.Val.Type()) {
		return
	}
	v := a.get(st, x.Val)
	a.observe(x, x.Val, v)
	switch addr := x.Addr.(type) {
	case *ssa.FieldAddr:
		if isCellRoot(addr.X) {
			ck := cellKey{root: addr.X, field: addr.Field}
			st.cells[ck] = v
			st.alias[ck] = x.Val
			return
		}
		key := fieldKeyOf(addr)
		a.res.weak[key] = joinVal(a.res.weak[key].orBot(), v)
	case *ssa.IndexAddr:
		if ms, ln, ok := localArray(addr.X); ok {
			if ln <= 64 {
				idx := a.get(st, addr.Index).clamp(0, ln-1)
				if idx.bot {
					return
				}
				if k, ok := idx.isConst(); ok {
					st.cells[cellKey{root: ms, field: -1, idx: k}] = v.withAx(idx.ax)
					return
				}
				// A[i] = A[i] +/- c where i is a strictly monotone loop counter: every cell is
				// updated at most once, so the new value derives from the value at loop entry
				delta, once := a.onceUpdate(x, addr)
				for _, s := range idx.sp {
					for k := s.lo; k <= s.hi; k++ {
						ck := cellKey{root: ms, field: -1, idx: k}
						cv, ok := st.cells[ck]
						if !ok {
							cv = constVal(0)
						}
						if once && st.snap != nil {
							ev, ok := st.snap[ck]
							if !ok {
								ev = constVal(0)
							}
							st.cells[ck] = joinVal(cv, addVal(ev, constVal(delta))).withAx(idx.ax)
							continue
						}
						st.cells[ck] = joinVal(cv, v).withAx(idx.ax)
					}
				}
			}
		}
	}
}

// onceUpdate matches  A[i] = A[i] + c  (or - c) where i is a header phi of an enclosing
// loop whose only other incoming value is i + k with constant k != 0.
func (a *fnAnalysis) onceUpdate(st *ssa.Store, addr *ssa.IndexAddr) (int64, bool) {
	bo, ok := st.Val.(*ssa.BinOp)
	if !ok || (bo.Op != token.ADD && bo.Op != token.SUB) {
		return 0, false
	}
	c, ok := bo.Y.(*ssa.Const)
	if !ok || c.Value == nil || c.Value.Kind() != constant.Int {
		return 0, false
	}
	ld, ok := bo.X.(*ssa.UnOp)
	if !ok || ld.Op != token.MUL {
		return 0, false
	}
	ia, ok := ld.X.(*ssa.IndexAddr)
	if !ok || ia.X != addr.X || ia.Index != addr.Index {
		return 0, false
	}
	phi, ok := addr.Index.(*ssa.Phi)
	if !ok {
		return 0, false
	}
	mono := false
	for _, li := range a.loopsOf[st.Block()] {
		if li.header != phi.Block() {
			continue
		}
		mono = true
		for i, e := range phi.Edges {
			if !li.body[li.header.Preds[i]] {
				continue
			}
			step, ok := e.(*ssa.BinOp)
			if !ok || (step.Op != token.ADD && step.Op != token.SUB) || step.X != ssa.Value(phi) {
				mono = false
				continue
			}
			sc, ok := step.Y.(*ssa.Const)
			if !ok || sc.Value == nil || constant.Sign(sc.Value) == 0 {
				mono = false
			}
		}
	}
	if !mono {
		return 0, false
	}
	k, _ := constant.Int64Val(c.Value)
	if bo.Op == token.SUB {
		k = -k
	}
	return k, true
}

func (a *fnAnalysis) call(st *rstate, x *ssa.Call) {
	common := x.Common()
	for _, arg := range common.Args {
		if isIntType(arg.Type()) {
			a.observe(x, arg, a.get(st, arg))
		} else if _, isSlice := arg.Type().Underlying().(*types.Slice); isSlice {
			a.observe(x, arg, a.lenOf(st, arg)) // the length of a slice argument
		}
	}
	if b, ok := common.Value.(*ssa.Builtin); ok {
		if isIntType(x.Type()) {
			switch b.Name() {
			case "len", "cap":
				st.iv[x] = a.lenOf(st, common.Args[0])
			default:
				st.iv[x] = topVal()
			}
		}
		if b.Name() == "append" && len(common.Args) == 2 {
			// the length of the result: that of the first argument plus the number of appended elements
			k := rangeVal(0, pinf)
			if sl, ok := common.Args[1].(*ssa.Slice); ok && sl.Low == nil && sl.High == nil {
				if _, n, ok := localArray(sl.X); ok {
					k = constVal(n)
				} else if al, ok := sl.X.(*ssa.Alloc); ok {
					if at, ok := al.Type().Underlying().(*types.Pointer).Elem().Underlying().(*types.Array); ok {
						k = constVal(at.Len())
					}
				}
			}
			st.iv[x] = addVal(a.lenOf(st, common.Args[0]), k)
		}
		return
	}
	callee := common.StaticCallee()
	if callee == nil {
		if mc, ok := common.Value.(*ssa.MakeClosure); ok {
			callee, _ = mc.Fn.(*ssa.Function)
		}
	}
	if callee != nil && callee.Synthetic != "" && callee.Pkg == nil && callee.Parent() == nil && len(callee.FreeVars) == 1 {
		// x.M used as a function value: the call is the method call with the bound receiver
		if mc, ok := common.Value.(*ssa.MakeClosure); ok && len(mc.Bindings) == 1 {
			if m, ok := callee.Object().(*types.Func); ok {
				if real := callee.Prog.FuncValue(m); real != nil && real != callee && len(real.Params) == len(common.Args)+1 {
					cc := *common
					cc.Value = real
					cc.Args = append([]ssa.Value{mc.Bindings[0]}, common.Args...)
					common = &cc
					callee = real
				}
			}
		}
	}
	if callee == nil {
		if isIntType(x.Type()) {
			st.iv[x] = topVal()
		}
		return
	}
	full := callee.String()
	isLib := callee.Blocks != nil && callee.Pkg != nil && strings.HasPrefix(callee.Pkg.Pkg.Path(), a.e.c.ModPath)
	if isLib {
		// record arguments for parameter summaries
		args := make([]aval, len(callee.Params))
		for i := range args {
			args[i] = botVal()
			if i < len(common.Args) && isIntType(common.Args[i].Type()) {
				args[i] = a.get(st, common.Args[i])
			}
		}
		if cur, ok := a.res.callArgs[callee]; ok {
			for i := range args {
				cur[i] = joinVal(cur[i], args[i])
			}
		} else {
			a.res.callArgs[callee] = args
		}
		// cells of objects the callee writes are no longer known
		ef := a.e.c.eff.Of(callee)
		for i, arg := range common.Args {
			if !isCellRoot(arg) {
				continue
			}
			pre := fmt.Sprintf("p%d", i)
			writes := false
			for _, l := range ef.Writes {
				if l.Root == pre {
					writes = true
					break
				}
			}
			if writes {
				written := map[string]bool{}
				for _, l := range ef.Writes {
					if l.Root == pre {
						written[l.Flat] = true
					}
				}
				for k := range st.cells {
					if k.root != arg || k.field < 0 {
						continue
					}
					flat := ""
					if pt, ok := k.root.Type().Underlying().(*types.Pointer); ok {
						if nt, ok := pt.Elem().(*types.Named); ok {
							if s, ok := nt.Underlying().(*types.Struct); ok && k.field < s.NumFields() {
								flat = nt.Obj().Name() + "." + fieldName(nt, k.field)
							}
						}
					}
					if flat == "" || written[flat] {
						delete(st.cells, k)
						delete(st.alias, k)
					}
				}
			}
		}
		a.res.retsUsed[callee] = true
		// what the callee's normal return implies about its arguments (a validation helper that panics otherwise)
		for _, rf := range returnFacts(callee) {
			arg := func(v ssa.Value) ssa.Value {
				if p, ok := v.(*ssa.Parameter); ok {
					if i := paramIndex(callee, p); i >= 0 && i < len(common.Args) {
						return common.Args[i]
					}
					return nil
				}
				return v // a constant
			}
			xa, ya := arg(rf.x), arg(rf.y)
			if xa != nil && ya != nil {
				a.refineRel(st, xa, rf.op, ya)
			}
		}
		if isIntType(x.Type()) {
			// a bound method value (x.M used as a function) is the method itself
			cname := strings.TrimSuffix(fname(callee), "$bound")
			v, ok := a.e.siteOverrideFor(a.fn, cname, 0)
			if !ok {
				v, ok = a.e.retOverride[cname]
			}
			if !ok && cname == "LunarUtil.GetXunIndex" {
				// the decade of a pillar: when intervals cannot bound what the function returns (its searches may sit in a
				// function literal), the complete table of R18.6 over the sixty pillars does — under the same axiom the
				// interval proof rests on, that the argument is a pillar
				if rs := a.e.retSum[callee].orBot(); rs.bot || !rs.known() || rs.lo() < 0 || rs.hi() > 5 {
					if !a.e.c.xunRun {
						xunTable(a.e.c, newReport("C18"), "R18.6")
					}
					if a.e.c.xunOK {
						v, ok = rangeVal(0, 5).withAx(axBit("AX-SEARCHHIT")|axBit("TABLE-R18.6")), true
					}
				}
			}
			if !ok && isLocalHelper(callee) {
				// a helper or function literal that only hands two dates to Subtract: the same reasoning at its call site
				if rv, av := subtractDelegation(callee); rv != nil {
					subst := map[*ssa.Parameter]string{}
					for i, p := range callee.Params {
						if i < len(common.Args) {
							if d := dateDesc(common.Args[i], nil, 0); d != "" {
								subst[p] = d
							}
						}
					}
					// each date as the caller's own value when it is a parameter of the helper, else by its description
					side := func(v ssa.Value) (ssa.Value, string) {
						if p, isP := v.(*ssa.Parameter); isP {
							if i := paramIndex(callee, p); i >= 0 && i < len(common.Args) {
								return common.Args[i], ""
							}
						}
						return nil, dateDesc(v, subst, 0)
					}
					rVal, rd := side(rv)
					aVal, ad := side(av)
					if (rVal != nil || rd != "") && (aVal != nil || ad != "") {
						if lo, hi, known := orderedDateDiffD(a.fn, x.Block(), rVal, aVal, rd, ad); known {
							v, ok = rangeVal(lo, hi).withAx(axBit("AX-DATEDIFF")), true
						}
					}
				}
			}
			if !ok && cname == "calendar.(*Solar).Subtract" && len(common.Args) == 2 {
				// the day difference of two dates whose order is known from a dominating comparison
				// of their fixed-width renderings (or IsBefore/IsAfter): its sign follows that order
				if lo, hi, known := orderedDateDiff(a.fn, x.Block(), common.Args[0], common.Args[1]); known {
					v, ok = rangeVal(lo, hi).withAx(axBit("AX-DATEDIFF")), true
				}
			}
			if !ok {
				v = a.e.retSum[callee].orBot()
				// a small arithmetic helper is summarised per call site: floorMod(x, 10) and floorMod(x, 12)
				// do not share one result range
				lens := map[int]int64{}
				for i, arg := range common.Args {
					if _, isSlice := arg.Type().Underlying().(*types.Slice); isSlice {
						if l := a.lenOf(st, arg); l.known() && l.lo() == l.hi() {
							lens[i] = l.lo()
						}
					}
				}
				if cv, ok := a.e.ctxRet(callee, args, lens); ok {
					v = cv
				}
				// AX-SEARCHHIT through a search helper: in a declared function the searched name is found,
				// and the vocabularies searched are 1-based
				if a.e.searchHit[fname(a.fn)] && isSearchHelper(callee) && !v.bot {
					if m := meetVal(v, rangeVal(1, pinf)); !m.bot {
						v = m.withAx(v.ax | axBit("AX-SEARCHHIT"))
					}
				}
			}
			st.iv[x] = v
		} else if _, isSlice := x.Type().Underlying().(*types.Slice); isSlice {
			if v := a.e.retSum[callee].orBot(); !v.bot {
				st.iv[x] = v.clamp(0, pinf) // the length of the returned slice
			}
		} else if isFloatType(x.Type()) {
			v, ok := a.e.retFOverride[fname(callee)]
			if !ok {
				if r, ok2 := a.e.retFSum[callee]; ok2 {
					v = r
				} else {
					v = fbot()
				}
			}
			st.fv[x] = v
		}
		return
	}
	// external functions
	if isFloatType(x.Type()) {
		switch full {
		case "math.Ceil", "math.Floor", "math.Round", "math.Trunc":
			f := a.getF(st, common.Args[0])
			if !f.bot {
				switch full {
				case "math.Ceil":
					f = fval{lo: ceilF(f.lo), hi: ceilF(f.hi), ax: f.ax}
				case "math.Floor":
					f = fval{lo: floorF(f.lo), hi: floorF(f.hi), ax: f.ax}
				case "math.Round":
					f = fval{lo: floorF(f.lo), hi: ceilF(f.hi), ax: f.ax}
				case "math.Trunc":
					f = fval{lo: floorF(f.lo), hi: ceilF(f.hi), ax: f.ax}
				}
			}
			st.fv[x] = f
		default:
			st.fv[x] = ftop()
		}
		return
	}
	if !isIntType(x.Type()) {
		return
	}
	switch full {
	case "strings.Index", "strings.LastIndex", "strings.IndexByte", "strings.IndexRune":
		st.iv[x] = rangeVal(-1, pinf)
	case "strings.Compare":
		st.iv[x] = rangeVal(-1, 1)
	case "(*container/list.List).Len":
		st.iv[x] = rangeVal(0, pinf)
	case "(time.Time).Month":
		st.iv[x] = rangeVal(1, 12)
	case "(time.Time).Day":
		st.iv[x] = rangeVal(1, 31)
	case "(time.Time).Hour":
		st.iv[x] = rangeVal(0, 23)
	case "(time.Time).Minute", "(time.Time).Second":
		st.iv[x] = rangeVal(0, 59)
	default:
		st.iv[x] = topVal()
	}
}

func ceilF(x float64) float64 {
	if x != x || x > 9e18 || x < -9e18 {
		return x
	}
	i := float64(int64(x))
	if i < x {
		return i + 1
	}
	return i
}

func floorF(x float64) float64 {
	if x != x || x > 9e18 || x < -9e18 {
		return x
	}
	i := float64(int64(x))
	if i > x {
		return i - 1
	}
	return i
}

func (a *fnAnalysis) lenOf(st *rstate, v ssa.Value) aval {
	if _, isSlice := v.Type().Underlying().(*types.Slice); isSlice {
		if l, ok := st.iv[v]; ok {
			return l
		}
	}
	if name, ok := a.tableOf(v); ok {
		if n, ok := a.e.tabLen[name]; ok {
			return constVal(n)
		}
	}
	if _, n, ok := localArray(v); ok {
		return constVal(n)
	}
	switch x := v.(type) {
	case *ssa.Parameter:
		if n, ok := a.e.ctxLens[x]; ok {
			return constVal(n)
		}
	case *ssa.MakeSlice:
		return a.get(st, x.Len).clamp(0, pinf)
	case *ssa.Const:
		if x.Value != nil && x.Value.Kind() == constant.String {
			return constVal(int64(len(constant.StringVal(x.Value))))
		}
	case *ssa.Call:
		// len(fmt.Sprintf("%d", x)) with x >= 0 has between 1 and 19 digits
		if callee := x.Common().StaticCallee(); callee != nil && callee.String() == "fmt.Sprintf" {
			return rangeVal(0, pinf)
		}
	}
	return rangeVal(0, pinf)
}

// remIdiom: x - (x/c)*c (also written with a separately computed, structurally equal x) is x % c.
func (a *fnAnalysis) remIdiom(st *rstate, x *ssa.BinOp) aval {
	mul, ok := x.Y.(*ssa.BinOp)
	if !ok || mul.Op != token.MUL {
		return botVal()
	}
	try := func(q, k ssa.Value) aval {
		quo, ok := q.(*ssa.BinOp)
		if !ok || quo.Op != token.QUO {
			return botVal()
		}
		c1, ok1 := constInt(k)
		c2, ok2 := constInt(quo.Y)
		if !ok1 || !ok2 || c1 != c2 || c1 <= 0 {
			return botVal()
		}
		if quo.X != x.X && symExpr(a.e.c, quo.X, nil, map[ssa.Value]string{}, 0) != symExpr(a.e.c, x.X, nil, map[ssa.Value]string{}, 0) {
			return botVal()
		}
		xv := a.get(st, x.X)
		if xv.bot {
			return botVal()
		}
		return remVal(xv, constVal(c1))
	}
	if v := try(mul.X, mul.Y); !v.bot {
		return v
	}
	return try(mul.Y, mul.X)
}

// digitIdiom: <character of s> - '0' where s = fmt.Sprintf("%d", x) or strconv.Itoa(x) and x >= 0 is a digit 0..9;
// the character is []rune(s[i:i+1])[0], s[i] or the rune of a range over s.
func (a *fnAnalysis) digitIdiom(st *rstate, x *ssa.BinOp) aval {
	c, ok := x.Y.(*ssa.Const)
	if !ok || c.Value == nil || c.Value.Kind() != constant.Int {
		return botVal()
	}
	if k, _ := constant.Int64Val(c.Value); k != '0' {
		return botVal()
	}
	// the character: []rune(s[i:i+1])[0], s[i], or the rune of `for _, c := range s` (conversions between integer types aside)
	ch := x.X
	for {
		cv, isCv := ch.(*ssa.Convert)
		if !isCv || !isIntType(cv.X.Type()) {
			break
		}
		ch = cv.X
	}
	var str ssa.Value
	switch y := ch.(type) {
	case *ssa.UnOp:
		if y.Op != token.MUL {
			return botVal()
		}
		ia, ok := y.X.(*ssa.IndexAddr)
		if !ok {
			return botVal()
		}
		cv, ok := ia.X.(*ssa.Convert)
		if !ok {
			return botVal()
		}
		str = cv.X
		if sl, ok := str.(*ssa.Slice); ok {
			str = sl.X
		}
	case *ssa.Lookup:
		if !isStringType(y.X.Type()) {
			return botVal()
		}
		str = y.X
	case *ssa.Extract:
		nx, ok := y.Tuple.(*ssa.Next)
		if !ok || !nx.IsString || y.Index != 2 {
			return botVal()
		}
		rg, ok := nx.Iter.(*ssa.Range)
		if !ok {
			return botVal()
		}
		str = rg.X
	default:
		return botVal()
	}
	call, ok := str.(*ssa.Call)
	if !ok {
		return botVal()
	}
	callee := call.Common().StaticCallee()
	if callee == nil {
		return botVal()
	}
	var arg []ssa.Value
	switch callee.String() {
	case "strconv.Itoa":
		arg = call.Common().Args
	case "fmt.Sprintf":
		f, ok := call.Common().Args[0].(*ssa.Const)
		if len(call.Common().Args) != 2 || !ok || f.Value == nil || f.Value.Kind() != constant.String || (constant.StringVal(f.Value) != "%d" && constant.StringVal(f.Value) != "%v") {
			return botVal()
		}
		// the variadic argument: a slice literal holding MakeInterface(x)
		arg = sprintfArgs(call)
	default:
		return botVal()
	}
	if len(arg) != 1 || !isIntType(arg[0].Type()) {
		return botVal()
	}
	v := a.get(st, arg[0])
	if v.bot {
		return botVal()
	}
	if v.lo() >= 0 {
		return rangeVal(0, 9).withAx(v.ax)
	}
	return botVal()
}

// sprintfArgs recovers the variadic arguments of a fmt.Sprintf call from the
// slice literal go/ssa builds (new [n]interface{}; stores; slice).
func sprintfArgs(call *ssa.Call) []ssa.Value {
	args := call.Common().Args
	if len(args) < 2 {
		return nil
	}
	sl, ok := args[len(args)-1].(*ssa.Slice)
	if !ok {
		return nil
	}
	al, ok := sl.X.(*ssa.Alloc)
	if !ok {
		return nil
	}
	n := 0
	if at, ok := al.Type().Underlying().(*types.Pointer).Elem().Underlying().(*types.Array); ok {
		n = int(at.Len())
	}
	out := make([]ssa.Value, n)
	for _, ref := range *al.Referrers() {
		ia, ok := ref.(*ssa.IndexAddr)
		if !ok {
			continue
		}
		ic, ok := ia.Index.(*ssa.Const)
		if !ok {
			continue
		}
		k, _ := constant.Int64Val(ic.Value)
		for _, r2 := range *ia.Referrers() {
			if st, ok := r2.(*ssa.Store); ok {
				v := st.Val
				if mi, ok := v.(*ssa.MakeInterface); ok {
					v = mi.X
				}
				if int(k) < n {
					out[k] = v
				}
			}
		}
	}
	for _, v := range out {
		if v == nil {
			return nil
		}
	}
	return out
}

// searchHitAdjust implements AX-SEARCHHIT for declared functions: at the exit
// phi of a linear search "x := 0; for i ... { if match { x = i; break } }" the
// not-found edge (constant 0) is dropped and the found index is >= 1.
func (a *fnAnalysis) searchHitAdjust(phi *ssa.Phi, pi int, v aval) aval {
	if !a.e.searchHit[fname(a.fn)] || len(phi.Edges) != 2 {
		return v
	}
	other := phi.Edges[1-pi]
	edge := phi.Edges[pi]
	isZero := func(x ssa.Value) bool {
		c, ok := x.(*ssa.Const)
		if !ok || c.Value == nil || c.Value.Kind() != constant.Int {
			return false
		}
		k, _ := constant.Int64Val(c.Value)
		return k == 0
	}
	inLoop := func(x ssa.Value) bool {
		ins, ok := x.(ssa.Instruction)
		if !ok {
			return false
		}
		// the other value lives in a loop that the phi itself is outside of (an exit phi)
		for _, li := range a.loopsOf[ins.Block()] {
			if !li.body[phi.Block()] {
				return true
			}
		}
		return false
	}
	ax := axBit("AX-SEARCHHIT")
	if isZero(edge) && inLoop(other) {
		// not-found edge: infeasible under the axiom
		return botVal()
	}
	if isZero(other) && inLoop(edge) {
		return v.clamp(1, pinf).withAx(ax)
	}
	return v
}

// ---- branch refinement ----

func negCmp(op token.Token) token.Token { return negateOp(op) }

// refine applies cond == truth to st; returns false when the edge is infeasible.
func (a *fnAnalysis) refine(st *rstate, cond ssa.Value, truth bool) bool {
	switch x := cond.(type) {
	case *ssa.UnOp:
		if x.Op == token.NOT {
			return a.refine(st, x.X, !truth)
		}
	case *ssa.BinOp:
		op := x.Op
		switch op {
		case token.LSS, token.LEQ, token.GTR, token.GEQ, token.EQL, token.NEQ:
		default:
			return true
		}
		if !truth {
			op = negCmp(op)
		}
		return a.refineRel(st, x.X, op, x.Y)
	}
	return true
}

// refineRel narrows the ranges of x and y under the relation x op y.
func (a *fnAnalysis) refineRel(st *rstate, xv ssa.Value, op token.Token, yv ssa.Value) bool {
	x := struct{ X, Y ssa.Value }{xv, yv}
	{
		if isIntType(x.X.Type()) && isIntType(x.Y.Type()) {
			l, r := a.get(st, x.X), a.get(st, x.Y)
			if l.bot || r.bot {
				return true
			}
			nl, nr := l, r
			switch op {
			case token.LSS:
				nl = l.clamp(ninf, satAdd(r.hi(), -1))
				nr = r.clamp(satAdd(l.lo(), 1), pinf)
			case token.LEQ:
				nl = l.clamp(ninf, r.hi())
				nr = r.clamp(l.lo(), pinf)
			case token.GTR:
				nl = l.clamp(satAdd(r.lo(), 1), pinf)
				nr = r.clamp(ninf, satAdd(l.hi(), -1))
			case token.GEQ:
				nl = l.clamp(r.lo(), pinf)
				nr = r.clamp(ninf, l.hi())
			case token.EQL:
				nl = meetVal(l, r)
				nr = nl
				if !nl.bot {
					nl.ax, nr.ax = l.ax|r.ax, l.ax|r.ax
				}
			case token.NEQ:
				if k, ok := r.isConst(); ok {
					nl = l.remove(k)
				}
				if k, ok := l.isConst(); ok {
					nr = r.remove(k)
				}
			}
			if nl.bot || nr.bot {
				return false
			}
			// a refinement by a tainted bound taints the result
			if !eqVal(nl, l) {
				nl.ax |= r.ax
			}
			if !eqVal(nr, r) {
				nr.ax |= l.ax
			}
			a.assign(st, x.X, nl, 0)
			a.assign(st, x.Y, nr, 0)
		}
	}
	return true
}

func meetVal(a, b aval) aval {
	if a.bot || b.bot {
		return botVal()
	}
	out := botVal()
	for _, s := range b.sp {
		out = joinVal(out, a.clamp(s.lo, s.hi))
	}
	return out
}

// assign records a refined value for v, its memory cell, and simple arithmetic ancestors.
func (a *fnAnalysis) assign(st *rstate, v ssa.Value, nv aval, depth int) {
	if _, ok := v.(*ssa.Const); ok {
		return
	}
	st.iv[v] = nv
	for k, al := range st.alias {
		if al == v {
			st.cells[k] = nv
		}
	}
	if depth > 3 {
		return
	}
	switch x := v.(type) {
	case *ssa.BinOp:
		if c, ok := x.Y.(*ssa.Const); ok && c.Value != nil && c.Value.Kind() == constant.Int {
			k, _ := constant.Int64Val(c.Value)
			switch x.Op {
			case token.ADD:
				cur := a.get(st, x.X)
				a.assign(st, x.X, meetVal(cur, addVal(nv, constVal(-k))).keepAx(cur, nv), depth+1)
			case token.SUB:
				cur := a.get(st, x.X)
				a.assign(st, x.X, meetVal(cur, addVal(nv, constVal(k))).keepAx(cur, nv), depth+1)
			}
		}
		// k*y or y*k with a positive constant k: y lies between the bounds divided by k
		if x.Op == token.MUL && !nv.bot {
			for _, pr := range [][2]ssa.Value{{x.X, x.Y}, {x.Y, x.X}} {
				c, ok := pr[0].(*ssa.Const)
				if !ok || c.Value == nil || c.Value.Kind() != constant.Int {
					continue
				}
				k, _ := constant.Int64Val(c.Value)
				if _, otherConst := pr[1].(*ssa.Const); otherConst || k <= 0 {
					continue
				}
				lo, hi := nv.lo(), nv.hi()
				if lo != ninf {
					lo = -floorDiv64(-lo, k) // ceil(lo/k)
				}
				if hi != pinf {
					hi = floorDiv64(hi, k)
				}
				if lo <= hi {
					cur := a.get(st, pr[1])
					a.assign(st, pr[1], meetVal(cur, rangeVal(lo, hi)).keepAx(cur, nv), depth+1)
				}
				break
			}
		}
	case *ssa.Convert:
		if isIntType(x.X.Type()) {
			a.assign(st, x.X, nv, depth+1)
		}
	}
}

func floorDiv64(a, k int64) int64 {
	q := a / k
	if (a%k != 0) && ((a < 0) != (k < 0)) {
		q--
	}
	return q
}

func (a aval) keepAx(x, y aval) aval {
	if a.bot {
		return x
	}
	a.ax = x.ax | y.ax
	return a
}

// ---- queries ----

// obsValue: the join, over all contexts, of an int value (constants evaluate to themselves).
func (e *rangeEngine) obsValue(fn *ssa.Function, v ssa.Value) aval {
	if c, ok := v.(*ssa.Const); ok && c.Value != nil && c.Value.Kind() == constant.Int {
		k, _ := constant.Int64Val(c.Value)
		return constVal(k)
	}
	if r := e.res[fn]; r != nil {
		if val, ok := r.vals[v]; ok {
			return val
		}
	}
	return botVal()
}

func (e *rangeEngine) obsAt(fn *ssa.Function, ins ssa.Instruction, v ssa.Value) aval {
	if c, ok := v.(*ssa.Const); ok && c.Value != nil && c.Value.Kind() == constant.Int {
		k, _ := constant.Int64Val(c.Value)
		return constVal(k)
	}
	r := e.res[fn]
	if r == nil {
		return topVal()
	}
	if m, ok := r.obs[ins]; ok {
		if val, ok := m[v]; ok {
			return val
		}
	}
	return botVal() // never reached by the analysis (dead code or bottom summaries)
}

// phiOfCall names a merge by what it merges, not by the variable it came from: "phi-of:<callee>" for a
// phi all of whose incoming values are the result of one call of <callee> or that result plus/minus a
// constant (a day difference and the same difference after a borrow); "" otherwise.
func phiOfCall(phi *ssa.Phi) string {
	var call *ssa.Call
	for _, e := range phi.Edges {
		v := e
		if bo, ok := v.(*ssa.BinOp); ok && (bo.Op == token.ADD || bo.Op == token.SUB) {
			if _, isK := bo.Y.(*ssa.Const); isK {
				v = bo.X
			}
		}
		cl, ok := v.(*ssa.Call)
		if !ok || cl.Common().StaticCallee() == nil || (call != nil && cl != call) {
			return ""
		}
		call = cl
	}
	if call == nil {
		return ""
	}
	return "phi-of:" + fname(call.Common().StaticCallee())
}

// isSearchHelper: an unexported function of a (string, []string) pair, in either order, that returns
// the loop counter of a linear scan where it finds the string, and the constant 0 otherwise.
func isSearchHelper(fn *ssa.Function) bool {
	if fn.Object() == nil && fn.Parent() == nil {
		return false
	}
	if (fn.Object() != nil && fn.Object().Exported()) || len(fn.Params) < 1 || len(fn.Params) > 2 || fn.Signature.Results().Len() != 1 || !isIntType(fn.Signature.Results().At(0).Type()) {
		return false
	}
	nStr, nSl := 0, 0
	for _, p := range fn.Params {
		if isStringType(p.Type()) {
			nStr++
		}
		if sl, ok := p.Type().Underlying().(*types.Slice); ok && isStringType(sl.Elem()) {
			nSl++
		}
	}
	if nSl == 0 && len(fn.Params) == 1 {
		// the vocabulary may be a package-level table the helper searches itself
		for _, b := range fn.Blocks {
			for _, ins := range b.Instrs {
				if ld, ok := ins.(*ssa.UnOp); ok && ld.Op == token.MUL {
					if g, ok := ld.X.(*ssa.Global); ok {
						if sl, ok := g.Type().(*types.Pointer).Elem().Underlying().(*types.Slice); ok && isStringType(sl.Elem()) {
							nSl++
						}
					}
				}
			}
		}
	}
	if nStr != 1 || nSl < 1 {
		return false
	}
	counter, zero := false, false
	for _, b := range fn.Blocks {
		for _, ins := range b.Instrs {
			ret, ok := ins.(*ssa.Return)
			if !ok || len(ret.Results) != 1 {
				continue
			}
			if k, ok := constInt(ret.Results[0]); ok && k == 0 {
				zero = true
				continue
			}
			switch v := ret.Results[0].(type) {
			case *ssa.Phi:
				counter = true
			case *ssa.BinOp:
				_, isPhi := v.X.(*ssa.Phi)
				counter = counter || isPhi
			case *ssa.Extract:
				counter = true
			default:
				return false
			}
		}
	}
	return counter && zero
}

// sameObject: do two SSA values name the same object (the same value, or loads of the same field of the same object)?
// dateDesc: a canonical description of where an object comes from — a parameter, a field path below one,
// seen through variables that live in cells (a captured variable of a function literal is the cell its
// maker bound); "" when the value is not of that shape. subst gives the description of a callee's
// parameters at a call site.
func dateDesc(v ssa.Value, subst map[*ssa.Parameter]string, depth int) string {
	if depth > 8 {
		return ""
	}
	switch x := v.(type) {
	case *ssa.Parameter:
		if d, ok := subst[x]; ok {
			return d
		}
		if x.Parent() != nil {
			return "P:" + x.Parent().String() + ":" + x.Name()
		}
	case *ssa.UnOp:
		if x.Op != token.MUL {
			return ""
		}
		switch addr := x.X.(type) {
		case *ssa.FieldAddr:
			if base := dateDesc(addr.X, subst, depth+1); base != "" {
				return fmt.Sprintf("%s.#%d", base, addr.Field)
			}
		case *ssa.Alloc:
			if !isAggregate(addr) {
				if sv := soleStoredValue(addr); sv != nil {
					return dateDesc(sv, subst, depth+1)
				}
			}
		case *ssa.FreeVar:
			fn := addr.Parent()
			if fn == nil || fn.Parent() == nil {
				return ""
			}
			for i, fv := range fn.FreeVars {
				if fv != addr {
					continue
				}
				for _, b := range fn.Parent().Blocks {
					for _, ins := range b.Instrs {
						if mc, ok := ins.(*ssa.MakeClosure); ok && mc.Fn == ssa.Value(fn) && i < len(mc.Bindings) {
							if cell, ok := mc.Bindings[i].(*ssa.Alloc); ok && !isAggregate(cell) {
								if sv := soleStoredValue(cell); sv != nil {
									return dateDesc(sv, nil, depth+1)
								}
							}
						}
					}
				}
			}
		}
	}
	return ""
}

func sameObject(a, b ssa.Value, depth int) bool {
	if a == b {
		return true
	}
	if da := dateDesc(a, nil, 0); da != "" && da == dateDesc(b, nil, 0) {
		return true
	}
	if depth > 4 {
		return false
	}
	la, ok1 := a.(*ssa.UnOp)
	lb, ok2 := b.(*ssa.UnOp)
	if !ok1 || !ok2 || la.Op != token.MUL || lb.Op != token.MUL {
		return false
	}
	fa, ok1 := la.X.(*ssa.FieldAddr)
	fb, ok2 := lb.X.(*ssa.FieldAddr)
	return ok1 && ok2 && fa.Field == fb.Field && sameObject(fa.X, fb.X, depth+1)
}

// orderedDateDiff: bounds of recv.Subtract(arg) at block b of fn when a dominating branch fact orders the two dates:
// a comparison of recv.ToYmd()/ToYmdHms() with arg's, or recv.IsBefore/IsAfter(arg).
func orderedDateDiff(fn *ssa.Function, b *ssa.BasicBlock, recv, arg ssa.Value) (lo, hi int64, known bool) {
	return orderedDateDiffD(fn, b, recv, arg, "", "")
}

// orderedDateDiffD: the two dates given as values of fn, or (when a value is nil) by their descriptions.
func orderedDateDiffD(fn *ssa.Function, b *ssa.BasicBlock, recv, arg ssa.Value, recvDesc, argDesc string) (lo, hi int64, known bool) {
	sameObject := func(x, y ssa.Value, depth int) bool {
		// y is recv or arg
		want := argDesc
		if y == recv {
			want = recvDesc
		}
		if y == nil || want != "" {
			return want != "" && dateDesc(x, nil, 0) == want
		}
		return sameObject(x, y, depth)
	}
	if recv == nil {
		recv = descMarker{true}
	}
	if arg == nil {
		arg = descMarker{false}
	}
	rendered := func(v ssa.Value) (ssa.Value, string) {
		call, ok := v.(*ssa.Call)
		if !ok || call.Common().StaticCallee() == nil || !recvIsNamed(call.Common().StaticCallee(), "Solar") {
			return nil, ""
		}
		switch call.Common().StaticCallee().Name() {
		case "ToYmd", "ToYmdHms":
			return call.Common().Args[0], call.Common().StaticCallee().Name()
		}
		return nil, ""
	}
	lo, hi = ninf, pinf
	for _, f := range expandFacts(nil, domFacts(&evalFrame{fn: fn}, b), 3) {
		rel := 0 // +2: recv > arg, +1: recv >= arg, -1: recv <= arg, -2: recv < arg
		if x, y, op, ok := stringCompareAtom(f.cond); ok {
			ox, kx := rendered(x)
			oy, ky := rendered(y)
			if ox == nil || oy == nil || kx != ky {
				continue
			}
			if !f.truth {
				op = negOp(op)
			}
			if sameObject(ox, arg, 0) && sameObject(oy, recv, 0) {
				ox, oy, op = oy, ox, flipOp(op)
			}
			if !sameObject(ox, recv, 0) || !sameObject(oy, arg, 0) {
				continue
			}
			switch op {
			case token.GTR:
				rel = 2
			case token.GEQ:
				rel = 1
			case token.LEQ:
				rel = -1
			case token.LSS:
				rel = -2
			}
			if ky == "ToYmdHms" && (rel == 2 || rel == -2) {
				rel /= 2 // a later instant may fall on the same day
			}
		} else if call, ok := f.cond.(*ssa.Call); ok && call.Common().StaticCallee() != nil && recvIsNamed(call.Common().StaticCallee(), "Solar") && len(call.Common().Args) == 2 {
			name := call.Common().StaticCallee().Name()
			if name != "IsBefore" && name != "IsAfter" {
				continue
			}
			x, y := call.Common().Args[0], call.Common().Args[1]
			// IsBefore(x, y) true: x < y as instants, so date(x) <= date(y); false: x >= y, date(x) >= date(y)
			r := 0
			switch {
			case name == "IsBefore" && f.truth, name == "IsAfter" && !f.truth:
				r = -1
			default:
				r = 1
			}
			if sameObject(x, recv, 0) && sameObject(y, arg, 0) {
				rel = r
			} else if sameObject(x, arg, 0) && sameObject(y, recv, 0) {
				rel = -r
			}
		}
		switch rel {
		case 2:
			lo, known = max64(lo, 1), true
		case 1:
			lo, known = max64(lo, 0), true
		case -1:
			hi, known = min64(hi, 0), true
		case -2:
			hi, known = min64(hi, -1), true
		}
	}
	return lo, hi, known
}

// subtractDelegation: fn is `return x.Subtract(y)` (one block): returns x and y as values of fn.
func subtractDelegation(fn *ssa.Function) (recv, arg ssa.Value) {
	if len(fn.Blocks) != 1 {
		return nil, nil
	}
	ret, ok := fn.Blocks[0].Instrs[len(fn.Blocks[0].Instrs)-1].(*ssa.Return)
	if !ok || len(ret.Results) != 1 {
		return nil, nil
	}
	call, ok := ret.Results[0].(*ssa.Call)
	if !ok || call.Common().StaticCallee() == nil || fname(call.Common().StaticCallee()) != "calendar.(*Solar).Subtract" || len(call.Common().Args) != 2 {
		return nil, nil
	}
	return call.Common().Args[0], call.Common().Args[1]
}

// descMarker stands for a date known by its description only (never a real SSA value).
type descMarker struct{ recv bool }

func (descMarker) Name() string                  { return "desc" }
func (descMarker) String() string                { return "desc" }
func (descMarker) Type() types.Type              { return nil }
func (descMarker) Parent() *ssa.Function         { return nil }
func (descMarker) Referrers() *[]ssa.Instruction { return nil }
func (descMarker) Pos() token.Pos                { return token.NoPos }

func max64(a, b int64) int64 {
	if a > b {
		return a
	}
	return b
}

func min64(a, b int64) int64 {
	if a < b {
		return a
	}
	return b
}

// relFact: x op y holds between parameters and constants of a function.
type relFact struct {
	x, y ssa.Value
	op   token.Token
}

var returnFactsCache = map[*ssa.Function][]relFact{}

// returnFacts: the integer comparisons between parameters and constants that hold whenever fn returns
// normally (they dominate every return: the other side of each panics). For `func check(v, lo, hi int) {
// if v < lo || v > hi { panic(...) } }` these are v >= lo and v <= hi.
func returnFacts(fn *ssa.Function) []relFact {
	if out, ok := returnFactsCache[fn]; ok {
		return out
	}
	returnFactsCache[fn] = nil
	if fn.Blocks == nil {
		return nil
	}
	hasPanic := false
	for _, b := range fn.Blocks {
		if _, ok := b.Instrs[len(b.Instrs)-1].(*ssa.Panic); ok {
			hasPanic = true
		}
	}
	if !hasPanic {
		return nil
	}
	type key struct {
		cond  ssa.Value
		truth bool
	}
	var common map[key]bool
	for _, b := range fn.Blocks {
		if _, ok := b.Instrs[len(b.Instrs)-1].(*ssa.Return); !ok {
			continue
		}
		set := map[key]bool{}
		for _, f := range expandFacts(nil, domFacts(&evalFrame{fn: fn}, b), 3) {
			set[key{f.cond, f.truth}] = true
		}
		if common == nil {
			common = set
			continue
		}
		for k := range common {
			if !set[k] {
				delete(common, k)
			}
		}
	}
	var out []relFact
	simple := func(v ssa.Value) bool {
		switch x := v.(type) {
		case *ssa.Parameter:
			return isIntType(x.Type())
		case *ssa.Const:
			_, ok := constInt(x)
			return ok
		}
		return false
	}
	for _, b := range fn.Blocks { // deterministic order
		for _, ins := range b.Instrs {
			bo, ok := ins.(*ssa.BinOp)
			if !ok || !simple(bo.X) || !simple(bo.Y) {
				continue
			}
			switch bo.Op {
			case token.LSS, token.LEQ, token.GTR, token.GEQ, token.EQL, token.NEQ:
			default:
				continue
			}
			if common[key{bo, true}] {
				out = append(out, relFact{bo.X, bo.Y, bo.Op})
			}
			if common[key{bo, false}] {
				out = append(out, relFact{bo.X, bo.Y, negCmp(bo.Op)})
			}
		}
	}
	returnFactsCache[fn] = out
	return out
}

// capturedRange: the range of a variable a closure captured, when the enclosing function assigns it exactly once
// with a constant, the length of a literal table, or a value whose range that function's analysis knows.
func (a *fnAnalysis) capturedRange(fv *ssa.FreeVar) aval {
	parent := a.fn.Parent()
	if parent == nil {
		return topVal()
	}
	idx := -1
	for i, f := range a.fn.FreeVars {
		if f == fv {
			idx = i
		}
	}
	for _, b := range parent.Blocks {
		for _, ins := range b.Instrs {
			mc, ok := ins.(*ssa.MakeClosure)
			if !ok || mc.Fn != ssa.Value(a.fn) || idx < 0 || idx >= len(mc.Bindings) {
				continue
			}
			cell, ok := mc.Bindings[idx].(*ssa.Alloc)
			if !ok {
				return topVal()
			}
			v := soleStoredValue(cell)
			if v == nil {
				return topVal()
			}
			if k, ok := constInt(v); ok {
				return constVal(k)
			}
			if call, ok := v.(*ssa.Call); ok {
				if bi, isB := call.Common().Value.(*ssa.Builtin); isB && bi.Name() == "len" && len(call.Common().Args) == 1 {
					if ld, ok := call.Common().Args[0].(*ssa.UnOp); ok && ld.Op == token.MUL {
						if g, ok := ld.X.(*ssa.Global); ok && !a.e.mutable[gname(g)] {
							if n, ok := a.e.tabLen[gname(g)]; ok {
								return constVal(n)
							}
						}
					}
				}
			}
			if r := a.e.obsValue(parent, v); !r.bot {
				return r
			}
			return topVal()
		}
	}
	return topVal()
}

// localMapValues: the join of the integer values stored into a local map, and zero (the value of a missing key).
func (a *fnAnalysis) localMapValues(st *rstate, mm *ssa.MakeMap) aval {
	v := constVal(0)
	if mm.Referrers() == nil {
		return topVal()
	}
	for _, ref := range *mm.Referrers() {
		switch y := ref.(type) {
		case *ssa.MapUpdate:
			if !isIntType(y.Value.Type()) {
				return topVal()
			}
			r := a.get(st, y.Value)
			if r.bot {
				return topVal()
			}
			v = joinVal(v, r)
		case *ssa.Lookup, *ssa.DebugRef:
		default:
			return topVal()
		}
	}
	return v
}
