package main

// R05.7 — the two-hour slot of a clock time, decided for every minute of the day.

import (
	"fmt"
	"sort"

	"golang.org/x/tools/go/ssa"
)

func r05_7(c *Ctx, r *Report) {
	const rule = "R05.7"
	r.rule(rule, "Two-hour slots. LunarUtil.GetTimeZhiIndex is read as a decision table over every clock string HH:MM of the day (and HH:MM:SS forms, and the empty string): the part before its loop is followed as usual, the loop body is a table over the iteration number with the loop-carried values in their closed form (entry value + n*step; all of them must be such induction variables), and the result is that of the first iteration that returns, else of the exit path. Stated: 0 (子) for 23:00-23:59 and 00:00-00:59 and for the empty string, otherwise (hour+1)/2 — so every slot starts at its odd hour :00 and ends at the next even hour :59. No library code runs; strings are compared by the checker.")
	fn := c.Fn(r, rule, "LunarUtil.GetTimeZhiIndex")
	if fn == nil || len(fn.Params) != 1 {
		return
	}
	var bad []string
	n := 0
	try := func(hm string, want int64) {
		if len(bad) >= 4 {
			return
		}
		leaf := func(fr *evalFrame, v ssa.Value) (interface{}, bool) {
			if p, ok := v.(*ssa.Parameter); ok && fr.parent == nil && p == fn.Params[0] {
				return hm, true
			}
			return nil, false
		}
		ev := &evaluator{leaf: leaf, inline: inlineLibrary}
		res, outcome := ev.runCounted(fn, 64)
		n++
		got := outcome + " " + ev.fail
		if outcome == "return" && len(res) == 1 {
			got = fmt.Sprint(res[0])
		}
		if got != fmt.Sprint(want) {
			bad = append(bad, fmt.Sprintf("%q: %s, stated %d", hm, got, want))
		}
	}
	slot := func(h int) int64 {
		if h == 23 || h == 0 {
			return 0
		}
		return int64((h + 1) / 2)
	}
	try("", 0)
	for h := 0; h < 24; h++ {
		for m := 0; m < 60; m++ {
			try(fmt.Sprintf("%02d:%02d", h, m), slot(h))
		}
		try(fmt.Sprintf("%02d:00:00", h), slot(h))
		try(fmt.Sprintf("%02d:59:59", h), slot(h))
	}
	sort.Strings(bad)
	r.check(len(bad) == 0 && n > 0, rule, "LunarUtil.GetTimeZhiIndex maps every minute of the day to its two-hour slot", c.fnPos(fn), fmt.Sprintf("%d clock strings; deviations: %v", n, headList(bad, 4)))
}
