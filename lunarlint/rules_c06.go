package main

// C06 — lunar years well-formed, month navigation: thin structural part.

import (
	"fmt"
	"go/token"
	"sort"
	"strings"

	"golang.org/x/tools/go/ssa"
)

func init() {
	register("C06",
		"that a year has 12 or 13 months of 29/30 days, year lengths, contiguity of months and the agreement of neighbouring years' tables on the real ephemeris (numeric in the new-moon computation; R06.5/R06.6 follow the construction and the month walk on a synthetic one, scenario by scenario); whether the explicit leap-11/leap-12 override years are the right ones.",
		r06_1, r06_2, r06_3, r06_4, r08_8, r08_6, r06_5, r06_6)
}

func r06_1(c *Ctx, r *Report) {
	const rule = "R06.1"
	r.rule(rule, "The four in-year views use one predicate. GetMonthsInYear, GetDayCount, GetMonth and GetLeapMonth are followed by the evaluator (a model of container/list: New, PushBack/Front, PushBackList, Remove, Front, Back, Next, Prev, Len; loops as tables over the iteration number; helpers inline) on four checker-made month tables — no leap month, a leap 4th, a leap 12th closing the year, leap months that belong to the neighbouring years at the head and tail of the table: the months listed are exactly those of the object's own year in table order, the day count is their sum, GetMonth(n) is the first of them with number n (ten requests, among them leap, absent and zero) or nil, GetLeapMonth the number of the first leap one without its sign or 0, and the year's own table is left as it was. A view the evaluator cannot follow is decided by the analysis of its loop body instead: GetMonthsInYear, GetDayCount, GetMonth and GetLeapMonth each go through lunarYear.months — directly, or through an unexported helper (or GetMonthsInYear) that does and is checked the same way; the body of the loop is followed by the evaluator for a month of the object's own year or of the neighbouring year, leap or not, with the requested number or another: the month is admitted (pushed, appended, added to the count, returned) exactly when m.GetYear() == lunarYear.year and the view's own conjunct holds, GetLeapMonth returns the month number without its sign, a month that is not admitted leaves the running result untouched, and the accumulating views never leave the loop from its body (months 4, leap 4, 12 and leap 12 are followed). Necessary for 'reported leap month and day counts match the table'.")
	checked := map[*ssa.Function]bool{}
	for _, name := range []string{"GetMonthsInYear", "GetDayCount", "GetMonth", "GetLeapMonth"} {
		fn := c.Fn(r, rule, "calendar.(*LunarYear)."+name)
		if fn == nil {
			continue
		}
		// first: the whole view followed on stated month tables (a model of container/list); the analysis of the loop
		// body below is the fall-back for a view the evaluator cannot follow
		if bad, cases, followed := monthViewsByEvaluation(c, fn, name); followed {
			r.check(len(bad) == 0 && cases > 0, rule, fname(fn)+" on stated month tables", c.fnPos(fn), fmt.Sprintf("%d cases (no leap month, a leap 4th, a leap 12th, leap months of the neighbouring years; GetMonth for ten requests each); deviations: %v", cases, headList(bad, 3)))
			continue
		}
		kind := "accumulate"
		if name == "GetMonth" || name == "GetLeapMonth" {
			kind = name
		}
		// the collection the view iterates: the month table itself, or the result of a helper on the same object
		var helper *ssa.Function
		for _, b := range fn.Blocks {
			for _, ins := range b.Instrs {
				call, ok := ins.(*ssa.Call)
				if !ok || call.Common().StaticCallee() == nil || len(call.Common().Args) == 0 || call.Common().Args[0] != ssa.Value(fn.Params[0]) {
					continue
				}
				h := call.Common().StaticCallee()
				if h == fn || h.Signature.Recv() == nil || structName(h.Signature.Recv().Type()) != "LunarYear" || h.Signature.Results().Len() != 1 {
					continue
				}
				rt := h.Signature.Results().At(0).Type().String()
				if strings.Contains(rt, "LunarMonth") && strings.HasPrefix(rt, "[]") || (strings.HasSuffix(rt, "list.List") && fname(h) == "calendar.(*LunarYear).GetMonthsInYear") {
					helper = h
				}
			}
		}
		if helper != nil && !checked[helper] && fname(helper) != "calendar.(*LunarYear).GetMonthsInYear" {
			checked[helper] = true
			monthsView(c, r, rule, helper, "accumulate", false)
		}
		// a thin wrapper that hands the month list, its own year and the request to an unexported worker: the worker
		// is the view, its parameters standing for those values
		if loops, _ := findLoops(fn); len(loops) == 0 && helper == nil {
			if d := pureDelegation(fn); d != nil && d.callee.Object() != nil && !d.callee.Object().Exported() {
				roles := map[*ssa.Parameter]string{}
				for i, a := range d.call.Common().Args {
					if i >= len(d.callee.Params) {
						break
					}
					if _, f, ok := getterField(c, a); ok {
						switch f {
						case "LunarYear.year":
							roles[d.callee.Params[i]] = "year"
						case "LunarYear.months":
							roles[d.callee.Params[i]] = "months"
						}
					} else if len(fn.Params) > 1 && a == ssa.Value(fn.Params[1]) {
						roles[d.callee.Params[i]] = "asked"
					}
				}
				monthsViewVia(c, r, rule, d.callee, kind, false, fn, roles)
				continue
			}
		}
		monthsView(c, r, rule, fn, kind, helper != nil)
	}
}

// monthsView follows the loop of one view (or filter helper) over the months.
func monthsView(c *Ctx, r *Report, rule string, fn *ssa.Function, kind string, prefiltered bool) {
	monthsViewVia(c, r, rule, fn, kind, prefiltered, nil, nil)
}

// monthsViewVia: fn holds the loop; when wrapper is set, fn is the worker the exported view hands its work to
// and roles says which of fn's parameters is the object's year, the requested month number and the month list.
func monthsViewVia(c *Ctx, r *Report, rule string, fn *ssa.Function, kind string, prefiltered bool, wrapper *ssa.Function, roles map[*ssa.Parameter]string) {
	name := fn.Name()
	shown := fn
	if wrapper != nil {
		name, shown = wrapper.Name(), wrapper
	}
	construct := fname(shown) + " filters the month table by m.GetYear() == year"
	if prefiltered {
		construct = fname(shown) + " goes through the months of its own year"
	}
	iter := false
	for _, p := range c.eff.Of(shown).paramReads(0) {
		if p == ".months" {
			iter = true
		}
	}
	loops, _ := findLoops(fn)
	if len(loops) != 1 || !iter {
		r.bad(rule, construct, c.fnPos(fn), fmt.Sprintf("iterates months: %v; loops: %d (undecided = fail)", iter, len(loops)))
		return
	}
	li := loops[0]
	var entry *ssa.BasicBlock
	for _, sc := range li.header.Succs {
		if li.body[sc] {
			entry = sc
		}
	}
	var problems []string
	backward := false
	// the scan starts at one end and moves one element at a time
	for _, ins := range li.header.Instrs {
		phi, ok := ins.(*ssa.Phi)
		if !ok {
			break
		}
		if strings.HasSuffix(phi.Type().String(), "list.Element") {
			// from the first month forward, or from the last month backward, one element at a time
			start, step := "", ""
			for i, e := range phi.Edges {
				call, isCall := e.(*ssa.Call)
				name := ""
				if isCall && call.Common().StaticCallee() != nil {
					name = call.Common().StaticCallee().Name()
				}
				if li.body[li.header.Preds[i]] {
					step = name
					if (name != "Next" && name != "Prev") || call.Common().Args[0] != ssa.Value(phi) {
						problems = append(problems, "the scan does not advance by exactly one element (e.Next() / e.Prev()) per iteration")
					}
				} else {
					start = name
				}
			}
			switch {
			case start == "Front" && step == "Next":
			case start == "Back" && step == "Prev":
				backward = true
			default:
				problems = append(problems, fmt.Sprintf("the scan starts at %s() and moves by %s(): it does not run over the whole table from one end to the other", start, step))
			}
		}
		if isIntType(phi.Type()) {
			// a counted or range loop over a slice: counter from 0 (or -1 for range) by +1
			isCounter := false
			for i, e := range phi.Edges {
				if bo, ok := e.(*ssa.BinOp); ok && li.body[li.header.Preds[i]] && bo.X == ssa.Value(phi) {
					if k, ok := constInt(bo.Y); ok && bo.Op == token.ADD {
						isCounter = true
						if k != 1 {
							problems = append(problems, "the scan advances by more than one element")
						}
					}
				}
			}
			if isCounter {
				for i, e := range phi.Edges {
					if !li.body[li.header.Preds[i]] {
						if k, ok := constInt(e); !ok || (k != 0 && k != -1) {
							problems = append(problems, "the scan does not start at the first element")
						}
					}
				}
			}
		}
	}
	n := 0
	for _, sameYear := range []bool{true, false} {
		if prefiltered && !sameYear {
			continue // such a month is not in the collection this view iterates
		}
		for _, mMonth := range []int64{4, -4, 12, -12} {
			isLeap := mMonth < 0
			for _, monthEq := range []bool{true, false} {
				mYear := int64(2020)
				if !sameYear {
					mYear = 2019
				}
				asked := mMonth
				if !monthEq {
					asked = 7
				}
				leaf := func(fr *evalFrame, v ssa.Value) (interface{}, bool) {
					if p, isP := v.(*ssa.Parameter); isP && fr.parent == nil && wrapper != nil {
						switch roles[p] {
						case "year":
							return int64(2020), true
						case "asked":
							return asked, true
						}
						return nil, false
					}
					if fr.parent == nil && wrapper == nil && len(fn.Params) > 1 && v == ssa.Value(fn.Params[1]) {
						return asked, true
					}
					if ta, ok := v.(*ssa.TypeAssert); ok && structName(ta.AssertedType) == "LunarMonth" {
						return absPtr{"m", false}, true
					}
					if ld, ok := v.(*ssa.UnOp); ok && ld.Op == token.MUL {
						if _, isIA := ld.X.(*ssa.IndexAddr); isIA && structName(ld.Type()) == "LunarMonth" {
							return absPtr{"m", false}, true
						}
					}
					if rc, f, ok := getterField(c, v); ok {
						switch f {
						case "LunarMonth.year":
							return mYear, true
						case "LunarMonth.month":
							return mMonth, true
						case "LunarMonth.dayCount":
							return int64(29), true
						case "LunarYear.year":
							if ofr, o := fr.origin(rc); ofr.parent == nil && o == ssa.Value(fn.Params[0]) {
								return int64(2020), true
							}
						}
					}
					return nil, false
				}
				ev := &evaluator{inline: inlineLibrary, leaf: leaf}
				fr := &evalFrame{fn: fn, phiFrom: map[*ssa.BasicBlock]*ssa.BasicBlock{entry: li.header}}
				accumulating := kind == "accumulate"
				res, outcome := ev.runFrame(fr, entry, func(b *ssa.BasicBlock) bool { return b == li.header || (accumulating && !li.body[b]) })
				n++
				if accumulating && strings.HasPrefix(outcome, "stop:") && outcome != fmt.Sprintf("stop:%d", li.header.Index) {
					problems = append(problems, fmt.Sprintf("the scan ends at month %d although later months of the table (a leap 12th month) can still belong to the year", mMonth))
					continue
				}
				admitted := false
				switch {
				case outcome == "return":
					admitted = true
					want4 := mMonth
					if want4 < 0 {
						want4 = -want4
					}
					if name == "GetLeapMonth" && (len(res) != 1 || res[0] != interface{}(want4)) {
						problems = append(problems, fmt.Sprintf("a leap month %d is reported as %v", mMonth, res))
					}
					if name == "GetMonth" && (len(res) != 1 || res[0] != interface{}(absPtr{"m", false})) {
						problems = append(problems, "the month returned is not the admitted one")
					}
				case outcome == fmt.Sprintf("stop:%d", li.header.Index):
					for blk := range fr.phiFrom {
						for _, ins := range blk.Instrs {
							if call, ok := ins.(*ssa.Call); ok {
								if callee := call.Common().StaticCallee(); callee != nil && (callee.Name() == "PushBack" || callee.Name() == "PushFront") && strings.HasPrefix(callee.String(), "(*container/list.List).") {
									admitted = true
									// the months are listed in the table's order: appended on a forward scan, prepended on a backward one
									if (callee.Name() == "PushFront") != backward {
										problems = append(problems, "the admitted months are listed in the reverse of the table's order")
									}
								}
								if bi, ok := call.Common().Value.(*ssa.Builtin); ok && bi.Name() == "append" {
									admitted = true
								}
							}
						}
					}
					for _, ins := range li.header.Instrs {
						phi, ok := ins.(*ssa.Phi)
						if !ok || !isIntType(phi.Type()) {
							continue
						}
						nv := fr.resolve(phi)
						if nv == ssa.Value(phi) {
							continue
						}
						// a plain counter (phi + constant) is not a running result
						if bo, ok := nv.(*ssa.BinOp); ok && bo.X == ssa.Value(phi) {
							if _, isK := bo.Y.(*ssa.Const); isK {
								continue
							}
						}
						admitted = true
					}
				default:
					problems = append(problems, "the loop body could not be followed: "+outcome+" "+ev.fail)
					continue
				}
				want := sameYear
				switch kind {
				case "GetMonth":
					want = sameYear && monthEq
				case "GetLeapMonth":
					want = sameYear && isLeap
				}
				if admitted != want {
					problems = append(problems, fmt.Sprintf("a month of %s, leap=%v, requested number=%v: admitted=%v, expected %v", map[bool]string{true: "the own year", false: "the neighbouring year"}[sameYear], isLeap, monthEq, admitted, want))
				}
			}
		}
	}
	sort.Strings(problems)
	r.check(len(problems) == 0 && n >= 8, rule, construct, c.fnPos(fn), fmt.Sprintf("%d abstract months followed through the loop body; deviations: %v", n, headList(dedupe(problems), 3)))
}

func r06_2(c *Ctx, r *Report) {
	stepRelevanceRule(c, r, "R06.2", c.steppingMethods("LunarMonth", "LunarYear", "Lunar"), 5)
	const rule = "R06.2"
	fn := c.Fn(r, rule, "calendar.(*LunarMonth).Next")
	if fn == nil {
		return
	}
	// when the walk crosses into the neighbouring year's table, the month searched for there is the boundary month
	// of the table just left: every value the months of a table are compared with (year with year, month with
	// month; in Next itself or in an unexported helper it hands the key to) comes from the receiver (the first
	// anchor), from the last month of a table (months.Back()) where n > 0, or from the first (months.Front()) where n < 0
	fns := withHelpers(c, fn)
	inSet := map[*ssa.Function]bool{}
	for _, f := range fns {
		inSet[f] = true
	}
	type origin struct {
		what  string
		block *ssa.BasicBlock
	}
	var describeObj func(v ssa.Value, depth int) []origin
	describeObj = func(v ssa.Value, depth int) []origin {
		if depth > 8 {
			return []origin{{"?", nil}}
		}
		switch x := v.(type) {
		case *ssa.Parameter:
			if x.Parent() == fn {
				if paramIndex(fn, x) == 0 {
					return []origin{{"recv", nil}}
				}
				return []origin{{"parameter " + x.Name(), nil}}
			}
			var out []origin
			idx := paramIndex(x.Parent(), x)
			for _, f := range fns {
				for _, bb := range f.Blocks {
					for _, ins := range bb.Instrs {
						if call, ok := ins.(*ssa.Call); ok && call.Common().StaticCallee() == x.Parent() && idx < len(call.Common().Args) {
							out = append(out, describeObj(call.Common().Args[idx], depth+1)...)
						}
					}
				}
			}
			return out
		case *ssa.Phi:
			var out []origin
			for _, e := range x.Edges {
				if e != ssa.Value(x) {
					out = append(out, describeObj(e, depth+1)...)
				}
			}
			return out
		case *ssa.TypeAssert:
			if ld, ok := x.X.(*ssa.UnOp); ok {
				if fa, ok := ld.X.(*ssa.FieldAddr); ok {
					if el, ok := fa.X.(*ssa.Call); ok && el.Common().StaticCallee() != nil {
						switch el.Common().StaticCallee().String() {
						case "(*container/list.List).Back":
							return []origin{{"Back", el.Block()}}
						case "(*container/list.List).Front":
							return []origin{{"Front", el.Block()}}
						}
					}
					// an element reached by walking the list: the month under comparison itself
					return []origin{{"element", nil}}
				}
			}
		}
		return []origin{{"other: " + v.String(), nil}}
	}
	var describeKey func(v ssa.Value, depth int) []origin
	describeKey = func(v ssa.Value, depth int) []origin {
		if depth > 8 {
			return []origin{{"?", nil}}
		}
		if rc, f, ok := getterField(c, v); ok && (f == "LunarMonth.year" || f == "LunarMonth.month") {
			var out []origin
			for _, o := range describeObj(rc, depth+1) {
				out = append(out, origin{strings.TrimPrefix(f, "LunarMonth.") + "(" + o.what + ")", o.block})
			}
			return out
		}
		switch x := v.(type) {
		case *ssa.Phi:
			var out []origin
			for _, e := range x.Edges {
				if e != ssa.Value(x) {
					out = append(out, describeKey(e, depth+1)...)
				}
			}
			return out
		case *ssa.Parameter:
			if x.Parent() != fn {
				var out []origin
				idx := paramIndex(x.Parent(), x)
				for _, f := range fns {
					for _, bb := range f.Blocks {
						for _, ins := range bb.Instrs {
							if call, ok := ins.(*ssa.Call); ok && call.Common().StaticCallee() == x.Parent() && idx < len(call.Common().Args) {
								out = append(out, describeKey(call.Common().Args[idx], depth+1)...)
							}
						}
					}
				}
				return out
			}
		}
		return []origin{{"other: " + v.String(), nil}}
	}
	direction := func(b *ssa.BasicBlock) string {
		// which sign of n the block is reached under: the dominating conditions evaluated for n = 5 and n = -5
		consistent := func(nv int64) bool {
			leaf := func(fr *evalFrame, v ssa.Value) (interface{}, bool) {
				if p, ok := v.(*ssa.Parameter); ok && p.Parent() == fn && paramIndex(fn, p) == 1 {
					return nv, true
				}
				return nil, false
			}
			for _, f := range domFacts(&evalFrame{fn: fn}, b) {
				if o, ok := evalWith(f.fr, f.cond, leaf); ok {
					if bv, isB := o.(bool); isB && bv != f.truth {
						return false
					}
				}
			}
			return true
		}
		pos, neg := consistent(5), consistent(-5)
		switch {
		case pos && !neg:
			return "forward"
		case neg && !pos:
			return "backward"
		}
		return "either"
	}
	seenKeys := map[string]bool{}
	var bad []string
	for _, f := range fns {
		for _, b := range f.Blocks {
			for _, ins := range b.Instrs {
				bo, ok := ins.(*ssa.BinOp)
				if !ok || bo.Op != token.EQL {
					continue
				}
				for _, pr := range [][2]ssa.Value{{bo.X, bo.Y}, {bo.Y, bo.X}} {
					rc, fld, okg := getterField(c, pr[0])
					if !okg || (fld != "LunarMonth.year" && fld != "LunarMonth.month") {
						continue
					}
					if os := describeObj(rc, 0); len(os) != 1 || os[0].what != "element" {
						continue // the compared month must be an element of the table being searched
					}
					want := strings.TrimPrefix(fld, "LunarMonth.")
					for _, o := range describeKey(pr[1], 0) {
						seenKeys[o.what] = true
						switch o.what {
						case want + "(recv)":
						case want + "(Back)":
							if d := direction(o.block); d != "forward" {
								bad = append(bad, fmt.Sprintf("%s taken where n is %s", o.what, d))
							}
						case want + "(Front)":
							if d := direction(o.block); d != "backward" {
								bad = append(bad, fmt.Sprintf("%s taken where n is %s", o.what, d))
							}
						default:
							bad = append(bad, fmt.Sprintf("the table's %s is compared with %s", want, o.what))
						}
					}
				}
			}
		}
	}
	var missing []string
	for _, k := range []string{"year(recv)", "month(recv)", "year(Back)", "month(Back)", "year(Front)", "month(Front)"} {
		if !seenKeys[k] {
			missing = append(missing, k)
		}
	}
	sort.Strings(bad)
	r.check(len(bad) == 0 && len(missing) == 0, rule, "calendar.(*LunarMonth).Next re-anchors the search key on the boundary month", c.fnPos(fn), fmt.Sprintf("search keys seen: %v; deviations: %v; expected but not seen: %v", sortedKeys(seenKeys), dedupe(bad), missing))
	if f2 := c.Fn(r, rule, "calendar.NewLunarMonthFromYm"); f2 != nil {
		s := ""
		for _, b := range f2.Blocks {
			for _, ins := range b.Instrs {
				if ret, ok := ins.(*ssa.Return); ok && len(ret.Results) == 1 {
					s = symExpr(c, ret.Results[0], nil, map[ssa.Value]string{}, 0)
				}
			}
		}
		r.check(s == "calendar.(*LunarYear).GetMonth(calendar.NewLunarYear(lunarYear),lunarMonth)", rule, "calendar.NewLunarMonthFromYm is NewLunarYear(y).GetMonth(m)", c.fnPos(f2), s)
	}
}

// boundaryKey describes v when it is X.GetYear()/X.GetMonth() of the element at the
// Back()/Front() of a month list: "GetYear(Back", "GetMonth(Front", …; otherwise a short description.
func boundaryKey(v ssa.Value) string {
	call, ok := v.(*ssa.Call)
	if !ok || call.Common().StaticCallee() == nil {
		return "not a getter call: " + v.String()
	}
	name := call.Common().StaticCallee().Name()
	if name != "GetYear" && name != "GetMonth" {
		return "call of " + name
	}
	ta, ok := call.Common().Args[0].(*ssa.TypeAssert)
	if !ok {
		return name + "(of something that is not a list element)"
	}
	ld, ok := ta.X.(*ssa.UnOp)
	if !ok {
		return name + "(?)"
	}
	fa, ok := ld.X.(*ssa.FieldAddr)
	if !ok {
		return name + "(?)"
	}
	el, ok := fa.X.(*ssa.Call)
	if !ok || el.Common().StaticCallee() == nil {
		return name + "(?)"
	}
	return name + "(" + el.Common().StaticCallee().Name()
}

func r06_3(c *Ctx, r *Report) {
	const rule = "R06.3"
	r.rule(rule, "Published year tables are immutable. LunarYear.months, LunarYear.jieQiJulianDays and the fields of LunarYear and LunarMonth are written only to objects the writing activation has allocated itself, or through a parameter of an unexported builder that every caller hands a freshly allocated object (LunarYear.compute): the tables are shared through the one-slot cache.")
	writers := map[string]map[string]bool{}
	notBuilding := map[string]bool{}
	for _, fn := range c.Funcs {
		if isInit(fn) {
			continue
		}
		for _, l := range c.eff.Of(fn).Writes {
			if l.Via != fname(fn) {
				continue
			}
			if strings.HasPrefix(l.Flat, "LunarYear.") || strings.HasPrefix(l.Flat, "LunarMonth.") || (l.Flat == "list" && strings.Contains(l.Path, "months")) || strings.HasSuffix(l.Path, ".jieQiJulianDays[]") {
				k := l.Flat
				if l.Flat == "list" {
					k = "LunarYear.months(list)"
				}
				if writers[k] == nil {
					writers[k] = map[string]bool{}
				}
				writers[k][fname(fn)] = true
				// a write to an object this activation allocated, or through a builder parameter
				// (an object every caller has just allocated), is part of building the table
				building := l.Root == "a"
				if strings.HasPrefix(l.Root, "p") {
					idx := -1
					fmt.Sscanf(l.Root, "p%d", &idx)
					building = c.builderParam(fn, idx, map[string]bool{})
				}
				if !building {
					notBuilding[fname(fn)] = true
				}
			}
		}
	}
	n := 0
	for k, ws := range writers {
		n++
		var bad []string
		for w := range ws {
			if notBuilding[w] {
				bad = append(bad, w)
			}
		}
		r.check(len(bad) == 0, rule, k+" is written only while the year table is built", "-", fmt.Sprintf("writers %v; outside the builders: %v", sortedKeys(ws), bad))
	}
	if n < 8 {
		r.bad(rule, "instance floor R06.3", "-", fmt.Sprintf("only %d written fields found", n))
	}
}

func r06_4(c *Ctx, r *Report) {
	const rule = "R06.4"
	r.rule(rule, "The override-year membership test visits every element. contains(arr, n), which decides whether a year is in LEAP_11 / LEAP_12, is followed by the evaluator (its scan as a table over the iteration number, whichever way it runs) on tables of 0, 1 and 4 years: it answers true exactly for the years of the table — the first and the last included; both override tables are strictly increasing and disjoint.")
	fn := c.Fn(r, rule, "calendar.contains")
	if fn != nil {
		// followed by the evaluator (the scan as a table over the iteration number, whichever way it runs) on
		// tables of 0, 1 and 4 distinct years, asked for each element, and for years below, between and above
		var bad []string
		n := 0
		if len(fn.Params) == 2 {
			for _, tab := range [][]int64{{}, {7}, {3, 8, 15, 22}} {
				asks := append([]int64{1, 9, 30}, tab...)
				for _, ask := range asks {
					var leaf leafX
					leaf = func(fr *evalFrame, v ssa.Value) (interface{}, bool) {
						if fr.parent == nil && v == ssa.Value(fn.Params[1]) {
							return ask, true
						}
						if call, ok := v.(*ssa.Call); ok {
							if b, isB := call.Common().Value.(*ssa.Builtin); isB && b.Name() == "len" && len(call.Common().Args) == 1 {
								if _, o := fr.origin(call.Common().Args[0]); o == ssa.Value(fn.Params[0]) {
									return int64(len(tab)), true
								}
							}
						}
						if ld, ok := v.(*ssa.UnOp); ok && ld.Op == token.MUL {
							if ia, ok := ld.X.(*ssa.IndexAddr); ok {
								if _, o := fr.origin(ia.X); o == ssa.Value(fn.Params[0]) {
									iv, ok := evalWith(fr, ia.Index, leaf)
									i, isI := iv.(int64)
									if !ok || !isI || i < 0 || int(i) >= len(tab) {
										return nil, false
									}
									return tab[i], true
								}
							}
						}
						return nil, false
					}
					ev := &evaluator{inline: inlineLibrary, leaf: leaf}
					res, outcome := ev.run(fn, nil, nil, nil, nil)
					n++
					want := false
					for _, y := range tab {
						if y == ask {
							want = true
						}
					}
					if outcome != "return" || len(res) != 1 {
						bad = append(bad, fmt.Sprintf("table %v, year %d: not followed (%s %s)", tab, ask, outcome, ev.fail))
					} else if res[0] != interface{}(want) {
						bad = append(bad, fmt.Sprintf("table %v, year %d: %v, expected %v", tab, ask, res[0], want))
					}
				}
			}
		}
		r.check(len(bad) == 0 && n == 14, rule, "calendar.contains finds exactly the years of the table", c.fnPos(fn), fmt.Sprintf("%d (table, year) cases followed; deviations: %v", n, headList(bad, 3)))
	}
	var l11, l12 []int64
	for _, t := range []struct {
		name string
		dst  *[]int64
	}{{"LEAP_11", &l11}, {"LEAP_12", &l12}} {
		v := c.tab(r, rule, "calendar", t.name)
		if v == nil || v.Kind != "list" {
			continue
		}
		inc := true
		for i, e := range v.L {
			*t.dst = append(*t.dst, e.I)
			if i > 0 && e.I <= v.L[i-1].I {
				inc = false
			}
		}
		r.check(inc && len(v.L) > 50, rule, "calendar."+t.name+" is strictly increasing", c.pos(v.Pos), fmt.Sprintf("%d years", len(v.L)))
	}
	both := []int64{}
	set := map[int64]bool{}
	for _, y := range l11 {
		set[y] = true
	}
	for _, y := range l12 {
		if set[y] {
			both = append(both, y)
		}
	}
	r.check(len(both) == 0, rule, "LEAP_11 and LEAP_12 are disjoint", c.pos(c.tables.pos("calendar", "LEAP_12")), fmt.Sprintf("years in both: %v", both))
}
