package main

// E6: literal-table evaluator.
//
// Reads the initialisers of package-level variables from the type-checked syntax
// tree: composite literals (slices, arrays, maps, nested), constants, references
// to other package-level variables, string concatenation, and the one initialiser
// that is a call — ShouXingUtil.decode(lit) — which is constant-folded by
// interpreting its straight-line body (local string definitions and a chain of
// strings.Replace(s, lit, lit, -1)). No library function is executed.

import (
	"fmt"
	"go/ast"
	"go/constant"
	"go/token"
	"go/types"
	"strings"
)

type TVal struct {
	Kind string // "str" "int" "float" "bool" "list" "map"
	S    string
	I    int64
	F    float64
	B    bool
	L    []*TVal
	Keys []string // map keys in source order
	M    map[string]*TVal
	Dup  []string // duplicate map keys in the literal (compile error for constants, kept for completeness)
	Pos  token.Pos
}

func (v *TVal) strs() []string {
	out := make([]string, len(v.L))
	for i, e := range v.L {
		out[i] = e.S
	}
	return out
}

type tableEval struct {
	c     *Ctx
	memo  map[string]*TVal
	errs  map[string]error
	specs map[string]*varSpec
}

type varSpec struct {
	pkg   string
	name  string
	expr  ast.Expr
	info  *types.Info
	pos   token.Pos
	isVar bool
}

func newTableEval(c *Ctx) *tableEval {
	t := &tableEval{c: c, memo: map[string]*TVal{}, errs: map[string]error{}, specs: map[string]*varSpec{}}
	for name, p := range c.PkgBy {
		if strings.HasPrefix(name, "test:") {
			continue
		}
		for _, f := range p.Syntax {
			for _, d := range f.Decls {
				gd, ok := d.(*ast.GenDecl)
				if !ok || (gd.Tok != token.VAR && gd.Tok != token.CONST) {
					continue
				}
				for _, s := range gd.Specs {
					vs := s.(*ast.ValueSpec)
					for i, n := range vs.Names {
						if i < len(vs.Values) {
							t.specs[name+"."+n.Name] = &varSpec{pkg: name, name: n.Name, expr: vs.Values[i], info: p.TypesInfo, pos: n.Pos(), isVar: gd.Tok == token.VAR}
						}
					}
				}
			}
		}
	}
	return t
}

// Var evaluates the initialiser of pkg.name.
func (t *tableEval) Var(pkg, name string) (*TVal, error) {
	key := pkg + "." + name
	if v, ok := t.memo[key]; ok {
		return v, t.errs[key]
	}
	sp := t.specs[key]
	if sp == nil {
		err := fmt.Errorf("no initialiser found for %s", key)
		t.memo[key] = nil
		t.errs[key] = err
		return nil, err
	}
	t.memo[key] = nil
	v, err := t.eval(sp.expr, sp.info, sp.pkg, nil)
	if v != nil && v.Pos == token.NoPos {
		v.Pos = sp.pos
	}
	t.memo[key] = v
	t.errs[key] = err
	return v, err
}

func (t *tableEval) pos(pkg, name string) token.Pos {
	if sp := t.specs[pkg+"."+name]; sp != nil {
		return sp.pos
	}
	return token.NoPos
}

func constToTVal(cv constant.Value, pos token.Pos) *TVal {
	switch cv.Kind() {
	case constant.String:
		return &TVal{Kind: "str", S: constant.StringVal(cv), Pos: pos}
	case constant.Int:
		i, _ := constant.Int64Val(cv)
		return &TVal{Kind: "int", I: i, F: float64(i), Pos: pos}
	case constant.Float:
		f, _ := constant.Float64Val(cv)
		return &TVal{Kind: "float", F: f, Pos: pos}
	case constant.Bool:
		return &TVal{Kind: "bool", B: constant.BoolVal(cv), Pos: pos}
	}
	return nil
}

func (t *tableEval) eval(e ast.Expr, info *types.Info, pkg string, env map[string]*TVal) (*TVal, error) {
	if tv, ok := info.Types[e]; ok && tv.Value != nil {
		if v := constToTVal(tv.Value, e.Pos()); v != nil {
			// a float-typed constant written as an integer literal
			if b, ok := tv.Type.Underlying().(*types.Basic); ok && b.Info()&types.IsFloat != 0 && v.Kind == "int" {
				v.Kind = "float"
			}
			return v, nil
		}
	}
	switch x := e.(type) {
	case *ast.ParenExpr:
		return t.eval(x.X, info, pkg, env)
	case *ast.Ident:
		if env != nil {
			if v, ok := env[x.Name]; ok {
				return v, nil
			}
		}
		if obj := info.Uses[x]; obj != nil && obj.Pkg() != nil && obj.Parent() == obj.Pkg().Scope() {
			return t.Var(obj.Pkg().Name(), obj.Name())
		}
		return nil, fmt.Errorf("%s: unsupported identifier %s", t.c.pos(x.Pos()), x.Name)
	case *ast.SelectorExpr:
		if obj := info.Uses[x.Sel]; obj != nil && obj.Pkg() != nil && obj.Parent() == obj.Pkg().Scope() {
			return t.Var(obj.Pkg().Name(), obj.Name())
		}
		return nil, fmt.Errorf("%s: unsupported selector", t.c.pos(x.Pos()))
	case *ast.BinaryExpr:
		l, err := t.eval(x.X, info, pkg, env)
		if err != nil {
			return nil, err
		}
		r, err := t.eval(x.Y, info, pkg, env)
		if err != nil {
			return nil, err
		}
		if x.Op == token.ADD && l.Kind == "str" && r.Kind == "str" {
			return &TVal{Kind: "str", S: l.S + r.S, Pos: x.Pos()}, nil
		}
		return nil, fmt.Errorf("%s: unsupported binary expression", t.c.pos(x.Pos()))
	case *ast.CompositeLit:
		typ := info.TypeOf(x)
		if typ == nil {
			return nil, fmt.Errorf("%s: untyped composite literal", t.c.pos(x.Pos()))
		}
		switch typ.Underlying().(type) {
		case *types.Slice, *types.Array:
			out := &TVal{Kind: "list", Pos: x.Pos()}
			idx := 0
			for _, el := range x.Elts {
				if kv, ok := el.(*ast.KeyValueExpr); ok {
					k, err := t.eval(kv.Key, info, pkg, env)
					if err != nil || k.Kind != "int" {
						return nil, fmt.Errorf("%s: unsupported indexed element", t.c.pos(kv.Pos()))
					}
					idx = int(k.I)
					el = kv.Value
				}
				v, err := t.eval(el, info, pkg, env)
				if err != nil {
					return nil, err
				}
				for len(out.L) <= idx {
					out.L = append(out.L, &TVal{Kind: "zero"})
				}
				out.L[idx] = v
				idx++
			}
			if at, ok := typ.Underlying().(*types.Array); ok {
				for int64(len(out.L)) < at.Len() {
					out.L = append(out.L, &TVal{Kind: "zero"})
				}
			}
			return out, nil
		case *types.Map:
			out := &TVal{Kind: "map", M: map[string]*TVal{}, Pos: x.Pos()}
			for _, el := range x.Elts {
				kv, ok := el.(*ast.KeyValueExpr)
				if !ok {
					return nil, fmt.Errorf("%s: map element without key", t.c.pos(el.Pos()))
				}
				k, err := t.eval(kv.Key, info, pkg, env)
				if err != nil {
					return nil, err
				}
				ks := k.S
				if k.Kind == "int" {
					ks = fmt.Sprint(k.I)
				}
				v, err := t.eval(kv.Value, info, pkg, env)
				if err != nil {
					return nil, err
				}
				if _, dup := out.M[ks]; dup {
					out.Dup = append(out.Dup, ks)
				} else {
					out.Keys = append(out.Keys, ks)
				}
				out.M[ks] = v
			}
			return out, nil
		}
		return nil, fmt.Errorf("%s: unsupported composite literal type %s", t.c.pos(x.Pos()), typ)
	case *ast.CallExpr:
		// a call to a package-level function of the same package whose body is a
		// straight-line string rewriting (ShouXingUtil.decode)
		if id, ok := x.Fun.(*ast.Ident); ok {
			if obj, ok := info.Uses[id].(*types.Func); ok && len(x.Args) == 1 {
				arg, err := t.eval(x.Args[0], info, pkg, env)
				if err != nil {
					return nil, err
				}
				return t.foldStringFunc(obj, arg)
			}
		}
		// conversions such as float64(1)
		if tv, ok := info.Types[x.Fun]; ok && tv.IsType() && len(x.Args) == 1 {
			return t.eval(x.Args[0], info, pkg, env)
		}
		return nil, fmt.Errorf("%s: unsupported call in initialiser", t.c.pos(x.Pos()))
	case *ast.UnaryExpr:
		v, err := t.eval(x.X, info, pkg, env)
		if err != nil {
			return nil, err
		}
		if x.Op == token.SUB && (v.Kind == "int" || v.Kind == "float") {
			return &TVal{Kind: v.Kind, I: -v.I, F: -v.F, Pos: x.Pos()}, nil
		}
	}
	return nil, fmt.Errorf("%s: unsupported initialiser expression %T", t.c.pos(e.Pos()), e)
}

// foldStringFunc interprets a function of the shape
//
//	func f(s string) string { o := "lit"; o2 := o + o; s = strings.Replace(s, A, B, -1); ...; return s }
func (t *tableEval) foldStringFunc(obj *types.Func, arg *TVal) (*TVal, error) {
	if arg.Kind != "str" {
		return nil, fmt.Errorf("foldStringFunc: non-string argument")
	}
	var fd *ast.FuncDecl
	var info *types.Info
	for _, p := range t.c.PkgBy {
		if p.Types != obj.Pkg() {
			continue
		}
		info = p.TypesInfo
		for _, f := range p.Syntax {
			for _, d := range f.Decls {
				if d, ok := d.(*ast.FuncDecl); ok && p.TypesInfo.Defs[d.Name] == obj {
					fd = d
				}
			}
		}
	}
	if fd == nil || fd.Body == nil || len(fd.Type.Params.List) != 1 || len(fd.Type.Params.List[0].Names) != 1 {
		return nil, fmt.Errorf("foldStringFunc: %s is not foldable", obj.Name())
	}
	env := map[string]*TVal{fd.Type.Params.List[0].Names[0].Name: arg}
	var evalStr func(e ast.Expr) (*TVal, error)
	evalStr = func(e ast.Expr) (*TVal, error) {
		if call, ok := e.(*ast.CallExpr); ok {
			if sel, ok := call.Fun.(*ast.SelectorExpr); ok {
				if fo, ok := info.Uses[sel.Sel].(*types.Func); ok && fo.FullName() == "strings.Replace" && len(call.Args) == 4 {
					s, err := evalStr(call.Args[0])
					if err != nil {
						return nil, err
					}
					old, err := evalStr(call.Args[1])
					if err != nil {
						return nil, err
					}
					nw, err := evalStr(call.Args[2])
					if err != nil {
						return nil, err
					}
					n, err := t.eval(call.Args[3], info, obj.Pkg().Name(), env)
					if err != nil || n.Kind != "int" || n.I != -1 {
						return nil, fmt.Errorf("%s: strings.Replace with n != -1", t.c.pos(call.Pos()))
					}
					return &TVal{Kind: "str", S: strings.Replace(s.S, old.S, nw.S, -1)}, nil
				}
			}
			return nil, fmt.Errorf("%s: unsupported call while folding %s", t.c.pos(e.Pos()), obj.Name())
		}
		v, err := t.eval(e, info, obj.Pkg().Name(), env)
		if err != nil {
			return nil, err
		}
		if v.Kind != "str" {
			return nil, fmt.Errorf("%s: non-string value while folding", t.c.pos(e.Pos()))
		}
		return v, nil
	}
	for _, st := range fd.Body.List {
		switch s := st.(type) {
		case *ast.AssignStmt:
			if len(s.Lhs) != 1 || len(s.Rhs) != 1 {
				return nil, fmt.Errorf("%s: unsupported assignment while folding", t.c.pos(s.Pos()))
			}
			id, ok := s.Lhs[0].(*ast.Ident)
			if !ok {
				return nil, fmt.Errorf("%s: unsupported assignment target", t.c.pos(s.Pos()))
			}
			v, err := evalStr(s.Rhs[0])
			if err != nil {
				return nil, err
			}
			env[id.Name] = v
		case *ast.ReturnStmt:
			if len(s.Results) != 1 {
				return nil, fmt.Errorf("%s: unsupported return", t.c.pos(s.Pos()))
			}
			return evalStr(s.Results[0])
		default:
			return nil, fmt.Errorf("%s: unsupported statement %T while folding %s", t.c.pos(st.Pos()), st, obj.Name())
		}
	}
	return nil, fmt.Errorf("foldStringFunc: no return in %s", obj.Name())
}

// ---- convenience accessors used by rules; a failure is reported as a violation ----

func (c *Ctx) tab(r *Report, rule, pkg, name string) *TVal {
	v, err := c.tables.Var(pkg, name)
	if err != nil || v == nil {
		msg := "initialiser not evaluable"
		if err != nil {
			msg = err.Error()
		}
		r.bad(rule, "table "+pkg+"."+name, c.pos(c.tables.pos(pkg, name)), "cannot read the table literal: "+msg)
		return nil
	}
	return v
}

func (c *Ctx) tabStrs(r *Report, rule, pkg, name string) []string {
	v := c.tab(r, rule, pkg, name)
	if v == nil {
		return nil
	}
	if v.Kind != "list" {
		r.bad(rule, "table "+pkg+"."+name, c.pos(v.Pos), "expected a slice literal")
		return nil
	}
	for _, e := range v.L {
		if e.Kind != "str" {
			r.bad(rule, "table "+pkg+"."+name, c.pos(v.Pos), "expected string elements")
			return nil
		}
	}
	return v.strs()
}

func (c *Ctx) tabMap(r *Report, rule, pkg, name string) *TVal {
	v := c.tab(r, rule, pkg, name)
	if v == nil {
		return nil
	}
	if v.Kind != "map" {
		r.bad(rule, "table "+pkg+"."+name, c.pos(v.Pos), "expected a map literal")
		return nil
	}
	return v
}

func (c *Ctx) tabStr(r *Report, rule, pkg, name string) (string, bool) {
	v := c.tab(r, rule, pkg, name)
	if v == nil {
		return "", false
	}
	if v.Kind != "str" {
		r.bad(rule, "table "+pkg+"."+name, c.pos(v.Pos), "expected a string")
		return "", false
	}
	return v.S, true
}

func (c *Ctx) tabInt(r *Report, rule, pkg, name string) (int64, bool) {
	v := c.tab(r, rule, pkg, name)
	if v == nil {
		return 0, false
	}
	if v.Kind != "int" {
		r.bad(rule, "table "+pkg+"."+name, c.pos(v.Pos), "expected an integer")
		return 0, false
	}
	return v.I, true
}
