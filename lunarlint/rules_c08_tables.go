package main

// C08 table laws (E6): R08.4 map totality over vocabularies, R08.5 packed
// decoder data, R08.6 ephemeris table shape, R08.7 festival tables.

import (
	"fmt"
	"go/constant"
	"go/token"
	"math"
	"regexp"
	"sort"
	"strconv"
	"strings"
	"unicode/utf8"

	"golang.org/x/tools/go/ssa"
)

type vocab struct {
	stems, branches, jiaZi []string
}

func (c *Ctx) vocab(r *Report, rule string) *vocab {
	gan := c.tabStrs(r, rule, "LunarUtil", "GAN")
	zhi := c.tabStrs(r, rule, "LunarUtil", "ZHI")
	jz := c.tabStrs(r, rule, "LunarUtil", "JIA_ZI")
	if gan == nil || zhi == nil || jz == nil {
		return nil
	}
	if len(gan) != 11 || len(zhi) != 13 || gan[0] != "" || zhi[0] != "" {
		r.bad(rule, "tables LunarUtil.GAN/ZHI", c.pos(c.tables.pos("LunarUtil", "GAN")), fmt.Sprintf("expected 1-based tables of 10 stems and 12 branches with an empty sentinel at index 0; got lengths %d and %d", len(gan), len(zhi)))
		return nil
	}
	return &vocab{stems: gan[1:], branches: zhi[1:], jiaZi: jz}
}

func missingKeys(m *TVal, keys []string) []string {
	var out []string
	for _, k := range keys {
		if _, ok := m.M[k]; !ok {
			out = append(out, k)
		}
	}
	return out
}

func mapValues(m *TVal) []string {
	set := map[string]bool{}
	for _, k := range m.Keys {
		if v := m.M[k]; v.Kind == "str" {
			set[v.S] = true
		}
	}
	return sortedKeys(set)
}

func distinctNonEmpty(xs []string) (dups []string, empties int) {
	seen := map[string]bool{}
	for _, x := range xs {
		if x == "" {
			empties++
			continue
		}
		if seen[x] {
			dups = append(dups, x)
		}
		seen[x] = true
	}
	return
}

// returnedStringConsts: string constants that can reach a return of fn through phis.
func returnedStringConsts(fn *ssa.Function) []string {
	set := map[string]bool{}
	seen := map[ssa.Value]bool{}
	var walk func(v ssa.Value)
	walk = func(v ssa.Value) {
		if seen[v] {
			return
		}
		seen[v] = true
		switch x := v.(type) {
		case *ssa.Const:
			if x.Value != nil && x.Value.Kind() == constant.String {
				set[constant.StringVal(x.Value)] = true
			}
		case *ssa.Phi:
			for _, e := range x.Edges {
				walk(e)
			}
		}
	}
	for _, b := range fn.Blocks {
		for _, ins := range b.Instrs {
			if ret, ok := ins.(*ssa.Return); ok {
				for _, res := range ret.Results {
					walk(res)
				}
			}
		}
	}
	return sortedKeys(set)
}

func r08_4(c *Ctx, r *Report) {
	const rule = "R08.4"
	r.rule(rule, "Map totality over vocabularies. Every map that accessors index without comma-ok by a key drawn from a vocabulary covers that vocabulary (so the result is a published name, never the zero value), with non-empty values where the value is dereferenced; JIA_ZI is GAN x ZHI in 60-cycle order.")
	v := c.vocab(r, rule)
	if v == nil {
		return
	}
	total := func(pkg, name string, keys []string, what string) *TVal {
		m := c.tabMap(r, rule, pkg, name)
		if m == nil {
			return nil
		}
		miss := missingKeys(m, keys)
		construct := fmt.Sprintf("%s.%s covers %s", pkg, name, what)
		if len(miss) > 0 {
			r.bad(rule, construct, c.pos(m.Pos), fmt.Sprintf("missing keys %v: an unguarded lookup with such a key yields the zero value instead of a vocabulary word", miss))
		} else {
			r.ok(rule, construct, c.pos(m.Pos), fmt.Sprintf("%d keys required, all present (map has %d)", len(keys), len(m.Keys)))
		}
		if len(m.Dup) > 0 {
			r.bad(rule, construct+" (duplicate keys)", c.pos(m.Pos), fmt.Sprintf("duplicate keys in literal: %v", m.Dup))
		}
		return m
	}
	// 60-cycle
	okJZ := len(v.jiaZi) == 60
	for i := 0; okJZ && i < 60; i++ {
		if v.jiaZi[i] != v.stems[i%10]+v.branches[i%12] {
			okJZ = false
			r.bad(rule, "LunarUtil.JIA_ZI is GAN x ZHI", c.pos(c.tables.pos("LunarUtil", "JIA_ZI")), fmt.Sprintf("JIA_ZI[%d] = %q, expected %q", i, v.jiaZi[i], v.stems[i%10]+v.branches[i%12]))
		}
	}
	if okJZ {
		r.ok(rule, "LunarUtil.JIA_ZI is GAN x ZHI", c.pos(c.tables.pos("LunarUtil", "JIA_ZI")), "60 entries, JIA_ZI[i] == GAN[i%10+1]+ZHI[i%12+1]")
	} else if len(v.jiaZi) != 60 {
		r.bad(rule, "LunarUtil.JIA_ZI is GAN x ZHI", c.pos(c.tables.pos("LunarUtil", "JIA_ZI")), fmt.Sprintf("JIA_ZI has %d entries, expected 60", len(v.jiaZi)))
	}
	total("LunarUtil", "SHA", v.branches, "the 12 branches")
	total("LunarUtil", "ZHI_TIAN_SHEN_OFFSET", v.branches, "the 12 branches")
	total("LunarUtil", "WU_XING_GAN", v.stems, "the 10 stems")
	total("LunarUtil", "WU_XING_ZHI", v.branches, "the 12 branches")
	total("LunarUtil", "LU", v.stems, "the 10 stems")
	total("calendar", "changShengOffset", v.stems, "the 10 stems")
	total("LunarUtil", "NAYIN", v.jiaZi, "the 60 pillars")
	if m := total("LunarUtil", "ZHI_HIDE_GAN", v.branches, "the 12 branches"); m != nil {
		bad := []string{}
		for _, k := range m.Keys {
			e := m.M[k]
			if e.Kind != "list" || len(e.L) == 0 {
				bad = append(bad, k)
				continue
			}
			for _, g := range e.L {
				if !containsStr(v.stems, g.S) {
					bad = append(bad, k+":"+g.S)
				}
			}
		}
		r.check(len(bad) == 0, rule, "LunarUtil.ZHI_HIDE_GAN values are non-empty stem lists", c.pos(m.Pos), fmt.Sprintf("offending entries: %v (Front().Value of an empty list is a nil dereference)", bad))
	}
	var pairs []string
	for _, a := range v.stems {
		for _, b := range v.stems {
			pairs = append(pairs, a+b)
		}
	}
	total("LunarUtil", "SHI_SHEN", pairs, "stem x stem (100 pairs)")
	var bw []string
	for _, b := range v.branches {
		for w := 0; w < 7; w++ {
			bw = append(bw, fmt.Sprintf("%s%d", b, w))
		}
	}
	xiu := total("LunarUtil", "XIU", bw, "branch x weekday (84 keys)")
	xiu27 := c.tabStrs(r, rule, "FotoUtil", "XIU_27")
	if xiu != nil && xiu27 != nil {
		names := map[string]bool{}
		for _, s := range mapValues(xiu) {
			names[s] = true
		}
		for _, s := range xiu27 {
			names[s] = true
		}
		mans := sortedKeys(names)
		for _, t := range []string{"XIU_LUCK", "XIU_SONG", "ZHENG", "ANIMAL", "GONG"} {
			total("LunarUtil", t, mans, "every mansion name used by XIU and XIU_27")
		}
		if gong := c.tabMap(r, rule, "LunarUtil", "GONG"); gong != nil {
			total("LunarUtil", "SHOU", mapValues(gong), "every value of GONG")
		}
	}
	// positions
	posNames := map[string]bool{}
	for _, t := range [][2]string{{"LunarUtil", "POSITION_XI"}, {"LunarUtil", "POSITION_YANG_GUI"}, {"LunarUtil", "POSITION_YIN_GUI"}, {"LunarUtil", "POSITION_FU"},
		{"LunarUtil", "POSITION_FU_2"}, {"LunarUtil", "POSITION_CAI"}, {"LunarUtil", "POSITION_TAI_SUI_YEAR"}, {"LunarUtil", "POSITION_GAN"}, {"LunarUtil", "POSITION_ZHI"}, {"calendar", "POSITION"}} {
		for _, s := range c.tabStrs(r, rule, t[0], t[1]) {
			if s != "" {
				posNames[s] = true
			}
		}
	}
	for _, fn := range c.Funcs {
		if strings.Contains(fn.Name(), "PositionTaiSui") {
			for _, s := range returnedStringConsts(fn) {
				if s != "" {
					posNames[s] = true
				}
			}
		}
	}
	total("LunarUtil", "POSITION_DESC", sortedKeys(posNames), "every direction named by a position table or a Tai Sui literal")
	if ts := c.tabStrs(r, rule, "LunarUtil", "TIAN_SHEN"); ts != nil && len(ts) > 1 {
		if m := total("LunarUtil", "TIAN_SHEN_TYPE", ts[1:], "the 12 heavenly spirits"); m != nil {
			total("LunarUtil", "TIAN_SHEN_TYPE_LUCK", mapValues(m), "every value of TIAN_SHEN_TYPE")
		}
	}
	// keys that must come from a vocabulary (a misspelt key can never match)
	if m := c.tabMap(r, rule, "TaoUtil", "BA_HUI"); m != nil {
		var bad []string
		for _, k := range m.Keys {
			if !containsStr(v.jiaZi, k) {
				bad = append(bad, k)
			}
		}
		r.check(len(bad) == 0, rule, "TaoUtil.BA_HUI keys are pillars", c.pos(m.Pos), fmt.Sprintf("keys outside JIA_ZI: %v", bad))
	}
	if m := c.tabMap(r, rule, "TaoUtil", "BA_JIE"); m != nil {
		jq := c.tabStrs(r, rule, "calendar", "JIE_QI")
		var bad []string
		for _, k := range m.Keys {
			if !containsStr(jq, k) {
				bad = append(bad, k)
			}
		}
		r.check(len(bad) == 0, rule, "TaoUtil.BA_JIE keys are term names", c.pos(m.Pos), fmt.Sprintf("keys outside JIE_QI: %v", bad))
	}
	// 1-based vocabularies: sentinel at 0, all other entries non-empty
	for _, t := range [][3]string{{"LunarUtil", "GAN", "11"}, {"LunarUtil", "ZHI", "13"}, {"LunarUtil", "MONTH", "13"}, {"LunarUtil", "DAY", "31"}, {"LunarUtil", "SEASON", "13"},
		{"LunarUtil", "SHENG_XIAO", "13"}, {"LunarUtil", "ZHI_XING", "13"}, {"LunarUtil", "TIAN_SHEN", "13"}, {"LunarUtil", "PENGZU_GAN", "11"}, {"LunarUtil", "PENGZU_ZHI", "13"},
		{"LunarUtil", "YUE_XIANG", "31"}, {"LunarUtil", "POSITION_XI", "11"}, {"LunarUtil", "POSITION_YANG_GUI", "11"}, {"LunarUtil", "POSITION_YIN_GUI", "11"},
		{"LunarUtil", "POSITION_FU", "11"}, {"LunarUtil", "POSITION_FU_2", "11"}, {"LunarUtil", "POSITION_CAI", "11"}, {"calendar", "MONTH_ZHI", "13"}} {
		xs := c.tabStrs(r, rule, t[0], t[1])
		if xs == nil {
			continue
		}
		want, _ := strconv.Atoi(t[2])
		_, empties := distinctNonEmpty(xs[1:])
		okk := len(xs) == want && xs[0] == "" && empties == 0
		r.check(okk, rule, fmt.Sprintf("%s.%s is a 1-based vocabulary of %d words", t[0], t[1], want-1), c.pos(c.tables.pos(t[0], t[1])),
			fmt.Sprintf("length %d (want %d), sentinel %q, %d empty words", len(xs), want, xs[0], empties))
	}
	// 0-based tables indexed by stem/branch/star/mansion index
	for _, t := range [][3]string{{"LunarUtil", "CHONG", "12"}, {"LunarUtil", "CHONG_GAN", "10"}, {"LunarUtil", "CHONG_GAN_TIE", "10"}, {"LunarUtil", "HE_GAN_5", "10"}, {"LunarUtil", "HE_ZHI_6", "12"},
		{"LunarUtil", "POSITION_TAI_SUI_YEAR", "12"}, {"LunarUtil", "POSITION_GAN", "10"}, {"LunarUtil", "POSITION_ZHI", "12"}, {"LunarUtil", "POSITION_TAI_DAY", "60"}, {"LunarUtil", "POSITION_TAI_MONTH", "12"},
		{"LunarUtil", "XUN", "6"}, {"LunarUtil", "XUN_KONG", "6"}, {"LunarUtil", "LIU_YAO", "6"}, {"LunarUtil", "HOU", "3"}, {"LunarUtil", "WU_HOU", "72"}, {"calendar", "CHANG_SHENG", "12"},
		{"calendar", "JIE_QI", "24"}, {"calendar", "YUAN", "3"}, {"calendar", "YUN", "9"}, {"SolarUtil", "WEEK", "7"}, {"SolarUtil", "XINGZUO", "12"}, {"FotoUtil", "XIU_27", "27"}, {"TaoUtil", "AN_WU", "12"}} {
		xs := c.tabStrs(r, rule, t[0], t[1])
		if xs == nil {
			continue
		}
		want, _ := strconv.Atoi(t[2])
		_, empties := distinctNonEmpty(xs)
		r.check(len(xs) == want && empties == 0, rule, fmt.Sprintf("%s.%s has %d non-empty entries", t[0], t[1], want), c.pos(c.tables.pos(t[0], t[1])),
			fmt.Sprintf("length %d (want %d), %d empty entries", len(xs), want, empties))
	}
	// stems/branches tables contain only stems/branches
	for _, t := range [][3]string{{"LunarUtil", "CHONG", "z"}, {"LunarUtil", "CHONG_GAN", "g"}, {"LunarUtil", "CHONG_GAN_TIE", "g"}, {"LunarUtil", "HE_GAN_5", "g"}, {"LunarUtil", "HE_ZHI_6", "z"}, {"TaoUtil", "AN_WU", "z"}} {
		xs := c.tabStrs(r, rule, t[0], t[1])
		voc := v.stems
		if t[2] == "z" {
			voc = v.branches
		}
		var bad []string
		for _, x := range xs {
			if !containsStr(voc, x) {
				bad = append(bad, x)
			}
		}
		r.check(len(bad) == 0 && xs != nil, rule, fmt.Sprintf("%s.%s entries are stems/branches", t[0], t[1]), c.pos(c.tables.pos(t[0], t[1])), fmt.Sprintf("entries outside the vocabulary: %v", bad))
	}
	r.floor(rule, 60)
}

func containsStr(xs []string, s string) bool {
	for _, x := range xs {
		if x == s {
			return true
		}
	}
	return false
}

var hexPairs = regexp.MustCompile(`^([0-9A-F]{2})*$`)

func pairsOf(s string) []string {
	var out []string
	for i := 0; i+2 <= len(s); i += 2 {
		out = append(out, s[i:i+2])
	}
	return out
}

func dupIn(xs []string) []string {
	seen := map[string]bool{}
	var out []string
	for _, x := range xs {
		if seen[x] {
			out = append(out, x)
		}
		seen[x] = true
	}
	return out
}

func r08_5(c *Ctx, r *Report) {
	const rule = "R08.5"
	r.rule(rule, "Packed decoders and their data agree. dayYiJi, timeYiJi and dayShenSha parse completely under the record grammars the decoders assume (DD=MM..:YY..,JJ.. / DDTT=YY..,JJ.. / MDD=AA..,BB..); every two-hex code is inside the name table; every key the decoders can form is present exactly once; no list contains a code twice and no name occurs twice in yiJi/shenSha (returned lists contain no duplicate entries).")
	yiJi := c.tabStrs(r, rule, "LunarUtil", "yiJi")
	shenSha := c.tabStrs(r, rule, "LunarUtil", "shenSha")
	if yiJi != nil {
		d, e := distinctNonEmpty(yiJi)
		r.check(len(d) == 0 && e == 0, rule, "LunarUtil.yiJi names are distinct", c.pos(c.tables.pos("LunarUtil", "yiJi")), fmt.Sprintf("%d names; duplicates %v, %d empty", len(yiJi), d, e))
	}
	if shenSha != nil {
		d, e := distinctNonEmpty(shenSha)
		r.check(len(d) == 0 && e == 0, rule, "LunarUtil.shenSha names are distinct", c.pos(c.tables.pos("LunarUtil", "shenSha")), fmt.Sprintf("%d names; duplicates %v, %d empty", len(shenSha), d, e))
	}
	codeCheck := func(list string, n int) (bad []string) {
		if !hexPairs.MatchString(list) {
			return []string{"not a sequence of two-digit upper-case hex codes: " + list}
		}
		ps := pairsOf(list)
		for _, p := range ps {
			v, _ := strconv.ParseInt(p, 16, 0)
			if int(v) >= n {
				bad = append(bad, "code "+p+" >= table length")
			}
		}
		for _, d := range dupIn(ps) {
			bad = append(bad, "code "+d+" listed twice")
		}
		return
	}
	// dayYiJi
	if s, ok := c.tabStr(r, rule, "LunarUtil", "dayYiJi"); ok && yiJi != nil {
		pos := c.pos(c.tables.pos("LunarUtil", "dayYiJi"))
		re := regexp.MustCompile(`^([0-9A-F]{2})=([0-9A-F]*):([0-9A-F]*),((?:[0-9A-F]{2})*?)(?:([0-9A-F]{2}=.*))?$`)
		rest := s
		nrec := 0
		cover := map[string]int{}
		for rest != "" {
			m := re.FindStringSubmatch(rest)
			if m == nil {
				r.bad(rule, "LunarUtil.dayYiJi grammar", pos, fmt.Sprintf("record %d does not match DD=MM..:YY..,JJ.. near %q: the decoder's Index(\":\")/Index(\",\") would be -1 and the slice panics", nrec, head(rest, 40)))
				break
			}
			nrec++
			day, months, ys, js := m[1], m[2], m[3], m[4]
			key := fmt.Sprintf("LunarUtil.dayYiJi record %d (day %s months %s)", nrec, day, head(months, 12))
			var bad []string
			if dv, _ := strconv.ParseInt(day, 16, 0); dv >= 60 {
				bad = append(bad, "day index >= 60")
			}
			if !hexPairs.MatchString(months) {
				bad = append(bad, "odd-length month list")
			}
			for _, mm := range pairsOf(months) {
				if mv, _ := strconv.ParseInt(mm, 16, 0); mv >= 60 {
					bad = append(bad, "month index "+mm+" >= 60")
				}
				cover[day+mm]++
			}
			bad = append(bad, codeCheck(ys, len(yiJi))...)
			bad = append(bad, codeCheck(js, len(yiJi))...)
			if len(bad) > 0 {
				r.bad(rule, key, pos, strings.Join(bad, "; "))
			}
			rest = m[5]
		}
		missing, twice := 0, 0
		for d := 0; d < 60; d++ {
			for m := 0; m < 60; m++ {
				switch cover[fmt.Sprintf("%02X%02X", d, m)] {
				case 0:
					missing++
				case 1:
				default:
					twice++
				}
			}
		}
		r.check(missing == 0 && twice == 0 && nrec > 0, rule, "LunarUtil.dayYiJi covers day x month", pos, fmt.Sprintf("%d records; %d of 3600 (day pillar, month pillar) pairs missing, %d served by more than one record", nrec, missing, twice))
		r.ok(rule, "LunarUtil.dayYiJi grammar", pos, fmt.Sprintf("%d records parsed, whole string consumed", nrec))
	}
	// timeYiJi and dayShenSha share a shape: KEY=AA..,BB..
	flat := func(name string, keyLen int, names []string, expectKeys func() []string) {
		s, ok := c.tabStr(r, rule, "LunarUtil", name)
		if !ok || names == nil {
			return
		}
		pos := c.pos(c.tables.pos("LunarUtil", name))
		re := regexp.MustCompile(fmt.Sprintf(`^([0-9A-F]{%d})=([0-9A-F]*),((?:[0-9A-F]{2})*?)(?:([0-9A-F]{%d}=.*))?$`, keyLen, keyLen))
		rest := s
		nrec := 0
		seen := map[string]int{}
		for rest != "" {
			m := re.FindStringSubmatch(rest)
			if m == nil {
				r.bad(rule, "LunarUtil."+name+" grammar", pos, fmt.Sprintf("record %d does not match KEY=AA..,BB.. near %q: the decoder's Index(\",\") would be -1 and the slice panics", nrec, head(rest, 40)))
				return
			}
			nrec++
			seen[m[1]]++
			var bad []string
			bad = append(bad, codeCheck(m[2], len(names))...)
			bad = append(bad, codeCheck(m[3], len(names))...)
			if len(bad) > 0 {
				r.bad(rule, fmt.Sprintf("LunarUtil.%s record %s", name, m[1]), pos, strings.Join(bad, "; "))
			}
			rest = m[4]
		}
		missing, twice := []string{}, []string{}
		for _, k := range expectKeys() {
			switch seen[k] {
			case 0:
				missing = append(missing, k)
			case 1:
			default:
				twice = append(twice, k)
			}
		}
		r.check(len(missing) == 0 && len(twice) == 0, rule, "LunarUtil."+name+" covers every key", pos, fmt.Sprintf("%d records; missing keys %v; keys present more than once %v", nrec, headList(missing, 8), headList(twice, 8)))
		r.ok(rule, "LunarUtil."+name+" grammar", pos, fmt.Sprintf("%d records parsed, whole string consumed", nrec))
	}
	flat("timeYiJi", 4, yiJi, func() []string {
		// hour stem is tied to the day stem: 12 hour pillars per day pillar
		var ks []string
		for d := 0; d < 60; d++ {
			for z := 0; z < 12; z++ {
				g := (d%10%5*2 + z) % 10
				for t := 0; t < 60; t++ {
					if t%10 == g && t%12 == z {
						ks = append(ks, fmt.Sprintf("%02X%02X", d, t))
					}
				}
			}
		}
		return ks
	})
	flat("dayShenSha", 3, shenSha, func() []string {
		var ks []string
		for m := 1; m <= 12; m++ {
			for d := 0; d < 60; d++ {
				ks = append(ks, fmt.Sprintf("%X%02X", m, d))
			}
		}
		return ks
	})
	r.floor(rule, 8)
}

func head(s string, n int) string {
	if len(s) > n {
		// not in the middle of a character
		for n > 0 && !utf8.RuneStart(s[n]) {
			n--
		}
		return s[:n]
	}
	return s
}

func headList(xs []string, n int) []string {
	if len(xs) > n {
		return append(append([]string{}, xs[:n]...), fmt.Sprintf("... %d more", len(xs)-n))
	}
	return xs
}

// floatConstsOf collects the numeric constants appearing in a function.
func floatConstsOf(fn *ssa.Function) map[float64]bool {
	out := map[float64]bool{}
	if fn == nil {
		return out
	}
	for _, b := range fn.Blocks {
		for _, ins := range b.Instrs {
			for _, op := range ins.Operands(nil) {
				if op == nil || *op == nil {
					continue
				}
				if cst, ok := (*op).(*ssa.Const); ok && cst.Value != nil && (cst.Value.Kind() == constant.Float || cst.Value.Kind() == constant.Int) {
					f, _ := constant.Float64Val(cst.Value)
					out[f] = true
				}
			}
		}
	}
	return out
}

func floats(v *TVal) ([]float64, bool) {
	if v == nil || v.Kind != "list" {
		return nil, false
	}
	out := make([]float64, len(v.L))
	for i, e := range v.L {
		if e.Kind != "float" && e.Kind != "int" {
			return nil, false
		}
		out[i] = e.F
	}
	return out, true
}

func r08_6(c *Ctx, r *Report) {
	const rule = "R08.6"
	r.rule(rule, "Ephemeris table shape. The per-lunation / per-term correction strings SB and QB (constant-folded through decode) contain only the digits 0,1,2 and are long enough for every index reachable in the low-precision regime [f2, f3); SHUO_KB and QI_KB have odd length with increasing breakpoints so that the sentinel-guarded scans stop inside the table; DT_AT, NUT_B, XL0, XL1 have the stride structure their loops assume, and the cubic pieces of DT_AT join continuously (within 15 s).")
	pkg := "ShouXingUtil"
	kbCheck := func(name string) []float64 {
		v := c.tab(r, rule, pkg, name)
		xs, ok := floats(v)
		if !ok {
			if v != nil {
				r.bad(rule, pkg+"."+name+" shape", c.pos(v.Pos), "expected a slice of numbers")
			}
			return nil
		}
		inc := true
		for i := 2; i < len(xs); i += 2 {
			if !(xs[i] > xs[i-2]) {
				inc = false
			}
		}
		pos2 := true
		for i := 1; i < len(xs); i += 2 {
			if !(xs[i] > 0) {
				pos2 = false
			}
		}
		r.check(len(xs)%2 == 1 && len(xs) >= 3 && inc && pos2, rule, pkg+"."+name+" shape", c.pos(v.Pos),
			fmt.Sprintf("length %d (must be odd: pairs of breakpoint, period and a final breakpoint), breakpoints increasing: %v, periods positive: %v", len(xs), inc, pos2))
		return xs
	}
	shuoKB := kbCheck("SHUO_KB")
	qiKB := kbCheck("QI_KB")
	corr := func(name string, kb []float64, fnName string, need []float64, maxFrom func(f2, f3 float64) float64) {
		s, ok := c.tabStr(r, rule, pkg, name)
		fn := c.Fn(r, rule, pkg+"."+fnName)
		if !ok || fn == nil || kb == nil {
			return
		}
		pos := c.pos(c.tables.pos(pkg, name))
		badDigit := ""
		for i := 0; i < len(s); i++ {
			if s[i] != '0' && s[i] != '1' && s[i] != '2' {
				badDigit = fmt.Sprintf("byte %d is %q", i, s[i])
				break
			}
		}
		r.check(badDigit == "", rule, pkg+"."+name+" digits", pos, fmt.Sprintf("decoded length %d; every byte must be one of 0,1,2 (%s)", len(s), badDigit))
		consts := floatConstsOf(fn)
		for _, k := range need {
			if !consts[k] {
				r.bad(rule, pkg+"."+fnName+" regime constants", c.fnPos(fn), fmt.Sprintf("constant %v that defines the low-precision regime is no longer present in %s; the reachable index range cannot be derived (undecided = fail)", k, fnName))
				return
			}
		}
		f2 := kb[len(kb)-1] - need[0]
		f3 := need[1]
		mf := maxFrom(f2, f3)
		r.check(float64(len(s)) > mf, rule, pkg+"."+name+" length covers the regime", pos,
			fmt.Sprintf("regime [f2=%.3f, f3=%.0f): largest index %d, decoded length %d", f2, f3, int(mf), len(s)))
	}
	corr("SB", shuoKB, "CalcShuo", []float64{14, 2436935, 29.5306}, func(f2, f3 float64) float64 { return math.Floor((f3 - f2) / 29.5306) })
	corr("QB", qiKB, "CalcQi", []float64{7, 2436935, 365.2422, 24}, func(f2, f3 float64) float64 { return math.Floor((f3 - f2) / 365.2422 * 24) })
	// DT_AT
	if v := c.tab(r, rule, pkg, "DT_AT"); v != nil {
		xs, ok := floats(v)
		inc := ok
		for i := 5; ok && i < len(xs); i += 5 {
			if !(xs[i] > xs[i-5]) {
				inc = false
			}
		}
		r.check(ok && len(xs)%5 == 2 && inc, rule, pkg+".DT_AT shape", c.pos(v.Pos), fmt.Sprintf("length %d (must be 5k+2: rows of year,a,b,c,d and a final year,value), years increasing: %v", len(xs), inc))
		// the rows are cubic pieces of one continuous curve (delta-T in seconds): the value a row reaches at its
		// end (a + 10b + 100c + 1000d, the argument running 0..10 over the row) meets the next row's a
		if ok && len(xs)%5 == 2 {
			var jumps []string
			worst := 0.0
			for i := 0; i+6 < len(xs); i += 5 {
				end := xs[i+1] + 10*xs[i+2] + 100*xs[i+3] + 1000*xs[i+4]
				next := xs[i+6]
				d := math.Abs(end - next)
				if d > worst {
					worst = d
				}
				if d > 15 {
					jumps = append(jumps, fmt.Sprintf("row starting %g ends at %.1f s, the next starts at %.1f s", xs[i], end, next))
				}
			}
			r.check(len(jumps) == 0, rule, pkg+".DT_AT pieces join continuously", c.pos(v.Pos), fmt.Sprintf("largest jump between consecutive pieces %.1f s (at most 15 s admitted); %v", worst, jumps))
		}
	}
	if v := c.tab(r, rule, pkg, "NUT_B"); v != nil {
		xs, ok := floats(v)
		r.check(ok && len(xs)%5 == 0 && len(xs) > 0, rule, pkg+".NUT_B shape", c.pos(v.Pos), fmt.Sprintf("length %d must be a multiple of 5", len(xs)))
	}
	if v := c.tab(r, rule, pkg, "XL0"); v != nil {
		xs, ok := floats(v)
		good := ok && len(xs) > 8
		detail := ""
		if good {
			// header: XL0[1..7] are offsets of the six series (pn = 1, i = 0..5 uses XL0[pn+i], XL0[pn+1+i])
			prev := -1.0
			for i := 1; i <= 7; i++ {
				o := xs[i]
				if o != math.Floor(o) || o < prev || int(o) > len(xs) {
					good = false
					detail += fmt.Sprintf(" header[%d]=%v not a non-decreasing offset inside the table;", i, o)
				}
				if i > 1 && int(o-prev)%3 != 0 {
					good = false
					detail += fmt.Sprintf(" series %d has length %d, not a multiple of 3;", i-1, int(o-prev))
				}
				prev = o
			}
			if xs[0] == 0 {
				good = false
				detail += " XL0[0] (divisor) is zero;"
			}
			if xs[2]-xs[1] == 0 {
				good = false
				detail += " first series empty (m0 divisor zero);"
			}
		}
		r.check(good, rule, pkg+".XL0 index header", c.pos(v.Pos), "offsets of the six series are non-decreasing, inside the table, with strides divisible by 3;"+detail)
	}
	if v := c.tab(r, rule, pkg, "XL1"); v != nil {
		good := v.Kind == "list" && len(v.L) == 4
		detail := ""
		if good {
			for i, row := range v.L {
				if row.Kind != "list" || len(row.L)%6 != 0 {
					good = false
					detail += fmt.Sprintf(" row %d has %d entries;", i, len(row.L))
				}
			}
		}
		r.check(good, rule, pkg+".XL1 rows", c.pos(v.Pos), "4 rows whose (array) lengths are multiples of 6;"+detail)
	}
	c.scratch["lemmas"] = ephemerisLemmas(c, r, rule)
	// the fixed-size arrays of LunarYear.compute bound every constant-loop index
	if fn := c.Fn(r, rule, "calendar.(*LunarYear).compute"); fn != nil {
		checkFixedArrays(c, r, rule, fn)
	}
	r.floor(rule, 10)
}

// checkFixedArrays: every IndexAddr into a make([]T, const) slice inside fn uses
// an index whose interval (from constant-bounded loops) lies inside the slice.
func checkFixedArrays(c *Ctx, r *Report, rule string, fn *ssa.Function) {
	ra := c.ranges()
	seenC := map[string]int{}
	n := 0
	for _, b := range fn.Blocks {
		for _, ins := range b.Instrs {
			ia, ok := ins.(*ssa.IndexAddr)
			if !ok {
				continue
			}
			ms, ln, ok := localArray(ia.X)
			if !ok {
				continue
			}
			iv := ra.obsAt(fn, ia, ia.Index)
			n++
			construct := uniq(seenC, fmt.Sprintf("%s: %s[%s] of make(len %d)", fname(fn), ms.Name(), describeIndex(ia.Index), ln))
			if iv.bot {
				r.ok(rule, construct, c.pos(ia.Pos()), "not reached by the analysis (dead under the current summaries)")
			} else if iv.known() && iv.lo() >= 0 && iv.hi() < ln {
				o := r.ok(rule, construct, c.pos(ia.Pos()), fmt.Sprintf("index in %s, length %d", iv, ln))
				o.Class = "PROVEN"
			} else {
				r.bad(rule, construct, c.pos(ia.Pos()), fmt.Sprintf("index range %s not proven inside [0,%d): a panic here happens while the package mutex is held", iv, ln))
			}
		}
	}
	if n < 8 {
		r.bad(rule, "fixed arrays of "+fname(fn), c.fnPos(fn), fmt.Sprintf("only %d indexed accesses to fixed-size arrays found (expected >= 8): the rule no longer matches the function", n))
	}
}

func exprOf(v ssa.Value) string {
	if c, ok := v.(*ssa.Const); ok {
		return c.Value.String()
	}
	return v.Name()
}

var mdKey = regexp.MustCompile(`^(-?\d+)-(\d+)$`)

func r08_7(c *Ctx, r *Report) { festivalTables(c, r, "R08.7") }

func festivalTables(c *Ctx, r *Report, rule string) {
	r.rule(rule, "Festival tables are well-formed. Every key of the \"m-d\"-keyed tables parses with m in 1..12 and d in 1..31 (1..30 for lunar tables); every Taoist/Buddhist festival entry has a name (o[0]) and a boolean third field where present; weekday-festival keys are m-k-w with k in 0..5, w in 0..6.")
	md := func(pkg, name string, maxDay int) {
		v := c.tab(r, rule, pkg, name)
		if v == nil {
			return
		}
		var keys []string
		switch v.Kind {
		case "map":
			keys = v.Keys
		case "list":
			keys = v.strs()
		}
		var bad []string
		for _, k := range keys {
			m := mdKey.FindStringSubmatch(k)
			if m == nil {
				bad = append(bad, k)
				continue
			}
			mo, _ := strconv.Atoi(m[1])
			d, _ := strconv.Atoi(m[2])
			if mo < 1 || mo > 12 || d < 1 || d > maxDay || m[1] != strconv.Itoa(mo) || m[2] != strconv.Itoa(d) {
				bad = append(bad, k)
			}
		}
		r.check(len(bad) == 0 && len(keys) > 0, rule, fmt.Sprintf("%s.%s keys are month-day pairs", pkg, name), c.pos(v.Pos), fmt.Sprintf("%d keys; malformed or unreachable keys: %v (a key that no date can print is a festival that is never reported)", len(keys), bad))
		if len(v.Dup) > 0 {
			r.bad(rule, fmt.Sprintf("%s.%s duplicate keys", pkg, name), c.pos(v.Pos), fmt.Sprintf("%v", v.Dup))
		}
	}
	md("LunarUtil", "FESTIVAL", 30)
	md("LunarUtil", "OTHER_FESTIVAL", 30)
	md("SolarUtil", "FESTIVAL", 31)
	md("SolarUtil", "OTHER_FESTIVAL", 31)
	md("TaoUtil", "FESTIVAL", 30)
	md("TaoUtil", "SAN_HUI", 30)
	md("TaoUtil", "SAN_YUAN", 30)
	md("TaoUtil", "WU_LA", 30)
	md("FotoUtil", "FESTIVAL", 30)
	md("FotoUtil", "OTHER_FESTIVAL", 30)
	md("FotoUtil", "DAY_ZHAI_GUAN_YIN", 30)
	for _, t := range [][2]string{{"TaoUtil", "FESTIVAL"}, {"FotoUtil", "FESTIVAL"}} {
		v := c.tabMap(r, rule, t[0], t[1])
		if v == nil {
			continue
		}
		var bad []string
		n := 0
		for _, k := range v.Keys {
			e := v.M[k]
			if e.Kind != "list" || len(e.L) == 0 {
				bad = append(bad, k+": no entries")
				continue
			}
			for _, o := range e.L {
				n++
				if o.Kind != "list" || len(o.L) == 0 || o.L[0].S == "" {
					bad = append(bad, k+": entry without name")
				} else if t[0] == "FotoUtil" && len(o.L) > 2 && o.L[2].S != "true" && o.L[2].S != "false" && o.L[2].S != "" {
					bad = append(bad, k+": third field "+o.L[2].S)
				}
			}
		}
		r.check(len(bad) == 0, rule, fmt.Sprintf("%s.%s entries have a name", t[0], t[1]), c.pos(v.Pos), fmt.Sprintf("%d entries; offending: %v (o[0] on an empty entry panics)", n, bad))
	}
	if v := c.tabMap(r, rule, "SolarUtil", "WEEK_FESTIVAL"); v != nil {
		re := regexp.MustCompile(`^(\d+)-(\d)-(\d)$`)
		var bad []string
		for _, k := range v.Keys {
			m := re.FindStringSubmatch(k)
			if m == nil {
				bad = append(bad, k)
				continue
			}
			mo, _ := strconv.Atoi(m[1])
			kk, _ := strconv.Atoi(m[2])
			w, _ := strconv.Atoi(m[3])
			if mo < 1 || mo > 12 || kk > 5 || w > 6 || m[1] != strconv.Itoa(mo) {
				bad = append(bad, k)
			}
		}
		r.check(len(bad) == 0, rule, "SolarUtil.WEEK_FESTIVAL keys are month-ordinal-weekday", c.pos(v.Pos), fmt.Sprintf("%d keys; malformed: %v", len(v.Keys), bad))
	}
	if v := c.tab(r, rule, "FotoUtil", "XIU_OFFSET"); v != nil {
		okk := v.Kind == "list" && len(v.L) == 12
		for _, e := range v.L {
			if e.Kind != "int" || e.I < 0 {
				okk = false
			}
		}
		r.check(okk, rule, "FotoUtil.XIU_OFFSET has 12 non-negative offsets", c.pos(v.Pos), "indexed by |month|-1; a negative offset makes the modulo negative")
	}
	_ = sort.Strings
	_ = token.NoPos
}

// R08.8: the two ephemeris entry points read their own correction tables.
func r08_8(c *Ctx, r *Report) {
	const rule = "R08.8"
	r.rule(rule, "Sibling ephemeris routines keep to their own tables. CalcShuo (new moons) reads the breakpoint table SHUO_KB and the correction string SB and neither QI_KB nor QB; CalcQi (solar terms) reads QI_KB and QB and neither SHUO_KB nor SB (transitively, through helpers, by the table each call hands them). The two correction strings have the same alphabet, so a swapped table type-checks, stays in range and shifts terms or lunations by a day in the centuries the strings serve.")
	for _, t := range []struct {
		fn         string
		own, other []string
	}{
		{"ShouXingUtil.CalcShuo", []string{"ShouXingUtil.SHUO_KB", "ShouXingUtil.SB"}, []string{"ShouXingUtil.QI_KB", "ShouXingUtil.QB"}},
		{"ShouXingUtil.CalcQi", []string{"ShouXingUtil.QI_KB", "ShouXingUtil.QB"}, []string{"ShouXingUtil.SHUO_KB", "ShouXingUtil.SB"}},
	} {
		fn := c.Fn(r, rule, t.fn)
		if fn == nil {
			continue
		}
		read := map[string]bool{}
		for _, g := range c.eff.Of(fn).globalsRead() {
			read[g] = true
		}
		var missing, foreign []string
		for _, g := range t.own {
			if !read[g] {
				missing = append(missing, g)
			}
		}
		for _, g := range t.other {
			if read[g] {
				foreign = append(foreign, g)
			}
		}
		r.check(len(missing) == 0 && len(foreign) == 0, rule, t.fn+" reads its own breakpoint and correction tables only", c.fnPos(fn), fmt.Sprintf("own tables not read: %v; the sibling's tables read: %v", missing, foreign))
	}
}
