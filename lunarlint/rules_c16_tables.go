package main

// C16 — the star formulas as decision tables (E12 over abstract inputs, helpers inline; no library code runs).

import (
	"fmt"
	"sort"

	"golang.org/x/tools/go/ssa"
)

func floorModN(x, n int64) int64 { return ((x % n) + n) % n }

func r16_5(c *Ctx, r *Report) {
	const rule = "R16.5"
	r.rule(rule, "Star formulas as decision tables. Year star (Lunar.GetYearNineStarBySect for schools 1/2/3 reading the New-Year, Lichun-day and exact year pillar, any other school as 2; LunarYear.GetNineStar): for the year Y the chosen pillar belongs to (the lunar year or a neighbour), the index is (2026 - Y) mod 9 — star three in 2024, one back per year. Month star (Lunar.GetMonthNineStarBySect with the year branch of schools 1/2/3 = New-Year/Lichun-day/exact and the month branch plain/plain/exact; LunarMonth.GetNineStar): the first (寅) month of a year is star 8, 5, 2 for year branches 子午卯酉, 辰戌丑未, 寅申巳亥 and each later month is one back. Day star: with the anchors the jiazi days nearest the previous winter solstice, the summer solstice and this winter's solstice (the term day moved back by its sexagenary index j, or forward by 60-j when j > 29), the index counts up from 0 on the first and third anchors, down from 8 on the second, and before the first anchor continues the descent (8 + distance) mod 9. Hour star (Lunar.GetTimeNineStar, LunarTime.GetNineStar): ascending from the winter solstice day to before the summer solstice day and from this winter's solstice day on; the start is 0/8 (ascending/descending) for day branches 子午卯酉, 3/5 for 辰戌丑未, 6/2 otherwise, moving one per two-hour slot in that direction, mod 9.")
	zhi := c.tabStrs(r, rule, "LunarUtil", "ZHI")
	report := func(fn *ssa.Function, construct string, n int, bad []string, problems map[string]bool) {
		for p := range problems {
			bad = append(bad, p)
		}
		sort.Strings(bad)
		r.check(len(bad) == 0 && n > 0, rule, construct, c.fnPos(fn), fmt.Sprintf("%d assignments; deviations: %v", n, headList(dedupe(bad), 3)))
		if c.starTableOK == nil {
			c.starTableOK = map[*ssa.Function]bool{}
		}
		if _, seen := c.starTableOK[fn]; !seen {
			c.starTableOK[fn] = true
		}
		c.starTableOK[fn] = c.starTableOK[fn] && len(bad) == 0 && n > 0
	}
	star := func(ev *evaluator, res []interface{}, outcome string) string {
		if outcome == "return" && len(res) == 1 {
			if rec, ok := res[0].(absRec); ok && rec.ctor == "NewNineStar" {
				return fmt.Sprint(rec.idx)
			}
			return fmt.Sprint(res[0])
		}
		return outcome + " " + ev.fail
	}
	// ---- year star
	if fn := c.Fn(r, rule, "calendar.(*Lunar).GetYearNineStarBySect"); fn != nil && len(fn.Params) == 2 {
		problems := map[string]bool{}
		var bad []string
		n := 0
		variants := []string{"GetYearInGanZhi", "GetYearInGanZhiByLiChun", "GetYearInGanZhiExact"}
		for _, sect := range []int64{0, 1, 2, 3, 4} {
			for y := int64(1); y <= 9999 && len(bad) < 4 && len(problems) == 0; y += 1 {
				if y > 200 && y < 1800 && y%7 != 0 {
					continue
				}
				// the three pillars belong to different years: plain y, Lichun-day y-1, exact y+1 (and the mirror case)
				for _, sh := range [][3]int64{{0, -1, 1}, {0, 1, -1}, {0, 0, 0}} {
					env := &dayEnv{problems: problems, fields: map[string]int64{"Lunar.year": y}, gz: map[string]int64{}}
					for i, v := range variants {
						env.gz[v] = floorModN(y+sh[i]-4, 60)
					}
					sectV := sect
					env.extra = func(fr *evalFrame, v ssa.Value, _ leafX) (interface{}, bool) {
						if fr.parent == nil && v == ssa.Value(fn.Params[1]) {
							return sectV, true
						}
						return nil, false
					}
					ev := &evaluator{leaf: dayLeaf(c, fn.Params[0], env), inline: inlineLibrary}
					res, outcome := ev.run(fn, nil, nil, nil, nil)
					n++
					which := 1
					if sect == 1 {
						which = 0
					} else if sect == 3 {
						which = 2
					}
					want := fmt.Sprint(floorModN(2026-(y+sh[which]), 9))
					if got := star(ev, res, outcome); got != want {
						bad = append(bad, fmt.Sprintf("school %d, lunar year %d, pillar years (New-Year, Lichun-day, exact) = %d, %d, %d: index %s, stated %s", sect, y, y+sh[0], y+sh[1], y+sh[2], got, want))
					}
				}
			}
		}
		report(fn, "calendar.(*Lunar).GetYearNineStarBySect: (2026 - year of the chosen pillar) mod 9", n, bad, problems)
	}
	if fn := c.Fn(r, rule, "calendar.(*LunarYear).GetNineStar"); fn != nil && len(fn.Params) == 1 {
		problems := map[string]bool{}
		var bad []string
		n := 0
		for y := int64(0); y <= 9999 && len(bad) < 4 && len(problems) == 0; y++ {
			env := &dayEnv{problems: problems, fields: map[string]int64{"LunarYear.year": y}, gz: map[string]int64{"GetGanZhi": floorModN(y-4, 60)}}
			ev := &evaluator{leaf: dayLeaf(c, fn.Params[0], env), inline: inlineLibrary}
			res, outcome := ev.run(fn, nil, nil, nil, nil)
			n++
			want := fmt.Sprint(floorModN(2026-y, 9))
			if got := star(ev, res, outcome); got != want {
				bad = append(bad, fmt.Sprintf("lunar year %d: index %s, stated %s", y, got, want))
			}
		}
		report(fn, "calendar.(*LunarYear).GetNineStar: (2026 - year) mod 9", n, bad, problems)
	}
	// ---- month star
	monthWant := func(yz, mz int64) int64 {
		return floorModN(7-3*(yz%3)-floorModN(mz-2, 12), 9)
	}
	if fn := c.Fn(r, rule, "calendar.(*Lunar).GetMonthNineStarBySect"); fn != nil && len(fn.Params) == 2 {
		problems := map[string]bool{}
		var bad []string
		n := 0
		for _, sect := range []int64{0, 1, 2, 3, 4} {
			for yz := int64(0); yz < 12; yz++ {
				for mz := int64(0); mz < 12 && len(bad) < 4 && len(problems) == 0; mz++ {
					// distinct values per variant: New-Year yz, Lichun-day yz+1, exact yz+2; month plain mz, exact mz+1
					f := map[string]int64{"Lunar.yearZhiIndex": yz, "Lunar.yearZhiIndexByLiChun": (yz + 1) % 12, "Lunar.yearZhiIndexExact": (yz + 2) % 12,
						"Lunar.monthZhiIndex": mz, "Lunar.monthZhiIndexExact": (mz + 1) % 12}
					env := &dayEnv{problems: problems, fields: f}
					sectV := sect
					env.extra = func(fr *evalFrame, v ssa.Value, _ leafX) (interface{}, bool) {
						if fr.parent == nil && v == ssa.Value(fn.Params[1]) {
							return sectV, true
						}
						return nil, false
					}
					ev := &evaluator{leaf: dayLeaf(c, fn.Params[0], env), inline: inlineLibrary}
					res, outcome := ev.run(fn, nil, nil, nil, nil)
					n++
					wy, wm := (yz+1)%12, mz
					if sect == 1 {
						wy = yz
					} else if sect == 3 {
						wy, wm = (yz+2)%12, (mz+1)%12
					}
					want := fmt.Sprint(monthWant(wy, wm))
					if got := star(ev, res, outcome); got != want {
						bad = append(bad, fmt.Sprintf("school %d, year branches (New-Year, Lichun-day, exact) = %d, %d, %d, month branches (plain, exact) = %d, %d: index %s, stated %s", sect, yz, (yz+1)%12, (yz+2)%12, mz, (mz+1)%12, got, want))
					}
				}
			}
		}
		report(fn, "calendar.(*Lunar).GetMonthNineStarBySect: 8/5/2 in the first month by year-branch group, one back per month", n, bad, problems)
	}
	if fn := c.Fn(r, rule, "calendar.(*LunarMonth).GetNineStar"); fn != nil && len(fn.Params) == 1 {
		problems := map[string]bool{}
		var bad []string
		n := 0
		for y := int64(0); y < 24; y++ {
			for _, m := range []int64{1, 2, 3, 4, 5, 6, 7, 8, 9, 10, 11, 12, -1, -4, -11, -12} {
				env := &dayEnv{problems: problems, fields: map[string]int64{"LunarMonth.year": 1984 + y, "LunarMonth.month": m}}
				env.extra = func(fr *evalFrame, v ssa.Value, leaf leafX) (interface{}, bool) {
					if rc, f, ok := getterField(c, v); ok && f == "LunarYear.zhiIndex" {
						// the year branch of the year object, read through its getter or directly
						if o, ok := evalWith(fr, rc, leaf); ok {
							if p, isP := o.(absPtr); isP {
								var yy int64
								if _, err := fmt.Sscanf(p.tag, "year %d", &yy); err == nil {
									return floorModN(yy-4, 12), true
								}
							}
						}
						return nil, false
					}
					if call, ok := v.(*ssa.Call); ok && call.Common().StaticCallee() != nil {
						callee := call.Common().StaticCallee()
						if callee.Name() == "NewLunarYear" && len(call.Common().Args) == 1 {
							if o, ok := evalWith(fr, call.Common().Args[0], leaf); ok {
								if yy, isI := o.(int64); isI {
									return absPtr{fmt.Sprintf("year %d", yy), false}, true
								}
							}
							return nil, false
						}
						if recvIsNamed(callee, "LunarYear") && callee.Name() == "GetZhiIndex" {
							if o, ok := evalWith(fr, call.Common().Args[0], leaf); ok {
								if p, isP := o.(absPtr); isP {
									var yy int64
									if _, err := fmt.Sscanf(p.tag, "year %d", &yy); err == nil {
										return floorModN(yy-4, 12), true
									}
								}
							}
							return nil, false
						}
					}
					return nil, false
				}
				leaf := dayLeaf(c, fn.Params[0], env)
				ev := &evaluator{leaf: leaf, inline: func(callee *ssa.Function) bool { return inlineLibrary(callee) && callee.Name() != "NewLunarYear" }}
				res, outcome := ev.run(fn, nil, nil, nil, nil)
				n++
				am := m
				if am < 0 {
					am = -am
				}
				want := fmt.Sprint(floorModN(7-3*(floorModN(1984+y-4, 12)%3)-(am-1), 9))
				if got := star(ev, res, outcome); got != want && len(bad) < 4 {
					bad = append(bad, fmt.Sprintf("lunar year %d month %d: index %s, stated %s", 1984+y, m, got, want))
				}
			}
		}
		report(fn, "calendar.(*LunarMonth).GetNineStar: 8/5/2 in the first month by year-branch group, one back per month", n, bad, problems)
	}
	// ---- day star
	if fn := c.Fn(r, rule, "calendar.(*Lunar).GetDayNineStar"); fn != nil && len(fn.Params) == 1 {
		problems := map[string]bool{}
		var bad []string
		n := 0
		nearest := func(t, j0 int64) int64 {
			j := floorModN(j0+t, 60)
			if j > 29 {
				return t + 60 - j
			}
			return t - j
		}
		for j0 := int64(0); j0 < 60; j0++ {
			a0, nz, a1 := nearest(0, j0), nearest(182, j0), nearest(365, j0)
			for now := int64(-45); now <= 410 && len(bad) < 4 && len(problems) == 0; now++ {
				if d := now - a0; d > 12 && now-nz < -12 {
					continue // far from every anchor: the same formula as nearby days
				}
				if d := now - nz; d > 12 && now-a1 < -12 {
					continue
				}
				env := &dayEnv{now: now, stem: j0 % 10, jiazi: j0, gz: map[string]int64{}, terms: map[string]int64{"冬至": 0, "夏至": 182, "DONG_ZHI": 365}, problems: problems}
				ev := &evaluator{leaf: dayLeaf(c, fn.Params[0], env), inline: inlineLibrary}
				res, outcome := ev.run(fn, nil, nil, nil, nil)
				n++
				var w int64
				switch {
				case now >= a1:
					w = (now - a1) % 9
				case now >= nz:
					w = 8 - (now-nz)%9
				case now >= a0:
					w = (now - a0) % 9
				default:
					w = (8 + a0 - now) % 9
				}
				if got := star(ev, res, outcome); got != fmt.Sprint(w) {
					bad = append(bad, fmt.Sprintf("solstices at 0, +182, +365 (sexagenary index of day 0: %d; anchors %d, %d, %d), day %d: index %s, stated %d", j0, a0, nz, a1, now, got, w))
				}
			}
		}
		report(fn, "calendar.(*Lunar).GetDayNineStar counts from the jiazi days nearest the solstices", n, bad, problems)
	}
	// ---- hour star
	for _, name := range []string{"calendar.(*Lunar).GetTimeNineStar", "calendar.(*LunarTime).GetNineStar"} {
		fn := c.Fn(r, rule, name)
		if fn == nil || len(fn.Params) != 1 || len(zhi) < 13 {
			continue
		}
		problems := map[string]bool{}
		var bad []string
		n := 0
		for _, now := range []int64{-1, 0, 1, 181, 182, 183, 364, 365, 366} {
			for dz := int64(0); dz < 12; dz++ {
				for tz := int64(0); tz < 12 && len(bad) < 4 && len(problems) == 0; tz++ {
					env := &dayEnv{now: now, terms: map[string]int64{"冬至": 0, "夏至": 182, "DONG_ZHI": 365}, problems: problems,
						fields: map[string]int64{"Lunar.dayZhiIndex": dz, "Lunar.timeZhiIndex": tz, "LunarTime.zhiIndex": tz}}
					var recv ssa.Value
					if name == "calendar.(*Lunar).GetTimeNineStar" {
						recv = fn.Params[0]
					}
					ev := &evaluator{leaf: dayLeaf(c, recv, env), inline: inlineLibrary}
					res, outcome := ev.run(fn, nil, nil, nil, nil)
					n++
					asc := (now >= 0 && now < 182) || now >= 365
					var start int64
					switch dz % 3 {
					case 0: // 子午卯酉
						start = 8
						if asc {
							start = 0
						}
					case 1: // 丑辰未戌
						start = 5
						if asc {
							start = 3
						}
					default:
						start = 2
						if asc {
							start = 6
						}
					}
					w := floorModN(start-tz, 9)
					if asc {
						w = floorModN(start+tz, 9)
					}
					if got := star(ev, res, outcome); got != fmt.Sprint(w) {
						bad = append(bad, fmt.Sprintf("day %d (solstices at 0, +182, +365), day branch %s, hour branch %s: index %s, stated %d", now, zhi[dz+1], zhi[tz+1], got, w))
					}
				}
			}
		}
		report(fn, name+": start by day-branch group and solstice half, one per two-hour slot", n, bad, problems)
	}
	r.floor(rule, 7)
}

func r16_6(c *Ctx, r *Report) {
	const rule = "R16.6"
	r.rule(rule, "The day star does not depend on the civil new year. Before the winter anchor a day still belongs to the descent that began on the previous summer's anchor, 180 or 240 days before the winter anchor (both occur); counting down from star nine on the summer anchor gives index 8 - (days since that anchor) mod 9. GetDayNineStar is followed for the days before a winter anchor that lies after the solstice, for both distances.")
	fn := c.Fn(r, rule, "calendar.(*Lunar).GetDayNineStar")
	if fn == nil || len(fn.Params) != 1 {
		return
	}
	problems := map[string]bool{}
	nearest := func(t, j0 int64) int64 {
		j := floorModN(j0+t, 60)
		if j > 29 {
			return t + 60 - j
		}
		return t - j
	}
	star := func(ev *evaluator, res []interface{}, outcome string) string {
		if outcome == "return" && len(res) == 1 {
			if rec, ok := res[0].(absRec); ok && rec.ctor == "NewNineStar" {
				return fmt.Sprint(rec.idx)
			}
			return fmt.Sprint(res[0])
		}
		return outcome + " " + ev.fail
	}
	{
		// Before the first anchor the day still belongs to the descent that began on the previous summer's anchor,
		// 180 or 240 days before the winter anchor (both occur). The count "down from star nine on the summer anchor"
		// is 8 - (days since that anchor) mod 9; a formula that looks at the winter anchor alone agrees with it for
		// 180 (a multiple of 9) and cannot agree for 240.
		for _, gap := range []int64{180, 240} {
			var bad2 []string
			n2 := 0
			for j0 := int64(31); j0 < 59; j0++ { // the winter anchor lies after the solstice day 0: day 60 - j0
				a0 := nearest(0, j0)
				if a0 <= 1 {
					continue
				}
				for now := a0 - 9; now < a0 && len(bad2) < 3; now++ {
					env := &dayEnv{now: now, stem: j0 % 10, jiazi: j0, gz: map[string]int64{}, terms: map[string]int64{"冬至": 0, "夏至": 182, "DONG_ZHI": 365}, problems: problems}
					ev := &evaluator{leaf: dayLeaf(c, fn.Params[0], env), inline: inlineLibrary}
					res, outcome := ev.run(fn, nil, nil, nil, nil)
					n2++
					w := floorModN(8-floorModN(now-(a0-gap), 9), 9)
					if got := star(ev, res, outcome); got != fmt.Sprint(w) {
						bad2 = append(bad2, fmt.Sprintf("winter anchor at day %d, summer anchor %d days before it, day %d: index %s, counting down from the summer anchor gives %d", a0, gap, now, got, w))
					}
				}
			}
			r.check(len(bad2) == 0 && n2 > 0, rule, fmt.Sprintf("calendar.(*Lunar).GetDayNineStar before the winter anchor continues the descent of a summer anchor %d days earlier", gap), c.fnPos(fn), fmt.Sprintf("%d assignments; deviations: %v", n2, headList(bad2, 2)))
		}
	}
}
