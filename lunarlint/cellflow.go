package main

// The value a local variable that lives in memory (a cell: a variable a function literal captures, or one
// whose address is taken) holds at a program point, read off the stores of the function that owns it —
// for expression evaluation outside a walk (during a walk the walker's own memory is used).
//
// Only the common shape is read: a store D that dominates the point (the declaration, or the latest
// unconditional assignment), followed by stores S1 < S2 < ... that D dominates and that are ordered by
// dominance among themselves (conditional overrides: if c { x = v }). The value is that of the last
// override whose own branch conditions (those between D and it) evaluate to their polarity, else D's.
// Anything else (stores in sibling branches, in inner loops) is not evaluable.

import (
	"golang.org/x/tools/go/ssa"
)

func instrIndex(b *ssa.BasicBlock, ins ssa.Instruction) int {
	for i, x := range b.Instrs {
		if x == ins {
			return i
		}
	}
	return -1
}

// blockReaches: to is reachable from from without entering avoid (from itself may be avoid's successor).
func blockReaches(from, to, avoid *ssa.BasicBlock) bool {
	if from == to {
		return true
	}
	return reachAvoiding(from, avoid)[to]
}

// cellValueAt: the value of cell just before instruction `before` of block `at` (before == nil: at the
// end of the block), evaluated in fr, the frame of the function that owns the cell.
func (ev *evaluator) cellValueAt(fr *evalFrame, cell *ssa.Alloc, at *ssa.BasicBlock, before ssa.Instruction, depth int) (interface{}, bool) {
	if depth > 30 || cell.Parent() == nil || cell.Parent() != fr.fn || cell.Referrers() == nil {
		return nil, false
	}
	pos := len(at.Instrs)
	if before != nil {
		pos = instrIndex(at, before)
	}
	var stores []*ssa.Store
	for _, ref := range *cell.Referrers() {
		switch x := ref.(type) {
		case *ssa.Store:
			if x.Addr == ssa.Value(cell) {
				stores = append(stores, x)
			} else {
				return nil, false // the address itself is stored somewhere
			}
		case *ssa.UnOp, *ssa.MakeClosure, *ssa.DebugRef:
		default:
			return nil, false // the address escapes (a call argument, a field address)
		}
	}
	// a function literal that captures the cell may assign to it
	for _, ref := range *cell.Referrers() {
		if mc, ok := ref.(*ssa.MakeClosure); ok {
			if f, ok := mc.Fn.(*ssa.Function); ok {
				for i, b := range mc.Bindings {
					if b == ssa.Value(cell) && i < len(f.FreeVars) && f.FreeVars[i].Referrers() != nil {
						for _, r2 := range *f.FreeVars[i].Referrers() {
							if _, isStore := r2.(*ssa.Store); isStore {
								return nil, false
							}
						}
					}
				}
			}
		}
	}
	precedes := func(s *ssa.Store) bool { // s stands before the point on the straight line of dominance
		if s.Block() == at {
			return instrIndex(at, s) < pos
		}
		return s.Block().Dominates(at)
	}
	// D: the closest store that dominates the point
	var d *ssa.Store
	for _, s := range stores {
		if !precedes(s) {
			continue
		}
		if d == nil || d.Block().Dominates(s.Block()) && (d.Block() != s.Block() || instrIndex(d.Block(), d) < instrIndex(s.Block(), s)) {
			d = s
		}
	}
	if d == nil {
		return nil, false
	}
	after := func(a, b *ssa.Store) bool { // b stands after a on the straight line of dominance
		if a.Block() == b.Block() {
			return instrIndex(a.Block(), a) < instrIndex(b.Block(), b)
		}
		return a.Block().Dominates(b.Block())
	}
	// the overrides: stores after D that can reach the point without passing D's block again
	var over []*ssa.Store
	for _, s := range stores {
		if s == d || precedes(s) && !after(d, s) {
			continue
		}
		if precedes(s) {
			continue // dominated by D and dominating the point: D would not have been the closest
		}
		if !after(d, s) {
			// not under D: it matters only if it can reach the point without passing D
			if s.Block() != at && blockReaches(s.Block(), at, d.Block()) {
				return nil, false
			}
			continue
		}
		if s.Block() == at || !blockReaches(s.Block(), at, d.Block()) {
			continue // stands after the point, or cannot come back to it without passing D again
		}
		over = append(over, s)
	}
	// ordered by dominance
	for i := 0; i < len(over); i++ {
		for j := i + 1; j < len(over); j++ {
			if after(over[j], over[i]) {
				over[i], over[j] = over[j], over[i]
			} else if !after(over[i], over[j]) {
				return nil, false // sibling branches
			}
		}
	}
	dFacts := map[ssa.Value]bool{}
	for _, f := range domFacts(fr, d.Block()) {
		dFacts[f.cond] = true
	}
	for i := len(over) - 1; i >= 0; i-- {
		s := over[i]
		runs := true
		for _, f := range domFacts(fr, s.Block()) {
			if dFacts[f.cond] {
				continue
			}
			// the condition itself may read the cell: as it was where the condition stands
			v, ok := ev.evalAt(fr, f.cond, depth+1)
			bv, isB := v.(bool)
			if !ok || !isB {
				return nil, false
			}
			if bv != f.truth {
				runs = false
				break
			}
		}
		if runs {
			return ev.evalAt(fr, s.Val, depth+1)
		}
	}
	return ev.evalAt(fr, d.Val, depth+1)
}

// evalAt evaluates v; loads of cells inside it are read where they stand.
func (ev *evaluator) evalAt(fr *evalFrame, v ssa.Value, depth int) (interface{}, bool) {
	return ev.eval(fr, v, depth)
}

// cellStoreBefore: the one store whose value a cell certainly holds just before instruction `before` (nil when
// that cannot be told from the shape of the code alone): the closest store that dominates the point, with no
// other store to the cell able to come after it and still reach the point.
func cellStoreBefore(cell *ssa.Alloc, before ssa.Instruction) *ssa.Store {
	if cell.Referrers() == nil || before.Block() == nil {
		return nil
	}
	at := before.Block()
	pos := instrIndex(at, before)
	var stores []*ssa.Store
	for _, ref := range *cell.Referrers() {
		switch x := ref.(type) {
		case *ssa.Store:
			if x.Addr != ssa.Value(cell) {
				return nil
			}
			stores = append(stores, x)
		case *ssa.UnOp, *ssa.DebugRef:
		default:
			return nil // captured or escaping: someone else may store
		}
	}
	precedes := func(s *ssa.Store) bool {
		if s.Block() == at {
			return instrIndex(at, s) < pos
		}
		return s.Block().Dominates(at)
	}
	after := func(a, b *ssa.Store) bool {
		if a.Block() == b.Block() {
			return instrIndex(a.Block(), a) < instrIndex(b.Block(), b)
		}
		return a.Block().Dominates(b.Block())
	}
	var d *ssa.Store
	for _, s := range stores {
		if precedes(s) && (d == nil || after(d, s)) {
			d = s
		}
	}
	if d == nil {
		return nil
	}
	for _, s := range stores {
		if s == d || (precedes(s) && after(s, d)) {
			continue // d itself, or an earlier store d overwrites
		}
		if s.Block() == at && instrIndex(at, s) >= pos && !blockReaches(at, at, d.Block()) {
			continue // stands after the point (and the point is not in a loop that comes back without passing d)
		}
		if s.Block() != at && !blockReaches(s.Block(), at, d.Block()) {
			continue // cannot reach the point without passing d again
		}
		if s.Block() == at && instrIndex(at, s) >= pos {
			// after the point in its own block: matters only if the block can be re-entered without passing d
			reenter := false
			for _, succ := range at.Succs {
				if reachAvoiding(succ, d.Block())[at] {
					reenter = true
				}
			}
			if !reenter {
				continue
			}
		}
		return nil
	}
	return d
}
