package main

// R15.9 — the lists of days and months a unit hands out, read element by element.

import (
	"fmt"
	"strings"

	"golang.org/x/tools/go/ssa"
)

func r15_9(c *Ctx, r *Report) {
	const rule = "R15.9"
	r.rule(rule, "Unit lists. The lists built by SolarMonth.GetDays, SolarWeek.GetDays, SolarYear.GetMonths, SolarSeason.GetMonths and SolarHalfYear.GetMonths are followed element by element (the building loop as a table over the iteration number, helpers inline; PushBack appends, PushFront prepends): a month lists its first day stepped by 0 .. GetDaysOfMonth-1 days (for lengths 21, 28, 29, 30, 31 — stepped, never built from the day number, which is not contiguous in October 1582), a week its first day stepped by 0..6, a year its months 1..12, a season the three and a half-year the six months of the period the unit's month lies in, all in ascending order.")
	type unit struct {
		fn       string
		variants []int64 // month length for SolarMonth.GetDays, month of the unit otherwise
		want     func(v int64) []string
	}
	days := func(n int64) []string {
		var out []string
		for k := int64(0); k < n; k++ {
			out = append(out, fmt.Sprintf("day+%d", k))
		}
		return out
	}
	months := func(from, n int64) []string {
		var out []string
		for k := int64(0); k < n; k++ {
			out = append(out, fmt.Sprintf("month 2023-%d", from+k))
		}
		return out
	}
	all12 := []int64{1, 2, 3, 4, 5, 6, 7, 8, 9, 10, 11, 12}
	units := []unit{
		{"calendar.(*SolarMonth).GetDays", []int64{21, 28, 29, 30, 31}, func(v int64) []string { return days(v) }},
		{"calendar.(*SolarWeek).GetDays", []int64{0}, func(v int64) []string { return days(7) }},
		// a week's days inside its own month: variant p in 0..6 = the first p days lie in the month before,
		// variant 10+q = the last q days lie in the month after
		{"calendar.(*SolarWeek).GetDaysInMonth", []int64{0, 1, 2, 3, 4, 5, 6, 11, 12, 13, 14, 15, 16}, func(v int64) []string {
			if v >= 10 {
				return days(7 - (v - 10))
			}
			return days(7)[v:]
		}},
		{"calendar.(*SolarWeek).GetFirstDayInMonth", []int64{0, 1, 2, 3, 4, 5, 6, 11, 12, 13, 14, 15, 16}, func(v int64) []string {
			if v >= 10 {
				return []string{"returns day+0"}
			}
			return []string{fmt.Sprintf("returns day+%d", v)}
		}},
		{"calendar.(*SolarYear).GetMonths", []int64{0}, func(v int64) []string { return months(1, 12) }},
		{"calendar.(*SolarSeason).GetMonths", all12, func(v int64) []string { return months((v-1)/3*3+1, 3) }},
		{"calendar.(*SolarHalfYear).GetMonths", all12, func(v int64) []string { return months((v-1)/6*6+1, 6) }},
	}
	for _, u := range units {
		fn := c.Fn(r, rule, u.fn)
		if fn == nil || len(fn.Params) != 1 {
			continue
		}
		var bad []string
		n := 0
		for _, v := range u.variants {
			v := v
			var leaf leafX
			strOf := func(fr *evalFrame, x ssa.Value) (string, bool) {
				o, ok := evalWith(fr, x, leaf)
				s, isS := o.(string)
				return s, ok && isS
			}
			intOf := func(fr *evalFrame, x ssa.Value) (int64, bool) {
				o, ok := evalWith(fr, x, leaf)
				k, isI := o.(int64)
				return k, ok && isI
			}
			var lm *listModel
			leaf = func(fr *evalFrame, val ssa.Value) (interface{}, bool) {
				if x, ok := lm.leaf(c, fr, val); ok {
					return x, true
				}
				if rc, f, ok := getterField(c, val); ok {
					// the number of a listed month, the day number of a listed day (a cursor walk may test them)
					if f == "SolarMonth.month" || f == "SolarMonth.year" {
						if s, ok := strOf(fr, rc); ok {
							var y, m int64
							if _, err := fmt.Sscanf(s, "month %d-%d", &y, &m); err == nil {
								if f == "SolarMonth.year" {
									return y, true
								}
								return m, true
							}
						}
					}
					if f == "Solar.day" && u.fn == "calendar.(*SolarMonth).GetDays" {
						if s, ok := strOf(fr, rc); ok {
							var k int64
							if _, err := fmt.Sscanf(s, "day+%d", &k); err == nil {
								if v == 21 && k >= 4 {
									return k + 11, true // October 1582: the day after the 4th is the 15th
								}
								return k + 1, true
							}
						}
					}
					if f == "Solar.month" {
						// the month of a listed day, for the in-month views of a week
						var k int64
						if s, ok := strOf(fr, rc); ok {
							if _, err := fmt.Sscanf(s, "day+%d", &k); err == nil {
								switch {
								case v < 10 && k < v:
									return int64(9), true
								case v >= 10 && k >= 7-(v-10):
									return int64(11), true
								}
								return int64(10), true
							}
						}
						return nil, false
					}
					if ofr, o := fr.origin(rc); ofr.parent == nil && o == ssa.Value(fn.Params[0]) {
						switch f {
						case "SolarMonth.year", "SolarSeason.year", "SolarHalfYear.year", "SolarYear.year", "SolarWeek.year":
							return int64(2023), true
						case "SolarMonth.month", "SolarWeek.month":
							return int64(10), true
						case "SolarSeason.month", "SolarHalfYear.month":
							return v, true
						}
					}
				}
				call, ok := val.(*ssa.Call)
				if !ok || call.Common().StaticCallee() == nil {
					return nil, false
				}
				callee := call.Common().StaticCallee()
				args := call.Common().Args
				switch {
				case fname(callee) == "SolarUtil.GetDaysOfMonth":
					return v, true
				case callee.Name() == "NewSolarFromYmd" && callee.Signature.Recv() == nil && len(args) == 3:
					if d, ok := intOf(fr, args[2]); ok {
						if d == 1 {
							return "day+0", true
						}
						return fmt.Sprintf("day built from the number %d", d), true
					}
				case recvIsNamed(callee, "SolarWeek") && callee.Name() == "GetFirstDay":
					return "day+0", true
				case recvIsNamed(callee, "Solar") && callee.Name() == "NextDay" && len(args) == 2:
					s, ok1 := strOf(fr, args[0])
					k, ok2 := intOf(fr, args[1])
					var k0 int64
					if ok1 && ok2 {
						if _, err := fmt.Sscanf(s, "day+%d", &k0); err == nil {
							return fmt.Sprintf("day+%d", k0+k), true
						}
					}
				case callee.Name() == "NewSolarMonthFromYm" && callee.Signature.Recv() == nil && len(args) == 2:
					y, ok1 := intOf(fr, args[0])
					m, ok2 := intOf(fr, args[1])
					if ok1 && ok2 {
						return fmt.Sprintf("month %d-%d", y, m), true
					}
				case recvIsNamed(callee, "SolarMonth") && callee.Name() == "Next" && len(args) == 2:
					s, ok1 := strOf(fr, args[0])
					k, ok2 := intOf(fr, args[1])
					var y, m int64
					if ok1 && ok2 {
						if _, err := fmt.Sscanf(s, "month %d-%d", &y, &m); err == nil {
							t := y*12 + m - 1 + k
							return fmt.Sprintf("month %d-%d", floorDiv64(t, 12), floorModN(t, 12)+1), true
						}
					}
				}
				return nil, false
			}
			ev := &evaluator{leaf: leaf, inline: inlineLibrary, counted: 64}
			lm = newListModel(ev)
			ev.visit = lm.visit
			res, outcome := ev.run(fn, nil, nil, nil, nil)
			n++
			want := strings.Join(u.want(v), ", ")
			got := "no list returned"
			if len(res) == 1 {
				if p, isP := res[0].(absPtr); isP && strings.HasPrefix(p.tag, "list@") {
					got = strings.Join(lm.render(p.tag), ", ")
				} else {
					got = "returns " + fmt.Sprint(res[0])
				}
			}
			if outcome != "return" {
				got = outcome + " " + ev.fail
			}
			if got != want && len(bad) < 3 {
				bad = append(bad, fmt.Sprintf("variant %d: [%s], stated [%s]", v, head(got, 120), head(want, 120)))
			}
		}
		r.check(len(bad) == 0 && n > 0, rule, u.fn+" lists its elements in order", c.fnPos(fn), fmt.Sprintf("%d variants; deviations: %v", n, bad))
	}
	r.floor(rule, 7)
}
