package main

// E4: value dependence. A backward slice over SSA operands. A phi additionally
// depends on every branch condition in the region between its immediate
// dominator and itself (including, for a loop-header phi, the conditions inside
// the loop): this over-approximates control dependence, so it can only hide a
// finding, never invent one.

import (
	"go/token"

	"golang.org/x/tools/go/ssa"
)

type depAnalysis struct {
	fn   *ssa.Function
	memo map[ssa.Value]map[ssa.Value]bool
}

func newDep(fn *ssa.Function) *depAnalysis {
	return &depAnalysis{fn: fn, memo: map[ssa.Value]map[ssa.Value]bool{}}
}

// controlRegion: blocks dominated by idom(p) from which p is reachable without leaving that region.
func controlRegion(p *ssa.BasicBlock) []*ssa.BasicBlock {
	idom := p.Idom()
	if idom == nil {
		return nil
	}
	seen := map[*ssa.BasicBlock]bool{}
	var out []*ssa.BasicBlock
	work := append([]*ssa.BasicBlock{}, p.Preds...)
	for len(work) > 0 {
		b := work[len(work)-1]
		work = work[:len(work)-1]
		if seen[b] || !idom.Dominates(b) {
			continue
		}
		seen[b] = true
		out = append(out, b)
		if b == idom {
			continue
		}
		work = append(work, b.Preds...)
	}
	return out
}

// leaves returns the set of parameters, free variables and globals the value depends on.
func (d *depAnalysis) dependsOn(v ssa.Value, target ssa.Value) bool {
	seen := map[ssa.Value]bool{}
	var walk func(v ssa.Value) bool
	walk = func(v ssa.Value) bool {
		if v == nil || seen[v] {
			return false
		}
		seen[v] = true
		if v == target {
			return true
		}
		switch x := v.(type) {
		case *ssa.Phi:
			for _, e := range x.Edges {
				if walk(e) {
					return true
				}
			}
			for _, b := range controlRegion(x.Block()) {
				if len(b.Instrs) == 0 {
					continue
				}
				if iff, ok := b.Instrs[len(b.Instrs)-1].(*ssa.If); ok {
					if walk(iff.Cond) {
						return true
					}
				}
			}
			return false
		case *ssa.UnOp:
			if x.Op == token.MUL {
				if al, ok := x.X.(*ssa.Alloc); ok {
					for _, ref := range *al.Referrers() {
						if st, ok := ref.(*ssa.Store); ok && st.Addr == ssa.Value(al) {
							if walk(st.Val) {
								return true
							}
						}
					}
				}
			}
			return walk(x.X)
		case ssa.Instruction:
			for _, op := range x.Operands(nil) {
				if op != nil && *op != nil && walk(*op) {
					return true
				}
			}
		}
		return false
	}
	return walk(v)
}

// pinnedBy: is block b reachable only under "param == const" (the true edge of == or the false edge of !=)?
func pinnedBy(fn *ssa.Function, b *ssa.BasicBlock, param ssa.Value) (string, bool) {
	for _, blk := range fn.Blocks {
		if len(blk.Instrs) == 0 {
			continue
		}
		iff, ok := blk.Instrs[len(blk.Instrs)-1].(*ssa.If)
		if !ok {
			continue
		}
		bo, ok := iff.Cond.(*ssa.BinOp)
		if !ok || (bo.Op != token.EQL && bo.Op != token.NEQ) {
			continue
		}
		var k *ssa.Const
		if bo.X == param {
			k, _ = bo.Y.(*ssa.Const)
		} else if bo.Y == param {
			k, _ = bo.X.(*ssa.Const)
		}
		if k == nil {
			continue
		}
		succ := blk.Succs[0]
		if bo.Op == token.NEQ {
			succ = blk.Succs[1]
		}
		if len(succ.Preds) == 1 && succ.Dominates(b) {
			return param.Name() + " == " + k.Value.String(), true
		}
	}
	return "", false
}
