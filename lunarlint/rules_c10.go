package main

// C10 — eight-character reverse lookup: soundness and order shape.

import (
	"fmt"

	"golang.org/x/tools/go/ssa"
)

func init() {
	register("C10",
		"completeness (that a moment in the same two-hour slot is always returned): a numeric for-all over moments near term instants, where the pinned tree is in fact incomplete for some slots that contain a Jie instant; strictness of the chronological order beyond the append-only shape.",
		r10_1, r10_2, r10_3, r10_4, r10_5, r10_6, r10_7, r05_4, r08_4, r05_3)
}

func reverseLookup(c *Ctx, r *Report, rule string) *ssa.Function {
	return c.Fn(r, rule, "calendar.ListSolarFromBaZiBySectAndBaseYear")
}

func r10_4(c *Ctx, r *Report) {
	const rule = "R10.4"
	r.rule(rule, "Defaults. ListSolarFromBaZi delegates to …BySect(…, 2), which delegates to …BySectAndBaseYear(…, 1900), arguments passed through unchanged.")
	for _, t := range []struct {
		from, to string
		k        int64
	}{{"calendar.ListSolarFromBaZi", "calendar.ListSolarFromBaZiBySect", 2}, {"calendar.ListSolarFromBaZiBySect", "calendar.ListSolarFromBaZiBySectAndBaseYear", 1900}} {
		fn := c.Fn(r, rule, t.from)
		if fn == nil {
			continue
		}
		d := pureDelegation(fn)
		okk := d != nil && fname(d.callee) == t.to
		if okk {
			args := d.call.Common().Args
			k, isK := constInt(args[len(args)-1])
			okk = isK && k == t.k
			for i, a := range args[:len(args)-1] {
				if a != ssa.Value(fn.Params[i]) {
					okk = false
				}
			}
		}
		r.check(okk, rule, fmt.Sprintf("%s -> %s(…, %d)", t.from, t.to, t.k), c.fnPos(fn), "pure delegation with the documented default")
	}
}
