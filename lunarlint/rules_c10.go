package main

// C10 — eight-character reverse lookup: soundness and order shape.

import (
	"fmt"

	"golang.org/x/tools/go/ssa"
)

func init() {
	register("C10",
		"completeness (that a moment in the same two-hour slot is always returned): a numeric for-all over moments near term instants, where the pinned tree is in fact incomplete for some slots that contain a Jie instant; strictness of the chronological order beyond the append-only shape.",
		r10_1, r10_2, r10_3, r10_4, r10_5, r10_6, r10_7, r05_4, r08_4, r05_3)
}

func reverseLookup(c *Ctx, r *Report, rule string) *ssa.Function {
	return c.Fn(r, rule, "calendar.ListSolarFromBaZiBySectAndBaseYear")
}

func r10_4(c *Ctx, r *Report) {
	const rule = "R10.4"
	r.rule(rule, "Defaults. ListSolarFromBaZi(p…) does what …BySect(p…, 2) does, and …BySect(p…, sect) what …BySectAndBaseYear(p…, sect, 1900) does: each pair of entries, resolved through pure delegations to the function that does the work (arguments handed on evaluated over the entry's own parameters, the school over a spread of values), reaches the same worker with the same arguments.")
	for _, t := range []struct {
		from, to string
		k        int64
	}{{"calendar.ListSolarFromBaZi", "calendar.ListSolarFromBaZiBySect", 2}, {"calendar.ListSolarFromBaZiBySect", "calendar.ListSolarFromBaZiBySectAndBaseYear", 1900}} {
		fn := c.Fn(r, rule, t.from)
		if fn == nil {
			continue
		}
		okk, detail := delegatesWithDefault(c, fn, c.FuncBy[t.to], t.k)
		r.check(okk, rule, fmt.Sprintf("%s -> %s(…, %d)", t.from, t.to, t.k), c.fnPos(fn), "does what the longer entry does with the documented default: "+detail)
	}
}
