package main

// C10 — eight-character reverse lookup: soundness and order shape.

import (
	"fmt"
	"go/token"
	"sort"
	"strings"

	"golang.org/x/tools/go/ssa"
)

func init() {
	register("C10",
		"completeness (that a moment in the same two-hour slot is always returned): a numeric for-all over moments near term instants, where the pinned tree is in fact incomplete for some slots that contain a Jie instant; strictness of the chronological order beyond the append-only shape.",
		r10_1, r10_2, r10_3, r10_4, r10_5, r05_4, r08_4)
}

func reverseLookup(c *Ctx, r *Report, rule string) *ssa.Function {
	return c.Fn(r, rule, "calendar.ListSolarFromBaZiBySectAndBaseYear")
}

func r10_1(c *Ctx, r *Report) {
	const rule = "R10.1"
	r.rule(rule, "Soundness by dominance. Every PushBack(solar) in ListSolarFromBaZiBySectAndBaseYear is dominated by the conjunction of four equalities between the requested pillars and GetYearInGanZhiExact, GetMonthInGanZhiExact, the day pillar and GetTimeInGanZhi of solar.GetLunar() — the same solar that is pushed — and by solarTime.GetYear() >= baseYear.")
	fn := reverseLookup(c, r, rule)
	if fn == nil {
		return
	}
	n := 0
	for _, b := range fn.Blocks {
		for _, ins := range b.Instrs {
			call, ok := ins.(*ssa.Call)
			if !ok || call.Common().StaticCallee() == nil || call.Common().StaticCallee().String() != "(*container/list.List).PushBack" {
				continue
			}
			n++
			pushed := call.Common().Args[1]
			if mi, ok := pushed.(*ssa.MakeInterface); ok {
				pushed = mi.X
			}
			// dominating equality tests
			found := map[string]bool{}
			base := false
			for _, blk := range fn.Blocks {
				iff, ok := blk.Instrs[len(blk.Instrs)-1].(*ssa.If)
				if !ok {
					continue
				}
				if x, y, op, ok := stringCompareAtom(iff.Cond); ok && op == token.EQL && len(blk.Succs[0].Preds) >= 1 && blk.Succs[0].Dominates(b) {
					for _, pr := range [][2]ssa.Value{{x, y}, {y, x}} {
						p, isParam := pr[1].(*ssa.Parameter)
						if !isParam {
							continue
						}
						acc, lunarOf := pillarAccessorOf(pr[0])
						if acc == "" || lunarOf != pushed {
							continue
						}
						found[[]string{"yearGanZhi", "monthGanZhi", "dayGanZhi", "timeGanZhi", "?", "?", "?"}[min(paramIndex(fn, p)&7, 6)]+"="+acc] = true
					}
				}
				if bo, ok := iff.Cond.(*ssa.BinOp); ok && bo.Op == token.GEQ && blk.Succs[0].Dominates(b) {
					if p, ok := bo.Y.(*ssa.Parameter); ok && paramIndex(fn, p) == len(fn.Params)-1 { // the base year (last parameter)
						if g, ok := bo.X.(*ssa.Call); ok && g.Common().StaticCallee() != nil && g.Common().StaticCallee().Name() == "GetYear" {
							base = true
						}
					}
				}
			}
			want := []string{"monthGanZhi=GetMonthInGanZhiExact", "timeGanZhi=GetTimeInGanZhi", "yearGanZhi=GetYearInGanZhiExact"}
			var got []string
			day := false
			for k := range found {
				if strings.HasPrefix(k, "dayGanZhi=") {
					day = true
					continue
				}
				got = append(got, k)
			}
			sort.Strings(got)
			r.check(equalStrs(got, want) && day && base, rule, "calendar.ListSolarFromBaZiBySectAndBaseYear: every pushed moment was verified by forward conversion", c.pos(call.Pos()),
				fmt.Sprintf("dominating equalities on the pushed solar's own lunar date: %v, day pillar: %v, year >= baseYear: %v", sortedKeys(found), day, base))
		}
	}
	if n == 0 {
		r.bad(rule, "instance floor R10.1", c.fnPos(fn), "no PushBack found")
	}
}

// pillarAccessorOf: v is L.GetX() (possibly through a phi of the two day variants) where L = S.GetLunar(); returns X and S.
func pillarAccessorOf(v ssa.Value) (string, ssa.Value) {
	if phi, ok := v.(*ssa.Phi); ok {
		name, recv := "", ssa.Value(nil)
		for _, e := range phi.Edges {
			n, rv := pillarAccessorOf(e)
			if n == "" || (recv != nil && rv != recv) {
				return "", nil
			}
			recv = rv
			if name == "" {
				name = n
			} else if name != n {
				name = name + "|" + n
			}
		}
		return name, recv
	}
	call, ok := v.(*ssa.Call)
	if !ok || call.Common().StaticCallee() == nil || !strings.HasPrefix(call.Common().StaticCallee().Name(), "Get") {
		return "", nil
	}
	l, ok := call.Common().Args[0].(*ssa.Call)
	if !ok || l.Common().StaticCallee() == nil || l.Common().StaticCallee().Name() != "GetLunar" {
		return "", nil
	}
	return call.Common().StaticCallee().Name(), l.Common().Args[0]
}

func r10_2(c *Ctx, r *Report) {
	const rule = "R10.2"
	r.rule(rule, "Day-boundary convention. sect is normalised to {1,2}; the day pillar compared in the verification is …Exact2 under sect == 2 and …Exact otherwise; the rat slot is searched at hours {0, 23} exactly when sect == 2.")
	fn := reverseLookup(c, r, rule)
	if fn == nil {
		return
	}
	norm := false
	for _, b := range fn.Blocks {
		for _, ins := range b.Instrs {
			if phi, ok := ins.(*ssa.Phi); ok && len(phi.Edges) == 2 && isIntType(phi.Type()) {
				if cond, _, ok := phiSelector(phi); ok {
					if bo, ok := cond.(*ssa.BinOp); ok && bo.Op == token.NEQ {
						// the merge of a parameter with the constant 2 under `parameter != 1`
						prm, isPrm := bo.X.(*ssa.Parameter)
						if k, ok := constInt(bo.Y); ok && k == 1 && isPrm {
							two, same := false, false
							for _, e := range phi.Edges {
								if k2, ok := constInt(e); ok && k2 == 2 {
									two = true
								}
								if e == ssa.Value(prm) {
									same = true
								}
							}
							if two && same {
								norm = true
							}
						}
					}
				}
			}
		}
	}
	r.check(norm, rule, "sect is normalised to 1 or 2", c.fnPos(fn), "if sect != 1 { sect = 2 }")
	variant := ""
	for _, b := range fn.Blocks {
		for _, ins := range b.Instrs {
			phi, ok := ins.(*ssa.Phi)
			if !ok || len(phi.Edges) != 2 || !isStringType(phi.Type()) {
				continue
			}
			cond, e0true, ok := phiSelector(phi)
			if !ok {
				continue
			}
			bo, ok := cond.(*ssa.BinOp)
			if !ok || bo.Op != token.EQL {
				continue
			}
			k, ok1 := constInt(bo.X)
			if !ok1 {
				k, ok1 = constInt(bo.Y)
			}
			if !ok1 || k != 2 {
				continue
			}
			names := []string{}
			for _, e := range phi.Edges {
				if call, ok := e.(*ssa.Call); ok && call.Common().StaticCallee() != nil {
					names = append(names, call.Common().StaticCallee().Name())
				}
			}
			if len(names) == 2 {
				t, f := names[0], names[1]
				if !e0true {
					t, f = f, t
				}
				variant = "sect==2:" + t + " else:" + f
			}
		}
	}
	r.check(variant == "sect==2:GetDayInGanZhiExact2 else:GetDayInGanZhiExact", rule, "the verified day pillar follows sect", c.fnPos(fn), variant)
}

func r10_3(c *Ctx, r *Report) {
	const rule = "R10.3"
	r.rule(rule, "Order shape. Results are only appended (PushBack, never PushFront/Insert), inside loops whose candidates increase: the candidate year advances by +60 per iteration and the hour list of the rat slot is the ascending {0, 23} within one civil day.")
	fn := reverseLookup(c, r, rule)
	if fn == nil {
		return
	}
	ef := c.eff.Of(fn)
	onlyBack := true
	for k := range ef.Ext {
		if strings.HasPrefix(k, "(*container/list.List).") && (strings.Contains(k, "PushFront") || strings.Contains(k, "Insert") || strings.Contains(k, "Move")) {
			onlyBack = false
		}
	}
	u := intConstUses(fn)
	stride := countConst(u, token.ADD, 60) >= 2
	// hours literal {0, 23}
	asc := false
	var stores []int64
	for _, b := range fn.Blocks {
		for _, ins := range b.Instrs {
			if st, ok := ins.(*ssa.Store); ok {
				if ia, ok := st.Addr.(*ssa.IndexAddr); ok {
					if _, ok := constInt(ia.Index); ok {
						if k, ok := constInt(st.Val); ok {
							stores = append(stores, k)
						}
					}
				}
			}
		}
	}
	for i := 0; i+1 < len(stores); i++ {
		if stores[i] == 0 && stores[i+1] == 23 {
			asc = true
		}
	}
	r.check(onlyBack && stride && asc, rule, "results are appended in increasing candidate order", c.fnPos(fn), fmt.Sprintf("append-only: %v; year stride +60: %v; rat-slot hours ascending {0,23}: %v", onlyBack, stride, asc))
}

func r10_4(c *Ctx, r *Report) {
	const rule = "R10.4"
	r.rule(rule, "Defaults. ListSolarFromBaZi delegates to …BySect(…, 2), which delegates to …BySectAndBaseYear(…, 1900), arguments passed through unchanged.")
	for _, t := range []struct {
		from, to string
		k      int64
	}{{"calendar.ListSolarFromBaZi", "calendar.ListSolarFromBaZiBySect", 2}, {"calendar.ListSolarFromBaZiBySect", "calendar.ListSolarFromBaZiBySectAndBaseYear", 1900}} {
		fn := c.Fn(r, rule, t.from)
		if fn == nil {
			continue
		}
		d := pureDelegation(fn)
		okk := d != nil && fname(d.callee) == t.to
		if okk {
			args := d.call.Common().Args
			k, isK := constInt(args[len(args)-1])
			okk = isK && k == t.k
			for i, a := range args[:len(args)-1] {
				if a != ssa.Value(fn.Params[i]) {
					okk = false
				}
			}
		}
		r.check(okk, rule, fmt.Sprintf("%s -> %s(…, %d)", t.from, t.to, t.k), c.fnPos(fn), "pure delegation with the documented default")
	}
}

func r10_5(c *Ctx, r *Report) {
	const rule = "R10.5"
	r.rule(rule, "Candidate construction by civil-day arithmetic. The day offset is index(requested day pillar) - index(day pillar of the term's own civil day), wrapped into [0,60), where the reference is the civil-day (late-rat, …Exact2) pillar of the term moment for both schools — the offset is then applied as whole civil days (Next(d, false)); a school-dependent reference shifts every candidate of a month whose Jie falls in 23:00-23:59 by one day. This is a necessary condition of completeness, which is otherwise not decided.")
	fn := reverseLookup(c, r, rule)
	if fn == nil {
		return
	}
	ref, okShape := "", false
	for _, b := range fn.Blocks {
		for _, ins := range b.Instrs {
			bo, ok := ins.(*ssa.BinOp)
			if !ok || bo.Op != token.SUB {
				continue
			}
			l, ok1 := bo.X.(*ssa.Call)
			rr, ok2 := bo.Y.(*ssa.Call)
			if !ok1 || !ok2 || l.Common().StaticCallee() == nil || rr.Common().StaticCallee() == nil || l.Common().StaticCallee().Name() != "GetJiaZiIndex" || rr.Common().StaticCallee().Name() != "GetJiaZiIndex" {
				continue
			}
			if p, ok := l.Common().Args[0].(*ssa.Parameter); !ok || p.Name() != "dayGanZhi" {
				continue
			}
			name, _ := pillarAccessorOf(rr.Common().Args[0])
			ref = name
			okShape = true
		}
	}
	stepped := false
	for _, b := range fn.Blocks {
		for _, ins := range b.Instrs {
			if call, ok := ins.(*ssa.Call); ok && call.Common().StaticCallee() != nil && fname(call.Common().StaticCallee()) == "calendar.(*Solar).Next" {
				if v, ok := constBool(call.Common().Args[2]); ok && !v {
					stepped = true
				}
			}
		}
	}
	r.check(okShape && ref == "GetDayInGanZhiExact2" && stepped, rule, "the day offset is measured from the civil-day pillar of the term moment", c.fnPos(fn),
		fmt.Sprintf("reference pillar accessor: %q; applied with Next(d, false): %v", ref, stepped))
}
