package main

// C15 — civil weeks/months/seasons/half-years/years partition time and navigate back.

import (
	"fmt"
	"go/constant"
	"go/token"
	"go/types"
	"sort"
	"strings"

	"golang.org/x/tools/go/ssa"
)

func init() {
	register("C15",
		"the week arithmetic outside the enumerated cases (R15.6 enumerates day x weekday x first weekday for May 2022 and October 1582; R15.10 follows the month-separated walk for a four-month window across a year end, October 1582 not in it); the contents of GetWeeks beyond R15.8; that civil-day stepping and weekdays themselves are right (C04).",
		r15_1, r15_2, r15_3, r15_5, r15_6, r15_7, r15_8, r15_9, r07_1, r15_10)
}

// steppingMethods: methods named Next* whose first non-receiver parameter is an int.
func (c *Ctx) steppingMethods(types_ ...string) []*ssa.Function {
	want := map[string]bool{}
	for _, t := range types_ {
		want[t] = true
	}
	var out []*ssa.Function
	for _, fn := range c.Funcs {
		if fn.Signature.Recv() == nil || !strings.HasPrefix(fn.Name(), "Next") || fn.Parent() != nil {
			continue
		}
		if len(fn.Params) < 2 || !isIntType(fn.Params[1].Type()) {
			continue
		}
		if len(want) > 0 && !want[structName(fn.Signature.Recv().Type())] {
			continue
		}
		out = append(out, fn)
	}
	return out
}

type stepReturn struct {
	fn     *ssa.Function
	ret    *ssa.Return
	class  string // "depends" "pinned" "nil" "independent"
	detail string
}

func stepReturns(fn *ssa.Function) []stepReturn {
	var out []stepReturn
	step := fn.Params[1]
	dep := newDep(fn)
	for _, b := range fn.Blocks {
		for _, ins := range b.Instrs {
			ret, ok := ins.(*ssa.Return)
			if !ok || len(ret.Results) != 1 {
				continue
			}
			res := ret.Results[0]
			if cst, ok := res.(*ssa.Const); ok && cst.Value == nil {
				out = append(out, stepReturn{fn, ret, "nil", "returns nil (search fell off the table)"})
				continue
			}
			if why, ok := pinnedBy(fn, b, step); ok {
				out = append(out, stepReturn{fn, ret, "pinned", "reached only under " + why})
				continue
			}
			if dep.dependsOn(res, step) {
				out = append(out, stepReturn{fn, ret, "depends", "the returned value depends on the step " + step.Name()})
			} else {
				out = append(out, stepReturn{fn, ret, "independent", "the returned value does not depend on the step " + step.Name() + " although the return is reachable for arbitrary steps: the unit cannot both move and come back"})
			}
		}
	}
	return out
}

func stepRelevanceRule(c *Ctx, r *Report, rule string, fns []*ssa.Function, floor int) {
	r.rule(rule, "Step relevance. In every stepping method (Next*(n ...)), each return of a non-nil value is either reachable only under n == const, or its value depends (data flow, or control flow through the branch conditions that select a phi) on n. Returns of the constant nil are exempt and listed.")
	seen := map[string]int{}
	for _, fn := range fns {
		for _, sr := range stepReturns(fn) {
			construct := uniq(seen, fmt.Sprintf("%s return (%s)", fname(fn), describeResult(sr.ret.Results[0])))
			if sr.class == "independent" {
				r.bad(rule, construct, c.pos(sr.ret.Pos()), sr.detail)
			} else {
				r.ok(rule, construct, c.pos(sr.ret.Pos()), sr.class+": "+sr.detail)
			}
		}
	}
	r.floor(rule, floor)
	control(r, rule, "fx.(*Thing).Next ignores its step", func(fc *Ctx) bool {
		fn := fc.FuncBy["fx.(*Thing).Next"]
		if fn == nil {
			return false
		}
		for _, sr := range stepReturns(fn) {
			if sr.class == "independent" {
				return true
			}
		}
		return false
	})
}

func describeResult(v ssa.Value) string {
	switch x := v.(type) {
	case *ssa.Call:
		if callee := x.Common().StaticCallee(); callee != nil {
			return "call " + callee.Name()
		}
	case *ssa.Phi:
		return "phi " + x.Comment
	case *ssa.Const:
		return "nil"
	}
	return v.Name()
}

func r15_1(c *Ctx, r *Report) {
	stepRelevanceRule(c, r, "R15.1", c.steppingMethods("SolarWeek", "SolarMonth", "SolarSeason", "SolarHalfYear", "SolarYear"), 5)
}

func r15_2(c *Ctx, r *Report) {
	listAssertRule(c, r, "R15.2", func(fn *ssa.Function) bool {
		if fn.Signature.Recv() == nil {
			return false
		}
		switch structName(fn.Signature.Recv().Type()) {
		case "SolarWeek", "SolarMonth", "SolarSeason", "SolarHalfYear", "SolarYear":
			return true
		}
		return false
	})
	r.floor("R15.2", 1)
}

// pushCount counts list pushes in fn: pushes outside loops count once, pushes
// inside a loop "for i := a; i < b; i++" with constant a, b count b-a times.
func pushCount(c *Ctx, fn *ssa.Function) (int64, string, bool) {
	loops, of := findLoops(fn)
	_ = loops
	total := int64(0)
	desc := []string{}
	for _, b := range fn.Blocks {
		for _, ins := range b.Instrs {
			call, ok := ins.(*ssa.Call)
			if !ok {
				continue
			}
			callee := call.Common().StaticCallee()
			if callee == nil || (callee.String() != "(*container/list.List).PushBack" && callee.String() != "(*container/list.List).PushFront") {
				continue
			}
			ls := of[b]
			if len(ls) == 0 {
				total++
				desc = append(desc, "1")
				continue
			}
			if len(ls) > 1 {
				return 0, "push inside nested loops", false
			}
			n, ok := constTripCount(c, fn, ls[0])
			if !ok {
				return 0, "push inside a loop without constant bounds", false
			}
			total += n
			desc = append(desc, fmt.Sprint(n))
		}
	}
	return total, strings.Join(desc, "+"), true
}

// constTripCount: for i := a; i < b; i += s with constants (b may be a named constant).
func constTripCount(c *Ctx, fn *ssa.Function, li *loopInfo) (int64, bool) {
	for _, ins := range li.header.Instrs {
		phi, ok := ins.(*ssa.Phi)
		if !ok {
			break
		}
		var init, step int64
		okI, okS := false, false
		for i, e := range phi.Edges {
			if li.body[li.header.Preds[i]] {
				if bo, ok := e.(*ssa.BinOp); ok && bo.Op == token.ADD && bo.X == ssa.Value(phi) {
					if k, ok := bo.Y.(*ssa.Const); ok && k.Value != nil {
						step, _ = constant.Int64Val(k.Value)
						okS = step > 0
					}
				}
			} else if k, ok := e.(*ssa.Const); ok && k.Value != nil {
				init, _ = constant.Int64Val(k.Value)
				okI = true
			}
		}
		if !okI || !okS {
			continue
		}
		for b := range li.body {
			iff, ok := b.Instrs[len(b.Instrs)-1].(*ssa.If)
			if !ok || !li.body[b.Succs[0]] || li.body[b.Succs[1]] {
				continue
			}
			bo, ok := iff.Cond.(*ssa.BinOp)
			if !ok || bo.Op != token.LSS || bo.X != ssa.Value(phi) {
				continue
			}
			var bound int64
			switch y := bo.Y.(type) {
			case *ssa.Const:
				bound, _ = constant.Int64Val(y.Value)
			default:
				// a value that the range analysis knows to be constant (len of a table, named constant)
				v := c.ranges().obsValue(fn, bo.Y)
				k, isC := v.isConst()
				if !isC {
					return 0, false
				}
				bound = k
			}
			if bound <= init {
				return 0, true
			}
			return (bound - init + step - 1) / step, true
		}
	}
	return 0, false
}

func r15_3(c *Ctx, r *Report) {
	const rule = "R15.3"
	r.rule(rule, "Unit steps. (What the units list is decided element by element by R15.9.) Moving n whole weeks is NextDay(7*n); moving by n seasons/half-years lands on the unit of the month 3n/6n months on (followed by the evaluator, month step and helpers inline); (the month step and the weekday-offset wrap are decided by R15.7 and R15.6).")
	// multiplier agreement between listing and stepping
	mulArg := func(fnName, calleeName string, argIdx int) (int64, bool, *ssa.Function) {
		fn := c.Fn(r, rule, fnName)
		if fn == nil {
			return 0, false, nil
		}
		for _, b := range fn.Blocks {
			for _, ins := range b.Instrs {
				call, ok := ins.(*ssa.Call)
				if !ok {
					continue
				}
				callee := call.Common().StaticCallee()
				if callee == nil || fname(callee) != calleeName || argIdx >= len(call.Common().Args) {
					continue
				}
				if bo, ok := call.Common().Args[argIdx].(*ssa.BinOp); ok && bo.Op == token.MUL {
					for _, pair := range [][2]ssa.Value{{bo.X, bo.Y}, {bo.Y, bo.X}} {
						if k, ok := pair[0].(*ssa.Const); ok && k.Value != nil {
							if _, isParam := pair[1].(*ssa.Parameter); isParam {
								v, _ := constant.Int64Val(k.Value)
								return v, true, fn
							}
						}
					}
				}
			}
		}
		return 0, false, fn
	}
	for _, t := range []struct {
		fn, callee string
		want       int64
		what       string
	}{
		{"calendar.(*SolarWeek).Next", "calendar.(*Solar).NextDay", 7, "whole-week step is NextDay(7*n)"},
	} {
		k, ok, fn := mulArg(t.fn, t.callee, 1)
		if fn == nil {
			continue
		}
		if !ok {
			r.bad(rule, t.fn+": "+t.what, c.fnPos(fn), "no call "+t.callee+"(const * step) found (undecided = fail)")
			continue
		}
		r.check(k == t.want, rule, t.fn+": "+t.what, c.fnPos(fn), fmt.Sprintf("multiplier %d, expected %d", k, t.want))
	}
	// seasons and half-years: followed by the evaluator (helpers and the month step inline) for every
	// month the unit can be built from and every n in -9..9
	for _, t := range []struct {
		fn, typ, ctor string
		mult          int64
		what          string
	}{
		{"calendar.(*SolarSeason).Next", "SolarSeason", "calendar.NewSolarSeasonFromYm", 3, "season step is 3*n months"},
		{"calendar.(*SolarHalfYear).Next", "SolarHalfYear", "calendar.NewSolarHalfYearFromYm", 6, "half-year step is 6*n months"},
	} {
		fn := c.Fn(r, rule, t.fn)
		if fn == nil || len(fn.Params) != 2 {
			continue
		}
		problems := map[string]bool{}
		n := 0
		for m := int64(1); m <= 12; m++ {
			for k := int64(-9); k <= 9 && len(problems) < 6; k++ {
				var leaf leafX
				leaf = func(fr *evalFrame, v ssa.Value) (interface{}, bool) {
					if fr.parent == nil && v == ssa.Value(fn.Params[1]) {
						return k, true
					}
					if rc, f, ok := getterField(c, v); ok && (strings.HasSuffix(f, ".year") || strings.HasSuffix(f, ".month")) {
						if ofr, o := fr.origin(rc); ofr.parent == nil && o == ssa.Value(fn.Params[0]) {
							if strings.HasSuffix(f, ".year") {
								return int64(2022), true
							}
							return m, true
						}
						if x, ok := evalWith(fr, rc, leaf); ok {
							if d, isD := x.(absDate); isD {
								if strings.HasSuffix(f, ".year") {
									return d.y, true
								}
								return d.m, true
							}
						}
					}
					if call, ok := v.(*ssa.Call); ok && call.Common().StaticCallee() != nil && len(call.Common().Args) == 2 {
						tag := int64(-1)
						switch fname(call.Common().StaticCallee()) {
						case "calendar.NewSolarMonthFromYm":
							tag = 0
						case t.ctor:
							tag = t.mult
						}
						if tag >= 0 {
							y, ok1 := evalWith(fr, call.Common().Args[0], leaf)
							mm, ok2 := evalWith(fr, call.Common().Args[1], leaf)
							yi, isY := y.(int64)
							mi, isM := mm.(int64)
							if ok1 && ok2 && isY && isM {
								return absDate{yi, mi, tag}, true
							}
						}
					}
					return nil, false
				}
				ev := &evaluator{inline: inlineLibrary, leaf: leaf}
				res, outcome := ev.run(fn, nil, nil, nil, nil)
				n++
				total := 2022*12 + (m - 1) + t.mult*k
				want := absDate{total / 12, total%12 + 1, t.mult}
				if outcome != "return" || len(res) != 1 {
					problems["the function could not be followed: "+outcome+" "+ev.fail] = true
				} else if res[0] != interface{}(want) {
					problems[fmt.Sprintf("the unit of 2022-%d stepped by %d is built from %v, expected the %s of %d-%d", m, k, res[0], t.typ, want.y, want.m)] = true
				}
			}
		}
		r.check(len(problems) == 0 && n == 12*19, rule, t.fn+": "+t.what, c.fnPos(fn), fmt.Sprintf("%d cases (month the unit was built from x n); deviations: %v", n, headList(sortedKeys(problems), 3)))
	}
	// year step is additive
	if fn := c.Fn(r, rule, "calendar.(*SolarYear).Next"); fn != nil {
		ok := false
		for _, b := range fn.Blocks {
			for _, ins := range b.Instrs {
				if bo, isBin := ins.(*ssa.BinOp); isBin && bo.Op == token.ADD {
					_, p1 := bo.Y.(*ssa.Parameter)
					_, p2 := bo.X.(*ssa.Parameter)
					if p1 || p2 {
						ok = true
					}
				}
			}
		}
		r.check(ok, rule, "calendar.(*SolarYear).Next adds the step to the year", c.fnPos(fn), "year + n")
	}
	// the month step (12) and the weekday-offset wrap (7) are decided by R15.7 and R15.6
	r.floor(rule, 4)
}

type constUse struct {
	op token.Token
	k  int64
}

// intConstUses lists the integer constants used as the right operand of binary operations.
func intConstUses(fn *ssa.Function) []constUse {
	var out []constUse
	for _, b := range fn.Blocks {
		for _, ins := range b.Instrs {
			bo, ok := ins.(*ssa.BinOp)
			if !ok {
				continue
			}
			for _, v := range []ssa.Value{bo.Y, bo.X} {
				if k, ok := v.(*ssa.Const); ok && k.Value != nil && k.Value.Kind() == constant.Int {
					if _, ok := k.Type().Underlying().(*types.Basic); ok {
						kv, _ := constant.Int64Val(k.Value)
						out = append(out, constUse{bo.Op, kv})
						break
					}
				}
			}
		}
	}
	return out
}

func r15_4(c *Ctx, r *Report) {
	const rule = "R15.4"
	r.rule(rule, "Day lists are built by stepping, not by enumerating day numbers. SolarMonth.GetDays lists firstDay.NextDay(i) for i = 0 .. days-1 (the first day pushed separately and the loop from 1, or the loop from 0) with days = GetDaysOfMonth(own year, own month); SolarWeek.GetDays does the same from GetFirstDay() for 7 days. Day numbers are not contiguous in October 1582, so constructing days by number requests a day that does not exist.")
	for _, name := range []string{"calendar.(*SolarMonth).GetDays", "calendar.(*SolarWeek).GetDays"} {
		fn := c.Fn(r, rule, name)
		if fn == nil {
			continue
		}
		var kinds []string
		var counter *ssa.Phi
		shift := int64(0)
		for _, b := range fn.Blocks {
			for _, ins := range b.Instrs {
				call, ok := ins.(*ssa.Call)
				if !ok || call.Common().StaticCallee() == nil || call.Common().StaticCallee().String() != "(*container/list.List).PushBack" {
					continue
				}
				v := call.Common().Args[1]
				if mi, ok := v.(*ssa.MakeInterface); ok {
					v = mi.X
				}
				k := "other: " + v.String()
				if vc, ok := v.(*ssa.Call); ok && vc.Common().StaticCallee() != nil {
					switch fname(vc.Common().StaticCallee()) {
					case "calendar.NewSolarFromYmd":
						if d, ok := constInt(vc.Common().Args[2]); ok && d == 1 {
							k = "first"
						} else {
							k = "day built by number"
						}
					case "calendar.(*SolarWeek).GetFirstDay":
						k = "first"
					case "calendar.(*Solar).NextDay":
						base, okb := vc.Common().Args[0].(*ssa.Call)
						// the offset: the loop counter, possibly plus or minus a constant
						off := vc.Common().Args[1]
						if bo, ok := off.(*ssa.BinOp); ok && (bo.Op == token.ADD || bo.Op == token.SUB) {
							if k, isK := constInt(bo.Y); isK {
								if bo.Op == token.SUB {
									k = -k
								}
								off, shift = bo.X, k
							} else if k, isK := constInt(bo.X); isK && bo.Op == token.ADD {
								off, shift = bo.Y, k
							}
						}
						phi, isPhi := off.(*ssa.Phi)
						if okb && base.Common().StaticCallee() != nil && isPhi {
							bn := fname(base.Common().StaticCallee())
							if bn == "calendar.NewSolarFromYmd" || bn == "calendar.(*SolarWeek).GetFirstDay" {
								k = "step"
								counter = phi
							}
						}
					}
				}
				kinds = append(kinds, k)
			}
		}
		sort.Strings(kinds)
		// the step counter starts at 1 after a separate push of the first day, or at 0 without one; step +1
		init, step, last := int64(-1), int64(0), int64(-1)
		var bound ssa.Value
		if counter != nil {
			for _, e := range counter.Edges {
				if k, ok := constInt(e); ok {
					init = k
				} else if bo, ok := e.(*ssa.BinOp); ok && bo.Op == token.ADD && bo.X == ssa.Value(counter) {
					step, _ = constInt(bo.Y)
				}
			}
			if iff, ok := counter.Block().Instrs[len(counter.Block().Instrs)-1].(*ssa.If); ok {
				if bo, ok := iff.Cond.(*ssa.BinOp); ok {
					x, y, op := bo.X, bo.Y, bo.Op
					if y == ssa.Value(counter) {
						x, y, op = y, x, flipOp(op)
					}
					if x == ssa.Value(counter) && (op == token.LSS || op == token.LEQ) {
						bound = y
						if op == token.LEQ {
							last = 0 // the counter reaches the bound itself
						}
					}
				}
			}
		}
		// offsets pushed by the loop: init+shift .. bound+last+shift; they must be 1 .. days-1 after a separate
		// push of the first day, or 0 .. days-1 without one
		first := init + shift
		shape := step == 1 && last+shift == -1 && ((equalStrs(kinds, []string{"first", "step"}) && first == 1) || (equalStrs(kinds, []string{"step"}) && first == 0))
		boundOK, boundDesc := false, "?"
		if bound != nil {
			if k, ok := constInt(bound); ok {
				boundOK, boundDesc = name == "calendar.(*SolarWeek).GetDays" && k == 7, fmt.Sprint(k)
			} else if call, ok := bound.(*ssa.Call); ok && call.Common().StaticCallee() != nil && fname(call.Common().StaticCallee()) == "SolarUtil.GetDaysOfMonth" {
				boundDesc = "GetDaysOfMonth(" + describeArg(c, fn, call.Common().Args[0]) + ", " + describeArg(c, fn, call.Common().Args[1]) + ")"
				boundOK = name == "calendar.(*SolarMonth).GetDays" && boundDesc == "GetDaysOfMonth(p0.year, p0.month)"
			}
		}
		r.check(shape && boundOK, rule, name+" lists the first day and steps from it", c.fnPos(fn), fmt.Sprintf("pushed elements: %v; offsets from %d by %d up to %s%+d", kinds, first, step, boundDesc, last+shift))
	}
}

func r15_5(c *Ctx, r *Report) {
	const rule = "R15.5"
	r.rule(rule, "The month-separated week walk tracks the month of the week it reports. In SolarWeek.Next(n, true) the loop-carried 'current month' is updated only from the month of a SolarWeek value (the week about to be reported, after its relabelling), never from the day cursor; otherwise a week that straddles a month boundary makes the next step skip (next month, week 1).")
	fn := c.Fn(r, rule, "calendar.(*SolarWeek).Next")
	if fn == nil {
		return
	}
	var monthPhi *ssa.Phi
	loops, of := findLoops(fn)
	_ = loops
	for _, b := range fn.Blocks {
		for _, ins := range b.Instrs {
			// the loop-carried current month: the header value each reported week's month is compared with
			if bo, ok := ins.(*ssa.BinOp); ok && (bo.Op == token.NEQ || bo.Op == token.EQL) {
				for _, pr := range [][2]ssa.Value{{bo.X, bo.Y}, {bo.Y, bo.X}} {
					phi, isPhi := pr[0].(*ssa.Phi)
					if !isPhi || !isIntType(phi.Type()) {
						continue
					}
					hb := phi.Block()
					if len(of[hb]) == 0 || of[hb][len(of[hb])-1].header != hb {
						continue
					}
					other := pr[1]
					if ph2, ok := other.(*ssa.Phi); ok && len(ph2.Edges) > 0 {
						other = ph2.Edges[0]
					}
					if _, f, ok := getterField(c, other); ok && f == "SolarWeek.month" {
						monthPhi = phi
					}
				}
			}
		}
	}
	if monthPhi == nil {
		r.bad(rule, "calendar.(*SolarWeek).Next tracks the current month across steps", c.fnPos(fn), "no loop-carried month that the reported week's month is compared with was found (undecided = fail)")
		return
	}
	var bad []string
	seen := map[ssa.Value]bool{}
	var walk func(v ssa.Value)
	walk = func(v ssa.Value) {
		if seen[v] {
			return
		}
		seen[v] = true
		if v == ssa.Value(monthPhi) {
			return
		}
		if phi, ok := v.(*ssa.Phi); ok {
			for _, e := range phi.Edges {
				walk(e)
			}
			return
		}
		if _, f, ok := getterField(c, v); ok && f == "SolarWeek.month" {
			return
		}
		bad = append(bad, symExpr(c, v, nil, map[ssa.Value]string{}, 0))
	}
	li := of[monthPhi.Block()][len(of[monthPhi.Block()])-1]
	for i, e := range monthPhi.Edges {
		if li.body[monthPhi.Block().Preds[i]] {
			walk(e)
		}
	}
	r.check(len(bad) == 0, rule, "calendar.(*SolarWeek).Next tracks the month of the reported week", c.fnPos(fn), fmt.Sprintf("loop-carried month is updated from: SolarWeek.month only; other sources: %v", bad))
}
