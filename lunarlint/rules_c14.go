package main

// C14 — holidays: record layout, scan/layout agreement, writers, decisions.

import (
	"fmt"
	"go/token"
	"regexp"
	"sort"
	"strconv"
	"strings"

	"golang.org/x/tools/go/ssa"
)

func init() {
	register("C14",
		"the effect of arbitrary Fix strings (run-time data; only the built-in literal is checked, AX-HOLIDAY-RUNTIME: strings passed to Fix are well-formed 18-byte records); the exact count of working days passed by the walk.",
		r14_1, r14_2, r14_3, r14_4, r14_5)
}

var recRe = regexp.MustCompile(`^(\d{4})(\d{2})(\d{2})(\d)(\d)(\d{4})(\d{2})(\d{2})$`)

func validYmd(y, m, d int) bool {
	if m < 1 || m > 12 || d < 1 {
		return false
	}
	dm := []int{31, 28, 31, 30, 31, 30, 31, 31, 30, 31, 30, 31}[m-1]
	if m == 2 && (y%4 == 0 && y%100 != 0 || y%400 == 0) {
		dm = 29
	}
	return d <= dm
}

func r14_1(c *Ctx, r *Report) {
	const rule = "R14.1"
	r.rule(rule, "Record layout. size == 18 == 8 (day) + 1 (name digit) + 1 (work flag) + 8 (target); the builder's slice offsets tile the record; lookup keys are %04d%02d%02d / %04d%02d / %04d prefixes of the day field; the literal table is a whole number of records, each with valid dates, a name digit below len(NAMES), a flag in {0,1}; records are strictly sorted by day (which also makes every textual match of a full record record-aligned for Fix's replace).")
	sp := c.SSABy["HolidayUtil"]
	if sp == nil {
		r.bad(rule, "package HolidayUtil", "-", "not loaded")
		return
	}
	size := int64(0)
	if k, ok := sp.Members["size"].(*ssa.NamedConst); ok {
		size = k.Value.Int64()
	}
	r.check(size == 18, rule, "HolidayUtil.size == 18", "-", fmt.Sprintf("size = %d", size))
	data, ok := c.tabStr(r, rule, "HolidayUtil", "data")
	names := c.tabStrs(r, rule, "HolidayUtil", "NAMES")
	if !ok || names == nil {
		return
	}
	pos := c.pos(c.tables.pos("HolidayUtil", "data"))
	r.check(len(data)%18 == 0 && len(data) > 0, rule, "HolidayUtil.data is a whole number of records", pos, fmt.Sprintf("length %d", len(data)))
	var bad []string
	prev := ""
	unsorted := []string{}
	n := 0
	for i := 0; i+18 <= len(data); i += 18 {
		rec := data[i : i+18]
		n++
		m := recRe.FindStringSubmatch(rec)
		if m == nil {
			bad = append(bad, rec+": not 18 digits")
			continue
		}
		iv := func(s string) int { v, _ := strconv.Atoi(s); return v }
		if !validYmd(iv(m[1]), iv(m[2]), iv(m[3])) || !validYmd(iv(m[6]), iv(m[7]), iv(m[8])) {
			bad = append(bad, rec+": invalid date")
		}
		if iv(m[4]) >= len(names) {
			bad = append(bad, rec+": name digit out of range")
		}
		if iv(m[5]) > 1 {
			bad = append(bad, rec+": flag not 0/1")
		}
		if prev != "" && rec[:8] <= prev {
			unsorted = append(unsorted, rec[:8])
		}
		prev = rec[:8]
	}
	r.check(len(bad) == 0, rule, "every record of HolidayUtil.data is well-formed", pos, fmt.Sprintf("%d records; malformed: %v", n, headList(bad, 5)))
	r.check(len(unsorted) == 0, rule, "HolidayUtil.data is strictly sorted by day", pos, fmt.Sprintf("out-of-order days: %v (the prefix scans stop at the first record that does not match)", headList(unsorted, 5)))
	// builder offsets
	if fn := c.Fn(r, rule, "HolidayUtil.buildHolidayForward"); fn != nil {
		var cuts []string
		for _, b := range fn.Blocks {
			for _, ins := range b.Instrs {
				if sl, ok := ins.(*ssa.Slice); ok && sl.X == ssa.Value(fn.Params[0]) {
					lo, hi := int64(0), int64(-1)
					if sl.Low != nil {
						lo, _ = constInt(sl.Low)
					}
					if sl.High != nil {
						hi, _ = constInt(sl.High)
					}
					cuts = append(cuts, fmt.Sprintf("%d:%d", lo, hi))
				}
			}
		}
		sort.Strings(cuts)
		r.check(equalStrs(cuts, []string{"0:8", "10:18", "8:9", "9:10"}), rule, "HolidayUtil.buildHolidayForward slices the record at 0:8, 8:9, 9:10, 10:18", c.fnPos(fn), strings.Join(cuts, " "))
	}
	// key formats
	for _, t := range []struct{ fn, format string }{{"HolidayUtil.GetHolidayByYmd", "%04d%02d%02d"}, {"HolidayUtil.GetHolidaysByYm", "%04d%02d"}, {"HolidayUtil.GetHolidaysByYear", "%04d"}, {"HolidayUtil.GetHolidaysByTargetYmd", "%04d%02d%02d"}} {
		fn := c.Fn(r, rule, t.fn)
		if fn == nil {
			continue
		}
		got := ""
		var argDesc []string
		for _, b := range fn.Blocks {
			for _, ins := range b.Instrs {
				if call, f, args, ok := sprintfCall(valueOf(ins)); ok {
					_ = call
					got = f
					for _, a := range args {
						argDesc = append(argDesc, describeArg(c, fn, a))
					}
				}
			}
		}
		wantArgs := []string{"p0", "p1", "p2"}[:strings.Count(t.format, "%")]
		r.check(got == t.format && equalStrs(argDesc, wantArgs), rule, t.fn+" builds its key with "+t.format, c.fnPos(fn), fmt.Sprintf("format %q over %v", got, argDesc))
	}
}

func r14_2(c *Ctx, r *Report) {
	const rule = "R14.2"
	r.rule(rule, "Scan <-> layout agreement. The forward scan (findHolidaysForward) stops at the first record that does not start with the key, which is correct because the table is sorted by day (R14.1); the by-target lookup must not rely on adjacency of a target's records — in the built-in table a target's records are not always adjacent — so it has to examine every record.")
	data, ok := c.tabStr(r, rule, "HolidayUtil", "data")
	if !ok {
		return
	}
	// are all targets contiguous?
	lastSeen := map[string]int{}
	var nonContig []string
	idx := 0
	for i := 0; i+18 <= len(data); i += 18 {
		t := data[i+10 : i+18]
		if p, ok := lastSeen[t]; ok && p != idx-1 {
			nonContig = append(nonContig, t)
		}
		lastSeen[t] = idx
		idx++
	}
	nonContig = dedupeSorted(nonContig)
	fn := c.Fn(r, rule, "HolidayUtil.findHolidaysBackward")
	if fn == nil {
		return
	}
	// does the by-target scan stop at the first mismatch? i.e. is there a loop exit controlled by a failed HasSuffix test
	loops, _ := findLoops(fn)
	stopsAtMismatch := false
	for _, li := range loops {
		for b := range li.body {
			iff, ok := b.Instrs[len(b.Instrs)-1].(*ssa.If)
			if !ok {
				continue
			}
			call, ok := iff.Cond.(*ssa.Call)
			if !ok || call.Common().StaticCallee() == nil || call.Common().StaticCallee().String() != "strings.HasSuffix" {
				continue
			}
			if !li.body[b.Succs[1]] { // false edge leaves the loop
				stopsAtMismatch = true
			}
		}
	}
	reads := false
	for _, g := range c.eff.Of(fn).globalsRead() {
		if g == "HolidayUtil.dataInUse" {
			reads = true
		}
	}
	construct := "HolidayUtil.findHolidaysBackward stops at the first record of another target"
	if stopsAtMismatch && len(nonContig) > 0 {
		r.bad(rule, construct, c.fnPos(fn), fmt.Sprintf("the scan stops at the first record with another target, but the records of targets %v are not adjacent in the table: part of the target's holidays is lost", headList(nonContig, 5)))
	} else {
		r.ok(rule, construct, c.fnPos(fn), fmt.Sprintf("stops at first mismatch: %v; targets with non-adjacent records: %d; reads the live table: %v", stopsAtMismatch, len(nonContig), reads))
	}
	if ff := c.Fn(r, rule, "HolidayUtil.findHolidaysForward"); ff != nil {
		uses := false
		for _, b := range ff.Blocks {
			for _, ins := range b.Instrs {
				if call, ok := ins.(*ssa.Call); ok && call.Common().StaticCallee() != nil && call.Common().StaticCallee().String() == "strings.HasPrefix" {
					uses = true
				}
			}
		}
		r.check(uses, rule, "HolidayUtil.findHolidaysForward matches records by key prefix", c.fnPos(ff), "HasPrefix(record, key) on the sorted table")
	}
}

func dedupeSorted(xs []string) []string {
	sort.Strings(xs)
	return dedupe(xs)
}

func r14_3(c *Ctx, r *Report) {
	const rule = "R14.3"
	r.rule(rule, "Writers preserve the layout the scans need. Every store to dataInUse in Fix is order-preserving: an in-place strings.Replace(old, new) of a whole record (same day key) or a removal, or an insertion at the sorted position (a slice-concatenation dataInUse[:i] + record + dataInUse[i:] whose i is found by comparing day keys); appending at the end is not.")
	fn := c.Fn(r, rule, "HolidayUtil.Fix")
	if fn == nil {
		return
	}
	g := c.Global("HolidayUtil", "dataInUse")
	n := 0
	for _, b := range fn.Blocks {
		for _, ins := range b.Instrs {
			st, ok := ins.(*ssa.Store)
			if !ok || st.Addr != ssa.Value(g) {
				continue
			}
			n++
			kind := "unknown"
			switch v := st.Val.(type) {
			case *ssa.Call:
				if v.Common().StaticCallee() != nil && v.Common().StaticCallee().String() == "strings.Replace" {
					kind = "replace"
				}
			case *ssa.BinOp:
				if v.Op == token.ADD {
					// (dataInUse[:i] + seg) + dataInUse[i:]  vs  dataInUse + appends
					s := symExpr(c, v, nil, map[ssa.Value]string{}, 0)
					_, lhsSlice := v.X.(*ssa.BinOp)
					_, rhsSlice := v.Y.(*ssa.Slice)
					if lhsSlice && rhsSlice {
						kind = "sorted-insert"
					} else {
						kind = "append: " + head(s, 60)
					}
				}
			}
			construct := fmt.Sprintf("HolidayUtil.Fix store #%d to dataInUse (%s)", n, strings.SplitN(kind, ":", 2)[0])
			if kind == "replace" || kind == "sorted-insert" {
				r.ok(rule, construct, c.pos(st.Pos()), "order-preserving "+kind)
			} else {
				r.bad(rule, "HolidayUtil.Fix appends new records after the table", c.pos(st.Pos()), "records added by Fix are concatenated at the end of the table ("+kind+"): the sorted-by-day layout the prefix scans rely on is lost, so an added earlier-dated record is missing from its year's result")
			}
		}
	}
	if n < 3 {
		r.bad(rule, "instance floor R14.3", c.fnPos(fn), fmt.Sprintf("only %d stores to dataInUse found in Fix", n))
	}
	// the sorted insert compares day keys
	cmpKeys := false
	for _, b := range fn.Blocks {
		for _, ins := range b.Instrs {
			if bo, ok := ins.(*ssa.BinOp); ok && bo.Op == token.LSS {
				if _, ok := bo.X.(*ssa.Slice); ok {
					if _, ok := bo.Y.(*ssa.Slice); ok {
						cmpKeys = true
					}
				}
			}
		}
	}
	r.check(cmpKeys, rule, "HolidayUtil.Fix finds the insert position by comparing day keys", c.fnPos(fn), "record[:8] < new[:8]")
}

func r14_4(c *Ctx, r *Report) {
	const rule = "R14.4"
	r.rule(rule, "Decisions. A day works iff holiday == nil ? weekday not in {0,6} : holiday.IsWork(); the pay rate after the rate-3 cases is 2 when a recorded day is not a make-up day, 2 on an unrecorded weekend, else 1; the workday walk steps by exactly one day per iteration in the sign of n, consults the record of the stepped day itself, and counts only working days.")
	fn := c.Fn(r, rule, "calendar.(*Solar).Next")
	if fn != nil {
		// the loop calls NextDay(add) with add in {1,-1}, GetHolidayByYmd(o.GetYear(), o.GetMonth(), o.GetDay()) on the stepped day
		stepOK, lookupOK, countOK := false, false, false
		for _, b := range fn.Blocks {
			for _, ins := range b.Instrs {
				call, ok := ins.(*ssa.Call)
				if !ok || call.Common().StaticCallee() == nil {
					continue
				}
				switch fname(call.Common().StaticCallee()) {
				case "calendar.(*Solar).NextDay":
					if phi, ok := call.Common().Args[1].(*ssa.Phi); ok {
						vals := map[int64]bool{}
						for _, e := range phi.Edges {
							if k, ok := constInt(e); ok {
								vals[k] = true
							}
						}
						if len(vals) == 2 && vals[1] && vals[-1] {
							stepOK = true
						}
					}
				case "HolidayUtil.GetHolidayByYmd":
					var fields []string
					var recv ssa.Value
					same := true
					for _, a := range call.Common().Args {
						rv, f, ok := getterField(c, a)
						if !ok {
							same = false
							continue
						}
						if recv != nil && rv != recv {
							same = false
						}
						recv = rv
						fields = append(fields, f)
					}
					if same && equalStrs(fields, []string{"Solar.year", "Solar.month", "Solar.day"}) {
						if rc, ok := recv.(*ssa.Call); ok && rc.Common().StaticCallee() != nil && rc.Common().StaticCallee().Name() == "NextDay" {
							lookupOK = true
						}
					}
				}
			}
		}
		// rest -= 1 only under work
		for _, b := range fn.Blocks {
			for _, ins := range b.Instrs {
				if bo, ok := ins.(*ssa.BinOp); ok && bo.Op == token.SUB {
					if k, ok := constInt(bo.Y); ok && k == 1 {
						if phi, ok := bo.X.(*ssa.Phi); ok && phi.Comment == "rest" {
							// the block is reached only when work is true
							for _, p := range b.Preds {
								if iff, ok := p.Instrs[len(p.Instrs)-1].(*ssa.If); ok && p.Succs[0] == b {
									if wp, ok := iff.Cond.(*ssa.Phi); ok && wp.Comment == "work" {
										countOK = true
									}
								}
							}
						}
					}
				}
			}
		}
		r.check(stepOK && lookupOK && countOK, rule, "calendar.(*Solar).Next walks one day at a time and counts working days", c.fnPos(fn), fmt.Sprintf("step is +1/-1: %v; looks up the stepped day itself: %v; counts only when work: %v", stepOK, lookupOK, countOK))
		workRule(c, r, rule, fn, "calendar.(*Solar).Next")
	}
	if fn := c.Fn(r, rule, "calendar.(*Solar).GetSalaryRate"); fn != nil {
		workRule(c, r, rule, fn, "calendar.(*Solar).GetSalaryRate")
		// returned constants
		var rets []int64
		for _, b := range fn.Blocks {
			for _, ins := range b.Instrs {
				if ret, ok := ins.(*ssa.Return); ok && len(ret.Results) == 1 {
					if k, ok := constInt(ret.Results[0]); ok {
						rets = append(rets, k)
					}
				}
			}
		}
		n3, n2, n1 := 0, 0, 0
		for _, k := range rets {
			switch k {
			case 3:
				n3++
			case 2:
				n2++
			case 1:
				n1++
			}
		}
		r.check(n3 == 7 && n2 == 2 && n1 == 1 && len(rets) == 10, rule, "calendar.(*Solar).GetSalaryRate returns 3 for the seven statutory cases, 2 for the two day-off cases, 1 otherwise", c.fnPos(fn), fmt.Sprintf("returned constants %v", rets))
	}
}

// workRule: holiday == nil -> weekend test on {0,6}; else holiday.IsWork().
func workRule(c *Ctx, r *Report, rule string, fn *ssa.Function, name string) {
	nilTest, weekend, isWork := false, map[int64]bool{}, false
	for _, b := range fn.Blocks {
		for _, ins := range b.Instrs {
			switch x := ins.(type) {
			case *ssa.BinOp:
				if x.Op == token.EQL || x.Op == token.NEQ {
					isNil := func(v ssa.Value) bool { k, ok := v.(*ssa.Const); return ok && k.Value == nil }
					isHol := func(v ssa.Value) bool {
						call, ok := v.(*ssa.Call)
						return ok && call.Common().StaticCallee() != nil && fname(call.Common().StaticCallee()) == "HolidayUtil.GetHolidayByYmd"
					}
					if (isNil(x.X) && isHol(x.Y)) || (isNil(x.Y) && isHol(x.X)) {
						nilTest = true
					}
					for _, pr := range [][2]ssa.Value{{x.X, x.Y}, {x.Y, x.X}} {
						if k, ok := constInt(pr[0]); ok && x.Op == token.EQL {
							if call, ok := pr[1].(*ssa.Call); ok && call.Common().StaticCallee() != nil && call.Common().StaticCallee().Name() == "GetWeek" {
								weekend[k] = true
							}
						}
					}
				}
			case *ssa.Call:
				if x.Common().StaticCallee() != nil && fname(x.Common().StaticCallee()) == "HolidayUtil.(*Holiday).IsWork" {
					isWork = true
				}
			}
		}
	}
	r.check(nilTest && len(weekend) == 2 && weekend[0] && weekend[6] && isWork, rule, name+" decides work from the record, else from the weekday {0,6}", c.fnPos(fn),
		fmt.Sprintf("holiday == nil test: %v; weekend days tested: %v; IsWork consulted: %v", nilTest, weekend, isWork))
}

func r14_5(c *Ctx, r *Report) {
	const rule = "R14.5"
	r.rule(rule, "All views read the one live table. Every lookup (by day, month, year, target) reads HolidayUtil.dataInUse/namesInUse and no other package state; no lookup writes package state (a memo would survive Fix).")
	for _, name := range []string{"GetHoliday", "GetHolidayByYmd", "GetHolidaysByYm", "GetHolidaysByYear", "GetHolidays", "GetHolidaysByTargetYmd", "GetHolidaysByTarget"} {
		fn := c.Fn(r, rule, "HolidayUtil."+name)
		if fn == nil {
			continue
		}
		ef := c.eff.Of(fn)
		var other []string
		live := false
		for _, g := range ef.globalsRead() {
			switch g {
			case "HolidayUtil.dataInUse":
				live = true
			case "HolidayUtil.namesInUse":
			default:
				other = append(other, g)
			}
		}
		var writes []string
		for k, l := range ef.Writes {
			if strings.HasPrefix(l.Root, "g:") {
				writes = append(writes, k)
			}
		}
		for k := range ef.Unknown {
			writes = append(writes, "call of unmodelled "+k)
		}
		sort.Strings(writes)
		r.check(live && len(other) == 0 && len(writes) == 0, rule, "HolidayUtil."+name+" is a view of the live table", c.fnPos(fn), fmt.Sprintf("reads dataInUse: %v; other package state read: %v; package state written: %v", live, other, writes))
	}
}
