package main

// C14 — holidays: record layout, scan/layout agreement, writers, decisions.

import (
	"fmt"
	"go/token"
	"go/types"
	"regexp"
	"sort"
	"strconv"
	"strings"

	"golang.org/x/tools/go/ssa"
)

func init() {
	register("C14",
		"the effect of arbitrary Fix strings (run-time data; only the built-in literal is checked, AX-HOLIDAY-RUNTIME: strings passed to Fix are well-formed 18-byte records); the exact count of working days passed by the walk.",
		r14_1, r14_2, r14_3, r14_4, r14_5, r14_6, r14_7, r14_8)
}

var recRe = regexp.MustCompile(`^(\d{4})(\d{2})(\d{2})(\d)(\d)(\d{4})(\d{2})(\d{2})$`)

func validYmd(y, m, d int) bool {
	if m < 1 || m > 12 || d < 1 {
		return false
	}
	dm := []int{31, 28, 31, 30, 31, 30, 31, 31, 30, 31, 30, 31}[m-1]
	if m == 2 && (y%4 == 0 && y%100 != 0 || y%400 == 0) {
		dm = 29
	}
	return d <= dm
}

func r14_1(c *Ctx, r *Report) {
	const rule = "R14.1"
	r.rule(rule, "Record layout. size == 18 == 8 (day) + 1 (name digit) + 1 (work flag) + 8 (target); the builder's slice offsets tile the record; lookup keys are %04d%02d%02d / %04d%02d / %04d prefixes of the day field; the literal table is a whole number of records, each with valid dates, a name digit below len(NAMES), a flag in {0,1}; records are strictly sorted by day (which also makes every textual match of a full record record-aligned for Fix's replace).")
	sp := c.SSABy["HolidayUtil"]
	if sp == nil {
		r.bad(rule, "package HolidayUtil", "-", "not loaded")
		return
	}
	size := int64(0)
	if k, ok := sp.Members["size"].(*ssa.NamedConst); ok {
		size = k.Value.Int64()
	}
	r.check(size == 18, rule, "HolidayUtil.size == 18", "-", fmt.Sprintf("size = %d", size))
	data, ok := c.tabStr(r, rule, "HolidayUtil", "data")
	names := c.tabStrs(r, rule, "HolidayUtil", "NAMES")
	if !ok || names == nil {
		return
	}
	pos := c.pos(c.tables.pos("HolidayUtil", "data"))
	r.check(len(data)%18 == 0 && len(data) > 0, rule, "HolidayUtil.data is a whole number of records", pos, fmt.Sprintf("length %d", len(data)))
	var bad []string
	prev := ""
	unsorted := []string{}
	n := 0
	for i := 0; i+18 <= len(data); i += 18 {
		rec := data[i : i+18]
		n++
		m := recRe.FindStringSubmatch(rec)
		if m == nil {
			bad = append(bad, rec+": not 18 digits")
			continue
		}
		iv := func(s string) int { v, _ := strconv.Atoi(s); return v }
		if !validYmd(iv(m[1]), iv(m[2]), iv(m[3])) || !validYmd(iv(m[6]), iv(m[7]), iv(m[8])) {
			bad = append(bad, rec+": invalid date")
		}
		if iv(m[4]) >= len(names) {
			bad = append(bad, rec+": name digit out of range")
		}
		if iv(m[5]) > 1 {
			bad = append(bad, rec+": flag not 0/1")
		}
		if prev != "" && rec[:8] <= prev {
			unsorted = append(unsorted, rec[:8])
		}
		prev = rec[:8]
	}
	r.check(len(bad) == 0, rule, "every record of HolidayUtil.data is well-formed", pos, fmt.Sprintf("%d records; malformed: %v", n, headList(bad, 5)))
	r.check(len(unsorted) == 0, rule, "HolidayUtil.data is strictly sorted by day", pos, fmt.Sprintf("out-of-order days: %v (the prefix scans stop at the first record that does not match)", headList(unsorted, 5)))
	// builder offsets: the record builder is followed on records that differ in every field; the four values it
	// hands to NewHoliday are day = record[0:8], name = NAMES[digit at 8], work = (flag at 9 is '0'), target = record[10:18]
	if fn := c.Fn(r, rule, "HolidayUtil.buildHolidayForward"); fn != nil && len(fn.Params) == 1 {
		names := c.tabStrs(r, rule, "HolidayUtil", "NAMES")
		var bad []string
		n := 0
		for _, rec := range []string{"200112290020020101", "201502181120150219", "202510117020251001", "199901013119990102"} {
			if len(names) < 8 {
				break
			}
			var got []string
			var ev *evaluator
			leaf := func(fr *evalFrame, v ssa.Value) (interface{}, bool) {
				if p, ok := v.(*ssa.Parameter); ok && fr.parent == nil && p == fn.Params[0] {
					return rec + "TRAILING", true // the builder is handed the rest of the table, not one record
				}
				if call, ok := v.(*ssa.Call); ok && call.Common().StaticCallee() != nil && call.Common().StaticCallee().Name() == "NewHoliday" && len(call.Common().Args) == 4 {
					got = nil
					for _, a := range call.Common().Args {
						o, ok := ev.eval(fr, a, 0)
						if !ok {
							o = "?"
						}
						got = append(got, fmt.Sprint(o))
					}
					return absPtr{"holiday", false}, true
				}
				return nil, false
			}
			ev = &evaluator{leaf: leaf, inline: inlineLibrary}
			_, outcome := ev.run(fn, nil, nil, nil, nil)
			n++
			want := []string{rec[0:8], names[rec[8]-'0'], fmt.Sprint(rec[9] == '0'), rec[10:18]}
			if outcome != "return" || !equalStrs(got, want) {
				bad = append(bad, fmt.Sprintf("record %s: NewHoliday(%s) [%s %s], stated (%s)", rec, strings.Join(got, ", "), outcome, ev.fail, strings.Join(want, ", ")))
			}
		}
		r.check(len(bad) == 0 && n == 4, rule, "HolidayUtil.buildHolidayForward reads day, name digit, work flag and target at 0:8, 8, 9, 10:18", c.fnPos(fn), fmt.Sprintf("%d records followed; deviations: %v", n, headList(bad, 2)))
	}
	// key formats
	for _, t := range []struct{ fn, format string }{{"HolidayUtil.GetHolidayByYmd", "%04d%02d%02d"}, {"HolidayUtil.GetHolidaysByYm", "%04d%02d"}, {"HolidayUtil.GetHolidaysByYear", "%04d"}, {"HolidayUtil.GetHolidaysByTargetYmd", "%04d%02d%02d"}} {
		fn := c.Fn(r, rule, t.fn)
		if fn == nil {
			continue
		}
		// the key handed to the string-keyed lookup (GetHoliday, find*) is evaluated for small and large components, helpers inline
		nargs := strings.Count(t.format, "%")
		var keys []ssa.Value
		for _, b := range fn.Blocks {
			for _, ins := range b.Instrs {
				if call, ok := ins.(*ssa.Call); ok && call.Common().StaticCallee() != nil && call.Common().StaticCallee().Pkg == fn.Pkg && len(call.Common().Args) == 1 && isStringType(call.Common().Args[0].Type()) && len(call.Common().StaticCallee().Params) == 1 && !isStringType(call.Type()) {
					keys = append(keys, call.Common().Args[0])
				}
			}
		}
		var bad []string
		if len(keys) != 1 || len(fn.Params) != nargs {
			bad = append(bad, fmt.Sprintf("%d scan calls with one key argument found, %d parameters (undecided = fail)", len(keys), len(fn.Params)))
		} else {
			for _, v := range [][]int64{{5, 3, 7}, {2021, 12, 31}, {321, 10, 9}} {
				leaf := func(fr *evalFrame, x ssa.Value) (interface{}, bool) {
					if fr.parent == nil {
						for i, p := range fn.Params {
							if x == ssa.Value(p) {
								return v[i], true
							}
						}
					}
					return nil, false
				}
				kev := &evaluator{leaf: leaf, inline: inlineLibrary}
				got, ok := kev.eval(&evalFrame{fn: fn}, keys[0], 0)
				var args []interface{}
				for i := 0; i < nargs; i++ {
					args = append(args, v[i])
				}
				want := fmt.Sprintf(t.format, args...)
				if !ok {
					bad = append(bad, "the key expression could not be evaluated ("+kev.fail+"; undecided = fail)")
					break
				}
				if got != interface{}(want) {
					bad = append(bad, fmt.Sprintf("%v gives key %q, the table's key is %q", v[:nargs], got, want))
				}
			}
		}
		r.check(len(bad) == 0, rule, t.fn+" builds its key with "+t.format, c.fnPos(fn), fmt.Sprintf("3 argument tuples evaluated; deviations: %v", headList(bad, 2)))
	}
}

func r14_2(c *Ctx, r *Report) {
	const rule = "R14.2"
	r.rule(rule, "Scan <-> layout agreement (data side). The table is sorted by day (R14.1), which is what a prefix scan that stops at the first non-matching record needs; a target's records are not always adjacent, so a by-target lookup has to examine every record — whether the lookups do is decided on the table itself by R14.6.")
	data, ok := c.tabStr(r, rule, "HolidayUtil", "data")
	if !ok {
		return
	}
	// are all targets contiguous?
	lastSeen := map[string]int{}
	var nonContig []string
	idx := 0
	for i := 0; i+18 <= len(data); i += 18 {
		t := data[i+10 : i+18]
		if p, ok := lastSeen[t]; ok && p != idx-1 {
			nonContig = append(nonContig, t)
		}
		lastSeen[t] = idx
		idx++
	}
	nonContig = dedupeSorted(nonContig)
	// what the scans do with that layout is decided on the table itself by R14.6 (every key, every
	// non-adjacent target); here only the fact about the data that makes the by-target scan delicate
	r.ok(rule, "targets whose records are not adjacent in HolidayUtil.data", c.pos(c.tables.pos("HolidayUtil", "data")), fmt.Sprintf("%d targets have records that are not adjacent: %v (R14.6 follows the by-target lookup for each of them)", len(nonContig), headList(nonContig, 5)))
}

func dedupeSorted(xs []string) []string {
	sort.Strings(xs)
	return dedupe(xs)
}

func r14_3(c *Ctx, r *Report) {
	const rule = "R14.3"
	r.rule(rule, "Writers preserve the layout the scans need. Every store to dataInUse in Fix is order-preserving: an in-place strings.Replace(old, new) of a whole record (same day key) or a removal, or an insertion at the sorted position: dataInUse[:i] + record + dataInUse[i:] whose i comes out of a scan over whole records, forward from 0 while the table's day key is smaller, or backward from the end while the key before the position is greater; the scan's bound is evaluated on a table of two records (every slot 0, 1, 2 must be reachable, none outside); appending at the end is not.")
	fn := c.Fn(r, rule, "HolidayUtil.Fix")
	if fn == nil {
		return
	}
	g := c.Global("HolidayUtil", "dataInUse")
	// Fix and the unexported helpers only Fix calls
	set := map[string]map[string]bool{"w": {"HolidayUtil.Fix": true}}
	c.closeOverHelpers(set)
	var blocks []*ssa.BasicBlock
	for _, f := range c.Funcs {
		if set["w"][fname(f)] {
			blocks = append(blocks, f.Blocks...)
		}
	}
	n := 0
	for _, b := range blocks {
		for _, ins := range b.Instrs {
			st, ok := ins.(*ssa.Store)
			if !ok || st.Addr != ssa.Value(g) {
				continue
			}
			n++
			kind := "unknown"
			switch v := st.Val.(type) {
			case *ssa.Call:
				if v.Common().StaticCallee() != nil && v.Common().StaticCallee().String() == "strings.Replace" {
					kind = "replace"
				}
			case *ssa.BinOp:
				if v.Op == token.ADD {
					// (dataInUse[:i] + seg) + dataInUse[i:]  vs  dataInUse + appends
					s := symExpr(c, v, nil, map[ssa.Value]string{}, 0)
					_, lhsSlice := v.X.(*ssa.BinOp)
					_, rhsSlice := v.Y.(*ssa.Slice)
					if lhsSlice && rhsSlice {
						kind = "sorted-insert"
					} else {
						kind = "append: " + head(s, 60)
					}
				}
			}
			construct := fmt.Sprintf("HolidayUtil.Fix store #%d to dataInUse (%s)", n, strings.SplitN(kind, ":", 2)[0])
			if kind == "replace" || kind == "sorted-insert" {
				r.ok(rule, construct, c.pos(st.Pos()), "order-preserving "+kind)
			} else {
				r.bad(rule, "HolidayUtil.Fix appends new records after the table", c.pos(st.Pos()), "records added by Fix are concatenated at the end of the table ("+kind+"): the sorted-by-day layout the prefix scans rely on is lost, so an added earlier-dated record is missing from its year's result")
			}
		}
	}
	if n < 2 {
		r.bad(rule, "instance floor R14.3", c.fnPos(fn), fmt.Sprintf("only %d stores to dataInUse found in Fix and its helpers", n))
	}
	// the sorted insert: dataInUse[:i] + record + dataInUse[i:], i found by a scan over whole records
	sizeK, okSize := c.tabInt(r, rule, "HolidayUtil", "size")
	construct := "HolidayUtil.Fix finds the insert position by comparing day keys"
	var ins *ssa.BinOp
	for _, b := range blocks {
		for _, in2 := range b.Instrs {
			if st, ok := in2.(*ssa.Store); ok && st.Addr == ssa.Value(g) {
				if bo, ok := st.Val.(*ssa.BinOp); ok && bo.Op == token.ADD {
					ins = bo
				}
			}
		}
	}
	if ins == nil || !okSize {
		r.bad(rule, construct, c.fnPos(fn), "no insertion dataInUse[:i] + record + dataInUse[i:] found (undecided = fail)")
		return
	}
	lhs, _ := ins.X.(*ssa.BinOp)
	tail, _ := ins.Y.(*ssa.Slice)
	var headSl *ssa.Slice
	if lhs != nil {
		headSl, _ = lhs.X.(*ssa.Slice)
	}
	if headSl == nil || tail == nil || headSl.High == nil || tail.Low == nil || headSl.High != tail.Low || headSl.Low != nil || tail.High != nil {
		r.bad(rule, construct, c.pos(ins.Pos()), "the insertion is not dataInUse[:i] + record + dataInUse[i:] with one position i (undecided = fail)")
		return
	}
	pos, isPhi := headSl.High.(*ssa.Phi)
	owner := ins.Parent()
	loops, _ := findLoops(owner)
	var li *loopInfo
	for _, l := range loops {
		if isPhi && pos.Block() == l.header {
			li = l
		}
	}
	if li == nil {
		r.bad(rule, construct, c.pos(ins.Pos()), "the position is not the counter of a search loop (undecided = fail)")
		return
	}
	// direction from the step; the loop conditions are evaluated for the counter at 0, size, 2*size in a table of two records
	var step int64
	for i, e := range pos.Edges {
		if li.body[pos.Block().Preds[i]] {
			if bo, ok := e.(*ssa.BinOp); ok && bo.X == ssa.Value(pos) {
				k, _ := constInt(bo.Y)
				if bo.Op == token.SUB {
					k = -k
				}
				step = k
			}
		}
	}
	var problems []string
	forward := step == sizeK
	if step != sizeK && step != -sizeK {
		problems = append(problems, fmt.Sprintf("the scan moves by %d, not by one %d-byte record", step, sizeK))
	}
	nBound, nCmp := 0, 0
	for blk := range li.body {
		iff, ok := blk.Instrs[len(blk.Instrs)-1].(*ssa.If)
		if !ok {
			continue
		}
		bo, ok := iff.Cond.(*ssa.BinOp)
		if !ok {
			continue
		}
		stays := li.body[blk.Succs[0]] && blk.Succs[0] != li.header || (blk.Succs[0] != li.header && li.body[blk.Succs[0]])
		_ = stays
		contTrue := li.body[blk.Succs[0]] // the loop goes on when the condition holds
		leafAt := func(i int64) leafX {
			return func(fr *evalFrame, v ssa.Value) (interface{}, bool) {
				if v == ssa.Value(pos) {
					return i, true
				}
				if call, ok := v.(*ssa.Call); ok {
					if bi, ok := call.Common().Value.(*ssa.Builtin); ok && bi.Name() == "len" && isLoadOfTable(call.Common().Args[0], "HolidayUtil.dataInUse") {
						return 2 * sizeK, true
					}
				}
				return nil, false
			}
		}
		if isStringType(bo.X.Type()) {
			// key comparison: table record at the scan position against the new record's day key
			nCmp++
			tab, rec, op := bo.X, bo.Y, bo.Op
			if sl, ok := tab.(*ssa.Slice); !ok || !isLoadOfTable(sl.X, "HolidayUtil.dataInUse") {
				tab, rec, op = bo.Y, bo.X, flipOp(bo.Op)
			}
			if !contTrue {
				op = negOp(op)
			}
			tsl, ok1 := tab.(*ssa.Slice)
			rsl, ok2 := rec.(*ssa.Slice)
			if !ok1 || !ok2 || !isLoadOfTable(tsl.X, "HolidayUtil.dataInUse") || tsl.Low == nil || tsl.High == nil {
				problems = append(problems, "the comparison is not between a record of the table and the new record")
				continue
			}
			if hi, ok := constInt(rsl.High); !ok || hi != 8 || (rsl.Low != nil && !isZeroConst(rsl.Low)) {
				problems = append(problems, "the new record is not compared by its 8-character day key")
			}
			lo, okl := evalWith(&evalFrame{fn: owner}, tsl.Low, leafAt(sizeK))
			hi, okh := evalWith(&evalFrame{fn: owner}, tsl.High, leafAt(sizeK))
			wantLo := sizeK
			if !forward {
				wantLo = 0 // the record before the position
			}
			if !okl || !okh || lo != interface{}(wantLo) || hi != interface{}(wantLo+8) {
				problems = append(problems, fmt.Sprintf("at position %d the key compared is dataInUse[%v:%v], expected [%d:%d]", sizeK, lo, hi, wantLo, wantLo+8))
			}
			if forward && op != token.LSS && op != token.LEQ {
				problems = append(problems, "a forward scan must go on while the table's key is smaller than the new key")
			}
			if !forward && op != token.GTR && op != token.GEQ {
				problems = append(problems, "a backward scan must go on while the key before the position is greater than the new key")
			}
			continue
		}
		if !isIntType(bo.X.Type()) {
			continue
		}
		// bound: which positions may still be examined
		nBound++
		for _, i := range []int64{0, sizeK, 2 * sizeK} {
			v, ok := evalWith(&evalFrame{fn: owner}, bo, leafAt(i))
			bv, isB := v.(bool)
			if !ok || !isB {
				problems = append(problems, "the bound of the scan could not be evaluated")
				break
			}
			goesOn := bv == contTrue
			want := i < 2*sizeK
			if !forward {
				want = i > 0
			}
			if goesOn != want {
				problems = append(problems, fmt.Sprintf("in a table of two records the scan %s at position %d (direction %s): a slot is never examined or the scan leaves the table", map[bool]string{true: "goes on", false: "stops"}[goesOn], i, map[bool]string{true: "forward", false: "backward"}[forward]))
			}
		}
	}
	// start position
	startOK := false
	for i, e := range pos.Edges {
		if li.body[pos.Block().Preds[i]] {
			continue
		}
		if forward {
			startOK = isZeroConst(e)
		} else if call, ok := e.(*ssa.Call); ok {
			if bi, ok := call.Common().Value.(*ssa.Builtin); ok && bi.Name() == "len" && isLoadOfTable(call.Common().Args[0], "HolidayUtil.dataInUse") {
				startOK = true
			}
		}
	}
	if !startOK {
		problems = append(problems, "the scan does not start at the beginning (forward) or at the end (backward) of the table")
	}
	sort.Strings(problems)
	r.check(len(problems) == 0 && nBound == 1 && nCmp == 1, rule, construct, c.pos(ins.Pos()), fmt.Sprintf("scan direction %s by %d bytes, %d bound and %d key comparison; %v", map[bool]string{true: "forward", false: "backward"}[forward], sizeK, nBound, nCmp, dedupe(problems)))
}

func isZeroConst(v ssa.Value) bool {
	k, ok := constInt(v)
	return ok && k == 0
}

func negOp(op token.Token) token.Token {
	switch op {
	case token.LSS:
		return token.GEQ
	case token.LEQ:
		return token.GTR
	case token.GTR:
		return token.LEQ
	case token.GEQ:
		return token.LSS
	case token.EQL:
		return token.NEQ
	case token.NEQ:
		return token.EQL
	}
	return op
}

// workAtoms is one assignment of the abstract inputs of the work/pay decisions.
type workAtoms struct {
	holNil, isWork bool
	week           int64
}

// workLeaf interprets the three calls the decisions are made of — the holiday record of the day
// in question, the record's IsWork and the day's weekday — over abstract inputs. isDay tells
// whether a value (with its frame) is the day in question. Misuse (a lookup for another day,
// IsWork on a nil record) is reported through problems and leaves the value unevaluable.
func workLeaf(c *Ctx, isDay func(fr *evalFrame, v ssa.Value) bool, in workAtoms, problems map[string]bool, rest leafX) leafX {
	return func(fr *evalFrame, v ssa.Value) (interface{}, bool) {
		if call, ok := v.(*ssa.Call); ok && call.Common().StaticCallee() != nil {
			switch fname(call.Common().StaticCallee()) {
			case "HolidayUtil.GetHolidayByYmd":
				want := []string{"Solar.year", "Solar.month", "Solar.day"}
				for i, a := range call.Common().Args {
					ofr, ov := fr.origin(a)
					recv, f, ok := getterField(c, ov)
					if !ok || i >= 3 || f != want[i] || !isDay(ofr, recv) {
						problems["the holiday record is looked up for something other than (year, month, day) of the day in question"] = true
						return nil, false
					}
				}
				return absPtr{"holiday", in.holNil}, true
			case "HolidayUtil.(*Holiday).IsWork":
				h, ok := evalWith(fr, call.Common().Args[0], workLeaf(c, isDay, in, problems, rest))
				ptr, isP := h.(absPtr)
				if !ok || !isP || ptr.tag != "holiday" {
					return nil, false
				}
				if ptr.isNil {
					problems["IsWork is called on a nil record"] = true
					return nil, false
				}
				return in.isWork, true
			case "calendar.(*Solar).GetWeek":
				if !isDay(fr, call.Common().Args[0]) {
					problems["the weekday of another day is consulted"] = true
					return nil, false
				}
				return in.week, true
			case "SolarUtil.GetWeek":
				// the weekday computed from (year, month, day): of the day in question
				want := []string{"Solar.year", "Solar.month", "Solar.day"}
				for i, a := range call.Common().Args {
					ofr, ov := fr.origin(a)
					recv, f, ok := getterField(c, ov)
					if !ok || i >= 3 || f != want[i] || !isDay(ofr, recv) {
						problems["the weekday of something other than (year, month, day) of the day in question is consulted"] = true
						return nil, false
					}
				}
				return in.week, true
			}
		}
		if rest != nil {
			return rest(fr, v)
		}
		return nil, false
	}
}

// evalWith evaluates v in frame fr with the given leaf function (helpers are evaluated inline).
func evalWith(fr *evalFrame, v ssa.Value, leaf leafX) (interface{}, bool) {
	ev := &evaluator{leaf: leaf, inline: inlineLibrary}
	return ev.eval(fr, v, 0)
}

// inlineLibrary: unexported and exported library functions with bodies may be read inline by the evaluator.
func inlineLibrary(callee *ssa.Function) bool {
	if callee.Pkg == nil && callee.Synthetic != "" && callee.Parent() == nil && callee.Blocks != nil && callee.Object() != nil && callee.Object().Pkg() != nil {
		// the wrapper behind a bound method value x.M
		return strings.HasPrefix(callee.Object().Pkg().Path(), "github.com/6tail/lunar-go")
	}
	return callee.Pkg != nil && callee.Blocks != nil && strings.HasPrefix(callee.Pkg.Pkg.Path(), "github.com/6tail/lunar-go")
}

func r14_4(c *Ctx, r *Report) {
	const rule = "R14.4"
	r.rule(rule, "Decisions, read as decision tables over abstract inputs (record absent / make-up day / day off, weekday 0..6, and for the pay rate representative civil and lunar month-day values and the term name): the evaluator follows the branch conditions of the code (helpers inline) for every assignment, no library code runs. A day counts in the workday walk iff record == nil ? weekday not in {0,6} : record.IsWork(), the record and the weekday being those of the stepped day itself, and the walk steps by exactly one day per iteration in the sign of n. The pay rate is 3 on 1/1, 5/1, 10/1-3, lunar 1/1-3, 5/5, 8/15 and Qingming; otherwise 2 when a recorded day is not a make-up day or an unrecorded day is a weekend; else 1.")
	if fn := c.Fn(r, rule, "calendar.(*Solar).Next"); fn != nil {
		// the walk may sit in an unexported worker the method hands its date to
		walk := fn
		if loops, _ := findLoops(fn); len(loops) == 0 {
			for _, h := range withHelpers(c, fn) {
				if loops, _ := findLoops(h); h != fn && len(loops) > 0 {
					walk = h
				}
			}
		}
		r14_4_walk(c, r, rule, walk)
	}
	if fn := c.Fn(r, rule, "calendar.(*Solar).GetSalaryRate"); fn != nil {
		r14_4_rate(c, r, rule, fn)
	}
}

func r14_4_walk(c *Ctx, r *Report, rule string, fn *ssa.Function) {
	construct := "calendar.(*Solar).Next walks one day at a time and counts working days"
	// the counting loop: a header phi compared > 0, decremented by one inside the loop
	var header *ssa.BasicBlock
	var counter *ssa.Phi
	for _, b := range fn.Blocks {
		iff, ok := b.Instrs[len(b.Instrs)-1].(*ssa.If)
		if !ok {
			continue
		}
		bo, ok := iff.Cond.(*ssa.BinOp)
		if !ok {
			continue
		}
		var phi *ssa.Phi
		if k, isK := constInt(bo.Y); isK && k == 0 && bo.Op == token.GTR {
			phi, _ = bo.X.(*ssa.Phi)
		} else if k, isK := constInt(bo.X); isK && k == 0 && bo.Op == token.LSS {
			phi, _ = bo.Y.(*ssa.Phi)
		}
		if phi != nil && phi.Block() == b {
			header, counter = b, phi
		}
	}
	if header == nil {
		r.bad(rule, construct, c.fnPos(fn), "no counting loop `for rest > 0` found (undecided = fail)")
		return
	}
	var dec *ssa.BasicBlock
	var steps []*ssa.Call
	for _, b := range fn.Blocks {
		if !header.Dominates(b) || b == header {
			continue
		}
		for _, ins := range b.Instrs {
			switch x := ins.(type) {
			case *ssa.BinOp:
				if k, ok := constInt(x.Y); ok && x.X == ssa.Value(counter) && ((x.Op == token.SUB && k == 1) || (x.Op == token.ADD && k == -1)) {
					dec = b
				}
			case *ssa.Call:
				if callee := x.Common().StaticCallee(); callee != nil && fname(callee) == "calendar.(*Solar).NextDay" {
					steps = append(steps, x)
				}
			}
		}
	}
	if dec == nil || len(steps) != 1 {
		r.bad(rule, construct, c.fnPos(fn), fmt.Sprintf("the loop has %d NextDay steps and decrement found: %v (undecided = fail)", len(steps), dec != nil))
		return
	}
	step := steps[0]
	// the step is the previous stepped day (or the start) moved by +1 / -1
	stepOK := false
	if phi, ok := step.Common().Args[1].(*ssa.Phi); ok {
		vals := map[int64]bool{}
		other := false
		for i, e := range phi.Edges {
			if e == ssa.Value(phi) {
				continue
			}
			k, isK := constInt(e)
			if !isK || (k != 1 && k != -1) {
				other = true
				continue
			}
			vals[k] = true
			// where the step is -1 the count starts at -n, where it is +1 at n
			if phi.Block() == counter.Block() {
				init := counter.Edges[i]
				neg := false
				if u, isU := init.(*ssa.UnOp); isU && u.Op == token.SUB {
					init, neg = u.X, true
				}
				if _, isP := init.(*ssa.Parameter); !isP || neg != (k == -1) {
					other = true
				}
			}
		}
		stepOK = !other && len(vals) == 2
	}
	carried := false
	if phi, ok := step.Common().Args[0].(*ssa.Phi); ok && phi.Block() == header {
		for _, e := range phi.Edges {
			if e == ssa.Value(step) {
				carried = true
			}
		}
	}
	isDay := func(fr *evalFrame, v ssa.Value) bool {
		_, o := fr.origin(v)
		return o == ssa.Value(step)
	}
	problems := map[string]bool{}
	n := 0
	for _, holNil := range []bool{true, false} {
		for _, isWork := range []bool{true, false} {
			for week := int64(0); week < 7; week++ {
				in := workAtoms{holNil, isWork, week}
				ev := &evaluator{leaf: workLeaf(c, isDay, in, problems, nil), inline: inlineLibrary}
				fr := &evalFrame{fn: fn, phiFrom: map[*ssa.BasicBlock]*ssa.BasicBlock{header.Succs[0]: header}}
				_, outcome := ev.runFrame(fr, header.Succs[0], func(b *ssa.BasicBlock) bool { return b == dec || b == header })
				want := isWork
				if holNil {
					want = week != 0 && week != 6
				}
				n++
				switch outcome {
				case fmt.Sprintf("stop:%d", dec.Index), fmt.Sprintf("stop:%d", header.Index):
					counted := outcome == fmt.Sprintf("stop:%d", dec.Index)
					if counted != want {
						problems[fmt.Sprintf("record absent=%v, IsWork=%v, weekday %d: the day is counted=%v, expected %v", holNil, isWork, week, counted, want)] = true
					}
				default:
					problems["the loop body could not be followed: "+outcome+" "+ev.fail] = true
				}
			}
		}
	}
	var ps []string
	for k := range problems {
		ps = append(ps, k)
	}
	sort.Strings(ps)
	r.check(stepOK && carried && len(ps) == 0, rule, construct, c.pos(step.Pos()), fmt.Sprintf("step is +1/-1: %v; each step starts from the previous stepped day: %v; %d abstract cases (record x IsWork x weekday) followed through the loop body; deviations: %v", stepOK, carried, n, headList(ps, 4)))
}

func r14_4_rate(c *Ctx, r *Report, rule string, fn *ssa.Function) {
	construct := "calendar.(*Solar).GetSalaryRate is 3 on the seven statutory festivals, 2 on other days off, 1 otherwise"
	recv := ssa.Value(fn.Params[0])
	isDay := func(fr *evalFrame, v ssa.Value) bool {
		ofr, o := fr.origin(v)
		return o == recv && ofr.parent == nil
	}
	problems := map[string]bool{}
	n := 0
	for _, sm := range []int64{1, 2, 5, 10} {
		for _, sd := range []int64{1, 2, 3, 4} {
			for _, lm := range []int64{1, 2, 5, -5, 8} {
				for _, ld := range []int64{1, 2, 3, 4, 5, 15} {
					for _, jq := range []string{"清明", "立春", ""} {
						for _, hol := range []workAtoms{{true, false, 0}, {false, true, 0}, {false, false, 0}} {
							for week := int64(0); week < 7; week++ {
								if len(problems) > 6 {
									break
								}
								in := hol
								in.week = week
								var leaf leafX
								leaf = workLeaf(c, isDay, in, problems, func(fr *evalFrame, v ssa.Value) (interface{}, bool) {
									if rc, f, ok := getterField(c, v); ok && isDay(fr, rc) {
										switch f {
										case "Solar.month":
											return sm, true
										case "Solar.day":
											return sd, true
										case "Solar.year":
											return int64(2020), true
										}
									}
									if call, ok := v.(*ssa.Call); ok && call.Common().StaticCallee() != nil {
										name := fname(call.Common().StaticCallee())
										switch name {
										case "calendar.(*Solar).GetLunar":
											if isDay(fr, call.Common().Args[0]) {
												return absPtr{"lunar", false}, true
											}
										case "calendar.(*Lunar).GetMonth", "calendar.(*Lunar).GetDay", "calendar.(*Lunar).GetJieQi":
											o, ok := evalWith(fr, call.Common().Args[0], leaf)
											if ptr, isP := o.(absPtr); ok && isP && ptr.tag == "lunar" {
												switch call.Common().StaticCallee().Name() {
												case "GetMonth":
													return lm, true
												case "GetDay":
													return ld, true
												default:
													return jq, true
												}
											}
										}
									}
									return nil, false
								})
								ev := &evaluator{leaf: leaf, inline: inlineLibrary}
								res, outcome := ev.run(fn, nil, nil, nil, nil)
								n++
								want := int64(1)
								switch {
								case (sm == 1 && sd == 1) || (sm == 5 && sd == 1) || (sm == 10 && sd <= 3),
									(lm == 1 && ld <= 3) || (lm == 5 && ld == 5) || (lm == 8 && ld == 15), jq == "清明":
									want = 3
								case !in.holNil && !in.isWork, in.holNil && (week == 0 || week == 6):
									want = 2
								}
								if outcome != "return" || len(res) != 1 {
									problems["the function could not be followed: "+outcome+" "+ev.fail] = true
									continue
								}
								if res[0] != interface{}(want) {
									problems[fmt.Sprintf("civil %d-%d, lunar %d-%d, term %q, record absent=%v IsWork=%v, weekday %d: rate %v, expected %d", sm, sd, lm, ld, jq, in.holNil, in.isWork, week, res[0], want)] = true
								}
							}
						}
					}
				}
			}
		}
	}
	var ps []string
	for k := range problems {
		ps = append(ps, k)
	}
	sort.Strings(ps)
	r.check(len(ps) == 0 && n > 1000, rule, construct, c.fnPos(fn), fmt.Sprintf("%d abstract cases followed through the function; deviations: %v", n, headList(ps, 4)))
}

func r14_5(c *Ctx, r *Report) {
	const rule = "R14.5"
	r.rule(rule, "All views read the one live table. Every lookup (by day, month, year, target) reads HolidayUtil.dataInUse/namesInUse and no other package state; no lookup writes package state (a memo would survive Fix).")
	for _, name := range []string{"GetHoliday", "GetHolidayByYmd", "GetHolidaysByYm", "GetHolidaysByYear", "GetHolidays", "GetHolidaysByTargetYmd", "GetHolidaysByTarget"} {
		fn := c.Fn(r, rule, "HolidayUtil."+name)
		if fn == nil {
			continue
		}
		ef := c.eff.Of(fn)
		var other []string
		live := false
		for _, g := range ef.globalsRead() {
			switch g {
			case "HolidayUtil.dataInUse":
				live = true
			case "HolidayUtil.namesInUse":
			default:
				other = append(other, g)
			}
		}
		var writes []string
		for k, l := range ef.Writes {
			if strings.HasPrefix(l.Root, "g:") {
				writes = append(writes, k)
			}
		}
		for k := range ef.Unknown {
			writes = append(writes, "call of unmodelled "+k)
		}
		sort.Strings(writes)
		r.check(live && len(other) == 0 && len(writes) == 0, rule, "HolidayUtil."+name+" is a view of the live table", c.fnPos(fn), fmt.Sprintf("reads dataInUse: %v; other package state read: %v; package state written: %v", live, other, writes))
	}
}

// R14.7: what Fix queues for insertion.
func r14_7(c *Ctx, r *Report) {
	const rule = "R14.7"
	r.rule(rule, "Fix queues for insertion only what is to be added. Wherever Fix (or a helper of it) concatenates a whole record segment of its argument (dt[:size]) onto a string, or writes it to a strings.Builder — the records waiting to be inserted at their sorted position — two things are known to hold there (E13 branch facts: dominating conditions with their polarity, boolean helpers expanded): the day has no record yet (the result of GetHoliday for the segment's day compared equal to nil), and the segment is not a removal (its marker character compared with tag_remove came out unequal). A removal segment for an unrecorded day that is queued ends up in the table as a record whose name character is the marker: every view that decodes it then indexes the name table out of range.")
	fn := c.Fn(r, rule, "HolidayUtil.Fix")
	size, okS := c.tables.Var("HolidayUtil", "size")
	tag, okT := c.tabStr(r, rule, "HolidayUtil", "tag_remove")
	if fn == nil || okS != nil || size == nil || size.Kind != "int" || !okT {
		return
	}
	stop := map[string]bool{"HolidayUtil.GetHoliday": true}
	n := 0
	for _, fr := range helperTree(c, fn, stop) {
		for _, b := range fr.fn.Blocks {
			for _, ins := range b.Instrs {
				// a concatenation, or a text written to a strings.Builder
				var operands []ssa.Value
				var sitePos token.Pos
				switch x := ins.(type) {
				case *ssa.BinOp:
					if x.Op == token.ADD && isStringType(x.Type()) {
						operands, sitePos = []ssa.Value{x.X, x.Y}, x.Pos()
					}
				case *ssa.Call:
					if callee := x.Common().StaticCallee(); callee != nil && callee.String() == "(*strings.Builder).WriteString" && len(x.Common().Args) == 2 {
						operands, sitePos = []ssa.Value{x.Common().Args[1]}, x.Pos()
					}
				}
				if len(operands) == 0 {
					continue
				}
				isSeg := func(v ssa.Value) bool {
					_, ov := fr.origin(v)
					sl, ok := ov.(*ssa.Slice)
					if !ok || sl.High == nil || !isStringType(sl.X.Type()) {
						return false
					}
					if sl.Low != nil {
						if k, isK := constInt(sl.Low); !isK || k != 0 {
							return false
						}
					}
					k, isK := constInt(sl.High)
					if !isK || k != size.I {
						return false
					}
					// a segment of the argument (what remains of it), not of a string built here
					seen := map[ssa.Value]bool{}
					var fromParam func(f *evalFrame, v ssa.Value) bool
					fromParam = func(f *evalFrame, v ssa.Value) bool {
						if seen[v] {
							return true
						}
						seen[v] = true
						switch x := v.(type) {
						case *ssa.Parameter:
							// Fix's own argument; a helper's parameter is what the helper was handed
							if f.parent == nil {
								return f.fn == fn
							}
							if of, ov := f.origin(x); of != f || ov != ssa.Value(x) {
								return fromParam(of, ov)
							}
							return false
						case *ssa.Slice:
							return fromParam(f, x.X)
						case *ssa.Phi:
							for _, e := range x.Edges {
								if !fromParam(f, e) {
									return false
								}
							}
							return true
						}
						return false
					}
					return fromParam(fr, sl.X)
				}
				anySeg := false
				for _, o := range operands {
					if isSeg(o) {
						anySeg = true
					}
				}
				if !anySeg {
					continue
				}
				n++
				_, facts := factsAt(c, fr.fn, b)
				if fr.parent != nil {
					// the facts at the call sites up the helper tree hold as well
					for p := fr; p.parent != nil; p = p.parent {
						_, more := factsAt(c, p.parent.fn, p.call.Block())
						facts = append(facts, more...)
					}
				}
				absent, notRemoval := false, false
				var seen []string
				for _, f := range facts {
					if cb, ok := f.cond.(*ssa.BinOp); ok && (cb.Op == token.EQL || cb.Op == token.NEQ) {
						for _, pair := range [][2]ssa.Value{{cb.X, cb.Y}, {cb.Y, cb.X}} {
							k, isK := pair[0].(*ssa.Const)
							if !isK || k.Value != nil || !isPointerType(k.Type()) {
								continue
							}
							_, ov := f.fr.origin(pair[1])
							if call, isCall := ov.(*ssa.Call); isCall && call.Common().StaticCallee() != nil && fname(call.Common().StaticCallee()) == "HolidayUtil.GetHoliday" {
								if (cb.Op == token.EQL) == f.truth {
									absent = true
								}
								seen = append(seen, fmt.Sprintf("GetHoliday(day) %s nil is %v", cb.Op, f.truth))
							}
						}
					}
					if x, y, op, ok := stringCompareAtom(f.cond); ok && (op == token.EQL || op == token.NEQ) {
						for _, pair := range [][2]ssa.Value{{x, y}, {y, x}} {
							if s, isK := constString(pair[0]); isK && s == tag {
								if (op == token.EQL) != f.truth {
									notRemoval = true
								}
								seen = append(seen, fmt.Sprintf("marker %s tag_remove is %v", op, f.truth))
							}
						}
					}
				}
				r.check(absent && notRemoval, rule, fmt.Sprintf("%s queues a segment only for an unrecorded day that is not being removed", fname(fr.fn)), c.pos(sitePos), fmt.Sprintf("known at the concatenation: %v", seen))
			}
		}
	}
	r.floor(rule, 1)
	_ = n
}

func isPointerType(t types.Type) bool {
	_, ok := t.Underlying().(*types.Pointer)
	return ok
}
