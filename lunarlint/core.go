package main

// E1: loader, SSA construction, anchor resolution.
//
// Every run loads the current working tree of the repository under analysis
// (packages.Load with LoadAllSyntax on ./...), builds go/ssa for all packages and
// indexes library functions, methods and package-level variables by a stable
// name ("calendar.(*Lunar).GetYearGan", "SolarUtil.IsBefore", "LunarUtil.GAN").
// Nothing of the library is executed.

import (
	"fmt"
	"go/ast"
	"go/token"
	"go/types"
	"os"
	"path/filepath"
	"sort"
	"strings"

	"golang.org/x/tools/go/packages"
	"golang.org/x/tools/go/ssa"
	"golang.org/x/tools/go/ssa/ssautil"
)

type Ctx struct {
	Repo    string
	Tier    string
	GoArch  string
	Pkgs    []*packages.Package
	PkgBy   map[string]*packages.Package // by short name: "calendar", "LunarUtil", ...
	Prog    *ssa.Program
	SSABy   map[string]*ssa.Package
	Fset    *token.FileSet
	ModPath string
	// library source functions (methods and functions with syntax), sorted by name
	Funcs       []*ssa.Function
	FuncBy      map[string]*ssa.Function
	LibPkgs     []string
	ClientFuncs []*ssa.Function // functions of the client packages (test, demo), loaded on demand

	eff *effEngine
	rng *rangeEngine
	// solarTableOK: R04.8 followed NewSolar over its decision table without a deviation; solarTableRun: it has run
	solarTableOK, solarTableRun bool
	// solarTableMonthsOK: on none of those walks was GetDaysOfMonth handed a month outside 1..12
	solarTableMonthsOK bool
	// dtCalcOK: R03.9 followed dtCalc for every ordering of the year against the knots without a deviation (and
	// without a read outside the table); dtCalcRun: it has run
	dtCalcOK, dtCalcRun bool
	// xunOK: R18.6 followed GetXunIndex for all sixty pillars and found the decade every time; xunRun: it has run
	xunOK, xunRun bool
	// starTableOK: the star accessors R16.5 followed over their whole input domain without a deviation (every
	// value it states is an index 0..8); nil until R16.5 has run on this tree
	starTableOK map[*ssa.Function]bool
	scratch     map[string]interface{}
	tables      *tableEval
	declDoc     map[*ssa.Function]string
}

// library packages: everything in the module except the client packages.
func isClientPkg(name string) bool { return name == "demo" || name == "test" || name == "main" }

func load(repo, tier, goarch string, tests bool) (*Ctx, error) {
	return loadWith(repo, tier, goarch, tests, 5)
}

func loadWith(repo, tier, goarch string, tests bool, minLib int) (*Ctx, error) {
	abs, err := filepath.Abs(repo)
	if err != nil {
		return nil, err
	}
	env := []string{}
	for _, e := range os.Environ() {
		if strings.HasPrefix(e, "GOWORK=") || strings.HasPrefix(e, "GOFLAGS=") || strings.HasPrefix(e, "GOARCH=") {
			continue
		}
		env = append(env, e)
	}
	env = append(env, "GOWORK=off", "GOFLAGS=-mod=mod", "GOPROXY=off", "GOSUMDB=off", "GOTOOLCHAIN=local")
	if goarch != "" {
		env = append(env, "GOARCH="+goarch)
	}
	cfg := &packages.Config{Mode: packages.LoadAllSyntax | packages.NeedModule, Dir: abs, Env: env, Tests: tests}
	pkgs, err := packages.Load(cfg, "./...")
	if err != nil {
		return nil, fmt.Errorf("packages.Load: %v", err)
	}
	if len(pkgs) == 0 {
		return nil, fmt.Errorf("no packages loaded from %s", abs)
	}
	var errs []string
	packages.Visit(pkgs, nil, func(p *packages.Package) {
		for _, e := range p.Errors {
			errs = append(errs, e.Error())
		}
	})
	if len(errs) > 0 {
		return nil, fmt.Errorf("type-check errors: %s", strings.Join(errs, "; "))
	}
	prog, _ := ssautil.AllPackages(pkgs, ssa.InstantiateGenerics)
	prog.Build()
	c := &Ctx{Repo: abs, Tier: tier, GoArch: goarch, Pkgs: pkgs, Prog: prog, Fset: prog.Fset,
		PkgBy: map[string]*packages.Package{}, SSABy: map[string]*ssa.Package{}, FuncBy: map[string]*ssa.Function{},
		declDoc: map[*ssa.Function]string{}, scratch: map[string]interface{}{}}
	for _, p := range pkgs {
		if p.Module != nil && c.ModPath == "" {
			c.ModPath = p.Module.Path
		}
	}
	if c.ModPath == "" {
		return nil, fmt.Errorf("module path not found")
	}
	for _, p := range pkgs {
		if !strings.HasPrefix(p.PkgPath, c.ModPath) {
			continue
		}
		if strings.HasSuffix(p.ID, ".test") || strings.Contains(p.ID, "[") {
			// test variants are only used by client rules
			if tests {
				c.PkgBy["test:"+p.Name+":"+p.ID] = p
			}
			continue
		}
		c.PkgBy[p.Name] = p
		sp := prog.Package(p.Types)
		if sp == nil {
			return nil, fmt.Errorf("no SSA package for %s", p.PkgPath)
		}
		c.SSABy[p.Name] = sp
		if !isClientPkg(p.Name) {
			c.LibPkgs = append(c.LibPkgs, p.Name)
		}
	}
	sort.Strings(c.LibPkgs)
	if len(c.LibPkgs) < minLib {
		return nil, fmt.Errorf("only %d library packages found (%v)", len(c.LibPkgs), c.LibPkgs)
	}
	for fn := range ssautil.AllFunctions(prog) {
		if fn.Pkg == nil || fn.Synthetic != "" && fn.Name() != "init" {
			continue
		}
		if _, ok := c.SSABy[fn.Pkg.Pkg.Name()]; !ok || c.SSABy[fn.Pkg.Pkg.Name()] != fn.Pkg {
			continue
		}
		if isClientPkg(fn.Pkg.Pkg.Name()) {
			if fn.Blocks != nil {
				c.ClientFuncs = append(c.ClientFuncs, fn)
			}
			continue
		}
		if fn.Blocks == nil {
			continue
		}
		c.Funcs = append(c.Funcs, fn)
		c.FuncBy[fname(fn)] = fn
	}
	if tests {
		seen := map[*ssa.Function]bool{}
		for _, f := range c.ClientFuncs {
			seen[f] = true
		}
		for fn := range ssautil.AllFunctions(prog) {
			if fn.Pkg == nil || fn.Blocks == nil || seen[fn] {
				continue
			}
			pp := fn.Pkg.Pkg.Path()
			if strings.HasPrefix(pp, c.ModPath) && isClientPkg(fn.Pkg.Pkg.Name()) {
				c.ClientFuncs = append(c.ClientFuncs, fn)
			}
			if strings.HasPrefix(pp, c.ModPath+"/test") {
				if !seen[fn] {
					c.ClientFuncs = append(c.ClientFuncs, fn)
					seen[fn] = true
				}
			}
		}
	}
	sort.Slice(c.ClientFuncs, func(i, j int) bool { return c.ClientFuncs[i].String() < c.ClientFuncs[j].String() })
	sort.Slice(c.Funcs, func(i, j int) bool { return fname(c.Funcs[i]) < fname(c.Funcs[j]) })
	buildCanonFields(c.Funcs)
	c.eff = newEffEngine(c)
	c.tables = newTableEval(c)
	ctxByProg[c.Prog] = c
	return c, nil
}

// fname gives the stable name of a function: "calendar.(*Lunar).GetYearGan",
// "SolarUtil.IsBefore", "calendar.init", "calendar.NewX$1".
func fname(fn *ssa.Function) string {
	if fn == nil {
		return "<nil>"
	}
	if fn.Synthetic != "" && fn.Pkg == nil && fn.Parent() == nil && fn.Object() != nil && fn.Prog != nil {
		// a bound-method wrapper (x.M used as a function value) is named after the method it calls
		if m, ok := fn.Object().(*types.Func); ok {
			if real := fn.Prog.FuncValue(m); real != nil && real != fn {
				suffix := ""
				if i := strings.LastIndex(fn.Name(), "$"); i >= 0 {
					suffix = fn.Name()[i:]
				}
				return fname(real) + suffix
			}
		}
	}
	if fn.Parent() != nil {
		return fname(fn.Parent()) + "$" + strings.TrimPrefix(fn.Name(), fn.Parent().Name()+"$")
	}
	pkg := ""
	if fn.Pkg != nil {
		pkg = fn.Pkg.Pkg.Name()
	} else if fn.Object() != nil && fn.Object().Pkg() != nil {
		pkg = fn.Object().Pkg().Name()
	}
	if recv := fn.Signature.Recv(); recv != nil {
		t := recv.Type()
		ptr := ""
		if p, ok := t.(*types.Pointer); ok {
			ptr = "*"
			t = p.Elem()
		}
		n := "?"
		if nt, ok := t.(*types.Named); ok {
			n = nt.Obj().Name()
			if nt.Obj().Pkg() != nil {
				pkg = nt.Obj().Pkg().Name()
			}
		}
		return fmt.Sprintf("%s.(%s%s).%s", pkg, ptr, n, fn.Name())
	}
	return pkg + "." + fn.Name()
}

func (c *Ctx) pos(p token.Pos) string {
	if !p.IsValid() {
		return "-"
	}
	pp := c.Fset.Position(p)
	rel, err := filepath.Rel(c.Repo, pp.Filename)
	if err != nil {
		rel = pp.Filename
	}
	return fmt.Sprintf("%s:%d", rel, pp.Line)
}

func (c *Ctx) fnPos(fn *ssa.Function) string { return c.pos(fn.Pos()) }

// Fn resolves an anchor function; a missing anchor is a hard failure of the rule.
func (c *Ctx) Fn(r *Report, rule, name string) *ssa.Function {
	fn := c.FuncBy[name]
	if fn == nil {
		r.bad(rule, "anchor "+name, "-", "anchor function not found in the current tree; the rule cannot be instantiated (undecided = fail)")
	}
	return fn
}

// Method returns the named method of a library struct type or nil.
func (c *Ctx) Method(pkg, typ, name string) *ssa.Function {
	if fn := c.FuncBy[fmt.Sprintf("%s.(*%s).%s", pkg, typ, name)]; fn != nil {
		return fn
	}
	return c.FuncBy[fmt.Sprintf("%s.(%s).%s", pkg, typ, name)]
}

// Global resolves a package-level variable.
func (c *Ctx) Global(pkg, name string) *ssa.Global {
	sp := c.SSABy[pkg]
	if sp == nil {
		return nil
	}
	if g, ok := sp.Members[name].(*ssa.Global); ok {
		return g
	}
	return nil
}

// canonFields maps struct -> private field -> the name the exported API gives it: the lower-cased
// remainder of the unique exported pure getter Get<X>/Is<X> that returns the field. Rules and the
// reviewed tables name fields by this canonical name, so renaming a private field changes nothing.
var canonFields = map[string]map[string]string{}

// legacyFieldNames: where the getter's name and the field's name differ on the pinned tree, the
// rules and tables use the field's name (struct.getterName -> name used here).
var legacyFieldNames = map[string]string{"Lunar.jieQiTable": "jieQi", "Lunar.week": "weekIndex"}

func fieldName(st types.Type, idx int) string {
	s := st.Underlying().(*types.Struct)
	raw := s.Field(idx).Name()
	if nt, ok := st.(*types.Named); ok {
		if c, ok := canonFields[nt.Obj().Name()][raw]; ok {
			return c
		}
	}
	return raw
}

func buildCanonFields(funcs []*ssa.Function) {
	cand := map[string]map[string]map[string]bool{}
	for _, fn := range funcs {
		if fn.Signature.Recv() == nil || fn.Object() == nil || !fn.Object().Exported() || len(fn.Blocks) != 1 || len(fn.Params) != 1 {
			continue
		}
		name := fn.Name()
		switch {
		case strings.HasPrefix(name, "Get") && len(name) > 3:
			name = name[3:]
		case strings.HasPrefix(name, "Is") && len(name) > 2:
			name = name[2:]
		default:
			continue
		}
		for _, ins := range fn.Blocks[0].Instrs {
			ret, ok := ins.(*ssa.Return)
			if !ok || len(ret.Results) != 1 {
				continue
			}
			ld, ok := ret.Results[0].(*ssa.UnOp)
			if !ok || ld.Op != token.MUL {
				continue
			}
			fa, ok := ld.X.(*ssa.FieldAddr)
			if !ok || fa.X != ssa.Value(fn.Params[0]) {
				continue
			}
			st := fa.X.Type().Underlying().(*types.Pointer).Elem()
			nt, ok := st.(*types.Named)
			if !ok {
				continue
			}
			raw := st.Underlying().(*types.Struct).Field(fa.Field).Name()
			tn := nt.Obj().Name()
			if cand[tn] == nil {
				cand[tn] = map[string]map[string]bool{}
			}
			if cand[tn][raw] == nil {
				cand[tn][raw] = map[string]bool{}
			}
			cand[tn][raw][strings.ToLower(name[:1])+name[1:]] = true
		}
	}
	for tn, fields := range cand {
		used := map[string]int{}
		for _, names := range fields {
			if len(names) == 1 {
				for n := range names {
					used[n]++
				}
			}
		}
		for raw, names := range fields {
			if len(names) != 1 {
				continue
			}
			for n := range names {
				if used[n] == 1 {
					if canonFields[tn] == nil {
						canonFields[tn] = map[string]string{}
					}
					if legacy, ok := legacyFieldNames[tn+"."+n]; ok {
						n = legacy
					}
					if os.Getenv("LUNARLINT_DEBUG_CANON") != "" && n != raw {
						fmt.Fprintf(os.Stderr, "canon %s.%s -> %s\n", tn, raw, n)
					}
					canonFields[tn][raw] = n
				}
			}
		}
	}
	// fields without a getter: the name of the exported constructor's parameter that is stored into them
	ctor := map[string]map[string]map[string]bool{}
	for _, fn := range funcs {
		if fn.Object() == nil || !fn.Object().Exported() || fn.Signature.Recv() != nil || !strings.HasPrefix(fn.Name(), "New") {
			continue
		}
		for _, b := range fn.Blocks {
			for _, ins := range b.Instrs {
				st, ok := ins.(*ssa.Store)
				if !ok {
					continue
				}
				fa, ok := st.Addr.(*ssa.FieldAddr)
				p, isP := st.Val.(*ssa.Parameter)
				if !ok || !isP {
					continue
				}
				if _, isAlloc := fa.X.(*ssa.Alloc); !isAlloc {
					continue
				}
				t := fa.X.Type().Underlying().(*types.Pointer).Elem()
				nt, ok := t.(*types.Named)
				if !ok || !strings.HasPrefix(fn.Name(), "New"+nt.Obj().Name()) {
					continue
				}
				raw := t.Underlying().(*types.Struct).Field(fa.Field).Name()
				tn := nt.Obj().Name()
				if _, has := canonFields[tn][raw]; has {
					continue
				}
				if ctor[tn] == nil {
					ctor[tn] = map[string]map[string]bool{}
				}
				if ctor[tn][raw] == nil {
					ctor[tn][raw] = map[string]bool{}
				}
				ctor[tn][raw][p.Name()] = true
			}
		}
	}
	for tn, fields := range ctor {
		taken := map[string]bool{}
		for _, n := range canonFields[tn] {
			taken[n] = true
		}
		for raw, names := range fields {
			if len(names) != 1 {
				continue
			}
			for n := range names {
				if !taken[n] {
					if canonFields[tn] == nil {
						canonFields[tn] = map[string]string{}
					}
					if os.Getenv("LUNARLINT_DEBUG_CANON") != "" && n != raw {
						fmt.Fprintf(os.Stderr, "canon(ctor) %s.%s -> %s\n", tn, raw, n)
					}
					canonFields[tn][raw] = n
					taken[n] = true
				}
			}
		}
	}
}

// ctxByProg finds the analysis context of an SSA value (the evaluator folds literal tables through it).
var ctxByProg = map[*ssa.Program]*Ctx{}

func gname(g *ssa.Global) string { return g.Pkg.Pkg.Name() + "." + g.Name() }

// methodsOf lists the source methods declared on pkg.typ (pointer or value receiver), sorted.
func (c *Ctx) methodsOf(pkg, typ string) []*ssa.Function {
	var out []*ssa.Function
	p1 := fmt.Sprintf("%s.(*%s).", pkg, typ)
	p2 := fmt.Sprintf("%s.(%s).", pkg, typ)
	for _, fn := range c.Funcs {
		n := fname(fn)
		if strings.HasPrefix(n, p1) || strings.HasPrefix(n, p2) {
			if fn.Parent() == nil {
				out = append(out, fn)
			}
		}
	}
	return out
}

// doc returns the doc comment of a source function ("" when none).
func (c *Ctx) doc(fn *ssa.Function) string {
	if d, ok := c.declDoc[fn]; ok {
		return d
	}
	d := ""
	if fd, ok := fn.Syntax().(*ast.FuncDecl); ok && fd.Doc != nil {
		d = fd.Doc.Text()
	}
	c.declDoc[fn] = d
	return d
}

func (c *Ctx) funcDecl(fn *ssa.Function) *ast.FuncDecl {
	if fn == nil {
		return nil
	}
	fd, _ := fn.Syntax().(*ast.FuncDecl)
	return fd
}

// typesInfo of the package a function belongs to.
func (c *Ctx) infoOf(fn *ssa.Function) *types.Info {
	if fn == nil || fn.Pkg == nil {
		return nil
	}
	if p := c.PkgBy[fn.Pkg.Pkg.Name()]; p != nil {
		return p.TypesInfo
	}
	return nil
}

func isExported(name string) bool { return ast.IsExported(name) }

// structName returns "Lunar" for *calendar.Lunar / calendar.Lunar, "" otherwise.
func structName(t types.Type) string {
	if p, ok := t.Underlying().(*types.Pointer); ok {
		t = p.Elem()
	}
	if p, ok := t.(*types.Pointer); ok {
		t = p.Elem()
	}
	if nt, ok := t.(*types.Named); ok {
		if _, ok := nt.Underlying().(*types.Struct); ok {
			return nt.Obj().Name()
		}
	}
	return ""
}

func qualTypeName(t types.Type) string {
	if p, ok := t.(*types.Pointer); ok {
		t = p.Elem()
	}
	if nt, ok := t.(*types.Named); ok {
		if nt.Obj().Pkg() != nil {
			return nt.Obj().Pkg().Name() + "." + nt.Obj().Name()
		}
		return nt.Obj().Name()
	}
	return t.String()
}

func sortedKeys(m map[string]bool) []string {
	out := make([]string, 0, len(m))
	for k := range m {
		out = append(out, k)
	}
	sort.Strings(out)
	return out
}

func underlyingStruct(t types.Type) (*types.Struct, bool) {
	st, ok := t.Underlying().(*types.Struct)
	return st, ok
}
