package main

// A small evaluator of SSA expression trees over concrete leaf assignments. It is the
// checker's own arithmetic on a finite abstract domain (an hour and a minute, a day of
// the month, a pillar index): leaves are supplied by the rule, phis are resolved along
// a CFG path, and only integer/float arithmetic, comparisons, fmt.Sprintf on integers
// and strings.Compare are interpreted. No function of the library is executed.

import (
	"fmt"
	"go/constant"
	"go/token"
	"go/types"
	"math"
	"os"
	"strconv"
	"strings"

	"golang.org/x/tools/go/ssa"
)

type leafFn func(v ssa.Value) (interface{}, bool)

// leafX is a leaf function that sees the frame a value is evaluated in (see evalFrame.origin).
type leafX func(fr *evalFrame, v ssa.Value) (interface{}, bool)

// evalFrame is one activation in the evaluator: the function, how phis resolve (along a CFG
// path or by the predecessor recorded by the walker) and the call it was entered through.
type evalFrame struct {
	fn      *ssa.Function
	parent  *evalFrame
	call    *ssa.Call
	path    *cfgPath
	phiFrom map[*ssa.BasicBlock]*ssa.BasicBlock
	// the walker keeps what it stored into struct fields and what each field load saw at its own
	// program point (loads are evaluated where they stand, not where their value is used)
	mem  map[memKey]interface{}
	vals map[ssa.Value]interface{}
}

type memKey struct {
	base  ssa.Value
	field int
}

const (
	cellField    = -1 // the value of a local variable that lives in memory
	builderField = -2 // the text accumulated in a local strings.Builder
)

// isAggregate: the local holds a struct or an array (its parts are addressed separately).
func isAggregate(al *ssa.Alloc) bool {
	switch al.Type().Underlying().(*types.Pointer).Elem().Underlying().(type) {
	case *types.Struct, *types.Array:
		return true
	}
	return false
}

func recvIsBuilder(callee *ssa.Function) bool {
	recv := callee.Signature.Recv()
	return recv != nil && strings.HasSuffix(recv.Type().String(), "strings.Builder")
}

// unknownValue marks a field that was overwritten with something the evaluator could not evaluate.
type unknownValue struct{}

// absPtr is an abstract pointer: only its nil-ness and a tag are known.
// absRunes, absBytes: the runes / bytes of an evaluated string, as a slice value.
type absRunes struct{ s string }
type absBytes struct{ s string }

// absOpaque: a value that can only be compared for equality with another of its kind (a component of an
// abstract date: not a number to calculate with).
type absOpaque struct {
	kind string
	k    int64
}

// absList: a list taken from a literal package-level table (nil: the empty list).
type absList struct{ tv *TVal }

type absPtr struct {
	tag   string
	isNil bool
}

type evaluator struct {
	// effectsOnly: the function followed is looked at for what it does on the way (calls, stores); a result of the
	// outermost function that cannot be evaluated does not fail the walk
	effectsOnly bool
	// globals, when set, holds what the walk stored into package-level variables (loads of them are then read
	// where they stand, and see those stores)
	globals map[*ssa.Global]interface{}
	// maxDepth, when set, replaces the default bound (40) on the depth of one expression: a text built by a
	// long chain of concatenations is that deep
	maxDepth int
	leaf     leafX
	inline   func(callee *ssa.Function) bool // which library callees may be evaluated inline (loop-free bodies only)
	steps    int
	fail     string // first reason an evaluation failed
	panicked bool   // an inlined callee ended in a panic
	// visit, when set, sees every call instruction the walker passes (in order); library calls whose
	// result is not used are then walked as statements, so that their effects are seen too
	visit func(fr *evalFrame, call *ssa.Call)
	// onMapUpdate, when set, is told every m[k] = v the walk passes (key and value as evaluated there)
	onMapUpdate func(fr *evalFrame, mu *ssa.MapUpdate, k, v interface{}, ok bool)
	// onStore, when set, is told every store the walk passes (the value as evaluated there)
	onStore func(fr *evalFrame, st *ssa.Store, v interface{}, ok bool)
	// counted, when positive, lets inlined helpers that contain one loop with closed-form carried values be
	// read as tables over the iteration number (runCounted), with this iteration budget
	counted int
}

func (fr *evalFrame) resolve(v ssa.Value) ssa.Value {
	for depth := 0; depth < 16; depth++ {
		phi, ok := v.(*ssa.Phi)
		if !ok {
			return v
		}
		if fr.path != nil {
			w := fr.path.resolve(v)
			if w == v {
				return v
			}
			v = w
			continue
		}
		pred, ok := fr.phiFrom[phi.Block()]
		if !ok {
			return v
		}
		idx := -1
		for k, pb := range phi.Block().Preds {
			if pb == pred {
				idx = k
			}
		}
		if idx < 0 {
			return v
		}
		v = phi.Edges[idx]
	}
	return v
}

// origin follows phis (as resolved in the frame) and parameters (to the caller's argument)
// and returns the defining value together with the frame it lives in.
func (fr *evalFrame) origin(v ssa.Value) (*evalFrame, ssa.Value) {
	for depth := 0; depth < 16; depth++ {
		v = fr.resolve(v)
		// a variable that lives in a cell because a closure captures it: what was (once) stored there
		if ld, isLd := v.(*ssa.UnOp); isLd && ld.Op == token.MUL {
			switch cell := ld.X.(type) {
			case *ssa.Alloc:
				if !isAggregate(cell) {
					if sv := soleStoredValue(cell); sv != nil {
						v = sv
						continue
					}
				}
			case *ssa.FreeVar:
				if fr.parent != nil && fr.call != nil {
					if mc, ok := fr.call.Common().Value.(*ssa.MakeClosure); ok {
						moved := false
						for i, fv := range fr.fn.FreeVars {
							if fv == cell && i < len(mc.Bindings) {
								if al, ok := mc.Bindings[i].(*ssa.Alloc); ok {
									if sv := soleStoredValue(al); sv != nil {
										v, fr, moved = sv, fr.parent, true
									}
								}
							}
						}
						if moved {
							continue
						}
					}
				}
			}
			return fr, v
		}
		p, ok := v.(*ssa.Parameter)
		if !ok || fr.parent == nil || fr.call == nil {
			return fr, v
		}
		idx := -1
		for i, q := range fr.fn.Params {
			if q == p {
				idx = i
			}
		}
		if idx < 0 || idx >= len(fr.call.Common().Args) {
			return fr, v
		}
		v = fr.call.Common().Args[idx]
		fr = fr.parent
	}
	return fr, v
}

func evalSSA(p *cfgPath, v ssa.Value, leaf leafFn, depth int) (interface{}, bool) {
	ev := &evaluator{leaf: func(_ *evalFrame, v ssa.Value) (interface{}, bool) { return leaf(v) }}
	return ev.eval(&evalFrame{path: p}, v, depth)
}

func (ev *evaluator) eval(fr *evalFrame, v ssa.Value, depth int) (interface{}, bool) {
	if depth > 40 && (ev.maxDepth == 0 || depth > ev.maxDepth) {
		return nil, false
	}
	v = fr.resolve(v)
	if fr.vals != nil {
		if x, ok := fr.vals[v]; ok {
			if _, unknown := x.(unknownValue); unknown {
				return nil, false
			}
			return x, true
		}
	}
	if ld, ok := v.(*ssa.UnOp); ok && ld.Op == token.MUL && fr.mem != nil {
		if fa, ok := ld.X.(*ssa.FieldAddr); ok {
			if x, ok := fr.mem[memKey{fr.memBase(fa.X), fa.Field}]; ok {
				if _, unknown := x.(unknownValue); unknown {
					return nil, false
				}
				return x, true
			}
		}
	}
	if ld, ok := v.(*ssa.UnOp); ok && ld.Op == token.MUL && ev.globals != nil {
		if g, isGlobal := ld.X.(*ssa.Global); isGlobal {
			if x, ok := ev.globals[g]; ok {
				if _, unknown := x.(unknownValue); unknown {
					return nil, false
				}
				return x, true
			}
		}
	}
	if x, ok := ev.leaf(fr, v); ok {
		return x, true
	}
	switch x := v.(type) {
	case *ssa.Function:
		return x, true // a function value
	case *ssa.MakeClosure:
		return x, true
	case *ssa.ChangeType:
		return ev.eval(fr, x.X, depth+1)
	case *ssa.Alloc:
		// the address of an object this activation allocated: not nil, and only that is known
		return absPtr{"object allocated by " + fname(x.Parent()), false}, true
	case *ssa.FreeVar:
		// a value captured by value (the receiver of a bound method x.M): what the closure was made with
		if fr.call != nil && fr.parent != nil {
			if mc, ok := fr.call.Common().Value.(*ssa.MakeClosure); ok {
				for i, fv := range fr.fn.FreeVars {
					if fv == x && i < len(mc.Bindings) {
						return ev.eval(fr.parent, mc.Bindings[i], depth+1)
					}
				}
			}
		}
		return nil, false
	case *ssa.Parameter:
		if fr.parent != nil && fr.call != nil {
			for i, q := range fr.fn.Params {
				if q == x && i < len(fr.call.Common().Args) {
					return ev.eval(fr.parent, fr.call.Common().Args[i], depth+1)
				}
			}
		}
		return nil, false
	case *ssa.Phi:
		// a merge outside the walked region: choose the edge by the branch condition that selects it
		if cond, edge0True, ok := phiSelector(x); ok {
			cv, known := ev.eval(fr, cond, depth+1)
			if b, isB := cv.(bool); known && isB {
				if b == edge0True {
					return ev.eval(fr, x.Edges[0], depth+1)
				}
				return ev.eval(fr, x.Edges[1], depth+1)
			}
		}
		return nil, false
	case *ssa.Const:
		if x.Value == nil {
			if _, isPtr := x.Type().Underlying().(*types.Pointer); isPtr {
				return absPtr{"nil", true}, true // the nil pointer
			}
			return nil, false
		}
		switch x.Value.Kind() {
		case constant.Int:
			k, _ := constant.Int64Val(x.Value)
			if isFloatType(x.Type()) {
				return float64(k), true
			}
			return k, true
		case constant.Float:
			f, _ := constant.Float64Val(x.Value)
			return f, true
		case constant.String:
			return constant.StringVal(x.Value), true
		case constant.Bool:
			return constant.BoolVal(x.Value), true
		}
	case *ssa.Convert:
		a, ok := ev.eval(fr, x.X, depth+1)
		if !ok {
			return nil, false
		}
		if sl, isSl := x.Type().Underlying().(*types.Slice); isSl {
			// []rune(s), []byte(s) of an evaluated string
			if str, isS := a.(string); isS {
				if b, isB := sl.Elem().Underlying().(*types.Basic); isB {
					switch b.Kind() {
					case types.Int32:
						return absRunes{str}, true
					case types.Uint8:
						return absBytes{str}, true
					}
				}
			}
			return nil, false
		}
		if isStringType(x.Type()) {
			switch t := a.(type) {
			case absRunes:
				return t.s, true
			case absBytes:
				return t.s, true
			case string:
				return t, true
			case int64:
				if isIntType(x.X.Type()) {
					return string(rune(t)), true
				}
			}
			return nil, false
		}
		switch {
		case isIntType(x.Type()):
			switch t := a.(type) {
			case int64:
				return t, true
			case float64:
				return int64(math.Trunc(t)), true
			}
		case isFloatType(x.Type()):
			switch t := a.(type) {
			case int64:
				return float64(t), true
			case float64:
				return t, true
			}
		}
		return nil, false
	case *ssa.Extract:
		// (ok, index, rune) of a range over a string, as the loop table set it for this iteration
		if nx, isNext := x.Tuple.(*ssa.Next); isNext {
			if fr.vals != nil {
				if tup, ok := fr.vals[nx]; ok {
					if parts, isT := tup.([]interface{}); isT && x.Index < len(parts) {
						return parts[x.Index], true
					}
				}
			}
			return nil, false
		}
		// strconv.ParseInt of an evaluated text (the checker's own conversion)
		if call, isCall := x.Tuple.(*ssa.Call); isCall {
			if sc := call.Common().StaticCallee(); sc != nil && sc.String() == "strconv.ParseInt" && len(call.Common().Args) == 3 {
				a, ok1 := ev.eval(fr, call.Common().Args[0], depth+1)
				b, ok2 := ev.eval(fr, call.Common().Args[1], depth+1)
				str, isS := a.(string)
				base, isB := b.(int64)
				if !ok1 || !ok2 || !isS || !isB {
					return nil, false
				}
				k, err := strconv.ParseInt(str, int(base), 64)
				if x.Index == 0 {
					return k, true
				}
				return absPtr{"error", err == nil}, true
			}
		}
		// one result of an inlined helper that returns several
		if call, isCall := x.Tuple.(*ssa.Call); isCall {
			if tup, ok := ev.leaf(fr, call); ok {
				if parts, isT := tup.([]interface{}); isT && x.Index < len(parts) {
					return parts[x.Index], true
				}
				return nil, false
			}
			callee := call.Common().StaticCallee()
			if callee != nil && ev.inline != nil && callee.Blocks != nil && ev.inline(callee) {
				res, outcome := ev.runCallee(callee, fr, call)
				if outcome == "return" && x.Index < len(res) {
					return res[x.Index], true
				}
				if outcome == "panic" {
					ev.panicked = true
				}
			}
			return nil, false
		}
		// the value / ok of a comma-ok lookup in a local literal map
		if lk, isL := x.Tuple.(*ssa.Lookup); isL && lk.CommaOk {
			if mm, isLocal := lk.X.(*ssa.MakeMap); isLocal {
				v, found, ok := ev.localMapLookup(fr, mm, lk.Index, depth)
				if !ok {
					return nil, false
				}
				if x.Index == 1 {
					return found, true
				}
				if found {
					return v, true
				}
				return zeroValue(lk.X.Type().Underlying().(*types.Map).Elem())
			}
		}
		// the value / ok of a comma-ok lookup in a literal table
		if lk, isL := x.Tuple.(*ssa.Lookup); isL && lk.CommaOk {
			if tv, found, ok := ev.tableLookup(fr, lk, depth); ok {
				if x.Index == 1 {
					return found, true
				}
				if found {
					return tvalScalar(tv)
				}
				return zeroOf(lk.X.Type().Underlying().(*types.Map).Elem())
			}
		}
		return nil, false
	case *ssa.Lookup:
		if mm, isLocal := x.X.(*ssa.MakeMap); isLocal && !x.CommaOk {
			if v, found, ok := ev.localMapLookup(fr, mm, x.Index, depth); ok {
				if found {
					return v, true
				}
				return zeroValue(x.Type())
			}
			return nil, false
		}
		if !x.CommaOk {
			if tv, found, ok := ev.tableLookup(fr, x, depth); ok {
				if found {
					return tvalScalar(tv)
				}
				if mt, isM := x.X.Type().Underlying().(*types.Map); isM {
					return zeroOf(mt.Elem())
				}
			}
		}
		return nil, false
	case *ssa.UnOp:
		if x.Op == token.MUL {
			// a load from a literal package-level table (never written after init: C09 R09.1)
			switch addr := x.X.(type) {
			case *ssa.FreeVar:
				// a variable captured by a closure: the cell the enclosing function bound, holding what it stored there once
				if fr.call != nil && fr.parent != nil {
					if mc, ok := fr.call.Common().Value.(*ssa.MakeClosure); ok {
						for i, fv := range fr.fn.FreeVars {
							if fv != addr || i >= len(mc.Bindings) {
								continue
							}
							cell, ok := mc.Bindings[i].(*ssa.Alloc)
							if !ok || cell.Parent() == nil {
								return nil, false
							}
							var stored ssa.Value
							cnt := 0
							for _, b := range cell.Parent().Blocks {
								for _, ins := range b.Instrs {
									if st, ok := ins.(*ssa.Store); ok && st.Addr == ssa.Value(cell) {
										stored = st.Val
										cnt++
									}
								}
							}
							if cnt == 1 {
								return ev.eval(fr.parent, stored, depth+1)
							}
							// assigned more than once: what it holds where the literal is called
							if cell.Parent() == fr.parent.fn && !isAggregate(cell) {
								return ev.cellValueAt(fr.parent, cell, fr.call.Block(), fr.call, depth+1)
							}
						}
					}
				}
				return nil, false
			case *ssa.Alloc:
				// a local variable that lives in memory, read outside a walk: what it holds where the load stands
				if addr.Parent() == fr.fn && !isAggregate(addr) {
					if v, ok := ev.cellValueAt(fr, addr, x.Block(), x, depth+1); ok {
						return v, true
					}
				}
				return nil, false
			case *ssa.FieldAddr:
				// a field of an element of a local literal table ([]struct{...}{...} walked by a loop)
				if ia, ok := addr.X.(*ssa.IndexAddr); ok {
					if v, ok := ev.localElem(fr, ia, addr.Field, depth); ok {
						return v, true
					}
				}
				// a field of an object this activation allocated holds what was (once) stored into it
				if al, ok := addr.X.(*ssa.Alloc); ok && al.Parent() != nil {
					var stored ssa.Value
					cnt := 0
					for _, b := range al.Parent().Blocks {
						for _, ins := range b.Instrs {
							if st, ok := ins.(*ssa.Store); ok {
								if fa, ok := st.Addr.(*ssa.FieldAddr); ok && fa.X == ssa.Value(al) && fa.Field == addr.Field {
									stored = st.Val
									cnt++
								}
							}
						}
					}
					if cnt == 1 {
						return ev.eval(fr, stored, depth+1)
					}
				}
				return nil, false
			case *ssa.Global:
				if tv := globalTVal(addr); tv != nil {
					return tvalScalar(tv)
				}
				return nil, false
			case *ssa.IndexAddr:
				// an element of a local literal table
				if v, ok := ev.localElem(fr, addr, -1, depth); ok {
					return v, true
				}
				// one rune or byte of an evaluated string: []rune(s)[i], []byte(s)[i]
				if cv, isCv := addr.X.(*ssa.Convert); isCv && isStringType(cv.X.Type()) {
					sv, ok1 := ev.eval(fr, cv.X, depth+1)
					iv, ok2 := ev.eval(fr, addr.Index, depth+1)
					str, isS := sv.(string)
					i, isI := iv.(int64)
					if !ok1 || !ok2 || !isS || !isI || i < 0 {
						return nil, false
					}
					if sl, isSl := cv.Type().Underlying().(*types.Slice); isSl {
						if b, isB := sl.Elem().Underlying().(*types.Basic); isB && b.Kind() == types.Int32 {
							rs := []rune(str)
							if int(i) >= len(rs) {
								ev.panicked = true
								return nil, false
							}
							return int64(rs[i]), true
						}
						if int(i) >= len(str) {
							ev.panicked = true
							return nil, false
						}
						return int64(str[i]), true
					}
					return nil, false
				}
				if _, isLd := addr.X.(*ssa.UnOp); !isLd {
					// an element of a list taken out of a literal table (a map of lists)
					if lv, ok := ev.eval(fr, addr.X, depth+1); ok {
						if l, isL := lv.(absList); isL {
							iv, ok := ev.eval(fr, addr.Index, depth+1)
							i, isI := iv.(int64)
							if !ok || !isI {
								return nil, false
							}
							if l.tv == nil || i < 0 || int(i) >= len(l.tv.L) {
								ev.panicked = true
								return nil, false
							}
							return tvalScalar(l.tv.L[i])
						}
					}
				}
				if ld, isLd := addr.X.(*ssa.UnOp); isLd && ld.Op == token.MUL {
					if g, isG := ld.X.(*ssa.Global); isG {
						tv := globalTVal(g)
						iv, ok := ev.eval(fr, addr.Index, depth+1)
						i, isI := iv.(int64)
						if tv == nil || tv.Kind != "list" || !ok || !isI || i < 0 || int(i) >= len(tv.L) {
							return nil, false
						}
						return tvalScalar(tv.L[i])
					}
					// an element of a list that is itself an element of a literal table (a list of lists)
					if lv, ok := ev.eval(fr, addr.X, depth+1); ok {
						if l, isL := lv.(absList); isL {
							iv, ok := ev.eval(fr, addr.Index, depth+1)
							i, isI := iv.(int64)
							if !ok || !isI {
								return nil, false
							}
							if l.tv == nil || i < 0 || int(i) >= len(l.tv.L) {
								ev.panicked = true
								return nil, false
							}
							return tvalScalar(l.tv.L[i])
						}
					}
				}
				return nil, false
			}
		}
		a, ok := ev.eval(fr, x.X, depth+1)
		if !ok {
			return nil, false
		}
		switch x.Op {
		case token.NOT:
			if b, ok := a.(bool); ok {
				return !b, true
			}
		case token.SUB:
			switch t := a.(type) {
			case int64:
				return -t, true
			case float64:
				return -t, true
			}
		}
		return nil, false
	case *ssa.BinOp:
		if x.Op == token.EQL || x.Op == token.NEQ {
			isNil := func(v ssa.Value) bool {
				k, ok := v.(*ssa.Const)
				return ok && k.Value == nil && !isStringType(k.Type())
			}
			for _, pr := range [][2]ssa.Value{{x.X, x.Y}, {x.Y, x.X}} {
				if isNil(pr[0]) {
					o, ok := ev.eval(fr, pr[1], depth+1)
					ptr, isP := o.(absPtr)
					if !ok || !isP {
						return nil, false
					}
					return ptr.isNil == (x.Op == token.EQL), true
				}
			}
		}
		a, ok1 := ev.eval(fr, x.X, depth+1)
		b, ok2 := ev.eval(fr, x.Y, depth+1)
		if !ok1 || !ok2 {
			return nil, false
		}
		switch l := a.(type) {
		case absOpaque:
			r, ok := b.(absOpaque)
			if !ok || r.kind != l.kind {
				return nil, false
			}
			switch x.Op {
			case token.EQL:
				return l.k == r.k, true
			case token.NEQ:
				return l.k != r.k, true
			}
			return nil, false
		case int64:
			r, ok := b.(int64)
			if !ok {
				return nil, false
			}
			switch x.Op {
			case token.ADD:
				return l + r, true
			case token.SUB:
				return l - r, true
			case token.MUL:
				return l * r, true
			case token.QUO:
				if r == 0 {
					return nil, false
				}
				return l / r, true
			case token.REM:
				if r == 0 {
					return nil, false
				}
				return l % r, true
			case token.LSS:
				return l < r, true
			case token.LEQ:
				return l <= r, true
			case token.GTR:
				return l > r, true
			case token.GEQ:
				return l >= r, true
			case token.EQL:
				return l == r, true
			case token.NEQ:
				return l != r, true
			}
		case float64:
			r, ok := b.(float64)
			if !ok {
				return nil, false
			}
			switch x.Op {
			case token.ADD:
				return l + r, true
			case token.SUB:
				return l - r, true
			case token.MUL:
				return l * r, true
			case token.QUO:
				return l / r, true
			case token.LSS:
				return l < r, true
			case token.LEQ:
				return l <= r, true
			case token.GTR:
				return l > r, true
			case token.GEQ:
				return l >= r, true
			case token.EQL:
				return l == r, true
			case token.NEQ:
				return l != r, true
			}
		case string:
			r, ok := b.(string)
			if !ok {
				return nil, false
			}
			switch x.Op {
			case token.ADD:
				return l + r, true
			case token.LSS:
				return l < r, true
			case token.LEQ:
				return l <= r, true
			case token.GTR:
				return l > r, true
			case token.GEQ:
				return l >= r, true
			case token.EQL:
				return l == r, true
			case token.NEQ:
				return l != r, true
			}
		case bool:
			r, ok := b.(bool)
			if !ok {
				return nil, false
			}
			switch x.Op {
			case token.EQL:
				return l == r, true
			case token.NEQ:
				return l != r, true
			}
		}
		return nil, false
	case *ssa.Index:
		// an element of an array value the walker holds
		if av, ok := ev.eval(fr, x.X, depth+1); ok {
			if arr, isArr := av.(absArray); isArr {
				return ev.getPath(fr, arr, arr.t, []pathStep{{field: -1, index: x.Index}})
			}
		}
		// an element of a local literal array read by value
		if al, ok := localArrayValue(x.X); ok && al.Parent() != nil {
			return ev.localElemOf(fr, al, x.Index, -1, depth)
		}
		// one byte of an evaluated string
		if isStringType(x.X.Type()) {
			sv, ok1 := ev.eval(fr, x.X, depth+1)
			iv, ok2 := ev.eval(fr, x.Index, depth+1)
			str, isS := sv.(string)
			i, isI := iv.(int64)
			if ok1 && ok2 && isS && isI {
				if i < 0 || int(i) >= len(str) {
					ev.panicked = true
					return nil, false
				}
				return int64(str[i]), true
			}
		}
		return nil, false
	case *ssa.Field:
		// a field of a struct value the walker holds
		if sv, ok := ev.eval(fr, x.X, depth+1); ok {
			if st, isSt := sv.(absStruct); isSt {
				return ev.getPath(fr, st, st.t, []pathStep{{field: x.Field}})
			}
		}
		// a field of an element of a local literal array of structs read by value
		if ix, ok := x.X.(*ssa.Index); ok {
			if al, ok := localArrayValue(ix.X); ok && al.Parent() != nil {
				return ev.localElemOf(fr, al, ix.Index, x.Field, depth)
			}
		}
		// a field of an element loaded through its address
		if ld, ok := x.X.(*ssa.UnOp); ok && ld.Op == token.MUL {
			if ia, ok := ld.X.(*ssa.IndexAddr); ok {
				if v, ok := ev.localElem(fr, ia, x.Field, depth); ok {
					return v, true
				}
			}
		}
		return nil, false
	case *ssa.TypeAssert:
		if !x.CommaOk {
			return ev.eval(fr, x.X, depth+1)
		}
		return nil, false
	case *ssa.MakeInterface:
		return ev.eval(fr, x.X, depth+1)
	case *ssa.Slice:
		// a substring s[lo:hi] of an evaluated string (or a sub-slice of its runes or bytes)
		sv, ok := ev.eval(fr, x.X, depth+1)
		if rs, isR := sv.(absRunes); ok && isR {
			runes := []rune(rs.s)
			lo, hi := int64(0), int64(len(runes))
			if x.Low != nil {
				v, ok := ev.eval(fr, x.Low, depth+1)
				k, isI := v.(int64)
				if !ok || !isI {
					return nil, false
				}
				lo = k
			}
			if x.High != nil {
				v, ok := ev.eval(fr, x.High, depth+1)
				k, isI := v.(int64)
				if !ok || !isI {
					return nil, false
				}
				hi = k
			}
			if lo < 0 || hi < lo || hi > int64(len(runes)) {
				ev.panicked = true
				return nil, false
			}
			return absRunes{string(runes[lo:hi])}, true
		}
		if bs, isB := sv.(absBytes); ok && isB {
			sv = bs.s
		}
		str, isS := sv.(string)
		if !ok || !isS {
			return nil, false
		}
		_, asBytes := x.Type().Underlying().(*types.Slice)
		lo, hi := int64(0), int64(len(str))
		if x.Low != nil {
			v, ok := ev.eval(fr, x.Low, depth+1)
			k, isI := v.(int64)
			if !ok || !isI {
				return nil, false
			}
			lo = k
		}
		if x.High != nil {
			v, ok := ev.eval(fr, x.High, depth+1)
			k, isI := v.(int64)
			if !ok || !isI {
				return nil, false
			}
			hi = k
		}
		if lo < 0 || hi < lo || hi > int64(len(str)) {
			ev.panicked = true // slice bounds out of range
			return nil, false
		}
		if asBytes {
			return absBytes{str[lo:hi]}, true
		}
		return str[lo:hi], true
	case *ssa.Call:
		if b, isB := x.Common().Value.(*ssa.Builtin); isB && b.Name() == "len" && len(x.Common().Args) == 1 {
			// the length of a literal package-level table (never written after init: C09 R09.1)
			if ld, isLd := x.Common().Args[0].(*ssa.UnOp); isLd && ld.Op == token.MUL {
				if g, isG := ld.X.(*ssa.Global); isG {
					if tv := globalTVal(g); tv != nil && tv.Kind == "list" {
						return int64(len(tv.L)), true
					}
				}
			}
			if n, ok := localLiteralLen(x.Common().Args[0]); ok {
				return n, true
			}
			// a slice made here with a length that can be evaluated (make([]T, n)), not re-sliced since
			if ofr, ov := fr.origin(x.Common().Args[0]); ov != nil {
				if mk, isMk := ov.(*ssa.MakeSlice); isMk {
					if n, ok := ev.eval(ofr, mk.Len, depth+1); ok {
						if k, isI := n.(int64); isI && k >= 0 {
							return k, true
						}
					}
				}
			}
			if _, isSl := x.Common().Args[0].Type().Underlying().(*types.Slice); isSl {
				// a slice parameter of an inlined helper: the caller's literal, or no variadic arguments at all
				if ofr, ov := fr.origin(x.Common().Args[0]); ofr != fr {
					if k, isK := ov.(*ssa.Const); isK && k.Value == nil {
						return int64(0), true
					}
					if _, isS := ov.(*ssa.Slice); isS {
						if n, ok := localLiteralLen(ov); ok {
							return n, true
						}
					}
				}
			}
			if sv, ok := ev.eval(fr, x.Common().Args[0], depth+1); ok {
				switch t := sv.(type) {
				case string:
					return int64(len(t)), true
				case absRunes:
					return int64(len([]rune(t.s))), true
				case absBytes:
					return int64(len(t.s)), true
				case absList:
					if t.tv == nil {
						return int64(0), true
					}
					return int64(len(t.tv.L)), true
				}
			}
			return nil, false
		}
		callee := x.Common().StaticCallee()
		if callee == nil && !x.Common().IsInvoke() {
			// a call through a variable that holds a function: evaluated to the function, then read as that call
			if fv, ok := ev.eval(fr, x.Common().Value, depth+1); ok {
				if f, isF := fv.(ssa.Value); isF {
					if _, isFn := funcValue(f); isFn {
						cc := *x
						cc.Call.Value = f
						return ev.eval(fr, &cc, depth+1)
					}
				}
			}
			return nil, false
		}
		if callee == nil {
			return nil, false
		}
		switch callee.String() {
		case "strings.ToUpper", "strings.ToLower":
			a, ok := ev.eval(fr, x.Common().Args[0], depth+1)
			as, isA := a.(string)
			if !ok || !isA {
				return nil, false
			}
			if callee.Name() == "ToUpper" {
				return strings.ToUpper(as), true
			}
			return strings.ToLower(as), true
		case "math.Ceil", "math.Floor", "math.Round", "math.Trunc":
			a, ok := ev.eval(fr, x.Common().Args[0], depth+1)
			f, isF := a.(float64)
			if !ok || !isF {
				return nil, false
			}
			switch callee.Name() {
			case "Ceil":
				return math.Ceil(f), true
			case "Round":
				return math.Round(f), true
			case "Trunc":
				return math.Trunc(f), true
			}
			return math.Floor(f), true
		case "strconv.FormatInt":
			if len(x.Common().Args) == 2 {
				a, ok1 := ev.eval(fr, x.Common().Args[0], depth+1)
				b, ok2 := ev.eval(fr, x.Common().Args[1], depth+1)
				k, isK := a.(int64)
				base, isB := b.(int64)
				if ok1 && ok2 && isK && isB && base >= 2 && base <= 36 {
					return strconv.FormatInt(k, int(base)), true
				}
			}
			return nil, false
		case "strings.Join":
			if len(x.Common().Args) == 2 {
				sep, ok := ev.eval(fr, x.Common().Args[1], depth+1)
				seps, isS := sep.(string)
				al, isLit := localArrayOf(x.Common().Args[0])
				if ok && isS && isLit && al.Parent() != nil {
					n := al.Type().Underlying().(*types.Pointer).Elem().Underlying().(*types.Array).Len()
					var parts []string
					for i := int64(0); i < n; i++ {
						v, ok := ev.localElemOf(fr, al, ssa.NewConst(constant.MakeInt64(i), types.Typ[types.Int]), -1, depth)
						str, isStr := v.(string)
						if !ok || !isStr {
							return nil, false
						}
						parts = append(parts, str)
					}
					return strings.Join(parts, seps), true
				}
			}
			return nil, false
		case "strings.Repeat":
			if len(x.Common().Args) == 2 {
				a, ok1 := ev.eval(fr, x.Common().Args[0], depth+1)
				b, ok2 := ev.eval(fr, x.Common().Args[1], depth+1)
				str, isS := a.(string)
				k, isK := b.(int64)
				if ok1 && ok2 && isS && isK && k >= 0 && k < 1000 {
					return strings.Repeat(str, int(k)), true
				}
			}
			return nil, false
		case "strconv.Itoa":
			a, ok := ev.eval(fr, x.Common().Args[0], depth+1)
			k, isI := a.(int64)
			if !ok || !isI {
				return nil, false
			}
			return fmt.Sprintf("%d", k), true
		case "strings.Replace":
			if len(x.Common().Args) == 4 {
				a, ok1 := ev.eval(fr, x.Common().Args[0], depth+1)
				b, ok2 := ev.eval(fr, x.Common().Args[1], depth+1)
				cc, ok3 := ev.eval(fr, x.Common().Args[2], depth+1)
				n, ok4 := ev.eval(fr, x.Common().Args[3], depth+1)
				as, isA := a.(string)
				bs, isB := b.(string)
				cs, isC := cc.(string)
				ni, isN := n.(int64)
				if ok1 && ok2 && ok3 && ok4 && isA && isB && isC && isN {
					return strings.Replace(as, bs, cs, int(ni)), true
				}
			}
			return nil, false
		case "strings.Contains", "strings.Index", "strings.LastIndex", "strings.HasPrefix", "strings.HasSuffix":
			a, ok1 := ev.eval(fr, x.Common().Args[0], depth+1)
			b, ok2 := ev.eval(fr, x.Common().Args[1], depth+1)
			as, isA := a.(string)
			bs, isB := b.(string)
			if !ok1 || !ok2 || !isA || !isB {
				return nil, false
			}
			switch callee.Name() {
			case "Contains":
				return strings.Contains(as, bs), true
			case "Index":
				return int64(strings.Index(as, bs)), true
			case "LastIndex":
				return int64(strings.LastIndex(as, bs)), true
			case "HasPrefix":
				return strings.HasPrefix(as, bs), true
			}
			return strings.HasSuffix(as, bs), true
		case "strings.Compare":
			a, ok1 := ev.eval(fr, x.Common().Args[0], depth+1)
			b, ok2 := ev.eval(fr, x.Common().Args[1], depth+1)
			as, isA := a.(string)
			bs, isB := b.(string)
			if !ok1 || !ok2 || !isA || !isB {
				return nil, false
			}
			return int64(strings.Compare(as, bs)), true
		case "fmt.Sprintf":
			f, ok := constString(x.Common().Args[0])
			if !ok {
				return nil, false
			}
			var args []interface{}
			for _, a := range sprintfArgs(x) {
				v, ok := ev.eval(fr, a, depth+1)
				if !ok {
					return nil, false
				}
				args = append(args, v)
			}
			return fmt.Sprintf(f, args...), true
		}
		if ev.inline != nil && callee.Blocks != nil && ev.inline(callee) {
			res, outcome := ev.runCallee(callee, fr, x)
			if outcome == "return" && len(res) == 1 {
				return res[0], true
			}
			if outcome == "panic" {
				ev.panicked = true
			}
			return nil, false
		}
	}
	return nil, false
}

// run walks a loop-free region: from block start (the entry block when nil) it follows the branch
// each condition evaluates to, until a Return ("return", with the evaluated results), a Panic
// ("panic"), a block for which stop returns true ("stop:<index>") or a failure ("fail", with
// ev.fail set: a condition that cannot be evaluated, or a block visited twice).
func (ev *evaluator) run(fn *ssa.Function, parent *evalFrame, call *ssa.Call, start *ssa.BasicBlock, stop func(b *ssa.BasicBlock) bool) ([]interface{}, string) {
	fr := &evalFrame{fn: fn, parent: parent, call: call, phiFrom: map[*ssa.BasicBlock]*ssa.BasicBlock{}}
	if start == nil && stop == nil {
		// a whole function with one loop whose carried values are scalars is read as a table over the
		// iteration number (runCounted); anything else with a loop fails as before
		if h, _ := loopHeaderOf(fn); h != nil && h != fn.Blocks[0] {
			budget := ev.counted
			if budget <= 0 {
				budget = 512
			}
			return ev.runCountedFrame(fr, budget)
		}
	}
	return ev.runFrame(fr, start, stop)
}

func (ev *evaluator) runFrame(fr *evalFrame, start *ssa.BasicBlock, stop func(b *ssa.BasicBlock) bool) ([]interface{}, string) {
	b := start
	if b == nil {
		b = fr.fn.Blocks[0]
	}
	seen := map[*ssa.BasicBlock]bool{}
	first := true
	for {
		ev.steps++
		if !first && stop != nil && stop(b) {
			return nil, fmt.Sprintf("stop:%d", b.Index)
		}
		first = false
		if seen[b] || ev.steps > 100000 {
			ev.setFail("the region is not loop-free at block " + fmt.Sprint(b.Index) + " of " + fname(fr.fn))
			return nil, "fail"
		}
		seen[b] = true
		for _, ins := range b.Instrs {
			switch x := ins.(type) {
			case *ssa.UnOp:
				if x.Op == token.MUL {
					if _, isField := x.X.(*ssa.FieldAddr); isField {
						if fr.vals == nil {
							fr.vals = map[ssa.Value]interface{}{}
						}
						delete(fr.vals, x) // what an earlier pass of a loop saw here
						if v, ok := ev.eval(fr, x, 0); ok {
							fr.vals[x] = v
						} else {
							fr.vals[x] = unknownValue{}
						}
					} else if _, isGlobal := x.X.(*ssa.Global); isGlobal && ev.globals != nil {
						// a package-level variable the walk may store to: read where the load stands
						if fr.vals == nil {
							fr.vals = map[ssa.Value]interface{}{}
						}
						delete(fr.vals, x)
						if v, ok := ev.eval(fr, x, 0); ok {
							fr.vals[x] = v
						}
					}
				}
			case *ssa.Alloc:
				// a variable declared inside a loop is a new, zero object every time the walk passes its declaration
				for k := range fr.mem {
					if k.base == ssa.Value(x) {
						delete(fr.mem, k)
					}
				}
			case *ssa.Call:
				// a call that changes a variable of this activation (a function literal over a captured variable, a helper
				// handed a pointer to a local): followed here, once; later uses read what it returned
				{
					target := x.Common().StaticCallee()
					if target == nil && !x.Common().IsInvoke() {
						if fv, ok := ev.eval(fr, x.Common().Value, 0); ok {
							if f, isF := fv.(ssa.Value); isF {
								if fn2, isFn := funcValue(f); isFn {
									switch t := fn2.(type) {
									case *ssa.Function:
										target = t
									case *ssa.MakeClosure:
										target, _ = t.Fn.(*ssa.Function)
									}
								}
							}
						}
					}
					if writesOutside(target) && ev.inline != nil && ev.inline(target) {
						if fr.vals == nil {
							fr.vals = map[ssa.Value]interface{}{}
						}
						delete(fr.vals, x)
						if target.Signature.Results().Len() == 0 {
							cc := x
							if x.Common().StaticCallee() == nil {
								if fv, ok := ev.eval(fr, x.Common().Value, 0); ok {
									if f, isF := fv.(ssa.Value); isF {
										cp := *x
										cp.Call.Value = f
										cc = &cp
									}
								}
							}
							if _, outcome := ev.runCallee(target, fr, cc); outcome == "panic" {
								return nil, "panic"
							} else if outcome != "return" {
								ev.setFail("statement call not walkable: " + fname(target))
								return nil, "fail"
							}
							break
						}
						if v, ok := ev.eval(fr, x, 0); ok {
							fr.vals[x] = v
						} else {
							fr.vals[x] = unknownValue{}
						}
						break
					}
				}
				if ev.visit == nil {
					// a statement call of a helper that can panic (a validation helper) is walked for that outcome
					callee := x.Common().StaticCallee()
					if refs := x.Referrers(); callee != nil && (refs == nil || len(*refs) == 0) && ev.inline != nil && callee.Blocks != nil && ev.inline(callee) && hasPanicBlock(callee) {
						if _, handled := ev.leaf(fr, x); !handled {
							if _, outcome := ev.runCallee(callee, fr, x); outcome == "panic" {
								return nil, "panic"
							} else if outcome != "return" {
								ev.setFail("statement call not walkable: " + fname(callee))
								return nil, "fail"
							}
						}
					}
				}
				if ev.visit == nil && ev.globals != nil {
					// the walk's stores to package-level variables are followed: so are the helpers called for them
					callee := x.Common().StaticCallee()
					if refs := x.Referrers(); callee != nil && (refs == nil || len(*refs) == 0) && ev.inline != nil && callee.Blocks != nil && ev.inline(callee) && !hasPanicBlock(callee) {
						if _, handled := ev.leaf(fr, x); !handled {
							if _, outcome := ev.runCallee(callee, fr, x); outcome == "panic" {
								return nil, "panic"
							} else if outcome != "return" {
								ev.setFail("statement call not walkable: " + fname(callee))
								return nil, "fail"
							}
						}
					}
				}
				if ev.visit != nil {
					ev.visit(fr, x)
					callee := x.Common().StaticCallee()
					if refs := x.Referrers(); callee != nil && (refs == nil || len(*refs) == 0) && ev.inline != nil && callee.Blocks != nil && ev.inline(callee) {
						if _, handled := ev.leaf(fr, x); !handled {
							if _, outcome := ev.runCallee(callee, fr, x); outcome == "panic" {
								return nil, "panic"
							} else if outcome != "return" {
								ev.setFail("statement call not walkable: " + fname(callee))
								return nil, "fail"
							}
						}
					}
				}
			case *ssa.MapUpdate:
				if ev.onMapUpdate != nil {
					k, ok1 := ev.eval(fr, x.Key, 0)
					v, ok2 := ev.eval(fr, x.Value, 0)
					ev.onMapUpdate(fr, x, k, v, ok1 && ok2)
				}
			case *ssa.Store:
				if ev.onStore != nil {
					sv, sok := ev.eval(fr, x.Val, 0)
					ev.onStore(fr, x, sv, sok)
				}
				if g, isGlobal := x.Addr.(*ssa.Global); isGlobal && ev.globals != nil {
					if v, ok := ev.eval(fr, x.Val, 0); ok {
						ev.globals[g] = v
					} else {
						ev.globals[g] = unknownValue{}
					}
				}
				if fa, isField := x.Addr.(*ssa.FieldAddr); isField {
					if fr.mem == nil {
						fr.mem = map[memKey]interface{}{}
					}
					if v, ok := ev.eval(fr, x.Val, 0); ok {
						fr.mem[memKey{fr.memBase(fa.X), fa.Field}] = v
					} else {
						fr.mem[memKey{fr.memBase(fa.X), fa.Field}] = unknownValue{}
					}
				}
				// a variable of a calling activation, reached through a captured variable or a pointer argument
				if _, isAl := x.Addr.(*ssa.Alloc); !isAl {
					if ofr, al, ok := ev.cellOf(fr, x.Addr, 0); ok && ofr != fr {
						v, okv := ev.eval(fr, x.Val, 0)
						if !okv {
							v = unknownValue{}
						}
						if ofr.mem == nil {
							ofr.mem = map[memKey]interface{}{}
						}
						ofr.mem[memKey{al, cellField}] = v
					}
				}
				// a local variable that lives in memory, or a part of a local struct or array
				if al, steps := localPath(x.Addr); al != nil && (len(steps) > 0 || true) {
					if _, isField := x.Addr.(*ssa.FieldAddr); !isField || len(steps) > 0 {
						if fr.mem == nil {
							fr.mem = map[memKey]interface{}{}
						}
						key := memKey{al, cellField}
						v, ok := ev.eval(fr, x.Val, 0)
						if !ok {
							v = unknownValue{}
						}
						if _, bad := fr.mem[key].(unknownValue); bad && len(steps) > 0 {
							// a part of something unknown stays unknown
						} else if nv, ok := ev.setPath(fr, fr.mem[key], al.Type().Underlying().(*types.Pointer).Elem(), steps, v); ok {
							fr.mem[key] = nv
						} else {
							if os.Getenv("LUNARLINT_DEBUG_MEM") != "" {
								fmt.Fprintf(os.Stderr, "setPath failed in %s: %s (value %v)\n", fname(fr.fn), x.String(), v)
							}
							fr.mem[key] = unknownValue{}
						}
					}
				}
			}
			// a variable of a calling activation is read where the load stands, too
			if ld, ok := ins.(*ssa.UnOp); ok && ld.Op == token.MUL {
				if _, isAl := ld.X.(*ssa.Alloc); !isAl {
					if ofr, al, ok := ev.cellOf(fr, ld.X, 0); ok && ofr != fr && ofr.mem != nil {
						if cur, has := ofr.mem[memKey{al, cellField}]; has {
							if fr.vals == nil {
								fr.vals = map[ssa.Value]interface{}{}
							}
							fr.vals[ld] = cur
						}
					}
				}
			}
			// a local is read where the load stands, not where its value is used
			if ld, ok := ins.(*ssa.UnOp); ok && ld.Op == token.MUL && fr.mem != nil {
				if al, steps := localPath(ld.X); al != nil {
					if cur, ok := fr.mem[memKey{al, cellField}]; ok {
						if fr.vals == nil {
							fr.vals = map[ssa.Value]interface{}{}
						}
						if v, ok := ev.getPath(fr, cur, al.Type().Underlying().(*types.Pointer).Elem(), steps); ok {
							fr.vals[ld] = v
						} else if _, isField := ld.X.(*ssa.FieldAddr); !isField {
							fr.vals[ld] = unknownValue{}
						}
					}
				}
			}
			// text accumulated in a local strings.Builder
			if call, ok := ins.(*ssa.Call); ok {
				if callee := call.Common().StaticCallee(); callee != nil && recvIsBuilder(callee) && len(call.Common().Args) > 0 {
					if al, isLocal := call.Common().Args[0].(*ssa.Alloc); isLocal {
						if fr.mem == nil {
							fr.mem = map[memKey]interface{}{}
						}
						cur, _ := fr.mem[memKey{al, builderField}].(string)
						switch callee.Name() {
						case "WriteString":
							if v, ok := ev.eval(fr, call.Common().Args[1], 0); ok {
								if str, isS := v.(string); isS {
									fr.mem[memKey{al, builderField}] = cur + str
									break
								}
							}
							fr.mem[memKey{al, builderField}] = unknownValue{}
						case "WriteByte", "WriteRune":
							if v, ok := ev.eval(fr, call.Common().Args[1], 0); ok {
								if k, isI := v.(int64); isI {
									fr.mem[memKey{al, builderField}] = cur + string(rune(k))
									break
								}
							}
							fr.mem[memKey{al, builderField}] = unknownValue{}
						case "String":
							if fr.vals == nil {
								fr.vals = map[ssa.Value]interface{}{}
							}
							if _, bad := fr.mem[memKey{al, builderField}].(unknownValue); bad {
								fr.vals[call] = unknownValue{}
							} else {
								fr.vals[call] = cur
							}
						case "Len":
							if fr.vals == nil {
								fr.vals = map[ssa.Value]interface{}{}
							}
							fr.vals[call] = int64(len(cur))
						case "Grow", "Reset":
							if callee.Name() == "Reset" {
								fr.mem[memKey{al, builderField}] = ""
							}
						}
					}
				}
			}
		}
		switch last := b.Instrs[len(b.Instrs)-1].(type) {
		case *ssa.Return:
			var out []interface{}
			for _, res := range last.Results {
				v, ok := ev.eval(fr, res, 0)
				if !ok && ev.panicked {
					return nil, "panic"
				}
				if !ok && ev.effectsOnly && fr.parent == nil {
					v = unknownValue{} // the caller looks at what the walk did, not at what it returns
				} else if !ok {
					ev.setFail("returned value not evaluable in " + fname(fr.fn) + ": " + res.String())
					return nil, "fail"
				}
				out = append(out, v)
			}
			return out, "return"
		case *ssa.Panic:
			return nil, "panic"
		case *ssa.If:
			v, ok := ev.eval(fr, last.Cond, 0)
			t, isB := v.(bool)
			if !ok && ev.panicked {
				return nil, "panic"
			}
			if !ok || !isB {
				detail := ev.whyNot(fr, last.Cond, 0)
				ev.setFail("branch condition not evaluable in " + fname(fr.fn) + ": " + last.Cond.String() + detail)
				return nil, "fail"
			}
			next := b.Succs[1]
			if t {
				next = b.Succs[0]
			}
			fr.phiFrom[next] = b
			b = next
		case *ssa.Jump:
			fr.phiFrom[b.Succs[0]] = b
			b = b.Succs[0]
		default:
			ev.setFail("unsupported block terminator in " + fname(fr.fn))
			return nil, "fail"
		}
	}
}

func (ev *evaluator) setFail(msg string) {
	if ev.fail == "" {
		ev.fail = msg
	}
}

func globalTVal(g *ssa.Global) *TVal {
	c := ctxByProg[g.Pkg.Prog]
	if c == nil {
		return nil
	}
	tv, err := c.tables.Var(g.Pkg.Pkg.Name(), g.Name())
	if err != nil {
		return nil
	}
	return tv
}

func tvalScalar(tv *TVal) (interface{}, bool) {
	switch tv.Kind {
	case "int":
		return tv.I, true
	case "str":
		return tv.S, true
	case "float":
		return tv.F, true
	case "bool":
		return tv.B, true
	case "list":
		return absList{tv}, true
	}
	return nil, false
}

func zeroOf(t types.Type) (interface{}, bool) {
	switch {
	case isIntType(t):
		return int64(0), true
	case isFloatType(t):
		return float64(0), true
	case isStringType(t):
		return "", true
	}
	if b, ok := t.Underlying().(*types.Basic); ok && b.Kind() == types.Bool {
		return false, true
	}
	if _, ok := t.Underlying().(*types.Slice); ok {
		return absList{nil}, true
	}
	return nil, false
}

// tableLookup folds m[key] for a literal package-level map with string or integer keys.
func (ev *evaluator) tableLookup(fr *evalFrame, lk *ssa.Lookup, depth int) (tv *TVal, found bool, ok bool) {
	ld, isLd := lk.X.(*ssa.UnOp)
	if !isLd || ld.Op != token.MUL {
		return nil, false, false
	}
	g, isG := ld.X.(*ssa.Global)
	if !isG {
		return nil, false, false
	}
	m := globalTVal(g)
	kv, okk := ev.eval(fr, lk.Index, depth+1)
	if m == nil || m.Kind != "map" || !okk {
		return nil, false, false
	}
	key := fmt.Sprint(kv)
	e, has := m.M[key]
	return e, has, true
}

// feasiblePaths returns the paths all of whose branch conditions evaluate to their polarity.
func feasiblePaths(paths []cfgPath, leaf leafFn) ([]*cfgPath, string) {
	var out []*cfgPath
	for i := range paths {
		p := &paths[i]
		ok := true
		for _, pc := range p.conds {
			v, known := evalSSA(p, pc.cond, leaf, 0)
			b, isB := v.(bool)
			if !known || !isB {
				return nil, "branch condition not evaluable: " + pc.cond.String()
			}
			if b != pc.truth {
				ok = false
				break
			}
		}
		if ok {
			out = append(out, p)
		}
	}
	return out, ""
}

// consistentPaths returns the paths none of whose evaluable branch conditions contradicts
// its polarity; conditions the evaluator cannot decide (a map's comma-ok, a nil test) leave
// both successors open. undecided counts the conditions left open.
func consistentPaths(paths []cfgPath, leaf leafFn) (out []*cfgPath, undecided int) {
	for i := range paths {
		p := &paths[i]
		ok := true
		for _, pc := range p.conds {
			v, known := evalSSA(p, pc.cond, leaf, 0)
			b, isB := v.(bool)
			if !known || !isB {
				undecided++
				continue
			}
			if b != pc.truth {
				ok = false
				break
			}
		}
		if ok {
			out = append(out, p)
		}
	}
	return
}

func (p *cfgPath) passes(b *ssa.BasicBlock) bool {
	for _, x := range p.blocks {
		if x == b {
			return true
		}
	}
	return false
}

// keyPart is one piece of a composed string key: a literal, or an integer value printed in decimal.
type keyPart struct {
	lit   string
	val   ssa.Value
	width int
	zero  bool
}

// keyTemplate reads how a string is composed: fmt.Sprintf with %d/%v verbs on integers,
// strconv.Itoa, string constants and concatenation. ok=false when some piece is none of these.
func keyTemplate(v ssa.Value, depth int) (parts []keyPart, ok bool) {
	if depth > 8 {
		return nil, false
	}
	add := func(ps ...keyPart) {
		for _, p := range ps {
			if p.val == nil && len(parts) > 0 && parts[len(parts)-1].val == nil {
				parts[len(parts)-1].lit += p.lit
				continue
			}
			if p.val == nil && p.lit == "" {
				continue
			}
			parts = append(parts, p)
		}
	}
	switch x := v.(type) {
	case *ssa.Const:
		s, isS := constString(x)
		if !isS {
			return nil, false
		}
		add(keyPart{lit: s})
		return parts, true
	case *ssa.BinOp:
		if x.Op != token.ADD || !isStringType(x.Type()) {
			return nil, false
		}
		l, ok1 := keyTemplate(x.X, depth+1)
		r, ok2 := keyTemplate(x.Y, depth+1)
		if !ok1 || !ok2 {
			return nil, false
		}
		add(l...)
		add(r...)
		return parts, true
	case *ssa.Call:
		callee := x.Common().StaticCallee()
		if callee == nil {
			return nil, false
		}
		if callee.String() == "strconv.Itoa" {
			add(keyPart{val: x.Common().Args[0]})
			return parts, true
		}
		if _, f, args, isS := sprintfCall(x); isS {
			verbs, lits := parseFormat(f)
			if len(verbs) != len(args) {
				return nil, false
			}
			for i, vb := range verbs {
				add(keyPart{lit: lits[i]})
				if (vb.verb != 'd' && vb.verb != 'v') || !isIntType(unwrapIface(args[i]).Type()) {
					return nil, false
				}
				add(keyPart{val: unwrapIface(args[i]), width: vb.width, zero: vb.zero})
			}
			add(keyPart{lit: lits[len(lits)-1]})
			return parts, true
		}
	}
	return nil, false
}

func unwrapIface(v ssa.Value) ssa.Value {
	if mi, ok := v.(*ssa.MakeInterface); ok {
		return mi.X
	}
	return v
}

// templateString prints a key template with each integer part described by describe.
func templateString(parts []keyPart, describe func(ssa.Value) string) string {
	var sb strings.Builder
	for _, p := range parts {
		if p.val == nil {
			sb.WriteString(p.lit)
			continue
		}
		sb.WriteString("{" + describe(p.val))
		if p.width > 0 {
			if p.zero {
				sb.WriteString(fmt.Sprintf(":0%d", p.width))
			} else {
				sb.WriteString(fmt.Sprintf(":%d", p.width))
			}
		}
		sb.WriteString("}")
	}
	return sb.String()
}

// mapLookups lists the map lookups in fn on the package-level map pkg.name.
func mapLookups(fn *ssa.Function, table string) []*ssa.Lookup {
	var out []*ssa.Lookup
	for _, b := range fn.Blocks {
		for _, ins := range b.Instrs {
			if lk, ok := ins.(*ssa.Lookup); ok && isLoadOfTable(lk.X, table) {
				out = append(out, lk)
			}
		}
	}
	return out
}

// runCounted reads a function that contains exactly one loop as a table over the iteration number: the
// part before the loop is walked as usual; then, for n = 0, 1, 2, ..., the loop body is walked with
// the loop-carried values of iteration n, which are integers and strings (an index, a remaining
// suffix of a table, a counter) computed from the carried values of iteration n-1 by the expressions
// on the back edge — until an iteration returns, the exit path returns, or the budget is exhausted.
// Nothing but those scalars is carried over (no heap state: the walker's field memory and its visit
// hook are the only effects seen). This is partial evaluation of a pure scan, used only by rules whose
// inputs are literal tables of the source or small finite domains enumerated completely. Outcomes as
// for run; "fail" when a carried value is of another kind or cannot be evaluated.
func (ev *evaluator) runCounted(fn *ssa.Function, maxIter int) ([]interface{}, string) {
	return ev.runCountedFrame(&evalFrame{fn: fn, phiFrom: map[*ssa.BasicBlock]*ssa.BasicBlock{}}, maxIter)
}

func loopHeaderOf(fn *ssa.Function) (header *ssa.BasicBlock, many bool) {
	for _, b := range fn.Blocks {
		for _, p := range b.Preds {
			if b.Dominates(p) {
				if header != nil && header != b {
					return header, true
				}
				header = b
			}
		}
	}
	return header, false
}

func (ev *evaluator) runCountedFrame(fr0 *evalFrame, maxIter int) ([]interface{}, string) {
	fn := fr0.fn
	headers := map[*ssa.BasicBlock]bool{}
	for _, b := range fn.Blocks {
		for _, p := range b.Preds {
			if b.Dominates(p) {
				headers[b] = true
			}
		}
	}
	if len(headers) == 0 {
		return ev.runFrame(fr0, nil, nil)
	}
	if headers[fn.Blocks[0]] {
		ev.setFail("a loop of " + fname(fn) + " starts at the entry")
		return nil, "fail"
	}
	atHeader := func(outcome string) *ssa.BasicBlock {
		var idx int
		if _, err := fmt.Sscanf(outcome, "stop:%d", &idx); err == nil && idx >= 0 && idx < len(fn.Blocks) && headers[fn.Blocks[idx]] {
			return fn.Blocks[idx]
		}
		return nil
	}
	scalar := func(v interface{}) bool {
		// any value the evaluator or a rule's leaves produce can be carried round a loop (they are values, copied as
		// such); what is not known cannot
		switch v.(type) {
		case nil, unknownValue:
			return false
		}
		return true
	}
	stopAtHeader := func(b *ssa.BasicBlock) bool { return headers[b] }
	// the part before the first loop
	res, outcome := ev.runFrame(fr0, nil, stopAtHeader)
	cur := fr0
	header := atHeader(outcome)
	if header == nil {
		return res, outcome
	}
	budget := maxIter
	var iter func(cur *evalFrame, header *ssa.BasicBlock, depth int) ([]interface{}, string, *evalFrame, *ssa.BasicBlock)
	iter = func(cur *evalFrame, header *ssa.BasicBlock, depth int) ([]interface{}, string, *evalFrame, *ssa.BasicBlock) {
		// iterate the loop at header, entered with the frame cur (whose phiFrom[header] is the entry edge)
		var phis []*ssa.Phi
		for _, ins := range header.Instrs {
			phi, ok := ins.(*ssa.Phi)
			if !ok {
				break
			}
			phis = append(phis, phi)
		}
		state := map[*ssa.Phi]interface{}{}
		for _, phi := range phis {
			c0, ok := ev.eval(cur, phi, 0)
			if !ok || !scalar(c0) {
				ev.setFail("the entry value of a loop-carried value of " + fname(fn) + " is not an evaluable scalar")
				return nil, "fail", nil, nil
			}
			state[phi] = c0
		}
		body := loopBlocks(header)
		carried := cur.mem
		for n := 0; ; n++ {
			if budget--; budget < 0 {
				ev.setFail("a loop of " + fname(fn) + " does not end within the iteration budget")
				return nil, "fail", nil, nil
			}
			fr := &evalFrame{fn: fn, parent: cur.parent, call: cur.call, phiFrom: map[*ssa.BasicBlock]*ssa.BasicBlock{}, vals: map[ssa.Value]interface{}{}}
			for k, p := range cur.phiFrom {
				if k != header {
					fr.phiFrom[k] = p
				}
			}
			for k, x := range cur.vals {
				fr.vals[k] = x
			}
			if carried != nil {
				fr.mem = map[memKey]interface{}{}
				for k, x := range carried {
					fr.mem[k] = x
				}
			}
			for phi, v := range state {
				fr.vals[phi] = v
			}
			// a range over a string yields its n-th rune in iteration n
			for _, ins := range header.Instrs {
				nx, ok := ins.(*ssa.Next)
				if !ok || !nx.IsString {
					continue
				}
				rg, ok := nx.Iter.(*ssa.Range)
				if !ok {
					continue
				}
				sv, ok := ev.eval(cur, rg.X, 0)
				str, isS := sv.(string)
				if !ok || !isS {
					ev.setFail("the string ranged over in " + fname(fn) + " is not evaluable")
					return nil, "fail", nil, nil
				}
				i := 0
				tuple := []interface{}{false, int64(0), int64(0)}
				for pos, rn := range str {
					if i == n {
						tuple = []interface{}{true, int64(pos), int64(rn)}
						break
					}
					i++
				}
				fr.vals[nx] = tuple
			}
			res, outcome := ev.runFrame(fr, header, stopAtHeader)
			h2 := atHeader(outcome)
			if h2 == nil {
				return res, outcome, nil, nil
			}
			// a loop inside this one, met during this iteration: iterated in its turn, the walk of this iteration
			// goes on from where it is left
			for h2 != header && body[h2] {
				if depth > 3 {
					ev.setFail("loops nested too deeply in " + fname(fn))
					return nil, "fail", nil, nil
				}
				r2, o2, f2, h3 := iter(fr, h2, depth+1)
				if h3 == nil {
					return r2, o2, nil, nil
				}
				fr, h2 = f2, h3
			}
			if h2 != header {
				return nil, "", fr, h2 // the loop was left and the walk reached the next loop
			}
			carried = fr.mem // local variables, builders and fields written so far
			latch := fr.phiFrom[header]
			delete(fr.phiFrom, header)
			idx := -1
			for i, p := range header.Preds {
				if p == latch {
					idx = i
				}
			}
			if idx < 0 {
				ev.setFail("the back edge of a loop of " + fname(fn) + " was not found")
				return nil, "fail", nil, nil
			}
			nextState := map[*ssa.Phi]interface{}{}
			for _, phi := range phis {
				v, ok := ev.eval(fr, phi.Edges[idx], 0)
				if !ok && ev.panicked {
					return nil, "panic", nil, nil
				}
				if !ok || !scalar(v) {
					ev.setFail("a loop-carried value of " + fname(fn) + " is not an evaluable scalar")
					return nil, "fail", nil, nil
				}
				nextState[phi] = v
			}
			state = nextState
		}
	}
	for header != nil {
		var r2 []interface{}
		var o2 string
		r2, o2, cur, header = iter(cur, header, 0)
		if header == nil {
			return r2, o2
		}
	}
	return nil, "fail"
}

// whyNot: the innermost operands of v that cannot be evaluated (for the text of a "not followed" report).
func (ev *evaluator) whyNot(fr *evalFrame, v ssa.Value, depth int) string {
	if _, ok := ev.eval(fr, v, 0); ok || depth > 4 {
		return ""
	}
	out := ""
	if bo, isBin := v.(*ssa.BinOp); isBin {
		out = ev.whyNot(fr, bo.X, depth+1) + ev.whyNot(fr, bo.Y, depth+1)
	}
	// an argument of an inlined helper: what the caller handed over; an element: the aggregate; a part of a lookup: the lookup
	switch x := v.(type) {
	case *ssa.Parameter:
		if fr.parent != nil && fr.call != nil {
			for i, q := range fr.fn.Params {
				if q == x && i < len(fr.call.Common().Args) {
					out = ev.whyNot(fr.parent, fr.call.Common().Args[i], depth+1)
				}
			}
		}
	case *ssa.Index:
		out = ev.whyNot(fr, x.X, depth+1)
	case *ssa.Extract:
		if lk, isL := x.Tuple.(*ssa.Lookup); isL {
			out = ev.whyNot(fr, lk.Index, depth+1)
		}
	case *ssa.Phi:
		for _, e := range x.Edges {
			if w := ev.whyNot(fr, e, depth+1); w != "" {
				out = w
				break
			}
		}
	}
	if out == "" {
		out = " [" + v.Name() + " = " + v.String() + " is not evaluable]"
	}
	return out
}

// runCallee reads an inlined library callee: loop-free ones by the walker, and (when ev.counted is set)
// those with one closed-form loop as a table over the iteration number.
// cellOf: the scalar local variable an address stands for — a cell of this activation, or of a calling one when the
// address came in as a captured variable of a function literal or as a pointer argument.
func (ev *evaluator) cellOf(fr *evalFrame, addr ssa.Value, depth int) (*evalFrame, *ssa.Alloc, bool) {
	if depth > 4 || fr == nil {
		return nil, nil, false
	}
	switch x := addr.(type) {
	case *ssa.Alloc:
		if isAggregate(x) {
			return nil, nil, false
		}
		return fr, x, true
	case *ssa.FreeVar:
		if fr.call != nil && fr.parent != nil {
			if mc, ok := fr.call.Common().Value.(*ssa.MakeClosure); ok {
				for i, fv := range fr.fn.FreeVars {
					if fv == x && i < len(mc.Bindings) {
						return ev.cellOf(fr.parent, mc.Bindings[i], depth+1)
					}
				}
			}
		}
	case *ssa.Parameter:
		if _, isPtr := x.Type().Underlying().(*types.Pointer); isPtr && fr.call != nil && fr.parent != nil {
			for i, q := range fr.fn.Params {
				if q == x && i < len(fr.call.Common().Args) {
					return ev.cellOf(fr.parent, fr.call.Common().Args[i], depth+1)
				}
			}
		}
	}
	return nil, nil, false
}

// writesOutside: a function literal or unexported helper that stores through a captured variable or a pointer
// parameter: calling it changes a variable of its caller, so its calls are followed where they stand, once.
func writesOutside(fn *ssa.Function) bool {
	if fn == nil || fn.Blocks == nil || !isLocalHelper(fn) {
		return false
	}
	for _, b := range fn.Blocks {
		for _, ins := range b.Instrs {
			if st, ok := ins.(*ssa.Store); ok {
				switch a := st.Addr.(type) {
				case *ssa.FreeVar:
					return true
				case *ssa.Parameter:
					if _, isPtr := a.Type().Underlying().(*types.Pointer); isPtr {
						return true
					}
				}
			}
		}
	}
	return false
}

func (ev *evaluator) runCallee(callee *ssa.Function, fr *evalFrame, call *ssa.Call) ([]interface{}, string) {
	return ev.run(callee, fr, call, nil, nil)
}

// localArrayOf: v is a local array written as a literal, or a slice of one ([]T{...} is `new [N]T` sliced whole).
// wholeSlice: a[:] or a[0:len(a)] of an array (what make([]T, const) compiles to).
func wholeSlice(sl *ssa.Slice) bool {
	if sl.Max != nil {
		return false
	}
	if sl.Low != nil {
		if k, ok := constInt(sl.Low); !ok || k != 0 {
			return false
		}
	}
	if sl.High != nil {
		pt, ok := sl.X.Type().Underlying().(*types.Pointer)
		if !ok {
			return false
		}
		at, ok := pt.Elem().Underlying().(*types.Array)
		if !ok {
			return false
		}
		if k, ok := constInt(sl.High); !ok || k != at.Len() {
			return false
		}
	}
	return true
}

func localArrayOf(v ssa.Value) (*ssa.Alloc, bool) {
	if sl, ok := v.(*ssa.Slice); ok && wholeSlice(sl) {
		v = sl.X
	}
	al, ok := v.(*ssa.Alloc)
	if !ok {
		return nil, false
	}
	if _, isArr := al.Type().Underlying().(*types.Pointer).Elem().Underlying().(*types.Array); !isArr {
		return nil, false
	}
	return al, true
}

func localLiteralLen(v ssa.Value) (int64, bool) {
	if al, ok := localArrayValue(v); ok {
		return al.Type().Underlying().(*types.Pointer).Elem().Underlying().(*types.Array).Len(), true
	}
	if at, ok := v.Type().Underlying().(*types.Array); ok {
		return at.Len(), true
	}
	if al, ok := localArrayOf(v); ok {
		return al.Type().Underlying().(*types.Pointer).Elem().Underlying().(*types.Array).Len(), true
	}
	return 0, false
}

// localElem: the value stored into element [index] (field `field`, or the whole element when field < 0) of a
// local literal table: the one store to that place with a constant index, found in the function's own code.
// Elements the literal does not mention hold the zero value.
func (ev *evaluator) localElem(fr *evalFrame, ia *ssa.IndexAddr, field int, depth int) (interface{}, bool) {
	al, ok := localArrayOf(ia.X)
	if !ok {
		// a slice parameter of an inlined helper: the caller's literal (the variadic arguments of the call)
		if ofr, ov := fr.origin(ia.X); ofr != fr {
			if oal, ok := localArrayOf(ov); ok && oal.Parent() != nil {
				iv, ok := ev.eval(fr, ia.Index, depth+1)
				if !ok {
					return nil, false
				}
				// an array the caller fills as it goes (the walker's memory of the caller's frame), else a literal
				if ofr.mem != nil {
					if cur, ok := ofr.mem[memKey{oal, cellField}]; ok {
						if arr, isArr := cur.(absArray); isArr {
							i, isI := iv.(int64)
							if !isI {
								return nil, false
							}
							n := arr.t.Underlying().(*types.Array).Len()
							if i < 0 || i >= n {
								ev.panicked = true
								return nil, false
							}
							e, has := arr.e[i]
							if !has {
								return zeroValue(arr.t.Underlying().(*types.Array).Elem())
							}
							if field >= 0 {
								if st, isSt := e.(absStruct); isSt {
									if fv, ok := st.f[field]; ok {
										return fv, true
									}
								}
								return nil, false
							}
							if _, unknown := e.(unknownValue); unknown {
								return nil, false
							}
							return e, true
						}
						return nil, false
					}
				}
				return ev.localElemAt(ofr, oal, iv, field, depth)
			}
		}
		return nil, false
	}
	if al.Parent() == nil {
		return nil, false
	}
	return ev.localElemOf(fr, al, ia.Index, field, depth)
}

// localArrayValue: v is the value of a local literal array (a load of the whole array, as a range over an array makes).
func localArrayValue(v ssa.Value) (*ssa.Alloc, bool) {
	ld, ok := v.(*ssa.UnOp)
	if !ok || ld.Op != token.MUL {
		return nil, false
	}
	return localArrayOf(ld.X)
}

func (ev *evaluator) localElemOf(fr *evalFrame, al *ssa.Alloc, index ssa.Value, field int, depth int) (interface{}, bool) {
	iv, ok := ev.eval(fr, index, depth+1)
	if !ok {
		return nil, false
	}
	return ev.localElemAt(fr, al, iv, field, depth)
}

// localElemAt: element iv of the literal al, whose stores are read in frame fr (the frame of the function that
// builds the literal).
func (ev *evaluator) localElemAt(fr *evalFrame, al *ssa.Alloc, iv interface{}, field int, depth int) (interface{}, bool) {
	i, isI := iv.(int64)
	if !isI {
		return nil, false
	}
	n := al.Type().Underlying().(*types.Pointer).Elem().Underlying().(*types.Array).Len()
	if i < 0 || i >= n {
		ev.panicked = true
		return nil, false
	}
	var stored ssa.Value
	cnt := 0
	dynamic := false
	for _, b := range al.Parent().Blocks {
		for _, ins := range b.Instrs {
			st, ok := ins.(*ssa.Store)
			if !ok {
				continue
			}
			addr := st.Addr
			f := -1
			if fa, ok := addr.(*ssa.FieldAddr); ok {
				addr, f = fa.X, fa.Field
			}
			sia, ok := addr.(*ssa.IndexAddr)
			if !ok {
				continue
			}
			if sal, ok := localArrayOf(sia.X); !ok || sal != al {
				continue
			}
			k, isK := constInt(sia.Index)
			if !isK {
				dynamic = true
				continue
			}
			if k == i && f == field {
				stored = st.Val
				cnt++
			}
		}
	}
	if dynamic || cnt > 1 {
		return nil, false // not a plain literal
	}
	if cnt == 0 {
		t := al.Type().Underlying().(*types.Pointer).Elem().Underlying().(*types.Array).Elem()
		if field >= 0 {
			if st, ok := t.Underlying().(*types.Struct); ok && field < st.NumFields() {
				t = st.Field(field).Type()
			}
		}
		return zeroOf(t)
	}
	return ev.eval(fr, stored, depth+1)
}

// localMapLookup: a lookup in a map the function builds itself from a literal (make + one update per key).
func (ev *evaluator) localMapLookup(fr *evalFrame, mm *ssa.MakeMap, key ssa.Value, depth int) (val interface{}, found bool, ok bool) {
	kv, ok := ev.eval(fr, key, depth+1)
	if !ok || mm.Parent() == nil {
		return nil, false, false
	}
	for _, b := range mm.Parent().Blocks {
		for _, ins := range b.Instrs {
			up, isUp := ins.(*ssa.MapUpdate)
			if !isUp || up.Map != ssa.Value(mm) {
				continue
			}
			uk, ok := ev.eval(fr, up.Key, depth+1)
			if !ok {
				return nil, false, false
			}
			if uk == kv {
				v, ok := ev.eval(fr, up.Value, depth+1)
				return v, true, ok
			}
		}
	}
	return nil, false, true
}

// ---- local aggregates ----
//
// The walker keeps the value of every local variable that lives in memory (an ssa.Alloc of the
// activation): scalars as they are, structs as absStruct, arrays as absArray. Stores through
// &local.f, &local[i] and &local[i].f update the aggregate (copy on write: aggregates have value
// semantics), loads read it where they stand.

type absStruct struct {
	t types.Type
	f map[int]interface{}
}

type absArray struct {
	t types.Type // the array type
	e map[int64]interface{}
}

type pathStep struct {
	field int       // >= 0: a struct field
	index ssa.Value // non-nil: an array element
}

// localPath: addr is &local, &local.f, &local[i], &local[i].f ... of an Alloc of this activation.
func localPath(addr ssa.Value) (*ssa.Alloc, []pathStep) {
	var steps []pathStep
	for depth := 0; depth < 6; depth++ {
		switch x := addr.(type) {
		case *ssa.Alloc:
			// reverse: steps were collected from the leaf upwards
			for i, j := 0, len(steps)-1; i < j; i, j = i+1, j-1 {
				steps[i], steps[j] = steps[j], steps[i]
			}
			return x, steps
		case *ssa.FieldAddr:
			steps = append(steps, pathStep{field: x.Field})
			addr = x.X
		case *ssa.IndexAddr:
			if _, isArr := x.X.Type().Underlying().(*types.Pointer); !isArr {
				// an element of a slice: a local aggregate only when the slice is a whole local array ([]T{...})
				sl, isSl := x.X.(*ssa.Slice)
				if !isSl || !wholeSlice(sl) {
					return nil, nil
				}
				steps = append(steps, pathStep{field: -1, index: x.Index})
				addr = sl.X
				continue
			}
			steps = append(steps, pathStep{field: -1, index: x.Index})
			addr = x.X
		default:
			return nil, nil
		}
	}
	return nil, nil
}

func elemType(t types.Type, st pathStep) types.Type {
	switch u := t.Underlying().(type) {
	case *types.Struct:
		if st.field >= 0 && st.field < u.NumFields() {
			return u.Field(st.field).Type()
		}
	case *types.Array:
		return u.Elem()
	}
	return nil
}

// zeroValue: the zero value of t as the evaluator represents it.
func zeroValue(t types.Type) (interface{}, bool) {
	if t == nil {
		return nil, false
	}
	switch t.Underlying().(type) {
	case *types.Struct:
		return absStruct{t, nil}, true
	case *types.Array:
		return absArray{t, nil}, true
	case *types.Pointer, *types.Slice, *types.Map, *types.Interface, *types.Signature:
		return absPtr{"nil", true}, true
	}
	return zeroOf(t)
}

func (ev *evaluator) getPath(fr *evalFrame, cur interface{}, t types.Type, steps []pathStep) (interface{}, bool) {
	for _, st := range steps {
		if _, bad := cur.(unknownValue); bad || cur == nil {
			return nil, false
		}
		et := elemType(t, st)
		if et == nil {
			return nil, false
		}
		switch c := cur.(type) {
		case absStruct:
			v, ok := c.f[st.field]
			if !ok {
				z, okz := zeroValue(et)
				if !okz {
					return nil, false
				}
				v = z
			}
			cur = v
		case absArray:
			iv, ok := ev.eval(fr, st.index, 0)
			i, isI := iv.(int64)
			if !ok || !isI {
				return nil, false
			}
			if n := c.t.Underlying().(*types.Array).Len(); i < 0 || i >= n {
				ev.panicked = true
				return nil, false
			}
			v, ok := c.e[i]
			if !ok {
				z, okz := zeroValue(et)
				if !okz {
					return nil, false
				}
				v = z
			}
			cur = v
		default:
			return nil, false
		}
		t = et
	}
	return cur, true
}

func (ev *evaluator) setPath(fr *evalFrame, cur interface{}, t types.Type, steps []pathStep, v interface{}) (interface{}, bool) {
	if len(steps) == 0 {
		return v, true
	}
	st := steps[0]
	et := elemType(t, st)
	if et == nil {
		return nil, false
	}
	if cur == nil {
		z, ok := zeroValue(t)
		if !ok {
			return nil, false
		}
		cur = z
	}
	switch c := cur.(type) {
	case absStruct:
		nf := map[int]interface{}{}
		for k, x := range c.f {
			nf[k] = x
		}
		sub, ok := ev.setPath(fr, c.f[st.field], et, steps[1:], v)
		if !ok {
			return nil, false
		}
		nf[st.field] = sub
		return absStruct{c.t, nf}, true
	case absArray:
		iv, ok := ev.eval(fr, st.index, 0)
		i, isI := iv.(int64)
		if !ok || !isI {
			return nil, false
		}
		if n := c.t.Underlying().(*types.Array).Len(); i < 0 || i >= n {
			ev.panicked = true
			return nil, false
		}
		ne := map[int64]interface{}{}
		for k, x := range c.e {
			ne[k] = x
		}
		sub, ok := ev.setPath(fr, c.e[i], et, steps[1:], v)
		if !ok {
			return nil, false
		}
		ne[i] = sub
		return absArray{c.t, ne}, true
	}
	return nil, false
}

var hasPanicCache = map[*ssa.Function]bool{}

func hasPanicBlock(fn *ssa.Function) bool {
	if v, ok := hasPanicCache[fn]; ok {
		return v
	}
	v := false
	for _, b := range fn.Blocks {
		if _, ok := b.Instrs[len(b.Instrs)-1].(*ssa.Panic); ok {
			v = true
		}
	}
	hasPanicCache[fn] = v
	return v
}

// memBase: the object a field address is based on — through phis as the frame resolves them, and through the
// cell a captured parameter lives in (so that stores made by a function whose parameter a closure captures
// are filed under the parameter itself).
func (fr *evalFrame) memBase(v ssa.Value) ssa.Value {
	v = fr.resolve(v)
	if ld, ok := v.(*ssa.UnOp); ok && ld.Op == token.MUL {
		if cell, ok := ld.X.(*ssa.Alloc); ok && !isAggregate(cell) {
			if sv := soleStoredValue(cell); sv != nil {
				return fr.resolve(sv)
			}
		}
	}
	return v
}

// collectList makes the walker record what is put into the (one) list a function builds: PushBack appends,
// PushFront prepends; render turns an evaluated element into its description ("?" when not evaluable).
func (ev *evaluator) collectList(out *[]string, render func(o interface{}, ok bool) string) {
	ev.visit = func(fr *evalFrame, call *ssa.Call) {
		callee := call.Common().StaticCallee()
		if callee == nil || len(call.Common().Args) != 2 {
			return
		}
		front := callee.String() == "(*container/list.List).PushFront"
		if !front && callee.String() != "(*container/list.List).PushBack" {
			return
		}
		o, ok := ev.eval(fr, unwrapIface(call.Common().Args[1]), 0)
		el := render(o, ok)
		if front {
			*out = append([]string{el}, *out...)
		} else {
			*out = append(*out, el)
		}
	}
}
