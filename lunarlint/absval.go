package main

// A small evaluator of SSA expression trees over concrete leaf assignments. It is the
// checker's own arithmetic on a finite abstract domain (an hour and a minute, a day of
// the month, a pillar index): leaves are supplied by the rule, phis are resolved along
// a CFG path, and only integer/float arithmetic, comparisons, fmt.Sprintf on integers
// and strings.Compare are interpreted. No function of the library is executed.

import (
	"fmt"
	"go/constant"
	"go/token"
	"math"
	"strings"

	"golang.org/x/tools/go/ssa"
)

type leafFn func(v ssa.Value) (interface{}, bool)

func evalSSA(p *cfgPath, v ssa.Value, leaf leafFn, depth int) (interface{}, bool) {
	if depth > 24 {
		return nil, false
	}
	if p != nil {
		v = p.resolve(v)
	}
	if x, ok := leaf(v); ok {
		return x, true
	}
	switch x := v.(type) {
	case *ssa.Const:
		if x.Value == nil {
			return nil, false
		}
		switch x.Value.Kind() {
		case constant.Int:
			k, _ := constant.Int64Val(x.Value)
			if isFloatType(x.Type()) {
				return float64(k), true
			}
			return k, true
		case constant.Float:
			f, _ := constant.Float64Val(x.Value)
			return f, true
		case constant.String:
			return constant.StringVal(x.Value), true
		case constant.Bool:
			return constant.BoolVal(x.Value), true
		}
	case *ssa.Convert:
		a, ok := evalSSA(p, x.X, leaf, depth+1)
		if !ok {
			return nil, false
		}
		switch {
		case isIntType(x.Type()):
			switch t := a.(type) {
			case int64:
				return t, true
			case float64:
				return int64(math.Trunc(t)), true
			}
		case isFloatType(x.Type()):
			switch t := a.(type) {
			case int64:
				return float64(t), true
			case float64:
				return t, true
			}
		}
		return nil, false
	case *ssa.UnOp:
		a, ok := evalSSA(p, x.X, leaf, depth+1)
		if !ok {
			return nil, false
		}
		switch x.Op {
		case token.NOT:
			if b, ok := a.(bool); ok {
				return !b, true
			}
		case token.SUB:
			switch t := a.(type) {
			case int64:
				return -t, true
			case float64:
				return -t, true
			}
		}
		return nil, false
	case *ssa.BinOp:
		a, ok1 := evalSSA(p, x.X, leaf, depth+1)
		b, ok2 := evalSSA(p, x.Y, leaf, depth+1)
		if !ok1 || !ok2 {
			return nil, false
		}
		switch l := a.(type) {
		case int64:
			r, ok := b.(int64)
			if !ok {
				return nil, false
			}
			switch x.Op {
			case token.ADD:
				return l + r, true
			case token.SUB:
				return l - r, true
			case token.MUL:
				return l * r, true
			case token.QUO:
				if r == 0 {
					return nil, false
				}
				return l / r, true
			case token.REM:
				if r == 0 {
					return nil, false
				}
				return l % r, true
			case token.LSS:
				return l < r, true
			case token.LEQ:
				return l <= r, true
			case token.GTR:
				return l > r, true
			case token.GEQ:
				return l >= r, true
			case token.EQL:
				return l == r, true
			case token.NEQ:
				return l != r, true
			}
		case float64:
			r, ok := b.(float64)
			if !ok {
				return nil, false
			}
			switch x.Op {
			case token.ADD:
				return l + r, true
			case token.SUB:
				return l - r, true
			case token.MUL:
				return l * r, true
			case token.QUO:
				return l / r, true
			case token.LSS:
				return l < r, true
			case token.LEQ:
				return l <= r, true
			case token.GTR:
				return l > r, true
			case token.GEQ:
				return l >= r, true
			case token.EQL:
				return l == r, true
			case token.NEQ:
				return l != r, true
			}
		case string:
			r, ok := b.(string)
			if !ok {
				return nil, false
			}
			switch x.Op {
			case token.ADD:
				return l + r, true
			case token.LSS:
				return l < r, true
			case token.LEQ:
				return l <= r, true
			case token.GTR:
				return l > r, true
			case token.GEQ:
				return l >= r, true
			case token.EQL:
				return l == r, true
			case token.NEQ:
				return l != r, true
			}
		case bool:
			r, ok := b.(bool)
			if !ok {
				return nil, false
			}
			switch x.Op {
			case token.EQL:
				return l == r, true
			case token.NEQ:
				return l != r, true
			}
		}
		return nil, false
	case *ssa.Call:
		callee := x.Common().StaticCallee()
		if callee == nil {
			return nil, false
		}
		switch callee.String() {
		case "math.Ceil", "math.Floor":
			a, ok := evalSSA(p, x.Common().Args[0], leaf, depth+1)
			f, isF := a.(float64)
			if !ok || !isF {
				return nil, false
			}
			if callee.Name() == "Ceil" {
				return math.Ceil(f), true
			}
			return math.Floor(f), true
		case "strings.Compare":
			a, ok1 := evalSSA(p, x.Common().Args[0], leaf, depth+1)
			b, ok2 := evalSSA(p, x.Common().Args[1], leaf, depth+1)
			as, isA := a.(string)
			bs, isB := b.(string)
			if !ok1 || !ok2 || !isA || !isB {
				return nil, false
			}
			return int64(strings.Compare(as, bs)), true
		case "fmt.Sprintf":
			f, ok := constString(x.Common().Args[0])
			if !ok {
				return nil, false
			}
			var args []interface{}
			for _, a := range sprintfArgs(x) {
				v, ok := evalSSA(p, a, leaf, depth+1)
				if !ok {
					return nil, false
				}
				args = append(args, v)
			}
			return fmt.Sprintf(f, args...), true
		}
	}
	return nil, false
}

// feasiblePaths returns the paths all of whose branch conditions evaluate to their polarity.
func feasiblePaths(paths []cfgPath, leaf leafFn) ([]*cfgPath, string) {
	var out []*cfgPath
	for i := range paths {
		p := &paths[i]
		ok := true
		for _, pc := range p.conds {
			v, known := evalSSA(p, pc.cond, leaf, 0)
			b, isB := v.(bool)
			if !known || !isB {
				return nil, "branch condition not evaluable: " + pc.cond.String()
			}
			if b != pc.truth {
				ok = false
				break
			}
		}
		if ok {
			out = append(out, p)
		}
	}
	return out, ""
}
