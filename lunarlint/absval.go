package main

// A small evaluator of SSA expression trees over concrete leaf assignments. It is the
// checker's own arithmetic on a finite abstract domain (an hour and a minute, a day of
// the month, a pillar index): leaves are supplied by the rule, phis are resolved along
// a CFG path, and only integer/float arithmetic, comparisons, fmt.Sprintf on integers
// and strings.Compare are interpreted. No function of the library is executed.

import (
	"fmt"
	"go/constant"
	"go/token"
	"math"
	"strings"

	"golang.org/x/tools/go/ssa"
)

type leafFn func(v ssa.Value) (interface{}, bool)

func evalSSA(p *cfgPath, v ssa.Value, leaf leafFn, depth int) (interface{}, bool) {
	if depth > 24 {
		return nil, false
	}
	if p != nil {
		v = p.resolve(v)
	}
	if x, ok := leaf(v); ok {
		return x, true
	}
	switch x := v.(type) {
	case *ssa.Const:
		if x.Value == nil {
			return nil, false
		}
		switch x.Value.Kind() {
		case constant.Int:
			k, _ := constant.Int64Val(x.Value)
			if isFloatType(x.Type()) {
				return float64(k), true
			}
			return k, true
		case constant.Float:
			f, _ := constant.Float64Val(x.Value)
			return f, true
		case constant.String:
			return constant.StringVal(x.Value), true
		case constant.Bool:
			return constant.BoolVal(x.Value), true
		}
	case *ssa.Convert:
		a, ok := evalSSA(p, x.X, leaf, depth+1)
		if !ok {
			return nil, false
		}
		switch {
		case isIntType(x.Type()):
			switch t := a.(type) {
			case int64:
				return t, true
			case float64:
				return int64(math.Trunc(t)), true
			}
		case isFloatType(x.Type()):
			switch t := a.(type) {
			case int64:
				return float64(t), true
			case float64:
				return t, true
			}
		}
		return nil, false
	case *ssa.UnOp:
		a, ok := evalSSA(p, x.X, leaf, depth+1)
		if !ok {
			return nil, false
		}
		switch x.Op {
		case token.NOT:
			if b, ok := a.(bool); ok {
				return !b, true
			}
		case token.SUB:
			switch t := a.(type) {
			case int64:
				return -t, true
			case float64:
				return -t, true
			}
		}
		return nil, false
	case *ssa.BinOp:
		a, ok1 := evalSSA(p, x.X, leaf, depth+1)
		b, ok2 := evalSSA(p, x.Y, leaf, depth+1)
		if !ok1 || !ok2 {
			return nil, false
		}
		switch l := a.(type) {
		case int64:
			r, ok := b.(int64)
			if !ok {
				return nil, false
			}
			switch x.Op {
			case token.ADD:
				return l + r, true
			case token.SUB:
				return l - r, true
			case token.MUL:
				return l * r, true
			case token.QUO:
				if r == 0 {
					return nil, false
				}
				return l / r, true
			case token.REM:
				if r == 0 {
					return nil, false
				}
				return l % r, true
			case token.LSS:
				return l < r, true
			case token.LEQ:
				return l <= r, true
			case token.GTR:
				return l > r, true
			case token.GEQ:
				return l >= r, true
			case token.EQL:
				return l == r, true
			case token.NEQ:
				return l != r, true
			}
		case float64:
			r, ok := b.(float64)
			if !ok {
				return nil, false
			}
			switch x.Op {
			case token.ADD:
				return l + r, true
			case token.SUB:
				return l - r, true
			case token.MUL:
				return l * r, true
			case token.QUO:
				return l / r, true
			case token.LSS:
				return l < r, true
			case token.LEQ:
				return l <= r, true
			case token.GTR:
				return l > r, true
			case token.GEQ:
				return l >= r, true
			case token.EQL:
				return l == r, true
			case token.NEQ:
				return l != r, true
			}
		case string:
			r, ok := b.(string)
			if !ok {
				return nil, false
			}
			switch x.Op {
			case token.ADD:
				return l + r, true
			case token.LSS:
				return l < r, true
			case token.LEQ:
				return l <= r, true
			case token.GTR:
				return l > r, true
			case token.GEQ:
				return l >= r, true
			case token.EQL:
				return l == r, true
			case token.NEQ:
				return l != r, true
			}
		case bool:
			r, ok := b.(bool)
			if !ok {
				return nil, false
			}
			switch x.Op {
			case token.EQL:
				return l == r, true
			case token.NEQ:
				return l != r, true
			}
		}
		return nil, false
	case *ssa.Call:
		callee := x.Common().StaticCallee()
		if callee == nil {
			return nil, false
		}
		switch callee.String() {
		case "math.Ceil", "math.Floor":
			a, ok := evalSSA(p, x.Common().Args[0], leaf, depth+1)
			f, isF := a.(float64)
			if !ok || !isF {
				return nil, false
			}
			if callee.Name() == "Ceil" {
				return math.Ceil(f), true
			}
			return math.Floor(f), true
		case "strings.Compare":
			a, ok1 := evalSSA(p, x.Common().Args[0], leaf, depth+1)
			b, ok2 := evalSSA(p, x.Common().Args[1], leaf, depth+1)
			as, isA := a.(string)
			bs, isB := b.(string)
			if !ok1 || !ok2 || !isA || !isB {
				return nil, false
			}
			return int64(strings.Compare(as, bs)), true
		case "fmt.Sprintf":
			f, ok := constString(x.Common().Args[0])
			if !ok {
				return nil, false
			}
			var args []interface{}
			for _, a := range sprintfArgs(x) {
				v, ok := evalSSA(p, a, leaf, depth+1)
				if !ok {
					return nil, false
				}
				args = append(args, v)
			}
			return fmt.Sprintf(f, args...), true
		}
	}
	return nil, false
}

// feasiblePaths returns the paths all of whose branch conditions evaluate to their polarity.
func feasiblePaths(paths []cfgPath, leaf leafFn) ([]*cfgPath, string) {
	var out []*cfgPath
	for i := range paths {
		p := &paths[i]
		ok := true
		for _, pc := range p.conds {
			v, known := evalSSA(p, pc.cond, leaf, 0)
			b, isB := v.(bool)
			if !known || !isB {
				return nil, "branch condition not evaluable: " + pc.cond.String()
			}
			if b != pc.truth {
				ok = false
				break
			}
		}
		if ok {
			out = append(out, p)
		}
	}
	return out, ""
}

// consistentPaths returns the paths none of whose evaluable branch conditions contradicts
// its polarity; conditions the evaluator cannot decide (a map's comma-ok, a nil test) leave
// both successors open. undecided counts the conditions left open.
func consistentPaths(paths []cfgPath, leaf leafFn) (out []*cfgPath, undecided int) {
	for i := range paths {
		p := &paths[i]
		ok := true
		for _, pc := range p.conds {
			v, known := evalSSA(p, pc.cond, leaf, 0)
			b, isB := v.(bool)
			if !known || !isB {
				undecided++
				continue
			}
			if b != pc.truth {
				ok = false
				break
			}
		}
		if ok {
			out = append(out, p)
		}
	}
	return
}

func (p *cfgPath) passes(b *ssa.BasicBlock) bool {
	for _, x := range p.blocks {
		if x == b {
			return true
		}
	}
	return false
}

// keyPart is one piece of a composed string key: a literal, or an integer value printed in decimal.
type keyPart struct {
	lit   string
	val   ssa.Value
	width int
	zero  bool
}

// keyTemplate reads how a string is composed: fmt.Sprintf with %d/%v verbs on integers,
// strconv.Itoa, string constants and concatenation. ok=false when some piece is none of these.
func keyTemplate(v ssa.Value, depth int) (parts []keyPart, ok bool) {
	if depth > 8 {
		return nil, false
	}
	add := func(ps ...keyPart) {
		for _, p := range ps {
			if p.val == nil && len(parts) > 0 && parts[len(parts)-1].val == nil {
				parts[len(parts)-1].lit += p.lit
				continue
			}
			if p.val == nil && p.lit == "" {
				continue
			}
			parts = append(parts, p)
		}
	}
	switch x := v.(type) {
	case *ssa.Const:
		s, isS := constString(x)
		if !isS {
			return nil, false
		}
		add(keyPart{lit: s})
		return parts, true
	case *ssa.BinOp:
		if x.Op != token.ADD || !isStringType(x.Type()) {
			return nil, false
		}
		l, ok1 := keyTemplate(x.X, depth+1)
		r, ok2 := keyTemplate(x.Y, depth+1)
		if !ok1 || !ok2 {
			return nil, false
		}
		add(l...)
		add(r...)
		return parts, true
	case *ssa.Call:
		callee := x.Common().StaticCallee()
		if callee == nil {
			return nil, false
		}
		if callee.String() == "strconv.Itoa" {
			add(keyPart{val: x.Common().Args[0]})
			return parts, true
		}
		if _, f, args, isS := sprintfCall(x); isS {
			verbs, lits := parseFormat(f)
			if len(verbs) != len(args) {
				return nil, false
			}
			for i, vb := range verbs {
				add(keyPart{lit: lits[i]})
				if (vb.verb != 'd' && vb.verb != 'v') || !isIntType(unwrapIface(args[i]).Type()) {
					return nil, false
				}
				add(keyPart{val: unwrapIface(args[i]), width: vb.width, zero: vb.zero})
			}
			add(keyPart{lit: lits[len(lits)-1]})
			return parts, true
		}
	}
	return nil, false
}

func unwrapIface(v ssa.Value) ssa.Value {
	if mi, ok := v.(*ssa.MakeInterface); ok {
		return mi.X
	}
	return v
}

// templateString prints a key template with each integer part described by describe.
func templateString(parts []keyPart, describe func(ssa.Value) string) string {
	var sb strings.Builder
	for _, p := range parts {
		if p.val == nil {
			sb.WriteString(p.lit)
			continue
		}
		sb.WriteString("{" + describe(p.val))
		if p.width > 0 {
			if p.zero {
				sb.WriteString(fmt.Sprintf(":0%d", p.width))
			} else {
				sb.WriteString(fmt.Sprintf(":%d", p.width))
			}
		}
		sb.WriteString("}")
	}
	return sb.String()
}

// mapLookups lists the map lookups in fn on the package-level map pkg.name.
func mapLookups(fn *ssa.Function, table string) []*ssa.Lookup {
	var out []*ssa.Lookup
	for _, b := range fn.Blocks {
		for _, ins := range b.Instrs {
			if lk, ok := ins.(*ssa.Lookup); ok && isLoadOfTable(lk.X, table) {
				out = append(out, lk)
			}
		}
	}
	return out
}
