package main

// C05 — year/month/day/hour pillars: ranges, variant routing, boundary comparisons' shape.

import (
	"fmt"
	"go/token"
	"regexp"
	"sort"
	"strings"

	"golang.org/x/tools/go/ssa"
)

func init() {
	register("C05",
		"that the change-overs happen at the right instants (the term instants themselves are numeric), the 60-cycle continuity of the day pillar (numeric in the Julian Day), and the parity coupling of stem and branch (AX-PARITY).",
		r05_1, r05_2, r05_3, r05_4, r05_5, r05_6, r04_2, r11_2, r05_7)
}

var pillarIndexField = regexp.MustCompile(`(?i)(gan|zhi)index`)

func r05_1(c *Ctx, r *Report) {
	const rule = "R05.1"
	r.rule(rule, "Every stored pillar index is in range. At the exits of the functions that build them, all *GanIndex* fields of Lunar, LunarYear and LunarTime lie in [0,9] and all *ZhiIndex* fields (also LunarMonth.zhiIndex) in [0,11], and LunarMonth.GetGanIndex() returns a value in [0,9]; by the interval analysis E3 over the wrap-around code of computeYear/Month/Day/Time, NewLunarYear, NewLunarMonth, NewLunarTime.")
	e := c.ranges()
	n := 0
	for _, typ := range []string{"Lunar", "LunarYear", "LunarMonth", "LunarTime"} {
		sp := c.SSABy["calendar"]
		if sp == nil {
			continue
		}
		for key := range e.fieldInv {
			if !strings.HasPrefix(key, typ+".") || !pillarIndexField.MatchString(key) {
				continue
			}
			n++
			hi := int64(9)
			if strings.Contains(strings.ToLower(key), "zhi") {
				hi = 11
			}
			v := e.fieldInv[key].orBot()
			construct := "field " + key + " in [0," + fmt.Sprint(hi) + "]"
			if !v.bot && v.known() && v.lo() >= 0 && v.hi() <= hi {
				o := r.ok(rule, construct, "-", "invariant at constructor exit: "+v.String())
				o.Class = classOf(v.ax)
				for _, a := range axList(v.ax) {
					r.assume(axText(a))
				}
			} else {
				r.bad(rule, construct, "-", "invariant at constructor exit is "+v.String()+": a pillar index outside its cycle makes every table lookup on it wrong or out of range")
			}
		}
	}
	if fn := c.Fn(r, rule, "calendar.(*LunarMonth).GetGanIndex"); fn != nil {
		v := e.retSum[fn].orBot()
		n++
		r.check(!v.bot && v.known() && v.lo() >= 0 && v.hi() <= 9, rule, "calendar.(*LunarMonth).GetGanIndex returns [0,9]", c.fnPos(fn), "return summary "+v.String())
	}
	if n < 24 {
		r.bad(rule, "instance floor R05.1", "-", fmt.Sprintf("only %d pillar index fields found (floor 24)", n))
	}
}

func isPillarAccessor(ai accessorInputs) bool {
	if ai.cls.typ != "Lunar" {
		return false
	}
	all := append([]string{}, ai.atoms...)
	for _, as := range ai.sect {
		all = append(all, as...)
	}
	for _, a := range all {
		if strings.HasPrefix(a, "year:") || strings.HasPrefix(a, "month:") || strings.HasPrefix(a, "day:") || strings.HasPrefix(a, "time:") {
			return true
		}
	}
	_, regular := regularExpectation(ai.fn.Name())
	return regular
}

func r05_2(c *Ctx, r *Report) {
	const rule = "R05.2"
	r.rule(rule, "Accessor <-> variant routing. Every accessor of *Lunar named Get(Year|Month|Day|Time)<Attr>(ByLiChun|Exact|Exact2)? reads (transitively) exactly the pillar-index fields of that pillar and that variant; accessors that legitimately mix inputs (…BySect families per constant school, duty god = month branch + day branch, hour attributes = early-rat day + hour, …) read exactly the inputs declared for them in the reviewed table spec/inputs.json.")
	declaredInputsRule(c, r, rule, isPillarAccessor, 150)
}

// ---------- R05.3 the 23:00 rule ----------

func r05_3(c *Ctx, r *Report) {
	const rule = "R05.3"
	r.rule(rule, "The 23:00 rule. computeDay is evaluated symbolically over its finite input domain — every hour 0..23, every minute 0..59 and every value of the plain day stem (0..9) and branch (0..11) index: on the unique feasible path the stored early-rat index (…Exact) equals (plain + [hour == 23]) modulo its cycle and the stored late-rat index (…Exact2) equals the plain index. computeTime and NewLunarTime, followed for every hour, three minutes and every plain day stem (the date object's fields are abstract inputs: the early-rat stem is the plain one moved on at 23:xx), store the hour stem the five-rats rule gives on the early-rat day stem: ((stem mod 5)·2 + branch of the two-hour slot) mod 10. Any implementation of the boundary test (string comparison of HH:MM or integer test of the hour) is accepted.")
	fn := c.Fn(r, rule, "calendar.computeDay")
	if fn == nil {
		return
	}
	construct := "calendar.computeDay: day stem/branch variants over hour x minute x pillar"
	if len(fn.Params) != 1 {
		r.bad(rule, construct, c.fnPos(fn), "computeDay no longer takes the date under construction as its only parameter (undecided = fail)")
	} else {
		recv := ssa.Value(fn.Params[0])
		// the plain indices are stored from a numeric day offset: the first value stored into each is the pillar
		plainVal := map[string]ssa.Value{}
		for _, b := range fn.Blocks {
			for _, ins := range b.Instrs {
				if st, ok := ins.(*ssa.Store); ok {
					if fa, ok := st.Addr.(*ssa.FieldAddr); ok && fa.X == recv {
						k := fieldKeyOf(fa)
						if (k == "Lunar.dayGanIndex" || k == "Lunar.dayZhiIndex") && plainVal[k] == nil {
							plainVal[k] = st.Val
						}
					}
				}
			}
		}
		idx := map[string]int{}
		missing := plainVal["Lunar.dayGanIndex"] == nil || plainVal["Lunar.dayZhiIndex"] == nil
		for _, f := range []string{"dayGanIndex", "dayZhiIndex", "dayGanIndexExact", "dayZhiIndexExact", "dayGanIndexExact2", "dayZhiIndexExact2"} {
			idx[f] = fieldIndexOf(recv, f)
			if idx[f] < 0 {
				missing = true
			}
		}
		if missing {
			r.bad(rule, construct, c.fnPos(fn), "a store of one of the six day-pillar variants is missing (undecided = fail)")
		} else {
			var problems []string
			n := 0
			for h := int64(0); h < 24 && len(problems) < 3; h++ {
				for m := int64(0); m < 60 && len(problems) < 3; m++ {
					for pillar := int64(0); pillar < 60 && len(problems) < 3; pillar++ {
						if h > 0 && h < 22 && pillar%59 != 0 {
							continue // the wrap of the cycle matters around 23:00 only
						}
						base := map[string]int64{"Gan": pillar % 10, "Zhi": pillar % 12}
						leaf := func(fr *evalFrame, v ssa.Value) (interface{}, bool) {
							if fr.parent == nil {
								if v == plainVal["Lunar.dayGanIndex"] {
									return base["Gan"], true
								}
								if v == plainVal["Lunar.dayZhiIndex"] {
									return base["Zhi"], true
								}
							}
							if rc, f, ok := getterField(c, v); ok {
								if ofr, o := fr.origin(rc); ofr.parent == nil && o == recv {
									switch f {
									case "Lunar.hour":
										return h, true
									case "Lunar.minute":
										return m, true
									case "Lunar.dayGanIndex":
										return base["Gan"], true
									case "Lunar.dayZhiIndex":
										return base["Zhi"], true
									}
								}
							}
							return nil, false
						}
						ev := &evaluator{leaf: leaf, inline: inlineLibrary}
						fr := &evalFrame{fn: fn, phiFrom: map[*ssa.BasicBlock]*ssa.BasicBlock{}}
						_, outcome := ev.runFrame(fr, nil, nil)
						if outcome != "return" {
							problems = append(problems, fmt.Sprintf("at %02d:%02d the function could not be followed: %s %s", h, m, outcome, ev.fail))
							break
						}
						n++
						for _, name := range []string{"Gan", "Zhi"} {
							cycle := int64(10)
							if name == "Zhi" {
								cycle = 12
							}
							v1, ok1 := fr.mem[memKey{recv, idx["day"+name+"IndexExact"]}]
							v2, ok2 := fr.mem[memKey{recv, idx["day"+name+"IndexExact2"]}]
							want := base[name]
							if h == 23 {
								want = (want + 1) % cycle
							}
							if !ok1 || !ok2 {
								problems = append(problems, "a day-pillar variant is not stored on this path")
								break
							}
							if v1 != interface{}(want) {
								problems = append(problems, fmt.Sprintf("at %02d:%02d with plain %s index %d the early-rat index is %v, expected %d", h, m, name, base[name], v1, want))
							}
							if v2 != interface{}(base[name]) {
								problems = append(problems, fmt.Sprintf("at %02d:%02d with plain %s index %d the late-rat index is %v, expected %d", h, m, name, base[name], v2, base[name]))
							}
						}
					}
				}
			}
			r.check(len(problems) == 0 && n > 0, rule, construct, c.fnPos(fn), fmt.Sprintf("%d cases (24 hours x 60 minutes x pillars) followed; %s", n, strings.Join(headList(problems, 3), "; ")))
		}
	}
	// the hour stem: both builders are followed for every hour, three minutes and every plain day stem; the early-rat
	// day stem is the plain one moved on at 23:xx, whichever way the function gets at it
	for _, name := range []string{"calendar.computeTime", "calendar.NewLunarTime"} {
		tf := c.Fn(r, rule, name)
		if tf == nil {
			continue
		}
		field := "Lunar.timeGanIndex"
		if name == "calendar.NewLunarTime" {
			field = "LunarTime.ganIndex"
		}
		var problems []string
		n := 0
		for h := int64(0); h < 24 && len(problems) < 3; h++ {
			for _, m := range []int64{0, 30, 59} {
				for g := int64(0); g < 10 && len(problems) < 3; g++ {
					exact := g
					if h == 23 {
						exact = (g + 1) % 10
					}
					var leaf leafX
					leaf = func(fr *evalFrame, v ssa.Value) (interface{}, bool) {
						if p, ok := v.(*ssa.Parameter); ok && fr.parent == nil && len(tf.Params) == 6 {
							for i, q := range tf.Params {
								if p == q {
									return []int64{2023, 5, 9, h, m, 7}[i], true
								}
							}
						}
						if p, ok := v.(*ssa.Parameter); ok && fr.parent == nil && len(tf.Params) == 1 && p == tf.Params[0] {
							return absPtr{"lunar", false}, true
						}
						if call, ok := v.(*ssa.Call); ok && call.Common().StaticCallee() != nil && fname(call.Common().StaticCallee()) == "calendar.NewLunar" {
							return absPtr{"lunar", false}, true
						}
						if rc, f, ok := getterField(c, v); ok && structName(rc.Type()) == "Lunar" {
							if o, ok := evalWith(fr, rc, leaf); !ok || o != interface{}(absPtr{"lunar", false}) {
								return nil, false
							}
							switch f {
							case "Lunar.hour":
								return h, true
							case "Lunar.minute":
								return m, true
							case "Lunar.second":
								return int64(7), true
							case "Lunar.dayGanIndex", "Lunar.dayGanIndexExact2":
								return g, true
							case "Lunar.dayGanIndexExact":
								return exact, true
							}
						}
						return nil, false
					}
					ev := &evaluator{leaf: leaf, inline: inlineLibrary, counted: 64}
					got, stored := interface{}(nil), false
					ev.onStore = func(fr *evalFrame, st *ssa.Store, v interface{}, ok bool) {
						if fa, isF := st.Addr.(*ssa.FieldAddr); isF && fieldKeyOf(fa) == field {
							got, stored = v, ok
						}
					}
					_, outcome := ev.run(tf, nil, nil, nil, nil)
					n++
					want := (exact%5*2 + (h+1)/2%12) % 10
					switch {
					case outcome != "return":
						problems = append(problems, fmt.Sprintf("at %02d:%02d the function could not be followed: %s %s", h, m, outcome, ev.fail))
					case !stored:
						problems = append(problems, fmt.Sprintf("at %02d:%02d no evaluable store to %s", h, m, field))
					case got != interface{}(want):
						problems = append(problems, fmt.Sprintf("at %02d:%02d with plain day stem %d the hour stem is %v, stated %d (five-rats rule on the early-rat day stem %d)", h, m, g, got, want, exact))
					}
				}
			}
		}
		r.check(len(problems) == 0 && n == 720, rule, name+" derives the hour stem from the early-rat day stem", c.fnPos(tf), fmt.Sprintf("%d cases (24 hours x 3 minutes x 10 day stems) followed; %s", n, strings.Join(headList(problems, 3), "; ")))
	}
}

// isIncrementOf: v is base+1, or phi(base+1, base+1-wrap).
func isIncrementOf(v ssa.Value, isBase func(ssa.Value) bool, wrap int64) bool {
	inc := func(x ssa.Value) bool {
		bo, ok := x.(*ssa.BinOp)
		if !ok || bo.Op != token.ADD {
			return false
		}
		k, ok := constInt(bo.Y)
		return ok && k == 1 && isBase(bo.X)
	}
	if inc(v) {
		return true
	}
	if phi, ok := v.(*ssa.Phi); ok {
		sawInc, sawWrap := false, false
		for _, e := range phi.Edges {
			if inc(e) {
				sawInc = true
				continue
			}
			if bo, ok := e.(*ssa.BinOp); ok && bo.Op == token.SUB && inc(bo.X) {
				if k, ok := constInt(bo.Y); ok && k == wrap {
					sawWrap = true
					continue
				}
			}
			return false
		}
		return sawInc && sawWrap
	}
	return false
}

func r05_5(c *Ctx, r *Report) {
	likeWithLikeRule(c, r, "R05.5", func(fn *ssa.Function) bool {
		n := fname(fn)
		return n == "calendar.computeYear" || n == "calendar.computeMonth" || n == "calendar.computeDay" || n == "LunarUtil.GetTimeZhiIndex"
	}, 4)
	const rule = "R05.5"
	// the Lichun of the civil year
	fn := c.Fn(r, rule, "calendar.computeYear")
	if fn == nil {
		return
	}
	keys := map[string]bool{}
	for k := range c.eff.Of(fn).Reads {
		if m := termPath.FindStringSubmatch(strings.TrimPrefix(k, "p0")); m != nil {
			keys[m[1]] = true
		}
	}
	sel := false
	for _, b := range fn.Blocks {
		iff, ok := b.Instrs[len(b.Instrs)-1].(*ssa.If)
		if !ok {
			continue
		}
		bo, ok := iff.Cond.(*ssa.BinOp)
		if !ok || (bo.Op != token.NEQ && bo.Op != token.EQL) {
			continue
		}
		_, f1, ok1 := getterField(c, bo.X)
		_, f2, ok2 := getterField(c, bo.Y)
		if ok1 && f1 == "Solar.year" && (ok2 && f2 == "Solar.year" || !ok2) {
			sel = true
		}
	}
	r.check(keys["立春"] && keys["LI_CHUN"] && sel, rule, "calendar.computeYear uses the Lichun of the civil year", c.fnPos(fn),
		fmt.Sprintf("term keys read: %v; selected by comparing the term's year with the civil year: %v", sortedKeys(keys), sel))
}

// boundaryAtoms lists the string-comparison branch atoms of fn as "<kind> <op>" (sorted).
func boundaryAtoms(c *Ctx, fn *ssa.Function) []string {
	var out []string
	for _, b := range fn.Blocks {
		iff, ok := b.Instrs[len(b.Instrs)-1].(*ssa.If)
		if !ok {
			continue
		}
		x, y, op, ok := stringCompareAtom(iff.Cond)
		if !ok {
			continue
		}
		kx, ky := c.renderKind(x, 0), c.renderKind(y, 0)
		if kx == "" || kx != ky {
			continue
		}
		out = append(out, kx+" "+op.String())
	}
	sort.Strings(out)
	return out
}
