package main

// C05 — year/month/day/hour pillars: ranges, variant routing, boundary comparisons' shape.

import (
	"fmt"
	"go/token"
	"regexp"
	"sort"
	"strings"

	"golang.org/x/tools/go/ssa"
)

func init() {
	register("C05",
		"that the change-overs happen at the right instants (the term instants themselves are numeric), the 60-cycle continuity of the day pillar (numeric in the Julian Day), and the parity coupling of stem and branch (AX-PARITY).",
		r05_1, r05_2, r05_3, r05_4, r05_5)
}

var pillarIndexField = regexp.MustCompile(`(?i)(gan|zhi)index`)

func r05_1(c *Ctx, r *Report) {
	const rule = "R05.1"
	r.rule(rule, "Every stored pillar index is in range. At the exits of the functions that build them, all *GanIndex* fields of Lunar, LunarYear and LunarTime lie in [0,9] and all *ZhiIndex* fields (also LunarMonth.zhiIndex) in [0,11], and LunarMonth.GetGanIndex() returns a value in [0,9]; by the interval analysis E3 over the wrap-around code of computeYear/Month/Day/Time, NewLunarYear, NewLunarMonth, NewLunarTime.")
	e := c.ranges()
	n := 0
	for _, typ := range []string{"Lunar", "LunarYear", "LunarMonth", "LunarTime"} {
		sp := c.SSABy["calendar"]
		if sp == nil {
			continue
		}
		for key := range e.fieldInv {
			if !strings.HasPrefix(key, typ+".") || !pillarIndexField.MatchString(key) {
				continue
			}
			n++
			hi := int64(9)
			if strings.Contains(strings.ToLower(key), "zhi") {
				hi = 11
			}
			v := e.fieldInv[key].orBot()
			construct := "field " + key + " in [0," + fmt.Sprint(hi) + "]"
			if !v.bot && v.known() && v.lo() >= 0 && v.hi() <= hi {
				o := r.ok(rule, construct, "-", "invariant at constructor exit: "+v.String())
				o.Class = classOf(v.ax)
				for _, a := range axList(v.ax) {
					r.assume(axText(a))
				}
			} else {
				r.bad(rule, construct, "-", "invariant at constructor exit is "+v.String()+": a pillar index outside its cycle makes every table lookup on it wrong or out of range")
			}
		}
	}
	if fn := c.Fn(r, rule, "calendar.(*LunarMonth).GetGanIndex"); fn != nil {
		v := e.retSum[fn].orBot()
		n++
		r.check(!v.bot && v.known() && v.lo() >= 0 && v.hi() <= 9, rule, "calendar.(*LunarMonth).GetGanIndex returns [0,9]", c.fnPos(fn), "return summary "+v.String())
	}
	if n < 24 {
		r.bad(rule, "instance floor R05.1", "-", fmt.Sprintf("only %d pillar index fields found (floor 24)", n))
	}
}

func isPillarAccessor(ai accessorInputs) bool {
	if ai.cls.typ != "Lunar" {
		return false
	}
	all := append([]string{}, ai.atoms...)
	for _, as := range ai.sect {
		all = append(all, as...)
	}
	for _, a := range all {
		if strings.HasPrefix(a, "year:") || strings.HasPrefix(a, "month:") || strings.HasPrefix(a, "day:") || strings.HasPrefix(a, "time:") {
			return true
		}
	}
	_, regular := regularExpectation(ai.fn.Name())
	return regular
}

func r05_2(c *Ctx, r *Report) {
	const rule = "R05.2"
	r.rule(rule, "Accessor <-> variant routing. Every accessor of *Lunar named Get(Year|Month|Day|Time)<Attr>(ByLiChun|Exact|Exact2)? reads (transitively) exactly the pillar-index fields of that pillar and that variant; accessors that legitimately mix inputs (…BySect families per constant school, duty god = month branch + day branch, hour attributes = early-rat day + hour, …) read exactly the inputs declared for them in the reviewed table spec/inputs.json.")
	declaredInputsRule(c, r, rule, isPillarAccessor, 150)
}

// ---------- R05.3 the 23:00 rule ----------

func r05_3(c *Ctx, r *Report) {
	const rule = "R05.3"
	r.rule(rule, "The 23:00 rule. In computeDay the early-rat day pillar (…Exact) is advanced by one, with wrap-around, exactly when \"23:00\" <= HH:MM <= \"23:59\" (both bounds inclusive, both operands HH:MM renderings of the object's own hour and minute); the late-rat pillar (…Exact2) is the un-advanced pillar; computeTime derives the hour stem from the early-rat day stem.")
	fn := c.Fn(r, rule, "calendar.computeDay")
	if fn == nil {
		return
	}
	// the two boundary atoms
	type atom struct {
		k  string
		op token.Token
		b  *ssa.BasicBlock
	}
	var atoms []atom
	hmOK := true
	for _, b := range fn.Blocks {
		iff, ok := b.Instrs[len(b.Instrs)-1].(*ssa.If)
		if !ok {
			continue
		}
		x, y, op, ok := stringCompareAtom(iff.Cond)
		if !ok {
			continue
		}
		k, isK := constString(y)
		if !isK {
			continue
		}
		atoms = append(atoms, atom{k, op, b})
		if _, f, args, ok := sprintfCall(x); !ok || f != "%02d:%02d" || len(args) != 2 || describeArg(c, fn, args[0]) != "p0.hour" || describeArg(c, fn, args[1]) != "p0.minute" {
			hmOK = false
		}
	}
	okAtoms := len(atoms) == 2 && hmOK
	var lower, upper *atom
	for i := range atoms {
		if atoms[i].k == "23:00" && atoms[i].op == token.GEQ {
			lower = &atoms[i]
		}
		if atoms[i].k == "23:59" && atoms[i].op == token.LEQ {
			upper = &atoms[i]
		}
	}
	r.check(okAtoms && lower != nil && upper != nil, rule, "calendar.computeDay tests \"23:00\" <= HH:MM <= \"23:59\"", c.fnPos(fn),
		fmt.Sprintf("boundary atoms found: %v (hour/minute rendering ok: %v)", func() []string {
			var s []string
			for _, a := range atoms {
				s = append(s, "hm "+a.op.String()+" "+a.k)
			}
			return s
		}(), hmOK))
	// stores
	var stores = map[string]*ssa.Store{}
	for _, b := range fn.Blocks {
		for _, ins := range b.Instrs {
			if st, ok := ins.(*ssa.Store); ok {
				if fa, ok := st.Addr.(*ssa.FieldAddr); ok {
					stores[fieldKeyOf(fa)] = st
				}
			}
		}
	}
	for _, gz := range []struct {
		name string
		wrap int64
	}{{"Gan", 10}, {"Zhi", 12}} {
		plain, ex, ex2 := stores["Lunar.day"+gz.name+"Index"], stores["Lunar.day"+gz.name+"IndexExact"], stores["Lunar.day"+gz.name+"IndexExact2"]
		if plain == nil || ex == nil || ex2 == nil {
			r.bad(rule, "calendar.computeDay stores the three day "+gz.name+" variants", c.fnPos(fn), "missing store (undecided = fail)")
			continue
		}
		isPlain := func(v ssa.Value) bool {
			if v == plain.Val {
				return true
			}
			if recv, f, ok := getterField(c, v); ok && recv == ssa.Value(fn.Params[0]) && f == "Lunar.day"+gz.name+"Index" {
				return true
			}
			return false
		}
		r.check(isPlain(ex2.Val), rule, "calendar.computeDay: late-rat day "+gz.name+" is the un-advanced pillar", c.pos(ex2.Pos()), "Exact2 is stored from the plain value")
		// Exact: phi(base, advanced) where the advanced edge is dominated by both boundary tests being true
		good := false
		detail := "the stored value is not a merge of the un-advanced pillar and pillar+1 (wrapped) selected by the two boundary tests"
		if phi, ok := ex.Val.(*ssa.Phi); ok && lower != nil && upper != nil {
			region := upper.b.Succs[0] // evaluated second under &&
			if !(lower.b.Succs[0] == upper.b) {
				region = nil
			}
			var baseOK, advOK bool
			for i, e := range phi.Edges {
				pred := phi.Block().Preds[i]
				if isPlain(e) && (region == nil || !region.Dominates(pred)) {
					baseOK = true
					continue
				}
				if region != nil && region.Dominates(pred) && isIncrementOf(e, isPlain, gz.wrap) {
					advOK = true
				}
			}
			good = baseOK && advOK && region != nil
			if good {
				detail = "advanced by one (minus " + fmt.Sprint(gz.wrap) + " on overflow) exactly under both tests"
			}
		}
		r.check(good, rule, "calendar.computeDay: early-rat day "+gz.name+" advances in 23:00-23:59 only", c.pos(ex.Pos()), detail)
	}
	if tf := c.Fn(r, rule, "calendar.computeTime"); tf != nil {
		reads := c.eff.Of(tf).paramReads(0)
		has := func(p string) bool { return containsStr(reads, p) }
		r.check(has(".dayGanIndexExact") && !has(".dayGanIndex") && !has(".dayGanIndexExact2"), rule, "calendar.computeTime derives the hour stem from the early-rat day stem", c.fnPos(tf), "reads "+strings.Join(reads, " "))
	}
	if tf := c.Fn(r, rule, "calendar.NewLunarTime"); tf != nil {
		_, uses := c.eff.Of(tf).Calls["calendar.(*Lunar).GetDayGanIndexExact"]
		r.check(uses, rule, "calendar.NewLunarTime derives the hour stem from the early-rat day stem", c.fnPos(tf), "calls GetDayGanIndexExact")
	}
}

// isIncrementOf: v is base+1, or phi(base+1, base+1-wrap).
func isIncrementOf(v ssa.Value, isBase func(ssa.Value) bool, wrap int64) bool {
	inc := func(x ssa.Value) bool {
		bo, ok := x.(*ssa.BinOp)
		if !ok || bo.Op != token.ADD {
			return false
		}
		k, ok := constInt(bo.Y)
		return ok && k == 1 && isBase(bo.X)
	}
	if inc(v) {
		return true
	}
	if phi, ok := v.(*ssa.Phi); ok {
		sawInc, sawWrap := false, false
		for _, e := range phi.Edges {
			if inc(e) {
				sawInc = true
				continue
			}
			if bo, ok := e.(*ssa.BinOp); ok && bo.Op == token.SUB && inc(bo.X) {
				if k, ok := constInt(bo.Y); ok && k == wrap {
					sawWrap = true
					continue
				}
			}
			return false
		}
		return sawInc && sawWrap
	}
	return false
}

func r05_5(c *Ctx, r *Report) {
	likeWithLikeRule(c, r, "R05.5", func(fn *ssa.Function) bool {
		n := fname(fn)
		return n == "calendar.computeYear" || n == "calendar.computeMonth" || n == "calendar.computeDay"
	}, 8)
	const rule = "R05.5"
	// the Lichun of the civil year
	fn := c.Fn(r, rule, "calendar.computeYear")
	if fn == nil {
		return
	}
	keys := map[string]bool{}
	for k := range c.eff.Of(fn).Reads {
		if m := termPath.FindStringSubmatch(strings.TrimPrefix(k, "p0")); m != nil {
			keys[m[1]] = true
		}
	}
	sel := false
	for _, b := range fn.Blocks {
		iff, ok := b.Instrs[len(b.Instrs)-1].(*ssa.If)
		if !ok {
			continue
		}
		bo, ok := iff.Cond.(*ssa.BinOp)
		if !ok || (bo.Op != token.NEQ && bo.Op != token.EQL) {
			continue
		}
		_, f1, ok1 := getterField(c, bo.X)
		_, f2, ok2 := getterField(c, bo.Y)
		if ok1 && f1 == "Solar.year" && (ok2 && f2 == "Solar.year" || !ok2) {
			sel = true
		}
	}
	r.check(keys["立春"] && keys["LI_CHUN"] && sel, rule, "calendar.computeYear uses the Lichun of the civil year", c.fnPos(fn),
		fmt.Sprintf("term keys read: %v; selected by comparing the term's year with the civil year: %v", sortedKeys(keys), sel))
}

// boundaryAtoms lists the string-comparison branch atoms of fn as "<kind> <op>" (sorted).
func boundaryAtoms(c *Ctx, fn *ssa.Function) []string {
	var out []string
	for _, b := range fn.Blocks {
		iff, ok := b.Instrs[len(b.Instrs)-1].(*ssa.If)
		if !ok {
			continue
		}
		x, y, op, ok := stringCompareAtom(iff.Cond)
		if !ok {
			continue
		}
		kx, ky := c.renderKind(x, 0), c.renderKind(y, 0)
		if kx == "" || kx != ky {
			continue
		}
		out = append(out, kx+" "+op.String())
	}
	sort.Strings(out)
	return out
}

func r05_4(c *Ctx, r *Report) {
	const rule = "R05.4"
	r.rule(rule, "Change-over boundaries are half-open. computeYear moves to the previous year pillar when the civil day / instant is strictly before Lichun (<) and to the next one when it is at or after it (>=), once for the day-level and once for the exact variant; computeMonth's term intervals are [start, end): the search stops when now >= start and now < end, once per variant. So the Lichun day, the Jie day and the exact instants themselves belong to the new pillar.")
	want := map[string][]string{
		"calendar.computeYear":  {"Ymd <", "Ymd >=", "YmdHms <", "YmdHms >="},
		"calendar.computeMonth": {"Ymd <", "Ymd >=", "YmdHms <", "YmdHms >="},
	}
	for _, name := range []string{"calendar.computeMonth", "calendar.computeYear"} {
		fn := c.Fn(r, rule, name)
		if fn == nil {
			continue
		}
		got := boundaryAtoms(c, fn)
		r.check(equalStrs(got, want[name]), rule, name+" boundary comparisons are < start-of-next and >= start", c.fnPos(fn),
			fmt.Sprintf("typed comparison atoms found %v, required %v: with <= or > the boundary day/instant itself is assigned to the old pillar", got, want[name]))
	}
}
