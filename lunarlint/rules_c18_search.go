package main

// R18.6 — accessors that find a name in one vocabulary and answer from a parallel one.

import (
	"fmt"
	"sort"

	"golang.org/x/tools/go/ssa"
)

func r18_6(c *Ctx, r *Report) {
	const rule = "R18.6"
	r.rule(rule, "Vocabulary searches cover the whole vocabulary. The clash animal of the day and of the hour (Lunar.GetDayChongShengXiao, Lunar.GetTimeChongShengXiao, LunarTime.GetChongShengXiao and the descriptions built on them) is followed for every one of the twelve branches (the search loop as a table over the iteration number, tables folded, helpers inline): the answer is the animal at the position the clashing branch has in ZHI — for all twelve, so that no branch falls through to the empty string, and the same in the duplicated routes. The decade of a pillar (LunarUtil.GetXunIndex, behind every Xun and XunKong accessor) is followed for all sixty pillars: the pillar's position in the cycle divided by ten.")
	zhi := c.tabStrs(r, rule, "LunarUtil", "ZHI")
	sx := c.tabStrs(r, rule, "LunarUtil", "SHENG_XIAO")
	chong := c.tabStrs(r, rule, "LunarUtil", "CHONG")
	if len(zhi) != 13 || len(sx) != 13 || len(chong) != 12 {
		return
	}
	pos := func(name string) int {
		for i, z := range zhi {
			if z == name {
				return i
			}
		}
		return -1
	}
	for _, t := range []struct{ name, field string }{
		{"calendar.(*Lunar).GetDayChongShengXiao", "Lunar.dayZhiIndex"},
		{"calendar.(*Lunar).GetTimeChongShengXiao", "Lunar.timeZhiIndex"},
		{"calendar.(*LunarTime).GetChongShengXiao", "LunarTime.zhiIndex"},
	} {
		fn := c.Fn(r, rule, t.name)
		if fn == nil || len(fn.Params) != 1 {
			continue
		}
		var bad []string
		n := 0
		for z := int64(0); z < 12; z++ {
			z := z
			leaf := func(fr *evalFrame, v ssa.Value) (interface{}, bool) {
				if _, f, ok := getterField(c, v); ok && f == t.field {
					return z, true
				}
				return nil, false
			}
			ev := &evaluator{leaf: leaf, inline: inlineLibrary, counted: 40}
			res, outcome := ev.runCounted(fn, 40)
			n++
			want := ""
			if p := pos(chong[z]); p >= 0 {
				want = sx[p]
			}
			got := outcome + " " + ev.fail
			if outcome == "return" && len(res) == 1 {
				got = fmt.Sprint(res[0])
			}
			if got != want || want == "" {
				bad = append(bad, fmt.Sprintf("branch %s (clashing with %s): %q, stated %q", zhi[z+1], chong[z], got, want))
			}
		}
		sort.Strings(bad)
		r.check(len(bad) == 0 && n == 12, rule, t.name+" answers for all twelve branches", c.fnPos(fn), fmt.Sprintf("%d branches; deviations: %v", n, headList(bad, 3)))
	}
	xunTable(c, r, rule)
	r.floor(rule, 4)
}

// xunTable: the decade of every pillar. LunarUtil.GetXunIndex is followed for all sixty pillars (its searches as
// tables over the iteration number, function literals inline): the index is the pillar's position in the cycle
// divided by ten, the one XUN and XUN_KONG are laid out by. Under AX-SEARCHHIT (the argument is a pillar) the sixty
// pillars are all there is, so the table also bounds the index for the interval analysis where that cannot.
func xunTable(c *Ctx, r *Report, rule string) {
	c.xunRun = true
	fn := c.FuncBy["LunarUtil.GetXunIndex"]
	gan, zhi := c.tables.Var("LunarUtil", "GAN")
	_ = zhi
	g, err1 := c.tables.Var("LunarUtil", "GAN")
	z, err2 := c.tables.Var("LunarUtil", "ZHI")
	_ = gan
	if fn == nil || len(fn.Params) != 1 || err1 != nil || err2 != nil || g == nil || z == nil || len(g.L) != 11 || len(z.L) != 13 {
		r.bad(rule, "LunarUtil.GetXunIndex gives every pillar its decade", "-", "the function or the stem and branch tables were not found (undecided = fail)")
		return
	}
	var bad []string
	n := 0
	for k := 0; k < 60; k++ {
		pillar := g.L[k%10+1].S + z.L[k%12+1].S
		leaf := func(fr *evalFrame, v ssa.Value) (interface{}, bool) {
			if p, ok := v.(*ssa.Parameter); ok && fr.parent == nil && p == fn.Params[0] {
				return pillar, true
			}
			return nil, false
		}
		ev := &evaluator{leaf: leaf, inline: inlineLibrary, counted: 64}
		res, outcome := ev.run(fn, nil, nil, nil, nil)
		n++
		got := outcome + " " + ev.fail
		if outcome == "return" && len(res) == 1 {
			got = fmt.Sprint(res[0])
		}
		if got != fmt.Sprint(k/10) {
			bad = append(bad, fmt.Sprintf("pillar %s (number %d of the cycle): %s, stated %d", pillar, k, got, k/10))
		}
	}
	sort.Strings(bad)
	c.xunOK = len(bad) == 0 && n == 60
	r.check(len(bad) == 0 && n == 60, rule, "LunarUtil.GetXunIndex gives every pillar its decade", c.fnPos(fn), fmt.Sprintf("%d pillars; deviations: %v", n, headList(bad, 3)))
}
