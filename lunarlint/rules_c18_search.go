package main

// R18.6 — accessors that find a name in one vocabulary and answer from a parallel one.

import (
	"fmt"
	"sort"

	"golang.org/x/tools/go/ssa"
)

func r18_6(c *Ctx, r *Report) {
	const rule = "R18.6"
	r.rule(rule, "Vocabulary searches cover the whole vocabulary. The clash animal of the day and of the hour (Lunar.GetDayChongShengXiao, Lunar.GetTimeChongShengXiao, LunarTime.GetChongShengXiao and the descriptions built on them) is followed for every one of the twelve branches (the search loop as a table over the iteration number, tables folded, helpers inline): the answer is the animal at the position the clashing branch has in ZHI — for all twelve, so that no branch falls through to the empty string, and the same in the duplicated routes.")
	zhi := c.tabStrs(r, rule, "LunarUtil", "ZHI")
	sx := c.tabStrs(r, rule, "LunarUtil", "SHENG_XIAO")
	chong := c.tabStrs(r, rule, "LunarUtil", "CHONG")
	if len(zhi) != 13 || len(sx) != 13 || len(chong) != 12 {
		return
	}
	pos := func(name string) int {
		for i, z := range zhi {
			if z == name {
				return i
			}
		}
		return -1
	}
	for _, t := range []struct{ name, field string }{
		{"calendar.(*Lunar).GetDayChongShengXiao", "Lunar.dayZhiIndex"},
		{"calendar.(*Lunar).GetTimeChongShengXiao", "Lunar.timeZhiIndex"},
		{"calendar.(*LunarTime).GetChongShengXiao", "LunarTime.zhiIndex"},
	} {
		fn := c.Fn(r, rule, t.name)
		if fn == nil || len(fn.Params) != 1 {
			continue
		}
		var bad []string
		n := 0
		for z := int64(0); z < 12; z++ {
			z := z
			leaf := func(fr *evalFrame, v ssa.Value) (interface{}, bool) {
				if _, f, ok := getterField(c, v); ok && f == t.field {
					return z, true
				}
				return nil, false
			}
			ev := &evaluator{leaf: leaf, inline: inlineLibrary, counted: 40}
			res, outcome := ev.runCounted(fn, 40)
			n++
			want := ""
			if p := pos(chong[z]); p >= 0 {
				want = sx[p]
			}
			got := outcome + " " + ev.fail
			if outcome == "return" && len(res) == 1 {
				got = fmt.Sprint(res[0])
			}
			if got != want || want == "" {
				bad = append(bad, fmt.Sprintf("branch %s (clashing with %s): %q, stated %q", zhi[z+1], chong[z], got, want))
			}
		}
		sort.Strings(bad)
		r.check(len(bad) == 0 && n == 12, rule, t.name+" answers for all twelve branches", c.fnPos(fn), fmt.Sprintf("%d branches; deviations: %v", n, headList(bad, 3)))
	}
	r.floor(rule, 3)
}
