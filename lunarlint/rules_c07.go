package main

// C07 — constructors accept exactly valid dates; no invalid object.

import (
	"fmt"
	"go/token"
	"go/types"
	"sort"
	"strings"

	"golang.org/x/tools/go/ssa"
)

func init() {
	register("C07",
		"that DAYS_OF_MONTH and the leap rules are the right calendar beyond the literal table; which lunar (year, month, day) triples are images of civil days (numeric in the month table).",
		r07_1, r07_2, r07_3, r07_4, r07_5, r04_2, r17_1, r17_5, r17_6, r06_1, r04_9, r04_8)
}

func r07_1(c *Ctx, r *Report) {
	const rule = "R07.1"
	r.rule(rule, "Who may build. Every store to a field of a library struct is made (a) by the activation that allocated the object, (b) by an unexported builder through a parameter that at every call site is such a freshly allocated object (compute*, LunarYear.compute, Yun.computeStart — by behaviour, not by name, transitively), (c) by a documented Set* mutator on its own receiver, or (d) into the hour, minute or second of a civil date that a callee has just built and handed back (every return of that callee is, transitively, its own allocation), with a value the interval analysis proves inside that field's range; with R09.3 (no entry point writes to pre-existing memory) this reduces 'no sequence of calls yields an invalid object' to the constructors' own checks.")
	writers := map[string]map[string]bool{}
	outside := map[string]map[string]string{}
	for _, fn := range c.Funcs {
		if isInit(fn) {
			continue
		}
		for _, b := range fn.Blocks {
			for _, ins := range b.Instrs {
				st, ok := ins.(*ssa.Store)
				if !ok {
					continue
				}
				fa, ok := st.Addr.(*ssa.FieldAddr)
				if !ok {
					continue
				}
				typ := strings.SplitN(fieldKeyOf(fa), ".", 2)[0]
				if writers[typ] == nil {
					writers[typ] = map[string]bool{}
					outside[typ] = map[string]string{}
				}
				writers[typ][fname(fn)] = true
				why := ""
				switch root := rootAlloc(fa.X).(type) {
				case *ssa.Alloc:
					// the object was allocated by this very activation: it is still under construction
				case *ssa.Parameter:
					idx := paramIndex(fn, root)
					switch {
					case idx == 0 && isDocumentedMutator(fn) && structName(fn.Signature.Recv().Type()) == typ:
					case c.builderParam(fn, idx, map[string]bool{}):
					default:
						why = "stores through its parameter " + root.Name() + ", which is not always an object its caller has just allocated"
					}
				default:
					if !(isDocumentedMutator(fn) && structName(fn.Signature.Recv().Type()) == typ) {
						why = "stores through a pointer that is neither its own allocation nor a parameter under construction"
						// (d) a time-of-day field of an object a callee has just built and handed back (every return of that
						// callee, transitively, is its own allocation), set to a value proven inside the field's own range:
						// the object is this activation's to finish, and the field is validated on its own
						if rng, ranged := independentFieldRange[fieldKeyOf(fa)]; ranged {
							if call, isCall := rootAlloc(fa.X).(*ssa.Call); isCall && returnsFresh(call, 0) {
								if v := c.ranges().obsAt(fn, st, st.Val); !v.bot && v.known() && v.lo() >= rng[0] && v.hi() <= rng[1] {
									why = ""
								}
							}
						}
					}
				}
				if why != "" {
					outside[typ][fname(fn)] = why
				}
			}
		}
	}
	var typs []string
	for t := range writers {
		typs = append(typs, t)
	}
	sort.Strings(typs)
	for _, t := range typs {
		var bad []string
		for w, why := range outside[t] {
			bad = append(bad, w+" ("+why+")")
		}
		sort.Strings(bad)
		r.check(len(bad) == 0, rule, "fields of "+t+" are stored only by its builders", "-", fmt.Sprintf("writers %v; writing to an object that is not under construction and not a Set* mutator: %v", sortedKeys(writers[t]), bad))
	}
	r.floor(rule, 18)
}

// independentFieldRange: the fields of a civil date whose validity does not depend on the other fields.
var independentFieldRange = map[string][2]int64{"Solar.hour": {0, 23}, "Solar.minute": {0, 59}, "Solar.second": {0, 59}}

func r07_2(c *Ctx, r *Report) {
	const rule = "R07.2"
	r.rule(rule, "Validation dominates allocation. At the only allocation site of Solar the interval analysis gives month in [1,12], day in [1,31], hour in [0,23], minute and second in [0,59] (the rejected ranges end in panic); outside October 1582 the day is compared with GetDaysOfMonth(year, month) of the constructor's own arguments; NewLunar checks month existence, day >= 1 and day <= the month's day count before it allocates.")
	e := c.ranges()
	for _, f := range []struct {
		key    string
		lo, hi int64
	}{{"Solar.month", 1, 12}, {"Solar.day", 1, 31}, {"Solar.hour", 0, 23}, {"Solar.minute", 0, 59}, {"Solar.second", 0, 59}} {
		v := e.fieldInv[f.key].orBot()
		okk := !v.bot && v.known() && v.lo() == f.lo && v.hi() == f.hi
		r.check(okk, rule, fmt.Sprintf("field %s is exactly [%d,%d] at the allocation site", f.key, f.lo, f.hi), "-", "invariant "+v.String()+" (wider: an out-of-range value is accepted; narrower: a valid value is rejected)")
	}
	if fn := c.Fn(r, rule, "calendar.NewSolar"); fn != nil {
		var allocs []string
		for _, f := range c.Funcs {
			for _, b := range f.Blocks {
				for _, ins := range b.Instrs {
					if al, ok := ins.(*ssa.Alloc); ok && qualStruct(al.Type()) == "calendar.Solar" {
						if fname(f) != "calendar.NewSolar" && validSolarCopy(al) {
							continue // a copy of an already validated Solar whose time of day is reset to constants in range
						}
						allocs = append(allocs, fname(f))
					}
				}
			}
		}
		r.check(equalStrs(allocs, []string{"calendar.NewSolar"}), rule, "Solar is allocated only by NewSolar", c.fnPos(fn), fmt.Sprintf("allocation sites %v", allocs))
		// day > GetDaysOfMonth(year, month) -> panic, in the else arm of the 1582 guard
		okk := false
		for _, b := range fn.Blocks {
			iff, ok := b.Instrs[len(b.Instrs)-1].(*ssa.If)
			if !ok {
				continue
			}
			bo, ok := iff.Cond.(*ssa.BinOp)
			if !ok || bo.Op != token.GTR || describeArg(c, fn, bo.X) != "p2" {
				continue
			}
			call, ok := bo.Y.(*ssa.Call)
			if !ok || call.Common().StaticCallee() == nil || fname(call.Common().StaticCallee()) != "SolarUtil.GetDaysOfMonth" {
				continue
			}
			if describeArg(c, fn, call.Common().Args[0]) == "p0" && describeArg(c, fn, call.Common().Args[1]) == "p1" {
				if _, isPanic := b.Succs[0].Instrs[len(b.Succs[0].Instrs)-1].(*ssa.Panic); isPanic {
					okk = true
				}
			}
		}
		r.check(okk, rule, "calendar.NewSolar rejects day > GetDaysOfMonth(year, month)", c.fnPos(fn), "comparison of the day argument with the month length of the same year and month, ending in panic")
	}
	if fn := c.Fn(r, rule, "calendar.NewLunar"); fn != nil {
		var alloc *ssa.Alloc
		for _, b := range fn.Blocks {
			for _, ins := range b.Instrs {
				if al, ok := ins.(*ssa.Alloc); ok && qualStruct(al.Type()) == "calendar.Lunar" {
					alloc = al
				}
			}
		}
		construct := "calendar.NewLunar validates month existence and the day range before allocating"
		if alloc == nil || len(fn.Params) != 6 {
			r.bad(rule, construct, c.fnPos(fn), "allocation site of Lunar or the six parameters not found (undecided = fail)")
		} else {
			// decision table: month found or not, day count 29/30, day 0..31; followed until the allocation
			var bad []string
			n := 0
			for _, exists := range []bool{true, false} {
				for _, dc := range []int64{29, 30} {
					for d := int64(-1); d <= 32; d++ {
						args := []int64{2020, 4, d, 1, 2, 3}
						problems := map[string]bool{}
						var leaf leafX
						leaf = func(fr *evalFrame, v ssa.Value) (interface{}, bool) {
							if fr.parent == nil {
								for i, p := range fn.Params {
									if v == ssa.Value(p) {
										return args[i], true
									}
								}
							}
							// the month's day count, through its getter or as the field
							if rc, f, ok := getterField(c, v); ok && f == "LunarMonth.dayCount" {
								if t, ok := evalWith(fr, rc, leaf); ok {
									if ptr, isP := t.(absPtr); isP && ptr.tag == "month" {
										if ptr.isNil {
											problems["the day count of a month that was not found is read"] = true
											return nil, false
										}
										return dc, true
									}
								}
							}
							call, ok := v.(*ssa.Call)
							if !ok || call.Common().StaticCallee() == nil {
								return nil, false
							}
							arg := func(i int) (interface{}, bool) { return evalWith(fr, call.Common().Args[i], leaf) }
							switch fname(call.Common().StaticCallee()) {
							case "calendar.NewLunarYear":
								if y, ok := arg(0); ok && y == interface{}(args[0]) {
									return absPtr{"year table", false}, true
								}
								problems["the year table of another year is consulted"] = true
							case "calendar.(*LunarYear).GetMonth":
								t, ok1 := arg(0)
								m, ok2 := arg(1)
								if ok1 && ok2 && t == interface{}(absPtr{"year table", false}) && m == interface{}(args[1]) {
									return absPtr{"month", !exists}, true
								}
								problems["another month is looked up"] = true
							case "calendar.(*LunarMonth).GetDayCount":
								if t, ok := arg(0); ok {
									if ptr, isP := t.(absPtr); isP && ptr.tag == "month" {
										if ptr.isNil {
											problems["the day count of a month that was not found is read"] = true
											return nil, false
										}
										return dc, true
									}
								}
							}
							return nil, false
						}
						ev := &evaluator{inline: inlineLibrary, leaf: leaf}
						_, outcome := ev.run(fn, nil, nil, nil, func(b *ssa.BasicBlock) bool { return b == alloc.Block() })
						n++
						want := "panic"
						if exists && d >= 1 && d <= dc {
							want = fmt.Sprintf("stop:%d", alloc.Block().Index)
						}
						for k := range problems {
							bad = append(bad, k)
						}
						if outcome != want {
							bad = append(bad, fmt.Sprintf("month found=%v, %d days, day %d: %s (%s), expected %s", exists, dc, d, map[bool]string{true: "rejected", false: "accepted"}[outcome == "panic"], outcome+" "+ev.fail, map[bool]string{true: "rejection", false: "acceptance"}[want == "panic"]))
						}
					}
				}
			}
			sort.Strings(bad)
			r.check(len(bad) == 0 && n == 136, rule, construct, c.fnPos(fn), fmt.Sprintf("%d cases (month found x day count x day) followed up to the allocation; deviations: %v", n, headList(dedupe(bad), 3)))
		}
	}
}

func r07_3(c *Ctx, r *Report) {
	const rule = "R07.3"
	r.rule(rule, "Funnels. NewSolarFromYmd/Date/JulianDay and NextDay/NextMonth/NextYear/NextHour/Next return only values produced by NewSolar; NewLunarFromYmd, NewLunarTime, NewTao*, NewFoto* reach NewLunar; GetLunar reaches NewLunarFromSolar.")
	solarFunnel := map[string]bool{"calendar.NewSolar": true}
	names := []string{"calendar.NewSolarFromYmd", "calendar.NewSolarFromDate", "calendar.NewSolarFromJulianDay", "calendar.(*Solar).NextDay", "calendar.(*Solar).NextMonth", "calendar.(*Solar).NextYear", "calendar.(*Solar).NextHour", "calendar.(*Solar).Next"}
	// the funnel set is the least fixed point over every library function that returns one value:
	// a helper all of whose returns are funnel calls is a funnel itself
	for changed := true; changed; {
		changed = false
		for _, fn := range c.Funcs {
			if solarFunnel[fname(fn)] || fn.Signature.Results().Len() != 1 || len(fn.Blocks) == 0 {
				continue
			}
			all, n := true, 0
			for _, b := range fn.Blocks {
				for _, ins := range b.Instrs {
					ret, ok := ins.(*ssa.Return)
					if !ok || len(ret.Results) != 1 {
						continue
					}
					n++
					if !fromFunnel(ret.Results[0], solarFunnel, map[ssa.Value]bool{}) {
						all = false
					}
				}
			}
			if all && n > 0 {
				solarFunnel[fname(fn)] = true
				changed = true
			}
		}
	}
	for _, name := range names {
		fn := c.Fn(r, rule, name)
		if fn != nil {
			r.check(solarFunnel[name], rule, name+" returns only Solars built by NewSolar", c.fnPos(fn), "every returned value is a call of NewSolar or of another funnel function")
		}
	}
	for _, name := range []string{"calendar.NewLunarFromYmd", "calendar.NewLunarTime", "calendar.NewTao", "calendar.NewTaoFromYmd", "calendar.NewFoto", "calendar.NewFotoFromYmd"} {
		fn := c.Fn(r, rule, name)
		if fn != nil {
			_, okk := c.eff.Of(fn).Calls["calendar.NewLunar"]
			r.check(okk, rule, name+" reaches NewLunar", c.fnPos(fn), "")
		}
	}
}

func fromFunnel(v ssa.Value, funnel map[string]bool, seen map[ssa.Value]bool) bool {
	if seen[v] {
		return true
	}
	seen[v] = true
	switch x := v.(type) {
	case *ssa.Call:
		callee := x.Common().StaticCallee()
		return callee != nil && funnel[fname(callee)]
	case *ssa.Phi:
		for _, e := range x.Edges {
			if !fromFunnel(e, funnel, seen) {
				return false
			}
		}
		return true
	}
	return false
}

func r07_4(c *Ctx, r *Report) {
	const rule = "R07.4"
	r.rule(rule, "The year table a conversion works from is complete. The cache protocol of NewLunarYear (same analysis as C09 R09.2) publishes a table only after the last write to it and hands out the cached one only under the lock and a key test; a half-built table makes NewLunarFromSolar produce the date (0, 0, 0).")
	bad, good, n := lockProtocol(c)
	for _, f := range good {
		r.ok(rule, f.construct, c.pos(f.pos), f.msg)
	}
	for _, f := range bad {
		r.bad(rule, f.construct, c.pos(f.pos), f.msg)
	}
	if n == 0 {
		r.bad(rule, "package mutexes", "-", "no package-level mutex found (undecided = fail)")
	}
}

func paramIndex(fn *ssa.Function, p *ssa.Parameter) int {
	for i, q := range fn.Params {
		if q == p {
			return i
		}
	}
	return -1
}

// builderParam: fn is unexported and at every call site in the library its idx-th argument is an
// object allocated by the calling activation, or the caller's own parameter for which the same holds.
func (c *Ctx) builderParam(fn *ssa.Function, idx int, seen map[string]bool) bool {
	if idx < 0 || fn.Object() == nil || fn.Object().Exported() {
		return false
	}
	key := fmt.Sprintf("%s#%d", fname(fn), idx)
	if seen[key] {
		return true
	}
	seen[key] = true
	sites := 0
	for _, caller := range c.Funcs {
		for _, b := range caller.Blocks {
			for _, ins := range b.Instrs {
				call, ok := ins.(ssa.CallInstruction)
				if !ok || call.Common().StaticCallee() != fn || idx >= len(call.Common().Args) {
					continue
				}
				sites++
				arg := call.Common().Args[idx]
				// a variable that lives in a cell: what it certainly holds at the call
				if ld, isLd := arg.(*ssa.UnOp); isLd && ld.Op == token.MUL {
					if cell, isCell := ld.X.(*ssa.Alloc); isCell && !isAggregate(cell) {
						if st := cellStoreBefore(cell, ld); st != nil {
							arg = st.Val
						}
					}
				}
				switch a := arg.(type) {
				case *ssa.Alloc:
				case *ssa.Parameter:
					if !c.builderParam(caller, paramIndex(caller, a), seen) {
						return false
					}
				default:
					return false
				}
			}
		}
	}
	return sites > 0
}

func r07_5(c *Ctx, r *Report) {
	const rule = "R07.5"
	r.rule(rule, "No field is read that nobody stores. Every field of a library struct that some library function loads is stored by at least one function (its constructor, a builder or a Set* mutator; the stores of a composite literal count): a field that is read but never stored silently holds its zero value in every object — the direction of a fortune chart that was dropped from a constructor reads as 'backward' for everyone.")
	stored := map[string]bool{}
	loaded := map[string]token.Pos{}
	for _, fn := range c.Funcs {
		for _, b := range fn.Blocks {
			for _, ins := range b.Instrs {
				switch x := ins.(type) {
				case *ssa.Store:
					if fa, ok := x.Addr.(*ssa.FieldAddr); ok {
						stored[fieldKeyOf(fa)] = true
					}
					// a whole struct stored at once initialises all its fields
					if st, ok := x.Val.Type().Underlying().(*types.Struct); ok {
						if nt, ok := x.Val.Type().(*types.Named); ok {
							for i := 0; i < st.NumFields(); i++ {
								stored[nt.Obj().Name()+"."+fieldName(nt, i)] = true
							}
						}
					}
				case *ssa.UnOp:
					if fa, ok := x.X.(*ssa.FieldAddr); ok && x.Op == token.MUL {
						if pt, ok := fa.X.Type().Underlying().(*types.Pointer); ok {
							if nt, ok := pt.Elem().(*types.Named); !ok || nt.Obj().Pkg() == nil || !strings.HasPrefix(nt.Obj().Pkg().Path(), c.ModPath) {
								continue // a struct of another package
							}
						}
						if _, seen := loaded[fieldKeyOf(fa)]; !seen {
							loaded[fieldKeyOf(fa)] = x.Pos()
						}
					}
				}
			}
		}
	}
	n := 0
	var keys []string
	for k := range loaded {
		keys = append(keys, k)
	}
	sort.Strings(keys)
	for _, k := range keys {
		if strings.HasPrefix(k, "Mutex.") || strings.HasPrefix(k, "Once.") || !strings.Contains(k, ".") {
			continue
		}
		n++
		r.check(stored[k], rule, "field "+k+" is stored by some function", c.pos(loaded[k]), "loaded here, stored nowhere in the library: every object carries the zero value")
	}
	r.floor(rule, 100)
	_ = n
}

// validSolarCopy: the local is initialised by copying a whole Solar (*p) and afterwards only its hour, minute
// and second are stored, with constants inside their ranges: the copy is as valid as the original.
func validSolarCopy(al *ssa.Alloc) bool {
	if al.Referrers() == nil {
		return false
	}
	copied := false
	for _, ref := range *al.Referrers() {
		switch x := ref.(type) {
		case *ssa.Store:
			if x.Addr != ssa.Value(al) {
				return false
			}
			ld, ok := x.Val.(*ssa.UnOp)
			if !ok || ld.Op != token.MUL || qualStruct(ld.X.Type()) != "calendar.Solar" {
				return false
			}
			copied = true
		case *ssa.FieldAddr:
			name := fieldKeyOf(x)
			hi := int64(-1)
			switch name {
			case "Solar.hour":
				hi = 23
			case "Solar.minute", "Solar.second":
				hi = 59
			}
			if x.Referrers() == nil {
				continue
			}
			for _, r2 := range *x.Referrers() {
				if st, ok := r2.(*ssa.Store); ok && st.Addr == ssa.Value(x) {
					k, isK := constInt(st.Val)
					if !isK || hi < 0 || k < 0 || k > hi {
						return false
					}
				}
			}
		}
	}
	return copied
}
