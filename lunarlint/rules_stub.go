package main

func r09_2(c *Ctx, r *Report) {}
