package main

// C19 — printed forms are canonical, parse back, and sort in chronological order.

import (
	"fmt"
	"go/token"
	"sort"
	"strings"
	"unicode/utf8"

	"golang.org/x/tools/go/ssa"
)

func init() {
	register("C19",
		"nothing of note beyond AX-YEAR (years outside 0..9999 print wider) and the ranges of month/day/hour/minute/second, which R07.2 establishes at the only allocation site of Solar; a re-implementation of ToYmd/ToYmdHms that is not a single Sprintf is reported as undecided (fails) even if it is correct.",
		r19_1, r19_2, r19_3, r19_4, r17_1, r19_5, r19_6, r17_5)
}

func r19_1(c *Ctx, r *Report) {
	const rule = "R19.1"
	r.rule(rule, "Fixed-width timestamps. ToYmd renders the receiver's own (year, month, day) as %04d-%02d-%02d and ToYmdHms appends ' %02d:%02d:%02d' of its own (hour, minute, second): both functions are followed by the evaluator (formatting calls are the checker's own arithmetic, helpers inline) for component values with one, two, three and four digits, all distinct so that a transposition shows, and the result compared with that rendering. With the field ranges at the only allocation site of Solar (C07) and AX-YEAR this gives fixed width, hence parse-back and lexicographic = chronological order. Solar.String is ToYmd.")
	cases := [][6]int64{{5, 1, 2, 3, 4, 6}, {2345, 12, 31, 23, 59, 58}, {45, 10, 9, 0, 7, 30}, {345, 2, 28, 11, 0, 0}}
	for _, t := range []struct {
		name string
		hms  bool
	}{{"calendar.(*Solar).ToYmd", false}, {"calendar.(*Solar).ToYmdHms", true}, {"calendar.(*Solar).String", false}} {
		fn := c.Fn(r, rule, t.name)
		if fn == nil {
			continue
		}
		var bad []string
		for _, v := range cases {
			ev := &evaluator{inline: inlineLibrary, leaf: func(fr *evalFrame, x ssa.Value) (interface{}, bool) {
				if rc, f, ok := getterField(c, x); ok {
					if ofr, o := fr.origin(rc); ofr.parent == nil && o == ssa.Value(fn.Params[0]) {
						if i, known := solarComponent[f]; known {
							return v[i], true
						}
					}
				}
				return nil, false
			}}
			res, outcome := ev.run(fn, nil, nil, nil, nil)
			want := fmt.Sprintf("%04d-%02d-%02d", v[0], v[1], v[2])
			if t.hms {
				want += fmt.Sprintf(" %02d:%02d:%02d", v[3], v[4], v[5])
			}
			if outcome != "return" || len(res) != 1 {
				bad = append(bad, "not followed (undecided = fail): "+outcome+" "+ev.fail)
				break
			}
			if res[0] != interface{}(want) {
				bad = append(bad, fmt.Sprintf("%v renders as %q, expected %q", v, res[0], want))
			}
		}
		r.check(len(bad) == 0, rule, t.name+" is fixed-width and ordered", c.fnPos(fn), fmt.Sprintf("%d component assignments evaluated; deviations: %v", len(cases), headList(bad, 2)))
	}
}

func r19_2(c *Ctx, r *Report) {
	const rule = "R19.2"
	r.rule(rule, "Injective name tables. NUMBER[0..9] are ten distinct single runes; MONTH[1..12] and DAY[1..30] are distinct and non-empty; no month or day name contains 年, 月 or 闰 (the separators of the Chinese rendering), so year digits, leap marker, month name and day name can be read back unambiguously; the Chinese renderings of Lunar, Tao and Foto, followed by the evaluator for a spread of years, every month (leap or not) and every day, are the digits of the object's own year (its GetYear under the same inputs) through NUMBER + 年 + [闰] + MONTH[|month|] + 月 + DAY[day].")
	num := c.tabStrs(r, rule, "LunarUtil", "NUMBER")
	if num != nil {
		okk := len(num) >= 10
		seen := map[string]bool{}
		for i := 0; okk && i < 10; i++ {
			if utf8.RuneCountInString(num[i]) != 1 || seen[num[i]] {
				okk = false
			}
			seen[num[i]] = true
		}
		r.check(okk, rule, "LunarUtil.NUMBER[0..9] are distinct single runes", c.pos(c.tables.pos("LunarUtil", "NUMBER")), strings.Join(num, " "))
	}
	for _, t := range []struct {
		name string
		n    int
	}{{"MONTH", 12}, {"DAY", 30}} {
		xs := c.tabStrs(r, rule, "LunarUtil", t.name)
		if xs == nil {
			continue
		}
		okk := len(xs) == t.n+1
		var bad []string
		if okk {
			d, e := distinctNonEmpty(xs[1:])
			if len(d) > 0 || e > 0 {
				okk = false
				bad = append(bad, fmt.Sprintf("duplicates %v, %d empty", d, e))
			}
			for _, x := range xs[1:] {
				if strings.ContainsAny(x, "年月闰") {
					okk = false
					bad = append(bad, x+" contains a separator")
				}
				for _, d := range num {
					_ = d
				}
			}
		}
		r.check(okk, rule, fmt.Sprintf("LunarUtil.%s[1..%d] are distinct, non-empty and separator-free", t.name, t.n), c.pos(c.tables.pos("LunarUtil", t.name)), strings.Join(bad, "; "))
	}
	// no day name is a suffix-extension ambiguity with a month name: month names end at 月, so only day names matter for the tail
	if days := c.tabStrs(r, rule, "LunarUtil", "DAY"); days != nil && len(days) == 31 {
		amb := []string{}
		for i := 1; i <= 30; i++ {
			for j := 1; j <= 30; j++ {
				if i != j && strings.HasSuffix(days[i], days[j]) && days[i] != days[j] && utf8.RuneCountInString(days[i]) == utf8.RuneCountInString(days[j]) {
					amb = append(amb, days[i]+"/"+days[j])
				}
			}
		}
		r.check(len(amb) == 0, rule, "LunarUtil.DAY names all have two runes and differ", c.pos(c.tables.pos("LunarUtil", "DAY")), strings.Join(amb, " "))
	}
	// the renderings themselves: followed by the evaluator for a spread of years, every month (leap or not) and
	// every day; the year rendered is the object's own year (its GetYear, followed with the same inputs)
	months, days := c.tabStrs(r, rule, "LunarUtil", "MONTH"), c.tabStrs(r, rule, "LunarUtil", "DAY")
	for _, name := range []string{"calendar.(*Lunar).String", "calendar.(*Tao).ToString", "calendar.(*Foto).ToString"} {
		fn := c.Fn(r, rule, name)
		if fn == nil || len(fn.Params) != 1 || len(num) < 10 || len(months) != 13 || len(days) != 31 {
			continue
		}
		yearFn := c.FuncBy[strings.TrimSuffix(strings.TrimSuffix(name, "ToString"), "String")+"GetYear"]
		if yearFn == nil {
			r.bad(rule, name+" renders year 年 [闰] month 月 day", c.fnPos(fn), "the type has no GetYear (undecided = fail)")
			continue
		}
		var bad []string
		n := 0
		for _, y := range []int64{1, 9, 10, 99, 100, 1900, 2024, 9999} {
			for m := int64(-12); m <= 12; m++ {
				if m == 0 {
					continue
				}
				for d := int64(1); d <= 30 && len(bad) < 4; d++ {
					leaf := func(fr *evalFrame, v ssa.Value) (interface{}, bool) {
						if _, f, ok := getterField(c, v); ok {
							switch {
							case f == "Lunar.year":
								return y, true
							case f == "Lunar.month":
								return m, true
							case f == "Lunar.day":
								return d, true
							case strings.HasSuffix(f, ".lunar"):
								return absPtr{"lunar", false}, true
							}
						}
						return nil, false
					}
					own := y
					if yearFn != nil {
						ev := &evaluator{leaf: leaf, inline: inlineLibrary}
						if res, outcome := ev.run(yearFn, nil, nil, nil, nil); outcome == "return" && len(res) == 1 {
							if k, isI := res[0].(int64); isI {
								own = k
							}
						}
					}
					want := ""
					for _, ch := range fmt.Sprint(own) {
						if ch >= '0' && ch <= '9' {
							want += num[ch-'0']
						} else {
							want += string(ch)
						}
					}
					want += "年"
					am := m
					if m < 0 {
						want += "闰"
						am = -m
					}
					want += months[am] + "月" + days[d]
					ev := &evaluator{leaf: leaf, inline: inlineLibrary, counted: 64}
					res, outcome := ev.run(fn, nil, nil, nil, nil)
					n++
					got := outcome + " " + ev.fail
					if outcome == "return" && len(res) == 1 {
						got = fmt.Sprint(res[0])
					}
					if got != want {
						bad = append(bad, fmt.Sprintf("lunar year %d (own year %d), month %d, day %d: %q, expected %q", y, own, m, d, got, want))
					}
				}
			}
		}
		r.check(len(bad) == 0 && n == 8*24*30, rule, name+" renders year 年 [闰] month 月 day", c.fnPos(fn), fmt.Sprintf("%d cases (year x month x day); deviations: %v", n, headList(bad, 3)))
	}
	// the year digits: every decimal digit of the year through NUMBER, most significant first — the functions
	// are followed for a spread of years (their digit loop as a table over the iteration number)
	for _, name := range []string{"calendar.(*Lunar).GetYearInChinese", "calendar.(*Tao).GetYearInChinese", "calendar.(*Foto).GetYearInChinese"} {
		fn := c.Fn(r, rule, name)
		if fn == nil || len(fn.Params) != 1 || len(num) < 10 {
			continue
		}
		var bad []string
		n := 0
		var years []int64
		for y := int64(0); y <= 120; y++ {
			years = append(years, y)
		}
		for _, base := range []int64{990, 1990, 2690, 4710, 9990, 10530, 12690} {
			for d := int64(0); d <= 25; d++ {
				years = append(years, base+d)
			}
		}
		for _, y := range years {
			if len(bad) >= 4 {
				break
			}
			y := y
			leaf := func(fr *evalFrame, v ssa.Value) (interface{}, bool) {
				if rc, f, ok := getterField(c, v); ok && (f == "Lunar.year") {
					if ofr, o := fr.origin(rc); ofr.parent == nil && o == ssa.Value(fn.Params[0]) {
						return y, true
					}
				}
				if call, ok := v.(*ssa.Call); ok && call.Common().StaticCallee() != nil && call.Common().StaticCallee().Name() == "GetYear" && len(call.Common().Args) == 1 {
					if ofr, o := fr.origin(call.Common().Args[0]); ofr.parent == nil && o == ssa.Value(fn.Params[0]) {
						return y, true
					}
				}
				return nil, false
			}
			ev := &evaluator{leaf: leaf, inline: inlineLibrary, counted: 64}
			res, outcome := ev.runCounted(fn, 64)
			n++
			want := ""
			for _, ch := range fmt.Sprint(y) {
				want += num[ch-'0']
			}
			got := outcome + " " + ev.fail
			if outcome == "return" && len(res) == 1 {
				got = fmt.Sprint(res[0])
			}
			if got != want {
				bad = append(bad, fmt.Sprintf("year %d: %s, stated %s", y, got, want))
			}
		}
		r.check(len(bad) == 0 && n > 0, rule, name+" maps each decimal digit of the year through NUMBER", c.fnPos(fn), fmt.Sprintf("%d years; deviations: %v", n, headList(bad, 3)))
	}
	// month rendering: leap marker + MONTH[|month|]
	if fn := c.Fn(r, rule, "calendar.(*Lunar).GetMonthInChinese"); fn != nil {
		consts := returnedAndConcatConsts(fn)
		r.check(containsStr(consts, "闰"), rule, "calendar.(*Lunar).GetMonthInChinese marks leap months with 闰", c.fnPos(fn), fmt.Sprintf("string constants used: %v", consts))
	}
}

func valueOf(ins ssa.Instruction) ssa.Value {
	if v, ok := ins.(ssa.Value); ok {
		return v
	}
	return nil
}

// renderingShape lists, in order, the literal pieces and accessor calls that make up a String method.
func renderingShape(fn *ssa.Function) string {
	var parts []string
	for _, b := range fn.Blocks {
		for _, ins := range b.Instrs {
			switch x := ins.(type) {
			case *ssa.Call:
				if _, f, _, ok := sprintfCall(x); ok {
					parts = append([]string{f}, parts...)
					continue
				}
				if callee := x.Common().StaticCallee(); callee != nil && callee.Signature.Recv() != nil {
					parts = append(parts, callee.Name())
				}
			case *ssa.BinOp:
				if s, ok := constString(x.Y); ok {
					parts = append(parts, s)
				}
			}
		}
	}
	return strings.Join(parts, " ")
}

func returnedAndConcatConsts(fn *ssa.Function) []string {
	set := map[string]bool{}
	for _, b := range fn.Blocks {
		for _, ins := range b.Instrs {
			for _, op := range ins.Operands(nil) {
				if op != nil && *op != nil {
					if s, ok := constString(*op); ok {
						set[s] = true
					}
				}
			}
		}
	}
	return sortedKeys(set)
}

func r19_3(c *Ctx, r *Report) {
	likeWithLikeRule(c, r, "R19.3", nil, 20)
	control(r, "R19.3", "fx.Mixed compares a day rendering with a timestamp", func(fc *Ctx) bool {
		for _, s := range fc.compareSites() {
			if fname(s.fn) == "fx.Mixed" && s.kx != s.ky {
				return true
			}
		}
		return false
	})
}

func r19_4(c *Ctx, r *Report) {
	tableIndexRule(c, r, "R19.4", func(fn *ssa.Function) bool {
		n := fn.Name()
		return strings.Contains(n, "InChinese") || strings.Contains(n, "MonthName") || strings.HasSuffix(n, "String")
	}, 8)
}

// R19.5: printing a date does not change it.
func r19_5(c *Ctx, r *Report) {
	const rule = "R19.5"
	r.rule(rule, "Printing leaves the date alone. No rendering method of Solar, Lunar, Tao or Foto (String, ToString, ToFullString, ToYmd, ToYmdHms, Get*InChinese) stores — itself or through anything it calls (E2 effects) — to a year, month, day, hour, minute or second field of its receiver or of the date its receiver wraps: a rendering that rewrites the date it prints (say, flips the sign of a leap month) makes the printed text parse back to a date the object no longer holds, and the next printing of the same object different.")
	dateField := map[string]bool{"year": true, "month": true, "day": true, "hour": true, "minute": true, "second": true}
	isRenderer := func(n string) bool {
		switch n {
		case "String", "ToString", "ToFullString", "ToYmd", "ToYmdHms":
			return true
		}
		return strings.HasPrefix(n, "Get") && strings.HasSuffix(n, "InChinese")
	}
	n := 0
	for _, typ := range []string{"Solar", "Lunar", "Tao", "Foto"} {
		for _, fn := range c.methodsOf("calendar", typ) {
			if !isExported(fn.Name()) || !isRenderer(fn.Name()) {
				continue
			}
			n++
			var bad []string
			var pos token.Pos
			for _, l := range c.eff.Of(fn).Writes {
				parts := strings.SplitN(l.Flat, ".", 2)
				if l.Root == "p0" && len(parts) == 2 && dateField[parts[1]] {
					bad = append(bad, "store to "+l.Flat+" in "+l.Via)
					pos = l.Pos
				}
			}
			if len(bad) > 0 {
				sort.Strings(bad)
				r.bad(rule, fname(fn)+" leaves the date it prints alone", c.pos(pos), strings.Join(dedupe(bad), "; "))
			} else {
				r.ok(rule, fname(fn)+" leaves the date it prints alone", c.fnPos(fn), "no store to a date field below the receiver")
			}
		}
	}
	r.floor(rule, 12)
}
