package main

import (
	"fmt"
	"go/token"
	"sort"
	"strings"

	"golang.org/x/tools/go/ssa"
)

type tableSite struct {
	fn    *ssa.Function
	ins   ssa.Instruction
	table string
	kind  string // "index" | "slice"
	idx   ssa.Value
	lo    ssa.Value
	hi    ssa.Value
}

// tableSites: every computed index or slice into a never-written package-level table.
func (e *rangeEngine) tableSites() []tableSite {
	var out []tableSite
	tabOf := func(v ssa.Value) (string, bool) {
		switch x := v.(type) {
		case *ssa.UnOp:
			if x.Op == token.MUL {
				if g, ok := x.X.(*ssa.Global); ok {
					return gname(g), true
				}
			}
		case *ssa.Global:
			return gname(x), true
		}
		return "", false
	}
	for _, fn := range e.c.Funcs {
		if isInit(fn) {
			continue
		}
		for _, b := range fn.Blocks {
			for _, ins := range b.Instrs {
				switch x := ins.(type) {
				case *ssa.IndexAddr:
					if t, ok := tabOf(x.X); ok {
						out = append(out, tableSite{fn: fn, ins: ins, table: t, kind: "index", idx: x.Index})
					}
				case *ssa.Index:
					if t, ok := tabOf(x.X); ok {
						out = append(out, tableSite{fn: fn, ins: ins, table: t, kind: "index", idx: x.Index})
					}
				case *ssa.Slice:
					if t, ok := tabOf(x.X); ok && (x.Low != nil || x.High != nil) {
						out = append(out, tableSite{fn: fn, ins: ins, table: t, kind: "slice", lo: x.Low, hi: x.High})
					}
				case *ssa.Lookup:
					// string tables indexed by byte position
					if t, ok := tabOf(x.X); ok && isIntType(x.Index.Type()) {
						out = append(out, tableSite{fn: fn, ins: ins, table: t, kind: "index", idx: x.Index})
					}
				}
			}
		}
	}
	return out
}

func r08_3(c *Ctx, r *Report) { tableIndexRule(c, r, "R08.3", nil, 150) }

func tableIndexRule(c *Ctx, r *Report, rule string, pick func(fn *ssa.Function) bool, floor int) {
	r.rule(rule, "Table index safety. For every computed index (and slice bound) into a package-level table that is never written after init: index in [0, len), and in [1, len) when element 0 of the table is the empty sentinel of a 1-based vocabulary and the index is not a search-loop counter. Decided by the interval analysis E3 (field invariants from constructor exits, loop unrolling, branch refinement); each site is PROVEN, PROVEN-UNDER(named axioms) or UNPROVEN, and UNPROVEN fails.")
	e := c.ranges()
	lemmas, _ := c.scratch["lemmas"].(lemmaSet)
	sites := e.tableSites()
	nconst := 0
	blocked := map[string]int{}
	type siteKey struct{ fn, table, expr string }
	seenKey := map[string]int{}
	for _, s := range sites {
		if pick != nil && !pick(s.fn) {
			continue
		}
		ln, ok := e.tabLen[s.table]
		if e.mutable[s.table] {
			continue // mutable state (holiday tables) is handled by C14
		}
		if !ok {
			r.bad(rule, fmt.Sprintf("%s: %s[...]", fname(s.fn), s.table), c.pos(s.ins.Pos()), "length of the indexed table could not be read from its literal (undecided = fail)")
			continue
		}
		pos := c.pos(s.ins.Pos())
		if s.kind == "slice" {
			lo, hi := constVal(0), constVal(ln)
			if s.lo != nil {
				lo = e.obsAt(s.fn, s.ins, s.lo)
			}
			if s.hi != nil {
				hi = e.obsAt(s.fn, s.ins, s.hi)
			}
			construct := uniq(seenKey, fmt.Sprintf("%s: %s[%s:%s]", fname(s.fn), s.table, nameOf(s.lo), nameOf(s.hi)))
			if lo.bot || hi.bot {
				r.ok(rule, construct, pos, "not reached by the analysis").Class = "DEAD"
				continue
			}
			if lo.known() && hi.known() && lo.lo() >= 0 && hi.hi() <= ln && lo.hi() <= hi.hi() {
				o := r.ok(rule, construct, pos, fmt.Sprintf("bounds %s : %s within length %d", lo, hi, ln))
				o.Class = classOf(lo.ax | hi.ax)
				for _, a := range axList(lo.ax | hi.ax) {
					r.assume(axText(a))
				}
			} else if cl := lemmaClass(c, r, s, lemmas); strings.HasPrefix(cl, "BLOCKED:") {
				blocked[strings.TrimPrefix(cl, "BLOCKED:")]++
			} else if cl != "" {
				r.ok(rule, construct, pos, fmt.Sprintf("bounds %s : %s; %s", lo, hi, cl)).Class = cl
			} else {
				r.bad(rule, construct, pos, fmt.Sprintf("slice bounds %s : %s not proven inside [0,%d]", lo, hi, ln)).Class = "UNPROVEN"
			}
			continue
		}
		if _, isConst := s.idx.(*ssa.Const); isConst {
			nconst++
		}
		iv := e.obsAt(s.fn, s.ins, s.idx)
		construct := uniq(seenKey, fmt.Sprintf("%s: %s[%s]", fname(s.fn), s.table, describeIndex(s.idx)))
		if iv.bot {
			r.ok(rule, construct, pos, "not reached by the analysis").Class = "DEAD"
			continue
		}
		minIdx := int64(0)
		sentinel := false
		if tv, err := c.tables.Var(strings.SplitN(s.table, ".", 2)[0], strings.SplitN(s.table, ".", 2)[1]); err == nil && tv != nil && tv.Kind == "list" && len(tv.L) > 1 && tv.L[0].Kind == "str" && tv.L[0].S == "" && tv.L[1].S != "" {
			sentinel = true
			if !isLoopCounter(s.idx) {
				minIdx = 1
			}
		}
		if iv.known() && iv.lo() >= minIdx && iv.hi() < ln {
			o := r.ok(rule, construct, pos, fmt.Sprintf("index %s within [%d,%d)", iv, minIdx, ln))
			o.Class = classOf(iv.ax)
			for _, a := range axList(iv.ax) {
				r.assume(axText(a))
			}
			continue
		}
		if cl := lemmaClass(c, r, s, lemmas); strings.HasPrefix(cl, "BLOCKED:") {
			blocked[strings.TrimPrefix(cl, "BLOCKED:")]++
			continue
		} else if cl != "" {
			r.ok(rule, construct, pos, fmt.Sprintf("index %s; %s", iv, cl)).Class = cl
			continue
		}
		why := fmt.Sprintf("index range %s is not proven inside [%d,%d) of %s", iv, minIdx, ln, s.table)
		if sentinel && iv.known() && iv.lo() == 0 && iv.hi() < ln {
			why += " (index 0 of this 1-based table is the empty sentinel, not a vocabulary word)"
		} else {
			why += ": index out of range panics the accessor"
		}
		r.bad(rule, construct, pos, why).Class = "UNPROVEN"
	}
	for lemma, n := range blocked {
		r.bad(rule, fmt.Sprintf("%d decoder sites rest on the data lemma of %s", n, lemma), "-", fmt.Sprintf("%s is violated on this tree, so the %d index/slice sites whose safety is derived from it are unproven (repair the data first)", lemma, n)).Class = "UNPROVEN"
	}
	r.note("%s: %d table sites in the library (%d with constant index), %d function analyses in the range fixpoint", rule, len(sites), nconst, e.rounds)
	r.floor(rule, floor)
}

func uniq(seen map[string]int, k string) string {
	seen[k]++
	if seen[k] > 1 {
		return fmt.Sprintf("%s #%d", k, seen[k])
	}
	return k
}

func classOf(ax uint32) string {
	if ax == 0 {
		return "PROVEN"
	}
	return "PROVEN-UNDER(" + strings.Join(axList(ax), ",") + ")"
}

func nameOf(v ssa.Value) string {
	if v == nil {
		return ""
	}
	return describeIndex(v)
}

// describeIndex renders an index expression structurally (stable across line moves).
func describeIndex(v ssa.Value) string {
	return descr(v, 0)
}

func descr(v ssa.Value, d int) string {
	if d > 4 {
		return "…"
	}
	switch x := v.(type) {
	case *ssa.Const:
		return x.Value.String()
	case *ssa.Parameter:
		return x.Name()
	case *ssa.BinOp:
		return "(" + descr(x.X, d+1) + x.Op.String() + descr(x.Y, d+1) + ")"
	case *ssa.UnOp:
		if x.Op == token.MUL {
			if fa, ok := x.X.(*ssa.FieldAddr); ok {
				return descr(fa.X, d+1) + "." + strings.SplitN(fieldKeyOf(fa), ".", 2)[1]
			}
			if g, ok := x.X.(*ssa.Global); ok {
				return gname(g)
			}
			if ia, ok := x.X.(*ssa.IndexAddr); ok {
				return descr(ia.X, d+1) + "[" + descr(ia.Index, d+1) + "]"
			}
			return "*" + descr(x.X, d+1)
		}
		return x.Op.String() + descr(x.X, d+1)
	case *ssa.Call:
		if callee := x.Common().StaticCallee(); callee != nil {
			return callee.Name() + "()"
		}
		if b, ok := x.Common().Value.(*ssa.Builtin); ok {
			return b.Name() + "()"
		}
		return "call"
	case *ssa.Phi:
		var parts []string
		for _, e := range x.Edges {
			if e == ssa.Value(x) {
				continue
			}
			parts = append(parts, descr(e, d+2))
		}
		sort.Strings(parts)
		return "phi{" + strings.Join(parts, ",") + "}"
	case *ssa.Convert:
		return descr(x.X, d+1)
	case *ssa.Lookup:
		return descr(x.X, d+1) + "[" + descr(x.Index, d+1) + "]"
	case *ssa.Extract:
		return "extract"
	case *ssa.MakeSlice:
		return "make"
	}
	return v.Name()
}

// isLoopCounter: the index is a loop-carried counter (a phi in a loop header or an increment of one).
func isLoopCounter(v ssa.Value) bool {
	seen := map[ssa.Value]bool{}
	var walk func(v ssa.Value, d int) bool
	walk = func(v ssa.Value, d int) bool {
		if d > 3 || seen[v] {
			return false
		}
		seen[v] = true
		switch x := v.(type) {
		case *ssa.Phi:
			for _, e := range x.Edges {
				if b, ok := e.(*ssa.BinOp); ok && (b.X == ssa.Value(x) || b.Y == ssa.Value(x)) {
					return true
				}
				if walk(e, d+1) {
					return true
				}
			}
		case *ssa.BinOp:
			if _, ok := x.Y.(*ssa.Const); ok {
				return walk(x.X, d+1)
			}
		}
		return false
	}
	return walk(v, 0)
}
