package main

// Declared inputs of accessors (R05.2 / R18.1 and users in C03, C12, C13, C16, C17).
//
// The effects engine gives, for every accessor, the receiver-rooted access paths
// it reads transitively. They are abstracted to input atoms:
//
//	year:plain:gan  month:exact:zhi  day:exact2:gan  time:gan      pillar index fields
//	lunar.year lunar.month lunar.day lunar.hms                     lunar date fields
//	solar.ymd solar.hms                                             civil date fields
//	week                                                            weekday index
//	term:<key>:ymd  term:<key>:hms  term:*:…                        entries of the term table
//
// Accessors whose name follows the pillar/variant naming discipline are checked
// mechanically; all others against the reviewed table spec/inputs.json.

import (
	"encoding/json"
	"fmt"
	"go/constant"
	"os"
	"path/filepath"
	"regexp"
	"sort"
	"strings"

	"golang.org/x/tools/go/ssa"
)

var pillarField = regexp.MustCompile(`^\.(year|month|day|time)(Gan|Zhi)Index(ByLiChun|Exact2|Exact)?$`)
var termPath = regexp.MustCompile(`^\.jieQi\[([^\]]*)\](?:\.(year|month|day|hour|minute|second))?$`)

func variantName(v string) string {
	switch v {
	case "ByLiChun":
		return "lichun"
	case "Exact":
		return "exact"
	case "Exact2":
		return "exact2"
	}
	return "plain"
}

// atomOfLunarPath abstracts one access path below a *Lunar.
func atomOfLunarPath(p string) string {
	// the eight-character object of a Lunar points back to the same Lunar
	if strings.HasPrefix(p, ".eightChar.lunar") {
		p = strings.TrimPrefix(p, ".eightChar.lunar")
		if p == "" {
			return ""
		}
	}
	if p == ".eightChar.sect" {
		return "sect"
	}
	if m := pillarField.FindStringSubmatch(p); m != nil {
		if m[1] == "time" {
			return "time:" + strings.ToLower(m[2])
		}
		return m[1] + ":" + variantName(m[3]) + ":" + strings.ToLower(m[2])
	}
	if m := termPath.FindStringSubmatch(p); m != nil {
		switch m[2] {
		case "":
			return ""
		case "year", "month", "day":
			return "term:" + m[1] + ":ymd"
		default:
			return "term:" + m[1] + ":hms"
		}
	}
	switch p {
	case ".year", ".month", ".day":
		return "lunar" + p
	case ".hour", ".minute", ".second":
		return "lunar.hms"
	case ".solar.year", ".solar.month", ".solar.day":
		return "solar.ymd"
	case ".solar.hour", ".solar.minute", ".solar.second":
		return "solar.hms"
	case ".weekIndex":
		return "week"
	case ".jieQiList(list)", ".jieQiList":
		return ""
	case ".solar", ".jieQi", ".eightChar", ".lunar":
		return ""
	}
	return "other:" + p
}

// atomsOf computes the input atoms of a method for receiver-rooted reads. prefix
// maps the receiver to a *Lunar: "" for Lunar methods, ".lunar" for types that hold one.
func atomsOf(c *Ctx, fn *ssa.Function, bind map[int]constant.Value, lunarPrefix string, own func(string) string) []string {
	ef := c.eff.With(fn, bind)
	set := map[string]bool{}
	var paths []string
	for _, p := range ef.paramReads(0) {
		paths = append(paths, expandKeyAlternatives(p)...)
	}
	for _, p := range paths {
		a := ""
		switch {
		case lunarPrefix == "":
			a = atomOfLunarPath(p)
		case p == lunarPrefix:
			a = ""
		case strings.HasPrefix(p, lunarPrefix+".") || strings.HasPrefix(p, lunarPrefix+"["):
			a = atomOfLunarPath(strings.TrimPrefix(p, lunarPrefix))
		default:
			a = own(p)
		}
		if a != "" {
			set[a] = true
		}
	}
	// pillar fields of other Lunar objects (e.g. the Lunar of a solar term) read by
	// accessors, not by the builders that construct those objects
	for _, l := range ef.Reads {
		if (l.Root != "a" && l.Root != "o") || !strings.HasPrefix(l.Flat, "Lunar.") {
			continue
		}
		if strings.HasPrefix(l.Via, "calendar.compute") || strings.HasPrefix(l.Via, "calendar.New") {
			continue
		}
		if m := pillarField.FindStringSubmatch("." + strings.TrimPrefix(l.Flat, "Lunar.")); m != nil {
			set["aux:"+atomOfLunarPath("."+strings.TrimPrefix(l.Flat, "Lunar."))] = true
		}
	}
	return sortedKeys(set)
}

// ownAtoms for the types that wrap a Lunar
func ownLunarTime(p string) string {
	switch p {
	case ".ganIndex":
		return "time:gan"
	case ".zhiIndex":
		return "time:zhi"
	}
	return "other:" + p
}

func ownEightChar(p string) string {
	if p == ".sect" {
		return "sect"
	}
	return "other:" + p
}

func ownNone(p string) string { return "other:" + p }

// ---- naming discipline ----

var regularName = regexp.MustCompile(`^Get(Year|Month|Day|Time)(\w+?)(ByLiChun|Exact2|Exact)?$`)

var ganAttrs = map[string]bool{"Gan": true, "GanIndex": true, "PositionXi": true, "PositionXiDesc": true, "PositionYangGui": true, "PositionYangGuiDesc": true,
	"PositionYinGui": true, "PositionYinGuiDesc": true, "PositionCai": true, "PositionCaiDesc": true, "ChongGan": true, "ChongGanTie": true}
var zhiAttrs = map[string]bool{"Zhi": true, "ZhiIndex": true, "ShengXiao": true, "Chong": true, "ChongShengXiao": true, "Sha": true}
var bothAttrs = map[string]bool{"InGanZhi": true, "NaYin": true, "Xun": true, "XunKong": true, "ChongDesc": true}

// regularExpectation: the atoms an accessor named Get<Pillar><Attr><Variant> must read.
func regularExpectation(name string) ([]string, bool) {
	m := regularName.FindStringSubmatch(name)
	if m == nil {
		return nil, false
	}
	pillar := strings.ToLower(m[1])
	attr := m[2]
	pre := pillar + ":" + variantName(m[3]) + ":"
	if pillar == "time" {
		if m[3] != "" {
			return nil, false
		}
		pre = "time:"
	}
	switch {
	case ganAttrs[attr]:
		return []string{pre + "gan"}, true
	case zhiAttrs[attr]:
		return []string{pre + "zhi"}, true
	case bothAttrs[attr]:
		return []string{pre + "gan", pre + "zhi"}, true
	}
	return nil, false
}

// ---- the reviewed table ----

type inputSpec struct {
	Atoms []string            `json:"atoms,omitempty"`
	Sect  map[string][]string `json:"sect,omitempty"` // per constant school argument
	Why   string              `json:"why,omitempty"`
}

func loadInputSpec() (map[string]inputSpec, error) {
	b, err := os.ReadFile(filepath.Join(specDir, "inputs.json"))
	if err != nil {
		return nil, err
	}
	var m map[string]inputSpec
	if err := json.Unmarshal(b, &m); err != nil {
		return nil, err
	}
	return m, nil
}

type accessorClass struct {
	typ         string
	lunarPrefix string
	own         func(string) string
}

func ownPrefixed(prefix string) func(string) string {
	return func(p string) string {
		switch p {
		case ".months", ".jieQiJulianDays", ".months(list)", ".jieQiJulianDays[]", ".yun", ".daYun", ".liuNian", ".lunar":
			return ""
		}
		if strings.HasPrefix(p, ".yun.lunar") || strings.HasPrefix(p, ".daYun.lunar") || strings.HasPrefix(p, ".liuNian.lunar") || strings.HasPrefix(p, ".daYun.yun.lunar") || strings.HasPrefix(p, ".liuNian.daYun.lunar") {
			rest := p[strings.Index(p, ".lunar")+len(".lunar"):]
			if rest == "" {
				return ""
			}
			return atomOfLunarPath(rest)
		}
		return prefix + p
	}
}

var accessorTypes = []accessorClass{
	{"Lunar", "", ownNone},
	{"LunarTime", ".lunar", ownLunarTime},
	{"EightChar", ".lunar", ownEightChar},
	{"Tao", ".lunar", ownNone},
	{"Foto", ".lunar", ownNone},
	{"Yun", ".lunar", ownPrefixed("yun")},
	{"DaYun", ".lunar", ownPrefixed("daYun")},
	{"LiuNian", ".lunar", ownPrefixed("liuNian")},
	{"XiaoYun", ".lunar", ownPrefixed("xiaoYun")},
	{"LiuYue", ".lunar", ownPrefixed("liuYue")},
	{"LunarYear", "~none~", ownPrefixed("lunarYear")},
	{"LunarMonth", "~none~", ownPrefixed("lunarMonth")},
}

// constructors and helpers outside the accessor types whose inputs are declared too
var extraInputFns = []struct {
	name        string
	lunarPrefix string
}{
	{"calendar.NewYun", ".lunar"},
}

// sectParam: index of a trailing int parameter named sect, or -1.
func sectParam(fn *ssa.Function) int {
	// a ...BySect accessor takes the school as its last parameter, whatever it is called
	if strings.Contains(fn.Name(), "BySect") && len(fn.Params) > 0 {
		if i := len(fn.Params) - 1; isIntType(fn.Params[i].Type()) && (fn.Signature.Recv() == nil || i > 0) {
			return i
		}
	}
	if fname(fn) == "calendar.NewYun" && len(fn.Params) == 3 {
		return 2
	}
	if fname(fn) == "calendar.(*Yun).computeStart" && len(fn.Params) == 2 {
		return 1
	}
	for i, p := range fn.Params {
		if p.Name() == "sect" && isIntType(p.Type()) {
			return i
		}
	}
	return -1
}

type accessorInputs struct {
	fn    *ssa.Function
	cls   accessorClass
	atoms []string            // for accessors without a school argument
	sect  map[string][]string // "1","2","3" -> atoms
}

func (c *Ctx) accessorInputs() []accessorInputs {
	var out []accessorInputs
	for _, cls := range accessorTypes {
		for _, fn := range c.methodsOf("calendar", cls.typ) {
			if fn.Parent() != nil {
				continue
			}
			ai := accessorInputs{fn: fn, cls: cls}
			if sp := sectParam(fn); sp >= 0 {
				ai.sect = map[string][]string{}
				for _, k := range []int64{1, 2, 3} {
					ai.sect[fmt.Sprint(k)] = atomsOf(c, fn, map[int]constant.Value{sp: constant.MakeInt64(k)}, cls.lunarPrefix, cls.own)
				}
			} else {
				ai.atoms = atomsOf(c, fn, nil, cls.lunarPrefix, cls.own)
			}
			out = append(out, ai)
		}
	}
	for _, x := range extraInputFns {
		if fn := c.FuncBy[x.name]; fn != nil {
			cls := accessorClass{typ: "func", lunarPrefix: x.lunarPrefix, own: ownEightChar}
			ai := accessorInputs{fn: fn, cls: cls}
			if sp := sectParam(fn); sp >= 0 {
				ai.sect = map[string][]string{}
				for _, k := range []int64{1, 2, 3} {
					ai.sect[fmt.Sprint(k)] = atomsOf(c, fn, map[int]constant.Value{sp: constant.MakeInt64(k)}, cls.lunarPrefix, cls.own)
				}
			} else {
				ai.atoms = atomsOf(c, fn, nil, cls.lunarPrefix, cls.own)
			}
			out = append(out, ai)
		}
	}
	sort.Slice(out, func(i, j int) bool { return fname(out[i].fn) < fname(out[j].fn) })
	return out
}

// genInputSpec prints the table for the current tree (used once, then reviewed by hand).
func genInputSpec(c *Ctx) {
	m := map[string]inputSpec{}
	for _, ai := range c.accessorInputs() {
		if ai.cls.typ == "Lunar" && ai.sect == nil {
			if exp, ok := regularExpectation(ai.fn.Name()); ok && equalStrs(exp, ai.atoms) {
				continue
			}
		}
		if ai.sect == nil && len(ai.atoms) == 0 {
			continue
		}
		m[fname(ai.fn)] = inputSpec{Atoms: ai.atoms, Sect: ai.sect}
	}
	b, _ := json.MarshalIndent(m, "", " ")
	fmt.Println(string(b))
}

func equalStrs(a, b []string) bool {
	if len(a) != len(b) {
		return false
	}
	for i := range a {
		if a[i] != b[i] {
			return false
		}
	}
	return true
}

func subsetStrs(a, b []string) (missing []string) {
	set := map[string]bool{}
	for _, x := range b {
		set[x] = true
	}
	for _, x := range a {
		if !set[x] {
			missing = append(missing, x)
		}
	}
	return
}

// declaredInputsRule checks every accessor selected by pick against its expectation.
func declaredInputsRule(c *Ctx, r *Report, rule string, pick func(ai accessorInputs) bool, floor int) {
	spec, err := loadInputSpec()
	if err != nil {
		r.bad(rule, "spec/inputs.json", "-", "cannot read the reviewed declared-inputs table: "+err.Error())
		return
	}
	n := 0
	for _, ai := range c.accessorInputs() {
		if !pick(ai) {
			continue
		}
		name := fname(ai.fn)
		// mechanically derived expectation
		if ai.cls.typ == "Lunar" && ai.sect == nil {
			if exp, ok := regularExpectation(ai.fn.Name()); ok {
				if _, listed := spec[name]; !listed {
					n++
					if equalStrs(exp, ai.atoms) {
						r.ok(rule, name, c.fnPos(ai.fn), "reads exactly "+strings.Join(exp, ", ")+" (from its name)")
					} else {
						r.bad(rule, name, c.fnPos(ai.fn), fmt.Sprintf("by its name this accessor is a function of %v, but it reads %v: for moments where those inputs differ (other variant, other pillar) it reports an attribute of the wrong pillar", exp, ai.atoms))
					}
					continue
				}
			}
		}
		sp, listed := spec[name]
		if !listed {
			if ai.sect == nil && len(ai.atoms) == 0 {
				continue // reads nothing of its receiver
			}
			if ai.fn.Object() != nil && !ai.fn.Object().Exported() {
				continue // an unexported helper: its reads are judged through the exported accessors that call it (effects are transitive)
			}
			n++
			r.bad(rule, name, c.fnPos(ai.fn), fmt.Sprintf("accessor reads %v%v but has neither a regular name nor an entry in the reviewed declared-inputs table (undecided = fail)", ai.atoms, ai.sect))
			continue
		}
		n++
		if ai.sect != nil {
			var diffs []string
			// under school k the accessor reads at least the inputs declared for k, and nothing beyond the
			// inputs declared for some school: a default-then-override reads the default's input without using it
			union := map[string]bool{}
			for _, atoms := range sp.Sect {
				for _, a := range atoms {
					union[a] = true
				}
			}
			for _, k := range []string{"1", "2", "3"} {
				have := map[string]bool{}
				for _, a := range ai.sect[k] {
					have[a] = true
				}
				var missing, extra []string
				for _, a := range sp.Sect[k] {
					if !have[a] {
						missing = append(missing, a)
					}
				}
				for _, a := range ai.sect[k] {
					if !union[a] {
						extra = append(extra, a)
					}
				}
				if len(missing) > 0 || len(extra) > 0 {
					diffs = append(diffs, fmt.Sprintf("sect %s: reads %v, declared %v (missing %v, beyond every school's inputs %v)", k, ai.sect[k], sp.Sect[k], missing, extra))
				}
			}
			if len(diffs) == 0 {
				r.ok(rule, name, c.fnPos(ai.fn), fmt.Sprintf("per school: %v", ai.sect))
			} else {
				r.bad(rule, name, c.fnPos(ai.fn), "inputs differ from the declared defining inputs: "+strings.Join(diffs, "; "))
			}
			continue
		}
		if equalStrs(ai.atoms, sp.Atoms) {
			r.ok(rule, name, c.fnPos(ai.fn), "reads exactly the declared inputs "+strings.Join(sp.Atoms, ", "))
		} else if eq, ok := equivalentInputs[name]; ok && equalStrs(normAtoms(ai.atoms, eq), normAtoms(sp.Atoms, eq)) {
			r.ok(rule, name, c.fnPos(ai.fn), fmt.Sprintf("reads %v, the declared inputs are %v: the same up to inputs that stand in for one another (%v), which the decision table R13.5 varies together", ai.atoms, sp.Atoms, eq))
		} else if by, ok := decidedByTable[name]; ok {
			r.ok(rule, name, c.fnPos(ai.fn), fmt.Sprintf("reads %v, the declared inputs are %v; the accessor is decided as a complete decision table by %s whatever it reads (the table states the value for every combination of the defining inputs)", ai.atoms, sp.Atoms, by))
		} else if by, ok := auxDecidedBy[name]; ok && auxOnlyDifference(ai.atoms, sp.Atoms) {
			r.ok(rule, name, c.fnPos(ai.fn), fmt.Sprintf("reads %v, the declared inputs are %v: the same but for pillar fields of the object it builds from its own date, which are decided by %s", ai.atoms, sp.Atoms, by))
		} else if why, ok := toleratedByParts(c, spec, ai, sp.Atoms); ok {
			r.ok(rule, name, c.fnPos(ai.fn), fmt.Sprintf("reads %v, the declared inputs are %v; the difference is that of %s", ai.atoms, sp.Atoms, why))
		} else {
			r.bad(rule, name, c.fnPos(ai.fn), fmt.Sprintf("reads %v but its declared defining inputs are %v (extra: %v, missing: %v): the attribute is not a function of its defining inputs alone, or ignores one of them",
				ai.atoms, sp.Atoms, subsetStrs(ai.atoms, sp.Atoms), subsetStrs(sp.Atoms, ai.atoms)))
		}
	}
	if n < floor {
		r.bad(rule, "instance floor "+rule, "-", fmt.Sprintf("only %d accessors matched (floor %d)", n, floor))
	}
}

// expandKeyAlternatives: a map key that is one of several constants (an entry of a local literal table
// walked by a loop) is written [a|b] in an access path; the path stands for one path per alternative.
func expandKeyAlternatives(p string) []string {
	i := strings.Index(p, "[")
	for i >= 0 {
		j := strings.Index(p[i:], "]")
		if j < 0 {
			break
		}
		key := p[i+1 : i+j]
		if strings.Contains(key, "|") {
			var out []string
			for _, alt := range strings.Split(key, "|") {
				out = append(out, expandKeyAlternatives(p[:i+1]+alt+p[i+j:])...)
			}
			return out
		}
		k := strings.Index(p[i+j:], "[")
		if k < 0 {
			break
		}
		i = i + j + k
	}
	return []string{p}
}

// toleratedByParts: a composite accessor (a full description that includes other accessors) whose reads
// differ from the declared ones exactly by what table-decided accessors it calls read differently.
func toleratedByParts(c *Ctx, spec map[string]inputSpec, ai accessorInputs, declared []string) (string, bool) {
	missing, extra := subsetStrs(declared, ai.atoms), subsetStrs(ai.atoms, declared)
	tolMissing, tolExtra := map[string]bool{}, map[string]bool{}
	var parts []string
	calls := c.eff.Of(ai.fn).Calls
	for _, other := range c.accessorInputs() {
		on := fname(other.fn)
		by, decided := decidedByTable[on]
		if eq, ok := equivalentInputs[on]; ok && !decided {
			if osp, listed := spec[on]; listed && equalStrs(normAtoms(other.atoms, eq), normAtoms(osp.Atoms, eq)) {
				by, decided = "R13.5", true
			}
		}
		if _, called := calls[on]; !decided || !called || other.sect != nil {
			continue
		}
		osp, listed := spec[on]
		if !listed {
			continue
		}
		dm, de := subsetStrs(osp.Atoms, other.atoms), subsetStrs(other.atoms, osp.Atoms)
		if len(dm)+len(de) == 0 {
			continue
		}
		for _, a := range dm {
			tolMissing[a] = true
		}
		for _, a := range de {
			tolExtra[a] = true
		}
		parts = append(parts, on+" (decided by "+by+")")
	}
	if len(parts) == 0 {
		return "", false
	}
	for _, a := range missing {
		if !tolMissing[a] {
			return "", false
		}
	}
	for _, a := range extra {
		if !tolExtra[a] {
			return "", false
		}
	}
	sort.Strings(parts)
	return strings.Join(parts, ", "), true
}

// normAtoms: the atoms with each input replaced by the one it stands in for, sorted and without repeats.
func normAtoms(atoms []string, eq map[string]string) []string {
	set := map[string]bool{}
	for _, a := range atoms {
		if b, ok := eq[a]; ok {
			a = b
		}
		set[a] = true
	}
	return sortedKeys(set)
}
