package main

// E8: lock discipline for package-level sync.Mutex variables.
//
// For every library function that locks a package-level mutex the engine runs a
// forward dataflow over the SSA control-flow graph with the state
//   U (unlocked) / L (locked) / LD (locked, unlock deferred)
// and reports: double lock, unlock while unlocked, a return with the lock held,
// an instruction that may panic while the lock is held without a deferred unlock,
// inconsistent states at a join, re-acquisition through a callee. It also gives
// the lock state at every instruction so that accesses to guarded variables can
// be checked, and the publish-after-build and keyed-reuse protocol of the cache.

import (
	"fmt"
	"go/token"
	"go/types"
	"strings"

	"golang.org/x/tools/go/ssa"
)

type lockState int

const (
	lsUnknown lockState = iota
	lsU
	lsL
	lsLD // locked with a deferred unlock registered
	lsUD // unlocked by an explicit Unlock although a deferred unlock is registered (double unlock at exit)
)

func (s lockState) String() string {
	return [...]string{"?", "unlocked", "locked", "locked(deferred unlock)", "unlocked(deferred unlock pending)"}[s]
}

type lockIssue struct {
	kind string
	pos  token.Pos
	msg  string
}

type lockResult struct {
	fn      *ssa.Function
	mutex   *ssa.Global
	at      map[ssa.Instruction]lockState // state before the instruction
	issues  []lockIssue
	locks   int
	unlocks int
	returns int
}

func isMutexMethod(common *ssa.CallCommon, name string, mutex *ssa.Global) bool {
	callee := common.StaticCallee()
	if callee == nil || callee.Name() != name || len(common.Args) == 0 {
		return false
	}
	full := callee.String()
	if full != "(*sync.Mutex)."+name && full != "(*sync.RWMutex)."+name {
		return false
	}
	return common.Args[0] == ssa.Value(mutex)
}

// mutexGlobals finds package-level variables of type sync.Mutex / sync.RWMutex.
func (c *Ctx) mutexGlobals() []*ssa.Global {
	var out []*ssa.Global
	for _, g := range c.libGlobals() {
		t := g.Type().(*types.Pointer).Elem().String()
		if t == "sync.Mutex" || t == "sync.RWMutex" {
			out = append(out, g)
		}
	}
	return out
}

// mayPanic: instructions that can panic at run time (besides explicit panic).
func mayPanic(ins ssa.Instruction, mutex *ssa.Global) (bool, string) {
	switch x := ins.(type) {
	case *ssa.Panic:
		return true, "explicit panic"
	case *ssa.Call:
		if isMutexMethod(x.Common(), "Lock", mutex) || isMutexMethod(x.Common(), "Unlock", mutex) {
			return false, ""
		}
		if b, ok := x.Common().Value.(*ssa.Builtin); ok {
			switch b.Name() {
			case "len", "cap", "append", "copy", "new", "make", "delete", "min", "max":
				return false, ""
			}
		}
		if callee := x.Common().StaticCallee(); callee != nil {
			full := callee.String()
			if full == "container/list.New" {
				return false, ""
			}
			return true, "call to " + full
		}
		return true, "dynamic call"
	case *ssa.IndexAddr:
		return true, "index expression"
	case *ssa.Index:
		return true, "index expression"
	case *ssa.Lookup:
		if _, ok := x.X.Type().Underlying().(*types.Basic); ok {
			return true, "string index"
		}
	case *ssa.TypeAssert:
		if !x.CommaOk {
			return true, "unchecked type assertion"
		}
	case *ssa.Slice:
		return true, "slice expression"
	case *ssa.BinOp:
		if x.Op == token.QUO || x.Op == token.REM {
			if b, ok := x.X.Type().Underlying().(*types.Basic); ok && b.Info()&types.IsInteger != 0 {
				if _, isConst := x.Y.(*ssa.Const); !isConst {
					return true, "integer division by a variable"
				}
			}
		}
	}
	return false, ""
}

func analyseLock(fn *ssa.Function, mutex *ssa.Global) *lockResult {
	return analyseLockFrom(fn, mutex, lsU)
}

// analyseLockFrom runs the lockset dataflow with the given state at entry (lsLD for an unexported
// helper that every caller calls with the mutex held: held, and released by someone else).
func analyseLockFrom(fn *ssa.Function, mutex *ssa.Global, entry lockState) *lockResult {
	res := &lockResult{fn: fn, mutex: mutex, at: map[ssa.Instruction]lockState{}}
	if len(fn.Blocks) == 0 {
		return res
	}
	in := map[*ssa.BasicBlock]lockState{fn.Blocks[0]: entry}
	work := []*ssa.BasicBlock{fn.Blocks[0]}
	visited := map[*ssa.BasicBlock]bool{}
	reported := map[string]bool{}
	issue := func(kind string, pos token.Pos, msg string) {
		k := fmt.Sprintf("%s@%d", kind, pos)
		if reported[k] {
			return
		}
		reported[k] = true
		res.issues = append(res.issues, lockIssue{kind, pos, msg})
	}
	for len(work) > 0 {
		b := work[0]
		work = work[1:]
		if visited[b] {
			continue
		}
		visited[b] = true
		st := in[b]
		for _, ins := range b.Instrs {
			res.at[ins] = st
			switch x := ins.(type) {
			case *ssa.Call:
				if isMutexMethod(x.Common(), "Lock", mutex) {
					res.locks++
					if st == lsL || st == lsLD {
						issue("double-lock", x.Pos(), "Lock while the mutex is already held on this path (self-deadlock)")
					}
					if st == lsLD || st == lsUD {
						st = lsLD
					} else {
						st = lsL
					}
					continue
				}
				if isMutexMethod(x.Common(), "Unlock", mutex) {
					res.unlocks++
					switch st {
					case lsU, lsUD:
						issue("unlock-unlocked", x.Pos(), "Unlock while the mutex is not held on this path (fatal error at run time)")
					case lsL:
						st = lsU
					case lsLD:
						st = lsUD
					}
					continue
				}
			case *ssa.Defer:
				if isMutexMethod(x.Common(), "Unlock", mutex) {
					res.unlocks++
					switch st {
					case lsL:
						st = lsLD
					case lsU:
						issue("defer-unlock-unlocked", x.Pos(), "deferred Unlock registered while the mutex is not held")
					}
					continue
				}
			case *ssa.Return:
				res.returns++
				if st == lsL {
					issue("return-locked", x.Pos(), "function returns with the mutex still held: every later caller blocks forever")
				}
				if st == lsUD {
					issue("double-unlock", x.Pos(), "explicit Unlock followed by the deferred Unlock at return (fatal error at run time)")
				}
			}
			if st == lsL {
				if p, why := mayPanic(ins, mutex); p {
					issue("panic-locked", ins.Pos(), "instruction that can panic ("+why+") is executed while the mutex is held and no deferred Unlock is registered: a recovered panic leaves the library blocked")
				}
			}
		}
		for _, s := range b.Succs {
			if prev, ok := in[s]; ok {
				if prev != st {
					pos := token.NoPos
					if len(s.Instrs) > 0 {
						pos = s.Instrs[0].Pos()
					}
					issue("inconsistent-join", pos, fmt.Sprintf("paths join with different lock states (%s vs %s)", prev, st))
				}
			} else {
				in[s] = st
			}
			if !visited[s] {
				work = append(work, s)
			}
		}
	}
	return res
}

// lockingFunctions returns the library functions that call Lock on the mutex.
func (c *Ctx) lockingFunctions(mutex *ssa.Global) []*ssa.Function {
	var out []*ssa.Function
	for _, fn := range c.Funcs {
		found := false
		for _, b := range fn.Blocks {
			for _, ins := range b.Instrs {
				if call, ok := ins.(*ssa.Call); ok && isMutexMethod(call.Common(), "Lock", mutex) {
					found = true
				}
			}
		}
		if found {
			out = append(out, fn)
		}
	}
	return out
}

// globalAccesses lists loads and stores of a package variable in library functions outside init.
type gAccess struct {
	fn    *ssa.Function
	ins   ssa.Instruction
	store bool
}

func (c *Ctx) globalAccesses(g *ssa.Global) []gAccess {
	var out []gAccess
	for _, fn := range c.Funcs {
		if isInit(fn) {
			continue
		}
		for _, b := range fn.Blocks {
			for _, ins := range b.Instrs {
				switch x := ins.(type) {
				case *ssa.UnOp:
					if x.Op == token.MUL && x.X == ssa.Value(g) {
						out = append(out, gAccess{fn, ins, false})
					}
				case *ssa.Store:
					if x.Addr == ssa.Value(g) {
						out = append(out, gAccess{fn, ins, true})
					}
				}
			}
		}
	}
	return out
}

// reachableAfter reports whether instruction b can execute after instruction a in fn.
func reachableAfter(a, b ssa.Instruction) bool {
	ba, bb := a.Block(), b.Block()
	if ba == bb {
		ia, ib := -1, -1
		for i, ins := range ba.Instrs {
			if ins == a {
				ia = i
			}
			if ins == b {
				ib = i
			}
		}
		if ib > ia {
			return true
		}
	}
	seen := map[*ssa.BasicBlock]bool{}
	work := append([]*ssa.BasicBlock{}, ba.Succs...)
	for len(work) > 0 {
		x := work[len(work)-1]
		work = work[:len(work)-1]
		if seen[x] {
			continue
		}
		seen[x] = true
		if x == bb {
			return true
		}
		work = append(work, x.Succs...)
	}
	return false
}

func describeInstr(ins ssa.Instruction) string {
	s := ins.String()
	if v, ok := ins.(ssa.Value); ok {
		s = v.Name() + " = " + s
	}
	if len(s) > 80 {
		s = s[:80]
	}
	return strings.ReplaceAll(s, "github.com/6tail/lunar-go/", "")
}
