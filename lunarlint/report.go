package main

// Obligations, known findings, evidence and the exit protocol.

import (
	"encoding/json"
	"fmt"
	"os"
	"path/filepath"
	"sort"
	"strings"
	"time"
)

type Obl struct {
	Rule      string `json:"rule"`
	Construct string `json:"construct"`
	Pos       string `json:"pos"`
	Detail    string `json:"detail,omitempty"`
	Class     string `json:"class,omitempty"` // proof class for range obligations
	OK        bool   `json:"ok"`
	Known     bool   `json:"known,omitempty"`
}

type RuleDoc struct {
	ID   string `json:"id"`
	Text string `json:"text"`
}

type Report struct {
	Prop        string
	Obls        []*Obl
	Rules       []RuleDoc
	Assumptions []string
	Notes       []string
	NotDecided  string
	seenRule    map[string]bool
	seenAx      map[string]bool
}

func newReport(prop string) *Report {
	return &Report{Prop: prop, seenRule: map[string]bool{}, seenAx: map[string]bool{}}
}

func (r *Report) rule(id, text string) {
	if r.seenRule[id] {
		return
	}
	r.seenRule[id] = true
	r.Rules = append(r.Rules, RuleDoc{id, text})
}

func (r *Report) assume(ax string) {
	if r.seenAx[ax] {
		return
	}
	r.seenAx[ax] = true
	r.Assumptions = append(r.Assumptions, ax)
}

func (r *Report) note(format string, a ...interface{}) {
	r.Notes = append(r.Notes, fmt.Sprintf(format, a...))
}

func (r *Report) ok(rule, construct, pos, detail string) *Obl {
	o := &Obl{Rule: rule, Construct: construct, Pos: pos, Detail: detail, OK: true}
	r.Obls = append(r.Obls, o)
	return o
}

func (r *Report) bad(rule, construct, pos, detail string) *Obl {
	o := &Obl{Rule: rule, Construct: construct, Pos: pos, Detail: detail, OK: false}
	r.Obls = append(r.Obls, o)
	return o
}

func (r *Report) check(cond bool, rule, construct, pos, detail string) bool {
	if cond {
		r.ok(rule, construct, pos, detail)
	} else {
		r.bad(rule, construct, pos, detail)
	}
	return cond
}

func (r *Report) count(rule string) int {
	n := 0
	for _, o := range r.Obls {
		if o.Rule == rule {
			n++
		}
	}
	return n
}

// floor fails the rule when it matched fewer instances than confirmed by hand:
// a rule that matches nothing must never pass silently.
func (r *Report) floor(rule string, min int) {
	n := r.count(rule)
	if n < min {
		r.bad(rule, fmt.Sprintf("instance floor %s", rule), "-",
			fmt.Sprintf("rule matched %d instances, fewer than the floor %d confirmed on the reviewed tree; the rule would pass vacuously", n, min))
	}
}

// ---- known findings ----

type Finding struct {
	Status    string `json:"status"` // "known" | "fixed"
	Property  string `json:"property"`
	Rule      string `json:"rule"`
	Construct string `json:"construct"`
	What      string `json:"what"`
	Commit    string `json:"commit,omitempty"`
}

func loadFindings(path string) ([]Finding, error) {
	b, err := os.ReadFile(path)
	if err != nil {
		if os.IsNotExist(err) {
			return nil, nil
		}
		return nil, err
	}
	var f struct {
		Findings []Finding `json:"findings"`
	}
	if err := json.Unmarshal(b, &f); err != nil {
		return nil, err
	}
	return f.Findings, nil
}

// ---- evidence ----

type ruleStat struct {
	ID         string `json:"id"`
	Text       string `json:"text"`
	Instances  int    `json:"instances"`
	Discharged int    `json:"discharged"`
}

func (r *Report) finish(c *Ctx, tier string, start time.Time, evidencePath, findingsPath string, analysed map[string]interface{}) int {
	findings, ferr := loadFindings(findingsPath)
	if ferr != nil {
		r.bad("E1", "known_findings.json", "-", "cannot read known findings file: "+ferr.Error())
	}
	var viol []*Obl
	var known []*Obl
	for _, o := range r.Obls {
		if o.OK {
			continue
		}
		matched := false
		for _, f := range findings {
			// (the thorough tier re-checks the same constructs on the 386 build and says so in front of their name:
			// the same finding)
			if f.Status == "known" && f.Property == r.Prop && f.Rule == o.Rule && f.Construct == strings.TrimPrefix(o.Construct, "GOARCH=386: ") {
				matched = true
				o.Known = true
				fmt.Printf("KNOWN-FINDING: property=%s %s %s (%s) %s\n", r.Prop, o.Rule, o.Construct, o.Pos, f.What)
				break
			}
		}
		if matched {
			known = append(known, o)
		} else {
			viol = append(viol, o)
		}
	}
	// per-rule statistics
	stats := map[string]*ruleStat{}
	var order []string
	for _, rd := range r.Rules {
		stats[rd.ID] = &ruleStat{ID: rd.ID, Text: rd.Text}
		order = append(order, rd.ID)
	}
	discharged := 0
	classes := map[string]int{}
	for _, o := range r.Obls {
		s := stats[o.Rule]
		if s == nil {
			s = &ruleStat{ID: o.Rule}
			stats[o.Rule] = s
			order = append(order, o.Rule)
		}
		s.Instances++
		if o.OK {
			s.Discharged++
			discharged++
		}
		if o.Class != "" {
			classes[o.Class]++
		}
	}
	var rs []*ruleStat
	for _, id := range order {
		rs = append(rs, stats[id])
	}
	// samples: a few obligations of each rule, written out; thorough lists all
	perRule := map[string]int{}
	var samples []*Obl
	limit := 4
	if tier == "thorough" {
		limit = 1 << 30
	}
	for _, o := range r.Obls {
		if !o.OK || perRule[o.Rule] < limit {
			samples = append(samples, o)
			perRule[o.Rule]++
		}
	}
	var ruleTexts []string
	for _, rd := range r.Rules {
		ruleTexts = append(ruleTexts, rd.ID+": "+rd.Text)
	}
	expl := fmt.Sprintf("Static analysis of the current source tree of %s (go/packages + go/ssa, no library code executed). "+
		"Each obligation is one construct (function, call site, table, path) matched by one rule; an obligation is discharged when the rule's structural condition holds for that construct. "+
		"Rules: %s. NOT decided by this check: %s", c.ModPath, strings.Join(ruleTexts, " | "), r.NotDecided)
	cov := map[string]interface{}{
		"explanation":             expl,
		"obligations":             len(r.Obls),
		"discharged":              discharged,
		"checker_cmd":             fmt.Sprintf("/verif/check %s %s", r.Prop, tier),
		"trusted_base":            []string{"go/types, go/ssa and go/packages of golang.org/x/tools v0.29.0", "the rule implementations under /verif/lunarlint", "the reviewed expectation tables under /verif/spec", "the named axioms listed under assumptions"},
		"rules":                   rs,
		"samples":                 samples,
		"analysed":                analysed,
		"exhaustive":              false,
		"notes":                   r.Notes,
		"known_findings_reported": len(known),
	}
	if len(classes) > 0 {
		cov["proof_classes"] = classes
	}
	ev := map[string]interface{}{
		"property_id": r.Prop,
		"tier":        tier,
		"seed":        seedFromEnv(),
		"level":       "other",
		"coverage":    cov,
		"assumptions": append([]string{}, r.Assumptions...),
		"wall_s":      time.Since(start).Seconds(),
		"violations":  len(viol),
	}
	if evidencePath != "" {
		os.MkdirAll(filepath.Dir(evidencePath), 0o755)
		b, _ := json.MarshalIndent(ev, "", " ")
		if err := os.WriteFile(evidencePath, b, 0o644); err != nil {
			fmt.Fprintf(os.Stderr, "cannot write evidence: %v\n", err)
			return 2
		}
	}
	// summary on stdout
	fmt.Printf("lunarlint %s tier=%s: %d obligations, %d discharged, %d known findings, %d violations (%.1fs)\n",
		r.Prop, tier, len(r.Obls), discharged, len(known), len(viol), time.Since(start).Seconds())
	for _, s := range rs {
		fmt.Printf("  %-7s %4d/%-4d %s\n", s.ID, s.Discharged, s.Instances, firstSentence(s.Text))
	}
	if len(viol) == 0 {
		return 0
	}
	replay := strings.TrimSuffix(evidencePath, ".json") + ".violations.json"
	if evidencePath == "" {
		replay = filepath.Join(os.TempDir(), r.Prop+".violations.json")
	}
	sort.SliceStable(viol, func(i, j int) bool { return viol[i].Rule < viol[j].Rule })
	b, _ := json.MarshalIndent(map[string]interface{}{"property_id": r.Prop, "violations": viol}, "", " ")
	os.WriteFile(replay, b, 0o644)
	for _, o := range viol {
		fmt.Printf("  violation %s %s [%s]: %s\n", o.Rule, o.Pos, o.Construct, o.Detail)
	}
	fmt.Printf("VIOLATION property=%s replay=%s\n", r.Prop, replay)
	return 1
}

func firstSentence(s string) string {
	if i := strings.Index(s, ". "); i > 0 && i < 110 {
		return s[:i+1]
	}
	if len(s) > 110 {
		return s[:107] + "..."
	}
	return s
}

func seedFromEnv() int {
	var n int
	fmt.Sscanf(os.Getenv("VERIF_SEED"), "%d", &n)
	return n
}
