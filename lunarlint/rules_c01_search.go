package main

// R01.6 — the two constructors of a lunar date on a stated month table.

import (
	"fmt"
	"math"

	"golang.org/x/tools/go/ssa"
)

// absCivil is a civil instant inside the evaluator: the Julian day number of its date and the second of the day.
type absCivil struct{ day, sec int64 }

// the checker's own civil calendar: Julian up to 1582-10-04, Gregorian from 1582-10-15, as Julian day numbers
func civilDayNo(y, m, d int64) int64 {
	a := (14 - m) / 12
	yy, mm := y+4800-a, m+12*a-3
	if y < 1582 || (y == 1582 && (m < 10 || (m == 10 && d < 15))) {
		return d + (153*mm+2)/5 + 365*yy + yy/4 - 32083
	}
	return d + (153*mm+2)/5 + 365*yy + yy/4 - yy/100 + yy/400 - 32045
}

func civilDateOf(n int64) (int64, int64, int64) {
	var bb, cc int64
	if n >= 2299161 {
		a := n + 32044
		bb = (4*a + 3) / 146097
		cc = a - 146097*bb/4
	} else {
		bb, cc = 0, n+32082
	}
	dd := (4*cc + 3) / 1461
	e := cc - 1461*dd/4
	mm := (5*e + 2) / 153
	return 100*bb + dd - 4800 + mm/10, mm + 3 - 12*(mm/10), e - (153*mm+2)/5 + 1
}

// civilLeaf: the civil-date operations a conversion uses, on absCivil values (no library code runs).
func civilLeaf(c *Ctx, fr *evalFrame, v ssa.Value, leaf leafX) (interface{}, bool) {
	civ := func(x ssa.Value) (absCivil, bool) {
		o, ok := evalWith(fr, x, leaf)
		d, isD := o.(absCivil)
		return d, ok && isD
	}
	num := func(x ssa.Value) (int64, bool) {
		o, ok := evalWith(fr, x, leaf)
		k, isI := o.(int64)
		return k, ok && isI
	}
	if rc, f, ok := getterField(c, v); ok && structName(rc.Type()) == "Solar" {
		d, ok := civ(rc)
		if !ok {
			return nil, false
		}
		y, m, dd := civilDateOf(d.day)
		switch f {
		case "Solar.year":
			return y, true
		case "Solar.month":
			return m, true
		case "Solar.day":
			return dd, true
		case "Solar.hour":
			return d.sec / 3600, true
		case "Solar.minute":
			return d.sec / 60 % 60, true
		case "Solar.second":
			return d.sec % 60, true
		}
		return nil, false
	}
	call, ok := v.(*ssa.Call)
	if !ok || call.Common().StaticCallee() == nil {
		return nil, false
	}
	callee := call.Common().StaticCallee()
	args := call.Common().Args
	switch fname(callee) {
	case "calendar.NewSolarFromJulianDay":
		o, ok := evalWith(fr, args[0], leaf)
		jd, isF := o.(float64)
		if !ok || !isF {
			return nil, false
		}
		day := math.Floor(jd + 0.5)
		return absCivil{int64(day), int64(math.Round((jd + 0.5 - day) * 86400))}, true
	case "calendar.NewSolarFromYmd", "calendar.NewSolar":
		var ks []int64
		for _, a := range args {
			k, ok := num(a)
			if !ok {
				return nil, false
			}
			ks = append(ks, k)
		}
		for len(ks) < 6 {
			ks = append(ks, 0)
		}
		n := civilDayNo(ks[0], ks[1], ks[2])
		if y, m, d := civilDateOf(n); y != ks[0] || m != ks[1] || d != ks[2] {
			return nil, false // not a date
		}
		return absCivil{n, ks[3]*3600 + ks[4]*60 + ks[5]}, true
	}
	if !recvIsNamed(callee, "Solar") || len(args) == 0 {
		return nil, false
	}
	a, ok := civ(args[0])
	if !ok {
		return nil, false
	}
	switch callee.Name() {
	case "GetJulianDay":
		return float64(a.day) - 0.5 + float64(a.sec)/86400, true
	case "NextDay":
		if k, ok := num(args[1]); ok {
			return absCivil{a.day + k, a.sec}, true
		}
	case "Subtract", "SubtractMinute", "IsAfter", "IsBefore":
		b, ok := civ(args[1])
		if !ok {
			return nil, false
		}
		switch callee.Name() {
		case "Subtract":
			return a.day - b.day, true
		case "SubtractMinute":
			return (a.day-b.day)*1440 + a.sec/60 - b.sec/60, true
		case "IsAfter":
			return a.day > b.day || (a.day == b.day && a.sec > b.sec), true
		}
		return a.day < b.day || (a.day == b.day && a.sec < b.sec), true
	}
	return nil, false
}

// statedMonth: one entry of a checker-made month table.
type statedMonth struct {
	year, month, days int64
	first             int64 // Julian day number of the first day (the table holds it as noon of that day)
}

func r01_6(c *Ctx, r *Report) {
	const rule = "R01.6"
	r.rule(rule, "Both constructors of a lunar date read the month table the same way. On a checker-made table of fifteen consecutive months (29 and 30 days, a leap month among them, two lunar years) NewLunarFromSolar is followed by the evaluator (its search as a table over the iteration number, the list of months as a model of container/list, civil dates as (day number, second of the day) with the checker's own calendar; no library code runs) for the first, second and last day of every month (thorough tier: every day) at 00:00:00, 12:34:56 and 23:59:58 (hour, minute and second all different, so that a swapped copy shows): the year, month and day it stores are the stated month's year and month and the day's position in it, the time of day is the civil date's. NewLunar is followed for the same days: it stores each date field from the parameter of the same meaning, and the civil date it stores is the first day of the stated month moved on by day-1, with the given time of day. (This rule replaces the shape-matching rules R01.4, inverse day offsets, and R01.5, field copies, which it subsumes.)")
	// the table: months of lunar 2019 (from its 11th month) and 2020 with a leap 4th month
	var months []statedMonth
	first := civilDayNo(2019, 11, 26)
	labels := [][2]int64{{2019, 11}, {2019, 12}, {2020, 1}, {2020, 2}, {2020, 3}, {2020, 4}, {2020, -4}, {2020, 5}, {2020, 6}, {2020, 7}, {2020, 8}, {2020, 9}, {2020, 10}, {2020, 11}, {2020, 12}}
	for i, lb := range labels {
		days := int64(29 + (i*7%3+1)/2) // 30, 29, 30, 30, 29, 30 ...
		months = append(months, statedMonth{lb[0], lb[1], days, first})
		first += days
	}
	monthOf := func(fr *evalFrame, x ssa.Value, leaf leafX) (*statedMonth, bool) {
		o, ok := evalWith(fr, x, leaf)
		p, isP := o.(absPtr)
		var k int
		if !ok || !isP || p.isNil {
			return nil, false
		}
		if _, err := fmt.Sscanf(p.tag, "month %d", &k); err != nil || k < 0 || k >= len(months) {
			return nil, false
		}
		return &months[k], true
	}
	monthLeaf := func(fr *evalFrame, v ssa.Value, leaf leafX) (interface{}, bool) {
		if rc, f, ok := getterField(c, v); ok && structName(rc.Type()) == "LunarMonth" {
			m, ok := monthOf(fr, rc, leaf)
			if !ok {
				return nil, false
			}
			switch f {
			case "LunarMonth.year":
				return m.year, true
			case "LunarMonth.month":
				return m.month, true
			case "LunarMonth.dayCount":
				return m.days, true
			case "LunarMonth.firstJulianDay":
				return float64(m.first), true
			}
			return nil, false
		}
		if call, ok := v.(*ssa.Call); ok && call.Common().StaticCallee() != nil {
			switch fname(call.Common().StaticCallee()) {
			case "calendar.NewLunarYear":
				if k, ok := evalWith(fr, call.Common().Args[0], leaf); ok {
					if y, isI := k.(int64); isI {
						return absPtr{fmt.Sprintf("lunar year %d", y), false}, true
					}
				}
				return nil, false
			case "calendar.compute":
				return nil, true // fills the remaining fields from the ones stored here (R01.2)
			}
		}
		return nil, false
	}
	type stored map[string]interface{}
	watch := func(ev *evaluator) stored {
		got := stored{}
		ev.onStore = func(fr *evalFrame, st *ssa.Store, v interface{}, ok bool) {
			if fa, isF := st.Addr.(*ssa.FieldAddr); isF && structName(fa.X.Type()) == "Lunar" {
				if !ok {
					v = "?"
				}
				got[fieldKeyOf(fa)] = v
			}
		}
		return got
	}
	times := []int64{0, 12*3600 + 34*60 + 56, 23*3600 + 59*60 + 58} // hour, minute and second all different in two of them
	daysOf := func(m statedMonth) []int64 {
		if c.Tier != "thorough" {
			return []int64{1, 2, m.days}
		}
		var out []int64
		for d := int64(1); d <= m.days; d++ {
			out = append(out, d)
		}
		return out
	}
	cases := 0
	for _, m := range months {
		cases += len(daysOf(m)) * len(times)
	}
	// civil -> lunar
	if fn := c.Fn(r, rule, "calendar.NewLunarFromSolar"); fn != nil && len(fn.Params) == 1 {
		var bad []string
		n := 0
		for k, m := range months {
			for _, d := range daysOf(m) {
				for _, sec := range times {
					in := absCivil{m.first + d - 1, sec}
					var lm *listModel
					var leaf leafX
					leaf = func(fr *evalFrame, v ssa.Value) (interface{}, bool) {
						if p, ok := v.(*ssa.Parameter); ok && fr.parent == nil && p == fn.Params[0] {
							return in, true
						}
						if x, ok := lm.leaf(c, fr, v); ok {
							return x, true
						}
						if rc, f, ok := getterField(c, v); ok && f == "LunarYear.months" {
							if _, isCall := v.(*ssa.Call); !isCall || fname(v.(*ssa.Call).Common().StaticCallee()) == "calendar.(*LunarYear).GetMonths" {
								if o, ok := evalWith(fr, rc, leaf); ok {
									if p, isP := o.(absPtr); isP && !p.isNil {
										return absPtr{"list@months", false}, true
									}
								}
								return nil, false
							}
						}
						if x, ok := monthLeaf(fr, v, leaf); ok {
							return x, true
						}
						return civilLeaf(c, fr, v, leaf)
					}
					ev := &evaluator{leaf: leaf, inline: inlineLibrary, counted: 64}
					lm = newListModel(ev)
					var all []interface{}
					for j := range months {
						all = append(all, absPtr{fmt.Sprintf("month %d", j), false})
					}
					lm.fill("list@months", all...)
					ev.visit = lm.visit
					got := watch(ev)
					_, outcome := ev.run(fn, nil, nil, nil, nil)
					n++
					want := stored{"Lunar.year": m.year, "Lunar.month": m.month, "Lunar.day": d, "Lunar.hour": sec / 3600, "Lunar.minute": sec / 60 % 60, "Lunar.second": sec % 60, "Lunar.solar": in}
					diff := ""
					for _, f := range []string{"Lunar.year", "Lunar.month", "Lunar.day", "Lunar.hour", "Lunar.minute", "Lunar.second", "Lunar.solar"} {
						if got[f] != want[f] {
							diff += fmt.Sprintf(" %s = %v, stated %v;", f, got[f], want[f])
						}
					}
					if outcome != "return" {
						diff = " not followed: " + outcome + " " + ev.fail
					}
					if diff != "" && len(bad) < 3 {
						bad = append(bad, fmt.Sprintf("day %d of month %d of the table (%d-%d, %d days) at second %d:%s", d, k, m.year, m.month, m.days, sec, diff))
					}
				}
			}
		}
		r.check(len(bad) == 0 && n == cases, rule, "calendar.NewLunarFromSolar finds the month that contains the day", c.fnPos(fn), fmt.Sprintf("%d days and times on a table of %d months; deviations: %v", n, len(months), bad))
	}
	// lunar -> civil
	if fn := c.Fn(r, rule, "calendar.NewLunar"); fn != nil && len(fn.Params) == 6 {
		var bad []string
		n := 0
		for k, m := range months {
			for _, d := range daysOf(m) {
				for _, sec := range times {
					params := []int64{m.year, m.month, d, sec / 3600, sec / 60 % 60, sec % 60}
					var leaf leafX
					leaf = func(fr *evalFrame, v ssa.Value) (interface{}, bool) {
						if p, ok := v.(*ssa.Parameter); ok && fr.parent == nil {
							for i, q := range fn.Params {
								if p == q {
									return params[i], true
								}
							}
						}
						if call, ok := v.(*ssa.Call); ok && call.Common().StaticCallee() != nil && fname(call.Common().StaticCallee()) == "calendar.(*LunarYear).GetMonth" {
							o, ok1 := evalWith(fr, call.Common().Args[0], leaf)
							mo, ok2 := evalWith(fr, call.Common().Args[1], leaf)
							p, isP := o.(absPtr)
							mm, isI := mo.(int64)
							var y int64
							if !ok1 || !ok2 || !isP || !isI {
								return nil, false
							}
							if _, err := fmt.Sscanf(p.tag, "lunar year %d", &y); err != nil {
								return nil, false
							}
							for j, sm := range months {
								if sm.year == y && sm.month == mm {
									return absPtr{fmt.Sprintf("month %d", j), false}, true
								}
							}
							return absPtr{"nil", true}, true
						}
						if x, ok := monthLeaf(fr, v, leaf); ok {
							return x, true
						}
						return civilLeaf(c, fr, v, leaf)
					}
					ev := &evaluator{leaf: leaf, inline: inlineLibrary, counted: 64}
					got := watch(ev)
					_, outcome := ev.run(fn, nil, nil, nil, nil)
					n++
					want := stored{"Lunar.year": m.year, "Lunar.month": m.month, "Lunar.day": d, "Lunar.hour": sec / 3600, "Lunar.minute": sec / 60 % 60, "Lunar.second": sec % 60, "Lunar.solar": absCivil{m.first + d - 1, sec}}
					diff := ""
					for _, f := range []string{"Lunar.year", "Lunar.month", "Lunar.day", "Lunar.hour", "Lunar.minute", "Lunar.second", "Lunar.solar"} {
						if got[f] != want[f] {
							diff += fmt.Sprintf(" %s = %v, stated %v;", f, got[f], want[f])
						}
					}
					if outcome != "return" {
						diff = " not followed: " + outcome + " " + ev.fail
					}
					if diff != "" && len(bad) < 3 {
						bad = append(bad, fmt.Sprintf("day %d of month %d of the table (%d-%d, %d days) at second %d:%s", d, k, m.year, m.month, m.days, sec, diff))
					}
				}
			}
		}
		r.check(len(bad) == 0 && n == cases, rule, "calendar.NewLunar places the day in the stated month", c.fnPos(fn), fmt.Sprintf("%d days and times on a table of %d months; deviations: %v", n, len(months), bad))
	}
	r.floor(rule, 2)
}
