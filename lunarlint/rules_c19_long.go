package main

// R19.6 — the long printed form extends the short one.

import (
	"fmt"
	"strings"

	"golang.org/x/tools/go/ssa"
)

func r19_6(c *Ctx, r *Report) {
	const rule = "R19.6"
	r.rule(rule, "The long form extends the short form. Solar.ToFullString, Lunar.ToFullString and Foto.ToFullString are followed by the evaluator (E12; what the object's own accessors return are abstract inputs — a marker text per accessor, festival lists with no and with two entries through the list model, a solar-term name that is empty or not, a leap year or not; loops over the lists as tables over the iteration number, function literals and helpers inline): in every combination the text returned begins with the object's short form (ToYmdHms; String; ToString — followed under the same inputs), and every festival listed and the solar term's name occur in it after that. The short forms are injective (R19.1, R19.2), so a long form that keeps its head cannot print two dates alike; one that drops the head on a branch (a solar-term day, a festival) can.")
	type unit struct{ typ, short string }
	n := 0
	for _, u := range []unit{{"Solar", "ToYmdHms"}, {"Lunar", "String"}, {"Foto", "ToString"}} {
		fn := c.Fn(r, rule, "calendar.(*"+u.typ+").ToFullString")
		if fn == nil || len(fn.Params) != 1 {
			continue
		}
		shortFn := c.Fn(r, rule, "calendar.(*"+u.typ+")."+u.short)
		if shortFn == nil || len(shortFn.Params) != 1 {
			continue
		}
		var bad []string
		cases := 0
		for mask := 0; mask < 16; mask++ {
			fest, other, term, flag := mask&1 != 0, mask&2 != 0, mask&4 != 0, mask&8 != 0
			var lm *listModel
			var leaf leafX
			var wanted []string
			listOf := func(name string, full bool, foto bool) interface{} {
				tag := "list@" + name
				if _, ok := lm.elems[tag]; !ok {
					var els []interface{}
					if full {
						for k := 1; k <= 2; k++ {
							el := fmt.Sprintf("‹%s %d›", name, k)
							wanted = append(wanted, el)
							if foto {
								els = append(els, absPtr{el, false})
							} else {
								els = append(els, el)
							}
						}
					}
					lm.fill(tag, els...)
				}
				return absPtr{tag, false}
			}
			isOwn := func(fr *evalFrame, x ssa.Value) bool {
				ofr, o := fr.origin(x)
				p, isP := o.(*ssa.Parameter)
				return ofr.parent == nil && isP && len(ofr.fn.Params) == 1 && p == ofr.fn.Params[0]
			}
			leaf = func(fr *evalFrame, v ssa.Value) (interface{}, bool) {
				if x, ok := lm.leaf(c, fr, v); ok {
					return x, true
				}
				// the object's own date fields: small distinct numbers
				ownOrWrapped := func(rc ssa.Value) bool {
					if isOwn(fr, rc) {
						return true
					}
					// the date the object wraps (a Buddhist date's lunar date)
					if rc2, _, isF := getterField(c, rc); isF && isOwn(fr, rc2) {
						return true
					}
					return false
				}
				if rc, f, ok := getterField(c, v); ok && isIntType(v.Type()) && ownOrWrapped(rc) {
					for i, n := range []string{"year", "month", "day", "hour", "minute", "second"} {
						if strings.HasSuffix(f, "."+n) {
							return []int64{2023, 7, 9, 8, 5, 3}[i], true
						}
					}
				}
				call, ok := v.(*ssa.Call)
				if !ok || call.Common().StaticCallee() == nil {
					return nil, false
				}
				callee := call.Common().StaticCallee()
				args := call.Common().Args
				if callee.Signature.Recv() == nil || len(args) != 1 || callee.Signature.Results().Len() != 1 {
					return nil, false
				}
				// a festival object of a Buddhist date prints as its marker
				if recvIsNamed(callee, "FotoFestival") {
					if o, ok := evalWith(fr, args[0], leaf); ok {
						if p, isP := o.(absPtr); isP && strings.HasPrefix(p.tag, "‹") {
							return p.tag, true
						}
					}
					return nil, false
				}
				// accessors of the object itself (or of the date it wraps)
				own := isOwn(fr, args[0])
				if !own {
					if rc, _, isF := getterField(c, args[0]); isF && isOwn(fr, rc) {
						own = true
					}
				}
				if !own || callee == fn {
					return nil, false
				}
				res := callee.Signature.Results().At(0).Type()
				name := callee.Name()
				switch {
				case name == u.short && recvIsNamed(callee, u.typ):
					return nil, false // the short form itself is followed, not assumed
				case name == "GetFestivals":
					return listOf("festival", fest, u.typ == "Foto"), true
				case name == "GetOtherFestivals":
					return listOf("other festival", other, u.typ == "Foto"), true
				case name == "GetJieQi" && isStringType(res):
					if term {
						return "‹solar term›", true
					}
					return "", true
				case isStringType(res):
					return "‹" + name + "›", true
				case res.String() == "bool":
					return flag, true
				}
				return nil, false
			}
			ev := &evaluator{leaf: leaf, inline: inlineLibrary, counted: 64, maxDepth: 400}
			lm = newListModel(ev)
			ev.visit = lm.visit
			head := ""
			if hres, houtcome := ev.run(shortFn, nil, nil, nil, nil); houtcome == "return" && len(hres) == 1 {
				head, _ = hres[0].(string)
			}
			res, outcome := ev.run(fn, nil, nil, nil, nil)
			cases++
			got, isS := "", false
			if outcome == "return" && len(res) == 1 {
				got, isS = res[0].(string)
			}
			what := fmt.Sprintf("festivals %v, other festivals %v, solar term %v, flags %v", fest, other, term, flag)
			switch {
			case head == "":
				bad = append(bad, what+": the short form could not be followed ("+ev.fail+")")
			case !isS:
				bad = append(bad, what+": not followed ("+outcome+" "+ev.fail+")")
			case !strings.HasPrefix(got, head):
				bad = append(bad, what+": the text begins "+fmt.Sprintf("%q", head2(got, 40))+", not with the short form "+fmt.Sprintf("%q", head2(head, 40)))
			default:
				if term && u.typ == "Lunar" {
					wanted = append(wanted, "‹solar term›")
				}
				for _, w := range wanted {
					if !strings.Contains(got[len(head):], w) {
						bad = append(bad, what+": "+w+" does not occur in the text")
						break
					}
				}
			}
		}
		n++
		r.check(len(bad) == 0 && cases == 16, rule, "calendar.(*"+u.typ+").ToFullString begins with "+u.short+"()", c.fnPos(fn), fmt.Sprintf("%d combinations; deviations: %v", cases, headList(bad, 3)))
	}
	r.floor(rule, 3)
}

func head2(s string, n int) string {
	rs := []rune(s)
	if len(rs) > n {
		return string(rs[:n]) + "…"
	}
	return s
}
