package main

// C01 — civil <-> lunar conversion: structural part only.

import (
	"fmt"
	"go/token"
	"sort"
	"strings"

	"golang.org/x/tools/go/ssa"
)

func init() {
	register("C01",
		"that the conversion round-trips or preserves order on any date: the real new moons and terms, the day counts they give and the explicit leap overrides (LEAP_11, LEAP_12) are numeric data of the astronomy; R06.5 follows the construction of the month table on a synthetic ephemeris only.",
		r01_1, r01_2, r01_3, r01_6, r06_2, r08_6, r08_8, r04_2, r06_4, r06_5)
}

func r01_1(c *Ctx, r *Report) {
	const rule = "R01.1"
	r.rule(rule, "Lunar stepping delegates. (*Lunar).Next(n) returns the civil->lunar conversion of the civil day step of the object's own solar date: the lunar conversion (NewLunarFromSolar, directly or through GetLunar) of NextDay(n) of the object's own solar date, with n passed unchanged; accessors and delegations are read inline. A native re-implementation is reported as undecided.")
	fn := c.Fn(r, rule, "calendar.(*Lunar).Next")
	if fn == nil {
		return
	}
	construct := "calendar.(*Lunar).Next is solar.NextDay(n).GetLunar()"
	if len(fn.Params) != 2 {
		r.bad(rule, construct, c.fnPos(fn), "unexpected signature (undecided = fail)")
		return
	}
	var leaf leafX
	leaf = func(fr *evalFrame, v ssa.Value) (interface{}, bool) {
		if rc, f, ok := getterField(c, v); ok && f == "Lunar.solar" {
			if ofr, o := fr.origin(rc); ofr.parent == nil && o == ssa.Value(fn.Params[0]) {
				return absPtr{"own", false}, true
			}
		}
		call, ok := v.(*ssa.Call)
		if !ok || call.Common().StaticCallee() == nil {
			return nil, false
		}
		switch fname(call.Common().StaticCallee()) {
		case "calendar.(*Solar).NextDay":
			x, ok := evalWith(fr, call.Common().Args[0], leaf)
			ofr, n := fr.origin(call.Common().Args[1])
			if ptr, isP := x.(absPtr); ok && isP && ptr.tag == "own" && ofr.parent == nil && n == ssa.Value(fn.Params[1]) {
				return absPtr{"own+n", false}, true
			}
		case "calendar.NewLunarFromSolar":
			x, ok := evalWith(fr, call.Common().Args[0], leaf)
			if ptr, isP := x.(absPtr); ok && isP {
				return absPtr{"lunar(" + ptr.tag + ")", false}, true
			}
		}
		return nil, false
	}
	ev := &evaluator{inline: inlineLibrary, leaf: leaf}
	res, outcome := ev.run(fn, nil, nil, nil, nil)
	got := outcome + " " + ev.fail
	if outcome == "return" && len(res) == 1 {
		got = fmt.Sprint(res[0])
	}
	r.check(outcome == "return" && len(res) == 1 && res[0] == interface{}(absPtr{"lunar(own+n)", false}), rule, construct, c.fnPos(fn), "the evaluator (accessors and delegations inline) reads the result as: "+got)
}

// lunarFieldWrites: the Lunar fields a constructor definitely writes (through compute*).
func lunarFieldWrites(c *Ctx, fn *ssa.Function) []string {
	set := map[string]bool{}
	for _, l := range c.eff.Of(fn).Writes {
		if strings.HasPrefix(l.Flat, "Lunar.") && l.Root == "a" {
			set[strings.TrimPrefix(l.Flat, "Lunar.")] = true
		}
	}
	return sortedKeys(set)
}

func r01_2(c *Ctx, r *Report) {
	const rule = "R01.2"
	r.rule(rule, "Constructor agreement. Both allocation sites of Lunar (NewLunar, NewLunarFromSolar) assign the same set of fields — every field of the struct — through the same builder compute(), so the object obtained by converting a civil date and the one constructed from lunar year/month/day/time are built alike; no other function allocates a Lunar.")
	a, b := c.Fn(r, rule, "calendar.NewLunar"), c.Fn(r, rule, "calendar.NewLunarFromSolar")
	if a == nil || b == nil {
		return
	}
	wa, wb := lunarFieldWrites(c, a), lunarFieldWrites(c, b)
	// all fields of the struct
	var all []string
	if m := c.SSABy["calendar"].Type("Lunar"); m != nil {
		if st, ok := m.Type().Underlying().(interface {
			NumFields() int
		}); ok {
			_ = st
		}
	}
	for k := range c.ranges().fieldInv {
		_ = k
	}
	all = structFields(c, "calendar", "Lunar")
	r.check(equalStrs(wa, wb), rule, "NewLunar and NewLunarFromSolar assign the same fields", c.fnPos(a), fmt.Sprintf("only NewLunar: %v; only NewLunarFromSolar: %v", subsetStrs(wa, wb), subsetStrs(wb, wa)))
	r.check(len(subsetStrs(all, wa)) == 0 && len(all) >= 25, rule, "every field of Lunar is assigned by the constructors", c.fnPos(a), fmt.Sprintf("%d fields; unassigned: %v", len(all), subsetStrs(all, wa)))
	for _, fn := range []*ssa.Function{a, b} {
		_, viaCompute := c.eff.Of(fn).Calls["calendar.compute"]
		r.check(viaCompute, rule, fname(fn)+" builds through compute()", c.fnPos(fn), "")
	}
	// who allocates a Lunar
	var allocs []string
	for _, fn := range c.Funcs {
		for _, bb := range fn.Blocks {
			for _, ins := range bb.Instrs {
				if al, ok := ins.(*ssa.Alloc); ok && qualStruct(al.Type()) == "calendar.Lunar" {
					allocs = append(allocs, fname(fn))
				}
			}
		}
	}
	sort.Strings(allocs)
	r.check(equalStrs(allocs, []string{"calendar.NewLunar", "calendar.NewLunarFromSolar"}), rule, "Lunar is allocated only by its two constructors", c.fnPos(a), fmt.Sprintf("allocation sites: %v", allocs))
}

func structFields(c *Ctx, pkg, typ string) []string {
	p := c.PkgBy[pkg]
	if p == nil {
		return nil
	}
	obj := p.Types.Scope().Lookup(typ)
	if obj == nil {
		return nil
	}
	type fielder interface {
		NumFields() int
	}
	var out []string
	if st, ok := obj.Type().Underlying().(interface {
		NumFields() int
	}); ok {
		_ = st
	}
	if st, ok := underlyingStruct(obj.Type()); ok {
		for i := 0; i < st.NumFields(); i++ {
			out = append(out, fieldName(obj.Type(), i))
		}
	}
	sort.Strings(out)
	return out
}

// anchoredOnCivilYear (R01.3 / R03.7): at every call compute(lunar, y), y is NewLunarYear(k) with k
// equal to the year of the Solar stored in lunar.solar.
func anchoredOnCivilYear(c *Ctx, r *Report, rule string) {
	for _, name := range []string{"calendar.NewLunar", "calendar.NewLunarFromSolar"} {
		fn := c.Fn(r, rule, name)
		if fn == nil {
			continue
		}
		construct := name + ": the term table passed to compute() is that of the civil year"
		var computeCall *ssa.Call
		var solarStore *ssa.Store
		for _, b := range fn.Blocks {
			for _, ins := range b.Instrs {
				switch x := ins.(type) {
				case *ssa.Call:
					if x.Common().StaticCallee() != nil && fname(x.Common().StaticCallee()) == "calendar.compute" {
						computeCall = x
					}
				case *ssa.Store:
					if fa, ok := x.Addr.(*ssa.FieldAddr); ok && fieldKeyOf(fa) == "Lunar.solar" {
						solarStore = x
					}
				}
			}
		}
		if computeCall == nil || solarStore == nil {
			r.bad(rule, construct, c.fnPos(fn), "call of compute() or store of lunar.solar not found (undecided = fail)")
			continue
		}
		// civil year expression of the stored solar
		civil := ""
		switch sv := solarStore.Val.(type) {
		case *ssa.Parameter:
			civil = "calendar.(*Solar).GetYear(" + sv.Name() + ")"
		case *ssa.Call:
			if sv.Common().StaticCallee() != nil && fname(sv.Common().StaticCallee()) == "calendar.NewSolar" {
				civil = symExpr(c, sv.Common().Args[0], nil, map[ssa.Value]string{}, 0)
			}
		}
		if civil == "" {
			r.bad(rule, construct, c.fnPos(fn), "the civil year of the stored solar date is not recognisable (undecided = fail)")
			continue
		}
		yearArg := func(v ssa.Value) (string, bool) {
			call, ok := v.(*ssa.Call)
			if !ok || call.Common().StaticCallee() == nil || fname(call.Common().StaticCallee()) != "calendar.NewLunarYear" {
				return "", false
			}
			return symExpr(c, call.Common().Args[0], nil, map[ssa.Value]string{}, 0), true
		}
		if len(computeCall.Common().Args) < 2 {
			r.bad(rule, construct, c.pos(computeCall.Pos()), "compute() is not handed the year table it builds the term table from: the table then comes from shared state, where nothing ties it to the civil year of the stored solar date")
			continue
		}
		y := computeCall.Common().Args[1]
		var problems []string
		if phi, ok := y.(*ssa.Phi); ok && len(phi.Edges) == 2 {
			cond, e0true, okSel := phiSelector(phi)
			for i, e := range phi.Edges {
				k, ok := yearArg(e)
				if !ok {
					problems = append(problems, "an incoming table is not NewLunarYear(...)")
					continue
				}
				if k == civil {
					continue
				}
				// allowed when this edge is taken exactly when k == civil year by the branch condition
				okEdge := false
				if bo, isBin := cond.(*ssa.BinOp); okSel && isBin && (bo.Op == token.NEQ || bo.Op == token.EQL) {
					l := symExpr(c, bo.X, nil, map[ssa.Value]string{}, 0)
					rr := symExpr(c, bo.Y, nil, map[ssa.Value]string{}, 0)
					relates := (l == civil && rr == k) || (rr == civil && l == k)
					edgeTrue := (i == 0) == e0true
					equalOnEdge := (bo.Op == token.EQL) == edgeTrue
					okEdge = relates && equalOnEdge
				}
				if !okEdge {
					problems = append(problems, fmt.Sprintf("the table of year %s is used although the civil year is %s and no branch establishes their equality", k, civil))
				}
			}
		} else if k, ok := yearArg(y); ok {
			if k != civil {
				problems = append(problems, fmt.Sprintf("the table of year %s is used, the civil year is %s", k, civil))
			}
		} else {
			problems = append(problems, "the table passed to compute() is not NewLunarYear(...)")
		}
		r.check(len(problems) == 0, rule, construct, c.pos(computeCall.Pos()), "civil year = "+civil+"; "+strings.Join(problems, "; "))
	}
}

func r01_3(c *Ctx, r *Report) {
	const rule = "R01.3"
	r.rule(rule, "The term table is anchored on the civil year. At every call compute(lunar, y), y is NewLunarYear(k) with k provably equal to the year of the Solar stored in lunar.solar: the same pure-getter expression, or equal under the dominating branch fact (noon.GetYear() == lunarYear on the fall-through edge of NewLunar). Dropping the re-anchoring makes the two construction routes disagree for lunar months 11/12 that fall in the next civil year.")
	anchoredOnCivilYear(c, r, rule)
}
