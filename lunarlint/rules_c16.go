package main

// C16 — nine-star values stay in range and the duplicated formulas agree.

import (
	"fmt"
	"go/token"
	"sort"
	"strings"

	"golang.org/x/tools/go/ssa"
)

func init() {
	register("C16",
		"that the pillars, term days and day differences the star formulas are fed with are the right ones for every date (numeric: C03, C04, C05); the formulas themselves are decided as decision tables (R16.5).",
		r16_1, r16_2, r16_3, r16_5, r16_6, r11_7)
}

func r16_1(c *Ctx, r *Report) {
	const rule = "R16.1"
	r.rule(rule, "Star index in range. Every argument of NewNineStar, at every call site in the library, lies in [0,8] (interval analysis E3, under the named axioms; where intervals cannot bound an index that a function picks from a local table, the complete decision table of R16.5 for that function, which states an index 0..8 for every input, is taken instead — for the site and for the index field of the star object in E3); all naming tables indexed by the star have exactly 9 entries.")
	e := c.ranges()
	if c.starTableOK == nil {
		c.starTableOK = map[*ssa.Function]bool{}
		r16_5(c, newReport("C16"))
	}
	target := c.Fn(r, rule, "calendar.NewNineStar")
	seen := map[string]int{}
	for _, fn := range c.Funcs {
		for _, b := range fn.Blocks {
			for _, ins := range b.Instrs {
				call, ok := ins.(*ssa.Call)
				if !ok || call.Common().StaticCallee() != target || target == nil {
					continue
				}
				v := e.obsAt(fn, call, call.Common().Args[0])
				construct := uniq(seen, fname(fn)+": NewNineStar("+describeIndex(call.Common().Args[0])+")")
				if v.bot {
					r.ok(rule, construct, c.pos(call.Pos()), "not reached by the analysis").Class = "DEAD"
					continue
				}
				if v.known() && v.lo() >= 0 && v.hi() <= 8 {
					r.ok(rule, construct, c.pos(call.Pos()), "argument in "+v.String()).Class = classOf(v.ax)
					for _, a := range axList(v.ax) {
						r.assume(axText(a))
					}
				} else if starTableCovers(c, fn, 0) {
					// intervals cannot bound it, but the function was followed over its whole input domain
					r.ok(rule, construct, c.pos(call.Pos()), "argument "+v.String()+" by intervals; the decision table of R16.5 follows this function for every input and finds the stated index, a number 0..8, every time").Class = "TABLE"
				} else {
					r.bad(rule, construct, c.pos(call.Pos()), "star index "+v.String()+" is not proven inside [0,8]: every naming table of the star object is indexed with it")
				}
			}
		}
	}
	for _, t := range []string{"NUMBER", "COLOR", "WU_XING", "POSITION", "NAME_BEI_DOU", "NAME_XUAN_KONG", "NAME_QI_MEN", "BA_MEN_QI_MEN", "NAME_TAI_YI", "TYPE_TAI_YI", "SONG_TAI_YI", "LUCK_XUAN_KONG", "LUCK_QI_MEN", "YIN_YANG_QI_MEN"} {
		xs := c.tabStrs(r, rule, "calendar", t)
		if xs != nil {
			r.check(len(xs) == 9, rule, "calendar."+t+" has 9 entries", c.pos(c.tables.pos("calendar", t)), fmt.Sprintf("length %d", len(xs)))
		}
	}
	r.floor(rule, 20)
}

func constSet(fn *ssa.Function, ops ...token.Token) []string {
	want := map[token.Token]bool{}
	for _, o := range ops {
		want[o] = true
	}
	var out []string
	for _, u := range intConstUses(fn) {
		if want[u.op] {
			out = append(out, fmt.Sprintf("%s%d", u.op, u.k))
		}
	}
	sort.Strings(out)
	return out
}

func r16_2(c *Ctx, r *Report) {
	const rule = "R16.2"
	r.rule(rule, "Duplicated formulas read the same inputs. Lunar.GetTimeNineStar and LunarTime.GetNineStar read the same inputs (R11.1); Lunar.GetYearNineStarBySect (school 1) and LunarYear.GetNineStar read corresponding inputs. That the duplicated formulas compute the same star is R16.5, where both copies are evaluated against one statement.")
	pair := func(a, b string, bindB int, ra func(string) string) {
		fa, fb := c.Fn(r, rule, a), c.Fn(r, rule, b)
		if fa == nil || fb == nil {
			return
		}
		sa := signatureOf(c, fa, nil, ra)
		var sb inputSig
		if bindB > 0 {
			sb = signatureOf(c, fb, intBind(1, int64(bindB)), dropPointers)
		} else {
			sb = signatureOf(c, fb, nil, dropPointers)
		}
		oa, ob := diffSig(sa, sb)
		r.check(len(oa) == 0 && len(ob) == 0, rule, a+" ~ "+b+" read the same inputs", c.fnPos(fb), fmt.Sprintf("only first: %v; only second: %v", oa, ob))
	}
	pair("calendar.(*LunarTime).GetNineStar", "calendar.(*Lunar).GetTimeNineStar", 0, renameLunarTime)
	pair("calendar.(*LunarYear).GetNineStar", "calendar.(*Lunar).GetYearNineStarBySect", 1, renameLunarYear)
}

func r16_3(c *Ctx, r *Report) {
	const rule = "R16.3"
	r.rule(rule, "Variant routing of the star accessors. GetYearNineStarBySect / GetMonthNineStarBySect read the New-Year, Lichun-day or exact pillars for schools 1, 2, 3; the day star reads the civil day, the two solstice-adjacent jiazi anchors (term days and their plain day pillars); the hour star the civil day, solstice days, day branch and hour branch — as declared in spec/inputs.json.")
	declaredInputsRule(c, r, rule, func(ai accessorInputs) bool {
		return (ai.cls.typ == "Lunar" || ai.cls.typ == "LunarTime" || ai.cls.typ == "LunarYear" || ai.cls.typ == "LunarMonth") && strings.Contains(ai.fn.Name(), "NineStar")
	}, 10)
	likeWithLikeRule(c, r, "R16.4", func(fn *ssa.Function) bool { return strings.Contains(fn.Name(), "NineStar") }, 2)
}
