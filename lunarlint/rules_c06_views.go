package main

// R06.1 — the in-year views of a year's month table, followed on stated tables.

import (
	"fmt"
	"strings"

	"golang.org/x/tools/go/ssa"
)

// viewTables: month tables as the library holds them (fifteen months from the previous year's 11th), with the own
// year Y = 2020: no leap month; a leap 4th; a leap 12th at the end of the own year; a leap 11th of the previous
// year at the head of the table and a leap 1st month of the next year at its tail (neither belongs to Y).
func viewTables() map[string][]statedMonth {
	mk := func(labels [][2]int64) []statedMonth {
		var out []statedMonth
		first := civilDayNo(2019, 11, 26)
		for i, lb := range labels {
			days := int64(29 + (i*7%3+1)/2)
			out = append(out, statedMonth{lb[0], lb[1], days, first})
			first += days
		}
		return out
	}
	return map[string][]statedMonth{
		"no leap month":                 mk([][2]int64{{2019, 11}, {2019, 12}, {2020, 1}, {2020, 2}, {2020, 3}, {2020, 4}, {2020, 5}, {2020, 6}, {2020, 7}, {2020, 8}, {2020, 9}, {2020, 10}, {2020, 11}, {2020, 12}, {2021, 1}}),
		"leap 4th month":                mk([][2]int64{{2019, 11}, {2019, 12}, {2020, 1}, {2020, 2}, {2020, 3}, {2020, 4}, {2020, -4}, {2020, 5}, {2020, 6}, {2020, 7}, {2020, 8}, {2020, 9}, {2020, 10}, {2020, 11}, {2020, 12}}),
		"leap 12th month":               mk([][2]int64{{2019, 11}, {2019, 12}, {2020, 1}, {2020, 2}, {2020, 3}, {2020, 4}, {2020, 5}, {2020, 6}, {2020, 7}, {2020, 8}, {2020, 9}, {2020, 10}, {2020, 11}, {2020, 12}, {2020, -12}}),
		"leap months of the neighbours": mk([][2]int64{{2019, 11}, {2019, -11}, {2019, 12}, {2020, 1}, {2020, 2}, {2020, 3}, {2020, 4}, {2020, 5}, {2020, 6}, {2020, 7}, {2020, 8}, {2020, 9}, {2020, 10}, {2020, 11}, {2020, 12}}),
	}
}

// monthViewsByEvaluation follows one in-year view on the stated tables. followed=false: the evaluator could not
// follow it (the caller falls back to the analysis of the loop body).
func monthViewsByEvaluation(c *Ctx, fn *ssa.Function, name string) (bad []string, cases int, followed bool) {
	const Y = int64(2020)
	followed = true
	tables := viewTables()
	for _, tname := range sortedKeys(boolKeysOfTables(tables)) {
		months := tables[tname]
		var own []int
		for k, m := range months {
			if m.year == Y {
				own = append(own, k)
			}
		}
		asks := []int64{0}
		if name == "GetMonth" {
			asks = []int64{1, 4, -4, 11, -11, 12, -12, 13, 0, -1}
		}
		for _, ask := range asks {
			var lm *listModel
			var leaf leafX
			leaf = func(fr *evalFrame, v ssa.Value) (interface{}, bool) {
				if p, ok := v.(*ssa.Parameter); ok && fr.parent == nil {
					switch {
					case p == fn.Params[0]:
						return absPtr{"year table", false}, true
					case len(fn.Params) == 2 && p == fn.Params[1]:
						return ask, true
					}
				}
				if x, ok := lm.leaf(c, fr, v); ok {
					return x, true
				}
				if rc, f, ok := getterField(c, v); ok {
					o, okO := evalWith(fr, rc, leaf)
					p, isP := o.(absPtr)
					if !okO || !isP || p.isNil {
						return nil, false
					}
					var k int
					switch {
					case p.tag == "year table" && f == "LunarYear.year":
						return Y, true
					case p.tag == "year table" && f == "LunarYear.months":
						if call, isCall := v.(*ssa.Call); isCall && fname(call.Common().StaticCallee()) != "calendar.(*LunarYear).GetMonths" {
							return nil, false
						}
						return absPtr{"list@months", false}, true
					case strings.HasPrefix(p.tag, "month "):
						if _, err := fmt.Sscanf(p.tag, "month %d", &k); err != nil || k < 0 || k >= len(months) {
							return nil, false
						}
						switch f {
						case "LunarMonth.year":
							return months[k].year, true
						case "LunarMonth.month":
							return months[k].month, true
						case "LunarMonth.dayCount":
							return months[k].days, true
						}
					}
				}
				return nil, false
			}
			ev := &evaluator{leaf: leaf, inline: inlineLibrary, counted: 64}
			lm = newListModel(ev)
			var all []interface{}
			for k := range months {
				all = append(all, absPtr{fmt.Sprintf("month %d", k), false})
			}
			lm.fill("list@months", all...)
			ev.visit = lm.visit
			res, outcome := ev.run(fn, nil, nil, nil, nil)
			cases++
			if outcome != "return" || len(res) != 1 {
				return []string{"not followed: " + outcome + " " + ev.fail}, cases, false
			}
			// the table itself is left as it was
			if got := strings.Join(lm.render("list@months"), " "); got != strings.Join(fmtAll(all), " ") {
				bad = append(bad, fmt.Sprintf("table with %s: the year's own month table is changed: [%s]", tname, got))
			}
			what, want := "", ""
			switch name {
			case "GetMonthsInYear":
				var w []string
				for _, k := range own {
					w = append(w, fmt.Sprint(absPtr{fmt.Sprintf("month %d", k), false}))
				}
				want = strings.Join(w, " ")
				if p, isP := res[0].(absPtr); isP && strings.HasPrefix(p.tag, "list@") {
					what = strings.Join(lm.render(p.tag), " ")
					if p.tag == "list@months" {
						what = "the table itself"
					}
				} else {
					what = fmt.Sprint(res[0])
				}
			case "GetDayCount":
				n := int64(0)
				for _, k := range own {
					n += months[k].days
				}
				want, what = fmt.Sprint(n), fmt.Sprint(res[0])
			case "GetLeapMonth":
				lp := int64(0)
				for _, k := range own {
					if months[k].month < 0 && lp == 0 {
						lp = -months[k].month
					}
				}
				want, what = fmt.Sprint(lp), fmt.Sprint(res[0])
			case "GetMonth":
				want = fmt.Sprint(absPtr{"nil", true})
				for _, k := range own {
					if months[k].month == ask {
						want = fmt.Sprint(absPtr{fmt.Sprintf("month %d", k), false})
						break
					}
				}
				what = fmt.Sprint(res[0])
			}
			if what != want {
				req := ""
				if name == "GetMonth" {
					req = fmt.Sprintf(", month %d asked for", ask)
				}
				bad = append(bad, fmt.Sprintf("table with %s%s: %s, stated %s", tname, req, what, want))
			}
		}
	}
	return bad, cases, true
}

func boolKeysOfTables(m map[string][]statedMonth) map[string]bool {
	out := map[string]bool{}
	for k := range m {
		out[k] = true
	}
	return out
}

func fmtAll(xs []interface{}) []string {
	var out []string
	for _, x := range xs {
		out = append(out, fmt.Sprint(x))
	}
	return out
}
