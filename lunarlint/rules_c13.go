package main

// C13 — seasonal counters and movable festivals follow their term-and-stem rules.

import (
	"fmt"
	"go/token"
	"strings"

	"golang.org/x/tools/go/ssa"
)

func init() {
	register("C13",
		"that the counters land on the right civil days for every year (the term days themselves and the civil-day arithmetic between them are numeric: C03, C04).",
		r13_1, r13_2, r13_3, r13_4, r13_5)
}

var c13Accessors = map[string]bool{"GetShuJiu": true, "GetFu": true, "GetHou": true, "GetWuHou": true, "GetFestivals": true, "GetOtherFestivals": true}

func r13_1(c *Ctx, r *Report) {
	const rule = "R13.1"
	r.rule(rule, "Inputs of the seasonal counters. GetShuJiu reads the civil day and the two winter-solstice days; GetFu the civil day, the summer-solstice day with the plain day stem of that day, and the Liqiu day; Cold Food the Qingming day; the She days the Lichun/Liqiu days with the plain day stem of those days; the pentads the civil day and the whole-day previous term; New Year's Eve the lunar month, day and year — exactly as declared in spec/inputs.json (auxiliary Lunar objects of term days are tracked by pillar variant).")
	declaredInputsRule(c, r, rule, func(ai accessorInputs) bool { return ai.cls.typ == "Lunar" && c13Accessors[ai.fn.Name()] }, 6)
	// pentads use the whole-day previous term
	for _, name := range []string{"calendar.(*Lunar).GetHou", "calendar.(*Lunar).GetWuHou"} {
		fn := c.Fn(r, rule, name)
		if fn == nil {
			continue
		}
		okk := false
		for _, b := range fn.Blocks {
			for _, ins := range b.Instrs {
				if call, ok := ins.(*ssa.Call); ok && call.Common().StaticCallee() != nil && call.Common().StaticCallee().Name() == "GetPrevJieQiByWholeDay" {
					if v, ok := constBool(call.Common().Args[1]); ok && v {
						okk = true
					}
				}
			}
		}
		r.check(okk, rule, name+" counts from the whole-day previous term", c.fnPos(fn), "GetPrevJieQiByWholeDay(true)")
	}
}

func r13_2(c *Ctx, r *Report) {
	const rule = "R13.2"
	r.rule(rule, "Stem anchors and pentad tables. 6 and 4 are the positions of 庚 and 戊 in the stem cycle of LunarUtil.GAN (the anchors R13.5 evaluates against); pentads last 5 days, 3 pentads per term over the 72 = 3*24 phenological names, the third absorbing the remainder.")
	gan := c.tabStrs(r, rule, "LunarUtil", "GAN")
	pos := func(s string) int64 {
		for i, g := range gan {
			if g == s {
				return int64(i - 1)
			}
		}
		return -99
	}
	r.check(pos("庚") == 6 && pos("戊") == 4, rule, "庚 and 戊 sit at stem positions 6 and 4 of LunarUtil.GAN", c.pos(c.tables.pos("LunarUtil", "GAN")), fmt.Sprintf("positions %d and %d", pos("庚"), pos("戊")))
	hou := c.tabStrs(r, rule, "LunarUtil", "HOU")
	wu := c.tabStrs(r, rule, "LunarUtil", "WU_HOU")
	jq := c.tabStrs(r, rule, "calendar", "JIE_QI")
	r.check(len(hou) == 3 && len(wu) == 3*len(jq) && len(jq) == 24, rule, "pentad tables: 3 names, 72 = 3*24 phenological names", c.pos(c.tables.pos("LunarUtil", "WU_HOU")), fmt.Sprintf("len(HOU)=%d len(WU_HOU)=%d len(JIE_QI)=%d", len(hou), len(wu), len(jq)))
	for _, name := range []string{"calendar.(*Lunar).GetWuHou"} {
		if fn := c.Fn(r, rule, name); fn != nil {
			u := intConstUses(fn)
			r.check(countConst(u, token.QUO, 5) == 1, rule, name+" divides the day offset by 5", c.fnPos(fn), fmt.Sprintf("constants %v", u))
		}
	}
	if fn := c.Fn(r, rule, "calendar.(*Lunar).GetWuHou"); fn != nil {
		u := intConstUses(fn)
		r.check(countConst(u, token.MUL, 3) == 1 && countConst(u, token.GTR, 2) == 1, rule, "calendar.(*Lunar).GetWuHou indexes term*3 + pentad with the third pentad absorbing the remainder", c.fnPos(fn), fmt.Sprintf("constants %v", u))
	}
	r.floor(rule, 4)
}

// callsOn lists calls of the named *Solar method in fn as "recv.method(arg)" using variable comments.
func r13_3(c *Ctx, r *Report) {
	const rule = "R13.3"
	r.rule(rule, "Interval tests. The nine-nines count is absent iff the day is before the start or not before start + 81 (start <= day < start+81, the start falling back to the previous winter solstice when the day precedes this winter's); the middle dog-day period is extended iff Liqiu is strictly after the fifth geng day; each dog-day period test is days < 10.")
	if fn := c.Fn(r, rule, "calendar.(*Lunar).GetShuJiu"); fn != nil {
		// return nil is guarded by current.IsBefore(start) || !current.IsBefore(end)
		var atoms []string
		for _, b := range fn.Blocks {
			iff, ok := b.Instrs[len(b.Instrs)-1].(*ssa.If)
			if !ok {
				continue
			}
			if call, ok := iff.Cond.(*ssa.Call); ok && call.Common().StaticCallee() != nil && call.Common().StaticCallee().Name() == "IsBefore" {
				nilOnTrue := leadsToNilReturn(b.Succs[0])
				nilOnFalse := leadsToNilReturn(b.Succs[1])
				arg := "start"
				if inner, ok := call.Common().Args[1].(*ssa.Call); ok && inner.Common().StaticCallee() != nil && inner.Common().StaticCallee().Name() == "NextDay" {
					arg = "end"
				}
				atoms = append(atoms, fmt.Sprintf("IsBefore(%s): nil-on-true=%v nil-on-false=%v", arg, nilOnTrue, nilOnFalse))
			}
		}
		want := []string{"IsBefore(start): nil-on-true=false nil-on-false=false", "IsBefore(start): nil-on-true=true nil-on-false=false", "IsBefore(end): nil-on-true=false nil-on-false=true"}
		r.check(equalStrs(atoms, want), rule, "calendar.(*Lunar).GetShuJiu reports a count iff start <= day < start+81", c.fnPos(fn), strings.Join(atoms, " | "))
	}
	if fn := c.Fn(r, rule, "calendar.(*Lunar).GetFu"); fn != nil {
		strict := false
		for _, b := range fn.Blocks {
			iff, ok := b.Instrs[len(b.Instrs)-1].(*ssa.If)
			if !ok {
				continue
			}
			if call, ok := iff.Cond.(*ssa.Call); ok && call.Common().StaticCallee() != nil && fname(call.Common().StaticCallee()) == "calendar.(*Solar).IsAfter" {
				strict = true
			}
		}
		r.check(strict, rule, "calendar.(*Lunar).GetFu extends the middle period iff Liqiu is strictly after the fifth geng day", c.fnPos(fn), "liQiu.IsAfter(fifth geng day)")
	}
}

func leadsToNilReturn(b *ssa.BasicBlock) bool {
	if len(b.Instrs) == 0 {
		return false
	}
	ret, ok := b.Instrs[len(b.Instrs)-1].(*ssa.Return)
	if !ok || len(ret.Results) != 1 {
		return false
	}
	k, ok := ret.Results[0].(*ssa.Const)
	return ok && k.Value == nil
}

// isAbsOfField: v is |recv.field| computed as "m := f; if m < 0 { m = -m }".
func isAbsOfField(c *Ctx, fn *ssa.Function, v ssa.Value, field string) bool {
	phi, ok := v.(*ssa.Phi)
	if !ok || len(phi.Edges) != 2 {
		return false
	}
	isField := func(x ssa.Value) bool {
		_, f, ok := getterField(c, x)
		return ok && f == field
	}
	isNeg := func(x ssa.Value) bool {
		if u, ok := x.(*ssa.UnOp); ok && u.Op == token.SUB {
			return isField(u.X)
		}
		if bo, ok := x.(*ssa.BinOp); ok && bo.Op == token.SUB {
			if k, ok := constInt(bo.X); ok && k == 0 {
				return isField(bo.Y)
			}
		}
		return false
	}
	return (isField(phi.Edges[0]) && isNeg(phi.Edges[1])) || (isField(phi.Edges[1]) && isNeg(phi.Edges[0]))
}

func r13_4(c *Ctx, r *Report) {
	const rule = "R13.4"
	r.rule(rule, "New Year's Eve. Chuxi is reported iff |month| == 12 (a leap twelfth month included) and day >= 29 and the lunar year differs from tomorrow's lunar year.")
	fn := c.Fn(r, rule, "calendar.(*Lunar).GetFestivals")
	if fn == nil {
		return
	}
	abs12, day29, yearNext := false, false, false
	for _, b := range fn.Blocks {
		iff, ok := b.Instrs[len(b.Instrs)-1].(*ssa.If)
		if !ok {
			continue
		}
		bo, ok := iff.Cond.(*ssa.BinOp)
		if !ok {
			continue
		}
		if k, ok := constInt(bo.Y); ok {
			if bo.Op == token.EQL && k == 12 {
				abs12 = isAbsOfField(c, fn, bo.X, "Lunar.month")
			}
			if _, f, ok := getterField(c, bo.X); ok && f == "Lunar.day" && bo.Op == token.GEQ && k == 29 {
				day29 = true
			}
		}
		if bo.Op == token.NEQ {
			if _, f, ok := getterField(c, bo.X); ok && f == "Lunar.year" {
				if call, ok := bo.Y.(*ssa.Call); ok && call.Common().StaticCallee() != nil && call.Common().StaticCallee().Name() == "GetYear" {
					if nx, ok := call.Common().Args[0].(*ssa.Call); ok && nx.Common().StaticCallee() != nil && fname(nx.Common().StaticCallee()) == "calendar.(*Lunar).Next" {
						if k, ok := constInt(nx.Common().Args[1]); ok && k == 1 {
							yearNext = true
						}
					}
				}
			}
		}
	}
	r.check(abs12 && day29 && yearNext, rule, "calendar.(*Lunar).GetFestivals reports Chuxi on the last day of the lunar year", c.fnPos(fn),
		fmt.Sprintf("|month| == 12: %v; day >= 29: %v; year != Next(1).GetYear(): %v", abs12, day29, yearNext))
}
