package main

// C13 — seasonal counters and movable festivals follow their term-and-stem rules.

import (
	"fmt"
	"go/token"
	"sort"

	"golang.org/x/tools/go/ssa"
)

func init() {
	register("C13",
		"that the counters land on the right civil days for every year (the term days themselves and the civil-day arithmetic between them are numeric: C03, C04).",
		r13_1, r13_2, r13_4, r13_5)
}

var c13Accessors = map[string]bool{"GetShuJiu": true, "GetFu": true, "GetHou": true, "GetWuHou": true, "GetFestivals": true, "GetOtherFestivals": true}

func r13_1(c *Ctx, r *Report) {
	const rule = "R13.1"
	r.rule(rule, "Inputs of the seasonal counters. GetShuJiu reads the civil day and the two winter-solstice days; GetFu the civil day, the summer-solstice day with the plain day stem of that day, and the Liqiu day; Cold Food the Qingming day; the She days the Lichun/Liqiu days with the plain day stem of those days; the pentads the civil day and the whole-day previous term; New Year's Eve the lunar month, day and year — exactly as declared in spec/inputs.json (auxiliary Lunar objects of term days are tracked by pillar variant).")
	declaredInputsRule(c, r, rule, func(ai accessorInputs) bool { return ai.cls.typ == "Lunar" && c13Accessors[ai.fn.Name()] }, 6)
	// pentads use the whole-day previous term
	for _, name := range []string{"calendar.(*Lunar).GetHou", "calendar.(*Lunar).GetWuHou"} {
		fn := c.Fn(r, rule, name)
		if fn == nil {
			continue
		}
		okk := false
		for _, b := range fn.Blocks {
			for _, ins := range b.Instrs {
				if call, ok := ins.(*ssa.Call); ok && call.Common().StaticCallee() != nil && call.Common().StaticCallee().Name() == "GetPrevJieQiByWholeDay" {
					if v, ok := constBool(call.Common().Args[1]); ok && v {
						okk = true
					}
				}
			}
		}
		r.check(okk, rule, name+" counts from the whole-day previous term", c.fnPos(fn), "GetPrevJieQiByWholeDay(true)")
	}
}

func r13_2(c *Ctx, r *Report) {
	const rule = "R13.2"
	r.rule(rule, "Stem anchors and pentad tables. 6 and 4 are the positions of 庚 and 戊 in the stem cycle of LunarUtil.GAN (the anchors R13.5 evaluates against); the pentad tables have 3 and 72 = 3*24 entries (how they are indexed is R13.5).")
	gan := c.tabStrs(r, rule, "LunarUtil", "GAN")
	pos := func(s string) int64 {
		for i, g := range gan {
			if g == s {
				return int64(i - 1)
			}
		}
		return -99
	}
	r.check(pos("庚") == 6 && pos("戊") == 4, rule, "庚 and 戊 sit at stem positions 6 and 4 of LunarUtil.GAN", c.pos(c.tables.pos("LunarUtil", "GAN")), fmt.Sprintf("positions %d and %d", pos("庚"), pos("戊")))
	hou := c.tabStrs(r, rule, "LunarUtil", "HOU")
	wu := c.tabStrs(r, rule, "LunarUtil", "WU_HOU")
	jq := c.tabStrs(r, rule, "calendar", "JIE_QI")
	r.check(len(hou) == 3 && len(wu) == 3*len(jq) && len(jq) == 24, rule, "pentad tables: 3 names, 72 = 3*24 phenological names", c.pos(c.tables.pos("LunarUtil", "WU_HOU")), fmt.Sprintf("len(HOU)=%d len(WU_HOU)=%d len(JIE_QI)=%d", len(hou), len(wu), len(jq)))
	r.floor(rule, 2)
}

// callsOn lists calls of the named *Solar method in fn as "recv.method(arg)" using variable comments.
// isAbsOfField: v is |recv.field| computed as "m := f; if m < 0 { m = -m }".
func isAbsOfField(c *Ctx, fn *ssa.Function, v ssa.Value, field string) bool {
	phi, ok := v.(*ssa.Phi)
	if !ok || len(phi.Edges) != 2 {
		return false
	}
	isField := func(x ssa.Value) bool {
		_, f, ok := getterField(c, x)
		return ok && f == field
	}
	isNeg := func(x ssa.Value) bool {
		if u, ok := x.(*ssa.UnOp); ok && u.Op == token.SUB {
			return isField(u.X)
		}
		if bo, ok := x.(*ssa.BinOp); ok && bo.Op == token.SUB {
			if k, ok := constInt(bo.X); ok && k == 0 {
				return isField(bo.Y)
			}
		}
		return false
	}
	return (isField(phi.Edges[0]) && isNeg(phi.Edges[1])) || (isField(phi.Edges[1]) && isNeg(phi.Edges[0]))
}

func r13_4(c *Ctx, r *Report) {
	const rule = "R13.4"
	r.rule(rule, "The festivals of a lunar date, as a decision table over month (1..12 and the leap months -1..-12), day (1..30) and whether tomorrow's lunar year differs: GetFestivals lists the entry of LunarUtil.FESTIVAL for month-day (none for a leap month) and then 除夕 iff |month| == 12 (a leap twelfth month included) and day >= 29 and tomorrow (Next(1), an abstract date of its own: the first day of the first month of the next year, or the following day of the same year) lies in the next lunar year — however the code finds that out (evaluated from the code, helpers inline; the appended names are collected in order).")
	fn := c.Fn(r, rule, "calendar.(*Lunar).GetFestivals")
	if fn == nil || len(fn.Params) != 1 {
		return
	}
	fest := c.tabMap(r, rule, "LunarUtil", "FESTIVAL")
	problems := map[string]bool{}
	var bad []string
	n := 0
	for m := int64(-12); m <= 12; m++ {
		if m == 0 {
			continue
		}
		for d := int64(1); d <= 30; d++ {
			for _, turn := range []bool{false, true} {
				if len(bad) >= 4 || len(problems) > 0 {
					break
				}
				env := &dayEnv{problems: problems, fields: map[string]int64{"Lunar.month": m, "Lunar.day": d}}
				env.extra = func(fr *evalFrame, v ssa.Value, leaf leafX) (interface{}, bool) {
					if call, ok := v.(*ssa.Call); ok && call.Common().StaticCallee() != nil && recvIsNamed(call.Common().StaticCallee(), "Lunar") && call.Common().StaticCallee().Name() == "Next" && len(call.Common().Args) == 2 {
						if ofr, o := fr.origin(call.Common().Args[0]); ofr.parent == nil && o == ssa.Value(fn.Params[0]) {
							if k, ok := evalWith(fr, call.Common().Args[1], leaf); ok && k == interface{}(int64(1)) {
								return absPtr{"tomorrow", false}, true
							}
						}
						problems["a lunar date other than tomorrow's is consulted"] = true
						return nil, false
					}
					if rc, f, ok := getterField(c, v); ok && (f == "Lunar.year" || f == "Lunar.month" || f == "Lunar.day") {
						if _, isParam := rc.(*ssa.Parameter); !isParam || fr.parent != nil {
							if o, ok := evalWith(fr, rc, leaf); ok {
								if p, isP := o.(absPtr); isP && p.tag == "tomorrow" {
									// tomorrow as a date of its own: the first day of the next year, or the day after today
									// in the same year (the 30th is followed by the first of a leap twelfth month)
									ty, tm, td := int64(2024), m, d+1
									if d == 30 {
										tm, td = -12, 1
									}
									if turn {
										ty, tm, td = 2025, 1, 1
									}
									switch f {
									case "Lunar.year":
										return ty, true
									case "Lunar.month":
										return tm, true
									}
									return td, true
								}
							}
						}
						if f == "Lunar.year" {
							if ofr, o := fr.origin(rc); ofr.parent == nil && o == ssa.Value(fn.Params[0]) {
								return int64(2024), true
							}
						}
					}
					return nil, false
				}
				ev := &evaluator{leaf: dayLeaf(c, fn.Params[0], env), inline: inlineLibrary}
				var pushed []string
				ev.collectList(&pushed, func(o interface{}, ok bool) string {
					if !ok {
						return "?"
					}
					return fmt.Sprint(o)
				})
				_, outcome := ev.run(fn, nil, nil, nil, nil)
				n++
				var want []string
				if fest != nil {
					if e, ok := fest.M[fmt.Sprintf("%d-%d", m, d)]; ok {
						want = append(want, e.S)
					}
				}
				if (m == 12 || m == -12) && d >= 29 && turn {
					want = append(want, "除夕")
				}
				if outcome != "return" {
					bad = append(bad, fmt.Sprintf("month %d day %d: %s %s", m, d, outcome, ev.fail))
				} else if !equalStrs(pushed, want) {
					bad = append(bad, fmt.Sprintf("month %d day %d, tomorrow in %s lunar year: lists %v, stated %v", m, d, map[bool]string{false: "the same", true: "the next"}[turn], pushed, want))
				}
			}
		}
	}
	for p := range problems {
		bad = append(bad, p)
	}
	sort.Strings(bad)
	r.check(len(bad) == 0 && n > 0, rule, "calendar.(*Lunar).GetFestivals reports Chuxi on the last day of the lunar year", c.fnPos(fn), fmt.Sprintf("%d assignments; deviations: %v", n, headList(dedupe(bad), 3)))
}
