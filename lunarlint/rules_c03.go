package main

// C03 — solar terms: name tables, selector parity, nearest-term search, day-level lookups.

import (
	"fmt"
	"go/constant"
	"go/token"
	"go/types"
	"math"
	"math/big"
	"regexp"
	"sort"
	"strings"

	"golang.org/x/tools/go/ssa"
)

func init() {
	register("C03",
		"that a reported instant is a root of the solar longitude, the 14.6-15.8 day spacing, strict increase, and the agreement of adjacent years' tables (all numeric in the ephemeris; R03.10 follows the filling of the table on a synthetic one, R03.9 the form of the delta-T interpolation).",
		r03_1, r03_2, r03_3, r03_4, r03_5, r03_6, r03_7, r03_8, r08_8, r04_9, r08_6, r03_9, r03_10, r03_11)
}

// convertMap reads convertJieQi as a finite map alias -> name: the function is followed by the
// evaluator for every key of JIE_QI_IN_USE and for every name of JIE_QI (if-chain or switch alike);
// keys it maps to themselves are left out.
func convertMap(c *Ctx, r *Report, rule string) map[string]string {
	fn := c.Fn(r, rule, "calendar.convertJieQi")
	if fn == nil {
		return nil
	}
	out := map[string]string{}
	keys := append(append([]string{}, c.tabStrs(r, rule, "calendar", "JIE_QI_IN_USE")...), c.tabStrs(r, rule, "calendar", "JIE_QI")...)
	if len(keys) == 0 {
		return nil
	}
	for _, k := range keys {
		v, ok := convertTerm(c, fn, k)
		if !ok {
			return nil
		}
		if v != k {
			out[k] = v
		}
	}
	return out
}

func r03_1(c *Ctx, r *Report) {
	const rule = "R03.1"
	r.rule(rule, "Term-name tables agree. JIE_QI_IN_USE has 31 entries; convertJieQi (followed by the evaluator for every key: a finite map) sends the seven alias keys to names such that convert(JIE_QI_IN_USE[i]) == JIE_QI[(i+23) % 24] for all 31 i — the canonical order from the previous Daxue to the next Jingzhe; JieQi.SetName classifies even positions of JIE_QI as qi and odd ones as jie, consistent with the even/odd positions of JIE_QI_IN_USE.")
	inUse := c.tabStrs(r, rule, "calendar", "JIE_QI_IN_USE")
	jq := c.tabStrs(r, rule, "calendar", "JIE_QI")
	conv := convertMap(c, r, rule)
	if inUse == nil || jq == nil || conv == nil {
		r.bad(rule, "term tables readable", "-", "tables or the alias map could not be read (undecided = fail)")
		return
	}
	r.check(len(inUse) == 31 && len(jq) == 24, rule, "table lengths 31 and 24", c.pos(c.tables.pos("calendar", "JIE_QI_IN_USE")), fmt.Sprintf("len(JIE_QI_IN_USE)=%d len(JIE_QI)=%d", len(inUse), len(jq)))
	var bad []string
	for i, k := range inUse {
		name := k
		if v, ok := conv[k]; ok {
			name = v
		}
		if len(jq) == 24 && name != jq[(i+23)%24] {
			bad = append(bad, fmt.Sprintf("[%d] %s -> %s, expected %s", i, k, name, jq[(i+23)%24]))
		}
	}
	r.check(len(bad) == 0 && len(conv) == 7, rule, "convert(JIE_QI_IN_USE[i]) == JIE_QI[(i+23)%24]", c.pos(c.tables.pos("calendar", "JIE_QI_IN_USE")), fmt.Sprintf("alias map %v; deviations %v", conv, bad))
	dups, _ := distinctNonEmpty(inUse)
	r.check(len(dups) == 0, rule, "JIE_QI_IN_USE keys are distinct", c.pos(c.tables.pos("calendar", "JIE_QI_IN_USE")), fmt.Sprintf("duplicates %v (a duplicate key overwrites a term in the map)", dups))
	// SetName: followed for every name of JIE_QI and one outside it; the flags it stores
	if fn := c.Fn(r, rule, "calendar.(*JieQi).SetName"); fn != nil && len(fn.Params) == 2 {
		var sbad []string
		n := 0
		for i, name := range append(append([]string{}, jq...), "元旦") {
			leaf := func(fr *evalFrame, v ssa.Value) (interface{}, bool) {
				if p, ok := v.(*ssa.Parameter); ok && fr.parent == nil {
					switch p {
					case fn.Params[0]:
						return absPtr{"term object", false}, true
					case fn.Params[1]:
						return name, true
					}
				}
				return nil, false
			}
			ev := &evaluator{leaf: leaf, inline: inlineLibrary, counted: 64}
			flags := map[string]interface{}{"JieQi.jie": false, "JieQi.qi": false} // a new object starts with both unset
			ev.onStore = func(fr *evalFrame, st *ssa.Store, v interface{}, ok bool) {
				if fa, isF := st.Addr.(*ssa.FieldAddr); isF && structName(fa.X.Type()) == "JieQi" {
					if !ok {
						v = "?"
					}
					flags[fieldKeyOf(fa)] = v
				}
			}
			_, outcome := ev.run(fn, nil, nil, nil, nil)
			n++
			wantQi, wantJie := i < len(jq) && i%2 == 0, i < len(jq) && i%2 == 1
			switch {
			case outcome != "return":
				sbad = append(sbad, fmt.Sprintf("name %s: not followed (%s %s)", name, outcome, ev.fail))
			case flags["JieQi.name"] != interface{}(name) || flags["JieQi.qi"] != interface{}(wantQi) || flags["JieQi.jie"] != interface{}(wantJie):
				sbad = append(sbad, fmt.Sprintf("name %s (position %d): name %v, qi %v, jie %v; stated qi %v, jie %v", name, i, flags["JieQi.name"], flags["JieQi.qi"], flags["JieQi.jie"], wantQi, wantJie))
			}
		}
		r.check(len(sbad) == 0 && n == len(jq)+1, rule, "calendar.(*JieQi).SetName: even positions of JIE_QI are qi, odd ones jie", c.fnPos(fn), fmt.Sprintf("%d names (JIE_QI starts with 冬至, a qi; JIE_QI_IN_USE starts with DA_XUE, a jie, so its even positions are jie); deviations: %v", n, headList(sbad, 3)))
	}
}

func parityOf(v ssa.Value, depth int) int { return parityIn(v, nil, depth) }

// counterIn finds the loop counter (a phi with an edge phi+const) inside an index expression.
func counterIn(v ssa.Value, depth int) *ssa.Phi {
	if v == nil || depth > 6 {
		return nil
	}
	switch x := v.(type) {
	case *ssa.Phi:
		for _, e := range x.Edges {
			if bo, ok := e.(*ssa.BinOp); ok && bo.Op == token.ADD && bo.X == ssa.Value(x) {
				return x
			}
		}
	case *ssa.BinOp:
		if p := counterIn(x.X, depth+1); p != nil {
			return p
		}
		return counterIn(x.Y, depth+1)
	}
	return nil
}

// parCtx: an unexported helper reached from top through a chain of calls, with the parities of its
// parameters as the arguments along that chain determine them.
type parCtx struct {
	fn   *ssa.Function
	env  map[*ssa.Parameter]int
	call *ssa.Call // the call in top the chain starts with
}

func parityContexts(top *ssa.Function) []parCtx {
	var out []parCtx
	var walk func(f *ssa.Function, env map[*ssa.Parameter]int, first *ssa.Call, depth int)
	walk = func(f *ssa.Function, env map[*ssa.Parameter]int, first *ssa.Call, depth int) {
		for _, b := range f.Blocks {
			for _, ins := range b.Instrs {
				call, ok := ins.(*ssa.Call)
				if !ok {
					continue
				}
				h := call.Common().StaticCallee()
				if h == nil || h == top || h.Blocks == nil || h.Pkg != top.Pkg || h.Object() == nil || h.Object().Exported() {
					continue
				}
				ne := map[*ssa.Parameter]int{}
				for i, a := range call.Common().Args {
					if i < len(h.Params) {
						ne[h.Params[i]] = parityIn(a, env, 0)
					}
				}
				fc := first
				if fc == nil {
					fc = call
				}
				out = append(out, parCtx{h, ne, fc})
				if depth < 3 {
					walk(h, ne, fc, depth+1)
				}
			}
		}
	}
	walk(top, nil, nil, 0)
	return out
}

// parityIn is parityOf with known parities for some parameters (those of a helper at one call site).
func parityIn(v ssa.Value, env map[*ssa.Parameter]int, depth int) int {
	if depth > 6 {
		return -1
	}
	if k, ok := constInt(v); ok {
		return int(((k % 2) + 2) % 2)
	}
	switch x := v.(type) {
	case *ssa.Parameter:
		if p, ok := env[x]; ok {
			return p
		}
		return -1
	case *ssa.Call:
		// the length of a literal package-level table (never written after init: C09 R09.1)
		if b, isB := x.Common().Value.(*ssa.Builtin); isB && b.Name() == "len" && len(x.Common().Args) == 1 {
			if ld, isLd := x.Common().Args[0].(*ssa.UnOp); isLd && ld.Op == token.MUL {
				if g, isG := ld.X.(*ssa.Global); isG {
					if tv := globalTVal(g); tv != nil && tv.Kind == "list" {
						return len(tv.L) % 2
					}
				}
			}
		}
		return -1
	case *ssa.BinOp:
		switch x.Op {
		case token.MUL:
			if parityIn(x.X, env, depth+1) == 0 || parityIn(x.Y, env, depth+1) == 0 {
				return 0
			}
		case token.ADD, token.SUB:
			a, b := parityIn(x.X, env, depth+1), parityIn(x.Y, env, depth+1)
			if a >= 0 && b >= 0 {
				return (a + b) % 2
			}
		}
	case *ssa.Phi:
		// loop counter: init parity with an even step
		p := -1
		for _, e := range x.Edges {
			if bo, ok := e.(*ssa.BinOp); ok && (bo.Op == token.ADD || bo.Op == token.SUB) && bo.X == ssa.Value(x) {
				if parityIn(bo.Y, env, depth+1) != 0 {
					return -1
				}
				continue
			}
			q := parityIn(e, env, depth+1)
			if q < 0 || (p >= 0 && p != q) {
				return -1
			}
			p = q
		}
		return p
	}
	return -1
}

func r03_2(c *Ctx, r *Report) {
	const rule = "R03.2"
	r.rule(rule, "Jie/Qi selectors use the right parity. Every index into JIE_QI_IN_USE that selects the Jie subset (computeMonth twice, GetJie, Get{Next,Prev}JieByWholeDay) is even; every index that selects the Qi subset (GetQi, Get{Next,Prev}QiByWholeDay) is odd; by parity arithmetic on the index expression (constants, i*2, i*2+1, counters with even stride).")
	want := map[string]int{
		"calendar.computeMonth": 0, "calendar.(*Lunar).GetJie": 0, "calendar.(*Lunar).GetNextJieByWholeDay": 0, "calendar.(*Lunar).GetPrevJieByWholeDay": 0,
		"calendar.(*Lunar).GetQi": 1, "calendar.(*Lunar).GetNextQiByWholeDay": 1, "calendar.(*Lunar).GetPrevQiByWholeDay": 1,
	}
	seen := map[string]int{}
	n := 0
	for _, s := range c.ranges().tableSites() {
		if s.table != "calendar.JIE_QI_IN_USE" || s.kind != "index" {
			continue
		}
		w, ok := want[fname(s.fn)]
		if !ok && s.fn.Parent() != nil {
			// a selector loop inside a function literal of a selector function: judged as part of that function,
			// once per call of the literal
			outer := s.fn
			for outer.Parent() != nil {
				outer = outer.Parent()
			}
			if ow, isSel := want[fname(outer)]; isSel {
				calls := 0
				for _, b := range outer.Blocks {
					for _, ins := range b.Instrs {
						if call, isCall := ins.(*ssa.Call); isCall && call.Common().StaticCallee() == s.fn {
							calls++
						}
					}
				}
				if calls == 0 {
					calls = 1
				}
				n += calls
				p := parityOf(s.idx, 0)
				construct := uniq(seen, fmt.Sprintf("%s (function literal, called %d times): JIE_QI_IN_USE[%s]", fname(outer), calls, describeIndex(s.idx)))
				r.check(p == ow, rule, construct, c.pos(s.ins.Pos()), fmt.Sprintf("index parity %s, required %s (even positions are Jie, odd positions are Qi)", map[int]string{0: "even", 1: "odd", -1: "unknown"}[p], map[int]string{0: "even", 1: "odd"}[ow]))
				continue
			}
		}
		if !ok {
			// a selector loop moved into an unexported helper: judged once per call from a selector function,
			// with the parities of the arguments passed there
			if s.fn.Object() != nil && !s.fn.Object().Exported() {
				for _, caller := range c.Funcs {
					cw, isSel := want[fname(caller)]
					if !isSel {
						continue
					}
					for _, ctx := range parityContexts(caller) {
						if ctx.fn != s.fn || !dependsOnParam(s.idx, 0) {
							continue // (an internal scan of the helper over all keys is not a selection made for this caller)
						}
						n++
						p := parityIn(s.idx, ctx.env, 0)
						construct := uniq(seen, fmt.Sprintf("%s via %s: JIE_QI_IN_USE[%s]", fname(caller), fname(s.fn), describeIndex(s.idx)))
						r.check(p == cw, rule, construct, c.pos(ctx.call.Pos()), fmt.Sprintf("index parity %s, required %s (even positions are Jie, odd positions are Qi)", map[int]string{0: "even", 1: "odd", -1: "unknown"}[p], map[int]string{0: "even", 1: "odd"}[cw]))
					}
				}
			}
			continue
		}
		n++
		p := parityOf(s.idx, 0)
		construct := uniq(seen, fmt.Sprintf("%s: JIE_QI_IN_USE[%s]", fname(s.fn), describeIndex(s.idx)))
		r.check(p == w, rule, construct, c.pos(s.ins.Pos()), fmt.Sprintf("index parity %s, required %s (even positions are Jie, odd positions are Qi)", map[int]string{0: "even", 1: "odd", -1: "unknown"}[p], map[int]string{0: "even", 1: "odd"}[w]))
	}
	if n < 8 {
		r.bad(rule, "instance floor R03.2", "-", fmt.Sprintf("only %d selector sites found (floor 8)", n))
	}
}

// ---------- R03.3 nearest-term search ----------

// absMoment is a rendered civil moment known only by whose it is and how it was rendered.
type absMoment struct{ who, kind string }

func r03_3(c *Ctx, r *Report) {
	const rule = "R03.3"
	r.rule(rule, "Nearest-term search is 'latest <= / earliest >'. The loop body of getNearJieQi is read as a decision table over forward in {T,F}, wholeDay in {T,F}, the order of (term, now) in {<,=,>}, best == nil, the order of (term, best) in {<,=,>}, and the filter: the evaluator follows the branch conditions of the body (helpers inline, rendered moments as abstract values that can only be compared) for every abstract case; the best-so-far and its name are replaced, by the current term and its converted name, exactly when the term passes the filter and (forward and term > now and (nil or term < best)) or (not forward and term <= now and (nil or term > best)).")
	fn := c.Fn(r, rule, "calendar.(*Lunar).getNearJieQi")
	if fn == nil {
		return
	}
	construct := "calendar.(*Lunar).getNearJieQi candidate selection"
	if len(fn.Params) != 4 {
		r.bad(rule, construct, c.fnPos(fn), "unexpected signature (undecided = fail)")
		return
	}
	loops, _ := findLoops(fn)
	var li *loopInfo
	var nearPhi, namePhi *ssa.Phi
	cachePhis := map[*ssa.Phi]bool{}
	for _, l := range loops {
		var ptrs, strs []*ssa.Phi
		for _, ins := range l.header.Instrs {
			if phi, ok := ins.(*ssa.Phi); ok {
				if structName(phi.Type()) == "Solar" {
					ptrs = append(ptrs, phi)
				} else if isStringType(phi.Type()) {
					strs = append(strs, phi)
				}
			}
		}
		if len(ptrs) == 1 {
			li, nearPhi = l, ptrs[0]
			// the name kept with the best-so-far: the loop-carried string that is updated from convertJieQi(...);
			// another loop-carried string is a cached rendering of the best-so-far
			for _, sp := range strs {
				var reaches func(v ssa.Value, depth int) bool
				reaches = func(v ssa.Value, depth int) bool {
					if depth > 6 {
						return false
					}
					if call, ok := v.(*ssa.Call); ok && call.Common().StaticCallee() != nil && fname(call.Common().StaticCallee()) == "calendar.convertJieQi" {
						return true
					}
					if phi, ok := v.(*ssa.Phi); ok && phi != sp {
						for _, e := range phi.Edges {
							if reaches(e, depth+1) {
								return true
							}
						}
					}
					return false
				}
				isName := false
				for _, e := range sp.Edges {
					if reaches(e, 0) {
						isName = true
					}
				}
				if isName {
					namePhi = sp
				} else {
					cachePhis[sp] = true
				}
			}
		}
	}
	if li == nil || namePhi == nil {
		r.bad(rule, construct, c.fnPos(fn), "the loop that carries the best-so-far term and its name was not found (undecided = fail)")
		return
	}
	var entry *ssa.BasicBlock
	for _, s := range li.header.Succs {
		if li.body[s] {
			entry = s
		}
	}
	if entry == nil {
		r.bad(rule, construct, c.fnPos(fn), "loop body not found (undecided = fail)")
		return
	}
	type env struct {
		forward, nilBest, filter, hit, whole bool
		tn, tb                               int // term vs now, term vs best
	}
	problems := map[string]bool{}
	mkLeaf := func(e env) leafX {
		var leaf leafX
		moment := func(fr *evalFrame, v ssa.Value) (absMoment, bool) {
			o, ok := evalWith(fr, v, leaf)
			m, isM := o.(absMoment)
			return m, ok && isM
		}
		order := func(x, y absMoment) (int, bool) {
			if x.kind != y.kind {
				problems["a "+x.kind+" rendering is compared with a "+y.kind+" rendering"] = true
				return 0, false
			}
			switch {
			case x.who == "term" && y.who == "now":
				return e.tn, true
			case x.who == "now" && y.who == "term":
				return -e.tn, true
			case x.who == "term" && y.who == "best":
				return e.tb, true
			case x.who == "best" && y.who == "term":
				return -e.tb, true
			}
			problems["a comparison of "+x.who+" with "+y.who] = true
			return 0, false
		}
		leaf = func(fr *evalFrame, v ssa.Value) (interface{}, bool) {
			switch x := v.(type) {
			case *ssa.Parameter:
				if fr.parent == nil {
					switch x {
					case fn.Params[1]:
						return e.forward, true
					case fn.Params[3]:
						return e.whole, true
					}
				}
			case *ssa.Phi:
				if x == nearPhi {
					return absPtr{"best", e.nilBest}, true
				}
				if cachePhis[x] {
					if e.nilBest {
						problems["the cached rendering of the best-so-far is used while there is none"] = true
						return nil, false
					}
					if e.whole {
						return absMoment{"best", "Ymd"}, true
					}
					return absMoment{"best", "YmdHms"}, true
				}
			case *ssa.Lookup:
				if mt, ok := x.X.Type().Underlying().(*types.Map); ok {
					if structName(mt.Elem()) == "Solar" {
						return absPtr{"term", false}, true
					}
					if b, isB := mt.Elem().Underlying().(*types.Basic); isB && b.Kind() == types.Bool {
						return e.hit, true
					}
				}
			case *ssa.UnOp:
				if rc, f, ok := getterField(c, x); ok && f == "Lunar.solar" {
					if ofr, o := fr.origin(rc); o == ssa.Value(fn.Params[0]) && ofr.parent == nil {
						return absPtr{"now", false}, true
					}
				}
			case *ssa.BinOp:
				if isStringType(x.X.Type()) && isStringType(x.Y.Type()) {
					mx, ok1 := moment(fr, x.X)
					my, ok2 := moment(fr, x.Y)
					if ok1 && ok2 {
						if rel, ok := order(mx, my); ok {
							return cmpHolds(rel, x.Op), true
						}
					}
					return nil, false
				}
			case *ssa.Call:
				if b, ok := x.Common().Value.(*ssa.Builtin); ok && b.Name() == "len" {
					if _, isMap := x.Common().Args[0].Type().Underlying().(*types.Map); isMap {
						if e.filter {
							return int64(1), true
						}
						return int64(0), true
					}
				}
				callee := x.Common().StaticCallee()
				if callee == nil {
					return nil, false
				}
				switch fname(callee) {
				case "calendar.(*Solar).ToYmd", "calendar.(*Solar).ToYmdHms":
					o, ok := evalWith(fr, x.Common().Args[0], leaf)
					ptr, isP := o.(absPtr)
					if !ok || !isP {
						return nil, false
					}
					if ptr.isNil {
						problems["the best-so-far is rendered while it is nil"] = true
						return nil, false
					}
					return absMoment{ptr.tag, strings.TrimPrefix(callee.Name(), "To")}, true
				case "calendar.(*Solar).GetSolar", "calendar.(*Lunar).GetSolar":
					if _, f, ok := getterField(c, x); ok && f == "Lunar.solar" {
						if ofr, o := fr.origin(x.Common().Args[0]); o == ssa.Value(fn.Params[0]) && ofr.parent == nil {
							return absPtr{"now", false}, true
						}
					}
				}
				if callee.String() == "strings.Compare" {
					mx, ok1 := moment(fr, x.Common().Args[0])
					my, ok2 := moment(fr, x.Common().Args[1])
					if ok1 && ok2 {
						if rel, ok := order(mx, my); ok {
							return int64(rel), true
						}
					}
					return nil, false
				}
			}
			return nil, false
		}
		return leaf
	}
	cases := 0
	rel := map[int]string{-1: "<", 0: "=", 1: ">"}
	for _, fwd := range []bool{false, true} {
		for _, tn := range []int{-1, 0, 1} {
			for _, nb := range []bool{false, true} {
				for _, tb := range []int{-1, 0, 1} {
					if nb && tb != 0 {
						continue // best == nil: the second comparison is not evaluated
					}
					for _, flt := range []bool{false, true} {
						for _, hit := range []bool{false, true} {
							if !flt && hit {
								continue
							}
							for _, whole := range []bool{false, true} {
								e := env{forward: fwd, nilBest: nb, filter: flt, hit: hit, whole: whole, tn: tn, tb: tb}
								ev := &evaluator{leaf: mkLeaf(e), inline: inlineLibrary}
								fr := &evalFrame{fn: fn, phiFrom: map[*ssa.BasicBlock]*ssa.BasicBlock{entry: li.header}}
								_, outcome := ev.runFrame(fr, entry, func(b *ssa.BasicBlock) bool { return b == li.header })
								if outcome != fmt.Sprintf("stop:%d", li.header.Index) {
									problems["the loop body could not be followed: "+outcome+" "+ev.fail] = true
									continue
								}
								cases++
								nv := fr.resolve(nearPhi)
								updated := nv != ssa.Value(nearPhi)
								if updated {
									if _, isLookup := nv.(*ssa.Lookup); !isLookup {
										problems["the best-so-far is replaced by something other than the current term"] = true
									}
								}
								nm := fr.resolve(namePhi)
								if (nm != ssa.Value(namePhi)) != updated {
									problems["the name is replaced without the term (or the term without the name)"] = true
								} else if updated {
									if call, ok := nm.(*ssa.Call); !ok || call.Common().StaticCallee() == nil || fname(call.Common().StaticCallee()) != "calendar.convertJieQi" {
										problems["the name kept with the best-so-far is not the converted name of the current term"] = true
									}
								}
								passes := !flt || hit
								want := passes && ((fwd && tn > 0 && (nb || tb < 0)) || (!fwd && tn <= 0 && (nb || tb > 0)))
								if updated != want {
									problems[fmt.Sprintf("forward=%v term%snow best-nil=%v term%sbest: replaced=%v, required %v", fwd, rel[tn], nb, rel[tb], updated, want)] = true
								}
							}
						}
					}
				}
			}
		}
	}
	var ps []string
	for k := range problems {
		ps = append(ps, k)
	}
	sort.Strings(ps)
	r.check(len(ps) == 0 && cases >= 48, rule, construct, c.fnPos(fn), fmt.Sprintf("%d abstract cases followed through the loop body; %s", cases, strings.Join(headList(ps, 4), "; ")))
}

func dedupe(xs []string) []string {
	var out []string
	for i, x := range xs {
		if i == 0 || x != xs[i-1] {
			out = append(out, x)
		}
	}
	return out
}

// nearPhiEdgeFrom: the value the header phi receives when the path re-enters the header.
func nearPhiEdgeFrom(phi *ssa.Phi, p *cfgPath) ssa.Value {
	if len(p.blocks) < 2 {
		return phi
	}
	pred := p.blocks[len(p.blocks)-2]
	for i, pb := range phi.Block().Preds {
		if pb == pred {
			return phi.Edges[i]
		}
	}
	return phi
}

func r03_4(c *Ctx, r *Report) {
	likeWithLikeRule(c, r, "R03.4", func(fn *ssa.Function) bool { return fname(fn) == "calendar.(*Lunar).getNearJieQi" }, 1)
}

func r03_5(c *Ctx, r *Report) {
	const rule = "R03.5"
	r.rule(rule, "Day-level lookups name the term whose civil date is the object's own. GetJieQi, GetJie and GetQi are followed by the evaluator (their scans as tables over the iteration number; the term table and the list of term keys supplied by the checker — list model —, dates as (year, month, day) records) for each of the 31 keys in turn being the one whose date is the object's own civil date, every key before it carrying the same month and day in the year before and every key after it the next day — and with no key on the date: the result is the canonical name of that key (JIE_QI[(i+23) % 24], R03.1) when the key is of the kind the function asks for (GetJie: even positions of JIE_QI_IN_USE, GetQi: odd ones, GetJieQi: all), and the empty name otherwise. A comparison that drops the year names the neighbouring year's copy of a term.")
	keys := c.tabStrs(r, rule, "calendar", "JIE_QI_IN_USE")
	names := c.tabStrs(r, rule, "calendar", "JIE_QI")
	if len(keys) != 31 || len(names) != 24 {
		return
	}
	own := absDate{2020, 2, 4}
	for _, u := range []struct {
		name string
		kind int // 0: jie (even positions), 1: qi (odd), 2: both
	}{{"calendar.(*Lunar).GetJieQi", 2}, {"calendar.(*Lunar).GetJie", 0}, {"calendar.(*Lunar).GetQi", 1}} {
		fn := c.Fn(r, rule, u.name)
		if fn == nil || len(fn.Params) != 1 {
			continue
		}
		var bad []string
		n := 0
		for hit := -1; hit < len(keys) && len(bad) < 3; hit++ {
			dateOf := func(key string) (absDate, bool) {
				for j, k := range keys {
					if k != key {
						continue
					}
					switch {
					case j == hit:
						return own, true
					case j < hit:
						return absDate{own.y - 1, own.m, own.d}, true
					}
					return absDate{own.y, own.m, own.d + 1}, true
				}
				return absDate{}, false
			}
			var lm *listModel
			var leaf leafX
			leaf = func(fr *evalFrame, v ssa.Value) (interface{}, bool) {
				if p, ok := v.(*ssa.Parameter); ok && fr.parent == nil && p == fn.Params[0] {
					return absPtr{"lunar", false}, true
				}
				if x, ok := lm.leaf(c, fr, v); ok {
					return x, true
				}
				if lk, ok := v.(*ssa.Lookup); ok && !lk.CommaOk && structName(lk.Type()) == "Solar" {
					if kv, ok := evalWith(fr, lk.Index, leaf); ok {
						if key, isS := kv.(string); isS {
							if d, ok := dateOf(key); ok {
								return d, true
							}
						}
					}
					return nil, false
				}
				if rc, f, ok := getterField(c, v); ok {
					o, okO := evalWith(fr, rc, leaf)
					if !okO {
						return nil, false
					}
					if p, isP := o.(absPtr); isP && p.tag == "lunar" {
						switch f {
						case "Lunar.solar":
							return own, true
						case "Lunar.jieQiList":
							return absPtr{"list@keys", false}, true
						case "Lunar.jieQi":
							return absPtr{"term table", false}, true
						}
					}
					if d, isD := o.(absDate); isD {
						switch f {
						case "Solar.year":
							return d.y, true
						case "Solar.month":
							return d.m, true
						case "Solar.day":
							return d.d, true
						}
					}
				}
				return nil, false
			}
			ev := &evaluator{leaf: leaf, inline: inlineLibrary, counted: 64}
			lm = newListModel(ev)
			var all []interface{}
			for _, k := range keys {
				all = append(all, k)
			}
			lm.fill("list@keys", all...)
			ev.visit = lm.visit
			res, outcome := ev.run(fn, nil, nil, nil, nil)
			n++
			want := ""
			if hit >= 0 && (u.kind == 2 || hit%2 == u.kind) {
				want = names[(hit+23)%24]
			}
			got := outcome + " " + ev.fail
			if outcome == "return" && len(res) == 1 {
				got = fmt.Sprint(res[0])
			}
			if got != want {
				what := "no key on the date"
				if hit >= 0 {
					what = fmt.Sprintf("key %d (%s) on the date", hit, keys[hit])
				}
				bad = append(bad, fmt.Sprintf("%s: %q, stated %q", what, got, want))
			}
		}
		r.check(len(bad) == 0 && n == len(keys)+1, rule, u.name+" names the term of the object's own civil date", c.fnPos(fn), fmt.Sprintf("%d tables; deviations: %v", n, headList(bad, 3)))
	}
	r.floor(rule, 3)
}

func r03_6(c *Ctx, r *Report) {
	const rule = "R03.6"
	r.rule(rule, "Time-zone constant. ONE_THIRD, the only shift added to the ephemeris results in qiHigh/qiLow/shuoHigh/shuoLow/QiAccurate, is exactly 8/24 day (float64(1)/3: the UTC+8 instant), and the value each of those functions returns has it added exactly once on every path — counted in the expression that computes the value, through merges and through helpers the five hand their work to (what goes into a call as an argument is not counted).")
	sp := c.SSABy["ShouXingUtil"]
	if sp == nil {
		r.bad(rule, "package ShouXingUtil", "-", "not loaded")
		return
	}
	k, ok := sp.Members["ONE_THIRD"].(*ssa.NamedConst)
	third := 1.0 / 3.0
	if !ok || k.Value.Value == nil {
		r.bad(rule, "ShouXingUtil.ONE_THIRD", "-", "constant not found (undecided = fail)")
		return
	}
	f, _ := constant.Float64Val(k.Value.Value)
	r.check(f == third, rule, "ShouXingUtil.ONE_THIRD == 8h/24h", c.pos(k.Pos()), fmt.Sprintf("value %v", f))
	// how many times the shift has been added into a value: read off the expression that computes it, through
	// merges (every alternative must agree) and through library helpers (every return must agree); what goes into
	// a call as an argument is not counted (the result of dtT(t) is a correction, not a shifted instant)
	shiftMemo := map[*ssa.Function]bool{}
	var mayShift func(fn *ssa.Function, depth int) bool
	mayShift = func(fn *ssa.Function, depth int) bool {
		if v, ok := shiftMemo[fn]; ok {
			return v
		}
		shiftMemo[fn] = false // cycle guard
		res := floatConstsOf(fn)[third]
		if !res && depth < 6 {
			for _, b := range fn.Blocks {
				for _, ins := range b.Instrs {
					if call, ok := ins.(*ssa.Call); ok {
						if g := call.Common().StaticCallee(); g != nil && g.Pkg != nil && g.Pkg.Pkg.Name() == "ShouXingUtil" && g.Blocks != nil && mayShift(g, depth+1) {
							res = true
						}
					}
				}
			}
		}
		shiftMemo[fn] = res
		return res
	}
	var shifts func(v ssa.Value, depth int) (int, bool)
	shifts = func(v ssa.Value, depth int) (int, bool) {
		if depth > 30 {
			return 0, false
		}
		switch x := v.(type) {
		case *ssa.BinOp:
			if !isFloatType(x.Type()) {
				return 0, true
			}
			isThird := func(o ssa.Value) bool {
				kc, ok := o.(*ssa.Const)
				if !ok || kc.Value == nil {
					return false
				}
				f, _ := constant.Float64Val(kc.Value)
				return f == third
			}
			switch x.Op {
			case token.ADD:
				if isThird(x.Y) {
					n, ok := shifts(x.X, depth+1)
					return n + 1, ok
				}
				if isThird(x.X) {
					n, ok := shifts(x.Y, depth+1)
					return n + 1, ok
				}
				a, ok1 := shifts(x.X, depth+1)
				bb, ok2 := shifts(x.Y, depth+1)
				return a + bb, ok1 && ok2
			case token.SUB:
				a, ok1 := shifts(x.X, depth+1)
				bb, ok2 := shifts(x.Y, depth+1)
				return a - bb, ok1 && ok2
			case token.MUL, token.QUO:
				// a scaled value carries a shift only if one of the factors does (then it is no longer the plain shift)
				a, ok1 := shifts(x.X, depth+1)
				bb, ok2 := shifts(x.Y, depth+1)
				if a != 0 || bb != 0 {
					return 0, false
				}
				return 0, ok1 && ok2
			}
			return 0, true
		case *ssa.Phi:
			n, set := 0, false
			for _, e := range x.Edges {
				if e == ssa.Value(x) {
					continue
				}
				k, ok := shifts(e, depth+1)
				if !ok || (set && k != n) {
					return 0, false
				}
				n, set = k, true
			}
			return n, set
		case *ssa.Call:
			callee := x.Common().StaticCallee()
			if callee == nil || !inlineLibrary(callee) || callee.Pkg == nil || callee.Pkg.Pkg.Name() != "ShouXingUtil" || !mayShift(callee, 0) {
				return 0, true // nothing below this call adds the constant
			}
			n, set := 0, false
			for _, ret := range returnsIn(callee, nil) {
				if len(ret.Results) != 1 {
					return 0, false
				}
				k, ok := shifts(ret.Results[0], depth+1)
				if !ok || (set && k != n) {
					return 0, false
				}
				n, set = k, true
			}
			return n, set
		case *ssa.Convert:
			return shifts(x.X, depth+1)
		}
		return 0, true
	}
	results := []string{"ShouXingUtil.QiAccurate", "ShouXingUtil.qiHigh", "ShouXingUtil.qiLow", "ShouXingUtil.shuoHigh", "ShouXingUtil.shuoLow"}
	reached := map[*ssa.Function]bool{}
	for _, name := range results {
		fn := c.Fn(r, rule, name)
		if fn == nil {
			continue
		}
		for _, f := range helperTree(c, fn, nil) {
			reached[f.fn] = true
		}
		var got []string
		okk := true
		for _, ret := range returnsIn(fn, nil) {
			if len(ret.Results) != 1 {
				continue
			}
			n, ok := shifts(ret.Results[0], 0)
			got = append(got, fmt.Sprintf("%d (decided: %v)", n, ok))
			if !ok || n != 1 {
				okk = false
			}
		}
		r.check(okk && len(got) > 0, rule, name+" shifts its result to UTC+8 once per path", c.fnPos(fn), fmt.Sprintf("additions of ONE_THIRD in the returned value, per return: %v", got))
	}
	// nothing else shifts: a function that adds the constant is one of the five or a helper only they reach
	callersOutside := func(fn *ssa.Function) bool {
		for _, site := range c.callSitesOf(fn) {
			if !reached[site.Parent()] {
				return true
			}
		}
		return false
	}
	for _, fn := range c.Funcs {
		if fn.Pkg == nil || fn.Pkg.Pkg.Name() != "ShouXingUtil" || !floatConstsOf(fn)[third] {
			continue
		}
		isResult := false
		for _, n := range results {
			if fname(fn) == n {
				isResult = true
			}
		}
		if isResult || (reached[fn] && !callersOutside(fn)) {
			continue
		}
		r.bad(rule, fname(fn)+" also adds ONE_THIRD", c.fnPos(fn), "a time-zone shift outside the five result functions and the helpers only they call")
	}
}

func r03_7(c *Ctx, r *Report) {
	const rule = "R03.7"
	r.rule(rule, "The term table is anchored on the civil year (shared with C01 R01.3) and built from all 31 keys: computeJieQi, followed by the evaluator (its loop as a table over the iteration number, whichever way it runs), stores under JIE_QI_IN_USE[i] the moment built from the year table's i-th Julian day for every i, and the name list it builds holds the 31 names in the order of JIE_QI_IN_USE (the canonical order GetJieQiList hands out).")
	fn := c.Fn(r, rule, "calendar.computeJieQi")
	if fn == nil {
		return
	}
	// followed by the evaluator (the loop as a table over the iteration number): what is stored under which
	// name, and what the name list holds in which order
	inUse := c.tabStrs(r, rule, "calendar", "JIE_QI_IN_USE")
	if len(inUse) > 0 {
		var leaf leafX
		leaf = func(fr *evalFrame, v ssa.Value) (interface{}, bool) {
			if ld, ok := v.(*ssa.UnOp); ok && ld.Op == token.MUL {
				if ia, ok := ld.X.(*ssa.IndexAddr); ok {
					if x, ok := evalWith(fr, ia.X, leaf); ok {
						if p, isP := x.(absPtr); isP && p.tag == "julian days" {
							if iv, ok := evalWith(fr, ia.Index, leaf); ok {
								if i, isI := iv.(int64); isI {
									return float64(1000 + i), true
								}
							}
							return nil, false
						}
					}
				}
			}
			call, ok := v.(*ssa.Call)
			if !ok || call.Common().StaticCallee() == nil {
				return nil, false
			}
			switch fname(call.Common().StaticCallee()) {
			case "calendar.(*LunarYear).GetJieQiJulianDays":
				return absPtr{"julian days", false}, true
			case "calendar.NewSolarFromJulianDay":
				if x, ok := evalWith(fr, call.Common().Args[0], leaf); ok {
					if f, isF := x.(float64); isF {
						return absPtr{fmt.Sprintf("moment of Julian day #%d", int64(f)-1000), false}, true
					}
				}
				return nil, false
			}
			if call.Common().StaticCallee().String() == "container/list.New" {
				return absPtr{"list", false}, true
			}
			return nil, false
		}
		ev := &evaluator{leaf: leaf, inline: inlineLibrary}
		var pushed []string
		ev.collectList(&pushed, func(o interface{}, ok bool) string {
			if s, isS := o.(string); ok && isS {
				return s
			}
			return "?"
		})
		stored := map[string]string{}
		var problems []string
		ev.onMapUpdate = func(fr *evalFrame, mu *ssa.MapUpdate, k, v interface{}, ok bool) {
			ks, isS := k.(string)
			p, isP := v.(absPtr)
			if !ok || !isS || !isP {
				problems = append(problems, "a map store could not be read")
				return
			}
			stored[ks] = p.tag
		}
		_, outcome := ev.run(fn, nil, nil, nil, nil)
		if outcome != "return" {
			problems = append(problems, "the function could not be followed: "+outcome+" "+ev.fail)
		}
		for i, name := range inUse {
			if want := fmt.Sprintf("moment of Julian day #%d", i); stored[name] != want && len(problems) < 4 {
				problems = append(problems, fmt.Sprintf("under %s: %q, expected the %s", name, stored[name], want))
			}
		}
		if len(stored) != len(inUse) && len(problems) < 4 {
			problems = append(problems, fmt.Sprintf("%d names stored, %d in JIE_QI_IN_USE", len(stored), len(inUse)))
		}
		r.check(len(problems) == 0, rule, "calendar.computeJieQi pairs key i with Julian day i", c.fnPos(fn), fmt.Sprintf("%d stores followed; deviations: %v", len(stored), headList(problems, 3)))
		okList := equalStrs(pushed, inUse)
		r.check(okList && outcome == "return", rule, "calendar.computeJieQi lists the term names in the canonical order of JIE_QI_IN_USE", c.fnPos(fn), fmt.Sprintf("%d names listed, first %v, last %v", len(pushed), headList(pushed, 2), tailList(pushed, 2)))
	}
	anchoredOnCivilYear(c, r, rule)
}

// convertTerm folds convertJieQi for one constant key (the if-chain is followed by the evaluator).
func convertTerm(c *Ctx, fn *ssa.Function, key string) (string, bool) {
	ev := &evaluator{inline: inlineLibrary, leaf: func(fr *evalFrame, v ssa.Value) (interface{}, bool) {
		if fr.parent == nil && len(fn.Params) == 1 && v == ssa.Value(fn.Params[0]) {
			return key, true
		}
		return nil, false
	}}
	res, outcome := ev.run(fn, nil, nil, nil, nil)
	if outcome != "return" || len(res) != 1 {
		return "", false
	}
	s, ok := res[0].(string)
	return s, ok
}

func r03_8(c *Ctx, r *Report) {
	const rule = "R03.8"
	r.rule(rule, "The Jie/Qi filter and its lookups speak one vocabulary. The four filtered searches put f(JIE_QI_IN_USE[2i+p]) into the filter set (f the identity or convertJieQi, p the parity of R03.2) and getNearJieQi admits a table key k iff g(k) is in the set (g the identity or convertJieQi). With the literal tables folded, for every one of the paired keys of JIE_QI_IN_USE — the alias keys of the neighbouring years included — g(k) is in the set exactly when k has parity p: a search that compares raw keys with display names silently skips the terms stored under alias keys (the December solstice of the current year is stored under DONG_ZHI).")
	near := c.Fn(r, rule, "calendar.(*Lunar).getNearJieQi")
	conv := c.Fn(r, rule, "calendar.convertJieQi")
	keys := c.tabStrs(r, rule, "calendar", "JIE_QI_IN_USE")
	if near == nil || conv == nil || keys == nil {
		return
	}
	isConv := func(v ssa.Value) (ssa.Value, bool) {
		call, ok := v.(*ssa.Call)
		if ok && call.Common().StaticCallee() == conv {
			return call.Common().Args[0], true
		}
		return nil, false
	}
	// g: the key of the lookup in the local filter set
	g := ""
	for _, b := range near.Blocks {
		for _, ins := range b.Instrs {
			lk, ok := ins.(*ssa.Lookup)
			if !ok {
				continue
			}
			if _, isLocal := lk.X.(*ssa.MakeMap); !isLocal {
				continue
			}
			idx := lk.Index
			if inner, ok := isConv(idx); ok {
				idx = inner
				g = "convert"
			} else {
				g = "identity"
			}
			if ta, ok := idx.(*ssa.TypeAssert); !ok || !isStringType(ta.AssertedType) {
				g = "?"
			}
		}
	}
	if g == "" || g == "?" {
		r.bad(rule, "calendar.(*Lunar).getNearJieQi filter lookup", c.fnPos(near), "the lookup in the filter set is not keyed by the table key or its converted name (undecided = fail)")
		return
	}
	apply := func(how, k string) (string, bool) {
		if how == "identity" {
			return k, true
		}
		return convertTerm(c, conv, k)
	}
	for name, parity := range map[string]int{"GetNextJieByWholeDay": 0, "GetPrevJieByWholeDay": 0, "GetNextQiByWholeDay": 1, "GetPrevQiByWholeDay": 1} {
		fn := c.Fn(r, rule, "calendar.(*Lunar)."+name)
		if fn == nil {
			continue
		}
		construct := "calendar.(*Lunar)." + name + " filter admits exactly the keys of its kind"
		// f: what is stored into the slice of conditions, in the view itself or in the unexported helper
		// it gets the slice from (whose index parity is then judged with the arguments of this call)
		f := ""
		builder := fn

		env := map[*ssa.Parameter]int{}
		storesFromTable := func(h *ssa.Function) bool {
			for _, b := range h.Blocks {
				for _, ins := range b.Instrs {
					if st, ok := ins.(*ssa.Store); ok && isStringType(st.Val.Type()) {
						if _, isIA := st.Addr.(*ssa.IndexAddr); isIA {
							return true
						}
					}
				}
			}
			return false
		}
		if !storesFromTable(fn) {
			// the list comes from an unexported helper (possibly through a delegating one): its index parity
			// is judged with the arguments that reach it from this view
			for _, ctx := range parityContexts(fn) {
				if ctx.fn != near && storesFromTable(ctx.fn) {
					builder, env = ctx.fn, ctx.env
					break
				}
			}
		}
		for _, b := range builder.Blocks {
			for _, ins := range b.Instrs {
				st, ok := ins.(*ssa.Store)
				if !ok || !isStringType(st.Val.Type()) {
					continue
				}
				if _, isIA := st.Addr.(*ssa.IndexAddr); !isIA {
					continue
				}
				v := st.Val
				how := "identity"
				if inner, ok := isConv(v); ok {
					v, how = inner, "convert"
				}
				if ld, ok := v.(*ssa.UnOp); ok && ld.Op == token.MUL {
					if ia, ok := ld.X.(*ssa.IndexAddr); ok && isLoadOfTable(ia.X, "calendar.JIE_QI_IN_USE") {
						f = how
						if builder != fn && parityIn(ia.Index, env, 0) != parity {
							f = "?"
						}
						_ = ia.Index
						continue
					}
				}
				f = "?"
			}
		}
		if f == "" || f == "?" {
			r.bad(rule, construct, c.fnPos(fn), "the filter set is not built from JIE_QI_IN_USE entries (undecided = fail)")
			continue
		}
		// how many entries: the length of the list handed to the search (interval analysis E3, slice lengths
		// through make/append/stores and helper returns) must be exactly half the table
		count := "not determined"
		exact := false
		for _, b := range fn.Blocks {
			for _, ins := range b.Instrs {
				call, ok := ins.(*ssa.Call)
				if !ok || call.Common().StaticCallee() != near || len(call.Common().Args) < 3 {
					continue
				}
				l := c.ranges().obsAt(fn, call, call.Common().Args[2])
				count = l.String()
				exact = !l.bot && l.known() && l.lo() == l.hi() && l.lo() == int64(len(keys)/2)
			}
		}
		if !exact {
			r.bad(rule, construct, c.fnPos(fn), fmt.Sprintf("the filter list holds %s entries, half the table is %d: a shorter list silently drops the last terms of its kind", count, len(keys)/2))
			continue
		}
		set := map[string]bool{}
		half := len(keys) / 2
		okAll := true
		for i := 0; i < half; i++ {
			v, ok := apply(f, keys[2*i+parity])
			okAll = okAll && ok
			set[v] = true
		}
		var bad []string
		for j := 0; j < 2*half; j++ {
			v, ok := apply(g, keys[j])
			okAll = okAll && ok
			if set[v] != (j%2 == parity) {
				bad = append(bad, fmt.Sprintf("%s (position %d) admitted=%v", keys[j], j, set[v]))
			}
		}
		r.check(okAll && len(bad) == 0, rule, construct, c.fnPos(fn), fmt.Sprintf("set = %s of the %d entries of parity %d, lookup by %s of the key; %d keys checked; deviations: %v", f, half, parity, g, 2*half, headList(bad, 4)))
	}
}

// withHelpers: fn and the unexported functions of its package it reaches by static calls (depth <= 3):
// a piece of fn moved into a helper is still read as part of fn.
func withHelpers(c *Ctx, fn *ssa.Function) []*ssa.Function {
	out := []*ssa.Function{fn}
	seen := map[*ssa.Function]bool{fn: true}
	var walk func(f *ssa.Function, depth int)
	walk = func(f *ssa.Function, depth int) {
		if depth > 3 {
			return
		}
		for _, b := range f.Blocks {
			for _, ins := range b.Instrs {
				call, ok := ins.(ssa.CallInstruction)
				if !ok {
					continue
				}
				callee := call.Common().StaticCallee()
				if callee == nil || seen[callee] || callee.Pkg != fn.Pkg || callee.Blocks == nil {
					continue
				}
				// unexported helpers, and function literals of the functions already in the set
				if callee.Object() == nil {
					if callee.Parent() == nil || !seen[callee.Parent()] {
						continue
					}
				} else if callee.Object().Exported() {
					continue
				}
				seen[callee] = true
				out = append(out, callee)
				walk(callee, depth+1)
			}
		}
	}
	walk(fn, 0)
	return out
}

// dependsOnParam: does the index expression (through +, -, *, merges) contain a parameter?
func dependsOnParam(v ssa.Value, depth int) bool {
	if depth > 8 {
		return false
	}
	switch x := v.(type) {
	case *ssa.Parameter:
		return true
	case *ssa.BinOp:
		return dependsOnParam(x.X, depth+1) || dependsOnParam(x.Y, depth+1)
	case *ssa.Phi:
		for _, e := range x.Edges {
			if e != ssa.Value(x) && dependsOnParam(e, depth+1) {
				return true
			}
		}
	}
	return false
}

func tailList(xs []string, n int) []string {
	if len(xs) <= n {
		return xs
	}
	return xs[len(xs)-n:]
}

// R03.9: the delta-T table is interpolated by the cubic its entries are the coefficients of.
func r03_9(c *Ctx, r *Report) {
	const rule = "R03.9"
	r.rule(rule, "The delta-T table is evaluated as the cubic its records describe. DT_AT holds records (knot year, a, b, c, d); between two knots dtCalc returns — followed by the evaluator for a year below the first knot, on each knot, three between each two and the last value below the next (dtCalc looks at the year only through comparisons with knots, so these stand for every year; a read outside the table on the way fails the walk), and, where the code lets it be read so, as a polynomial with exact rational coefficients over the table entries and the quotient q = (y - knot) / (next knot - knot) (E11b: sums, differences, products, quotients by constants; anything else is an atom) — exactly a + 10·b·q + 100·c·q² + 1000·d·q³ with a, b, c, d the four entries after the knot in that order and the next knot five entries on: each power of q once, with the entry of its own degree. (R08.6 checks on the data that consecutive records join to within 15 s under this very formula; a cubic whose third power is built from the wrong factors bends every term instant before 2000 by minutes.) That the entries themselves are right is data.")
	fn := c.Fn(r, rule, "ShouXingUtil.dtCalc")
	if fn == nil {
		return
	}
	env := &polyEnv{fn: fn, quot: map[string][2]polyForm{}, memo: map[ssa.Value]polyForm{}}
	entry := regexp.MustCompile(`^ShouXingUtil\.DT_AT\[(.*?)(?: \+ (\d+))?\]$`)
	parseEntry := func(atom string) (base string, off int64, ok bool) {
		m := entry.FindStringSubmatch(atom)
		if m == nil {
			return "", 0, false
		}
		if m[2] != "" {
			fmt.Sscanf(m[2], "%d", &off)
		}
		return m[1], off, true
	}
	n := 0
	for _, ret := range returnsIn(fn, nil) {
		if len(ret.Results) != 1 {
			continue
		}
		p := env.of(ret.Results[0], 0)
		uses := false
		for m := range p {
			if strings.Contains(m, "ShouXingUtil.DT_AT[") {
				uses = true
			}
		}
		if !uses || len(env.quot) == 0 {
			continue // the extrapolation beyond the table
		}
		hasQuot := false
		for m := range p {
			for q := range env.quot {
				if strings.Contains(m, q) {
					hasQuot = true
				}
			}
		}
		if !hasQuot {
			continue
		}
		n++
		var bad []string
		var base, qname string
		byDeg := map[int]string{}
		for m, coef := range p {
			var tab []string
			deg := 0
			q := ""
			okMono := true
			for _, a := range strings.Split(m, "·") {
				if _, _, isE := parseEntry(a); isE {
					tab = append(tab, a)
				} else if _, isQ := env.quot[a]; isQ {
					if q != "" && q != a {
						okMono = false
					}
					q = a
					deg++
				} else {
					okMono = false
				}
			}
			if !okMono || len(tab) != 1 {
				bad = append(bad, "a term that is not (table entry) x q^k: "+coef.RatString()+"·"+m)
				continue
			}
			if q != "" {
				if qname != "" && qname != q {
					bad = append(bad, "two different quotients are used")
				}
				qname = q
			}
			b, off, _ := parseEntry(tab[0])
			if base == "" {
				base = b
			} else if base != b {
				bad = append(bad, "entries of two different records are mixed")
			}
			want := new(big.Rat).SetInt64(1)
			for i := 0; i < deg; i++ {
				want.Mul(want, big.NewRat(10, 1))
			}
			if off != int64(deg)+1 || coef.Cmp(want) != 0 {
				bad = append(bad, fmt.Sprintf("the entry %d places after the knot carries q^%d with factor %s (stated: entry k+1 carries 10^k·q^k)", off, deg, coef.RatString()))
			}
			if prev, dup := byDeg[deg]; dup {
				bad = append(bad, fmt.Sprintf("the power q^%d occurs twice (%s and %s)", deg, prev, tab[0]))
			}
			byDeg[deg] = tab[0]
		}
		for k := 0; k <= 3; k++ {
			if _, ok := byDeg[k]; !ok {
				bad = append(bad, fmt.Sprintf("no term in q^%d", k))
			}
		}
		if nd, ok := env.quot[qname]; ok && base != "" {
			knot := "ShouXingUtil.DT_AT[" + base + "]"
			next := "ShouXingUtil.DT_AT[" + base + " + 5]"
			wantNum := polyForm{fn.Params[0].Name(): big.NewRat(1, 1), knot: big.NewRat(-1, 1)}
			wantDen := polyForm{next: big.NewRat(1, 1), knot: big.NewRat(-1, 1)}
			if nd[0].String() != wantNum.String() || nd[1].String() != wantDen.String() {
				bad = append(bad, fmt.Sprintf("q is (%s)/(%s), stated (y - knot)/(next knot - knot)", nd[0], nd[1]))
			}
		}
		sort.Strings(bad)
		r.check(len(bad) == 0, rule, "ShouXingUtil.dtCalc interpolates a + b·t + c·t² + d·t³ with t = 10·(y - knot)/(next knot - knot)", c.pos(ret.Pos()), fmt.Sprintf("returned polynomial: %s; deviations: %v", truncate(p.String(), 400), headList(dedupe(bad), 4)))
	}
	_ = n
	// by evaluation: every record of the table, and every ordering of the year against the knots. dtCalc looks at the
	// year only through comparisons with knots (and arithmetic on the record it picked), so a year below the first
	// knot, on each knot, between each two, and beyond the last stands for every year
	dtCalcTable(c, r, rule, fn)
	r.floor(rule, 1)
}

// dtCalcTable follows dtCalc for years standing for every ordering against the knots of DT_AT and compares what it
// returns inside the table with the cubic of the record (knot, a, b, c, d) the year falls in.
func dtCalcTable(c *Ctx, r *Report, rule string, fn *ssa.Function) {
	tv := c.tab(r, rule, "ShouXingUtil", "DT_AT")
	if tv == nil || tv.Kind != "list" || len(tv.L) < 12 || len(tv.L)%5 != 2 || len(fn.Params) != 1 {
		return
	}
	at := func(i int) float64 { return tv.L[i].F }
	last := len(tv.L) - 2 // the closing knot (followed by its value)
	var years []float64
	years = append(years, at(0)-3000, at(0)-1, at(0))
	for i := 0; i+5 <= last; i += 5 {
		k0, k1 := at(i), at(i+5)
		years = append(years, k0, k0+(k1-k0)*0.25, k0+(k1-k0)*0.5, k0+(k1-k0)*0.875, math.Nextafter(k1, k0))
	}
	var bad []string
	n := 0
	c.dtCalcRun = true
	for _, y := range years {
		if len(bad) >= 4 {
			break
		}
		leaf := func(fr *evalFrame, v ssa.Value) (interface{}, bool) {
			if p, ok := v.(*ssa.Parameter); ok && fr.parent == nil && p == fn.Params[0] {
				return y, true
			}
			return nil, false
		}
		ev := &evaluator{leaf: leaf, inline: inlineLibrary, counted: 256}
		res, outcome := ev.run(fn, nil, nil, nil, nil)
		n++
		// the record the year falls in: the first whose next knot is above it
		i := 0
		for i+5 < last && !(y < at(i+5)) {
			i += 5
		}
		q := (y - at(i)) / (at(i+5) - at(i)) * 10
		want := at(i+1) + at(i+2)*q + at(i+3)*q*q + at(i+4)*q*q*q
		got, isF := float64(0), false
		if outcome == "return" && len(res) == 1 {
			got, isF = res[0].(float64)
		}
		switch {
		case !isF:
			bad = append(bad, fmt.Sprintf("year %v: not followed (%s %s)", y, outcome, ev.fail))
		case math.Abs(got-want) > 1e-9*math.Max(1, math.Abs(want)):
			bad = append(bad, fmt.Sprintf("year %v (record at knot %v): %v, stated a + b·q + c·q² + d·q³ = %v with q = 10·(y - knot)/(next knot - knot)", y, at(i), got, want))
		}
	}
	c.dtCalcOK = len(bad) == 0 && n == len(years)
	r.check(len(bad) == 0 && n == len(years), rule, "ShouXingUtil.dtCalc returns the cubic of the record the year falls in, for every ordering of the year against the knots", c.fnPos(fn), fmt.Sprintf("%d years (below the first knot, on each knot, three between each two and the last value below the next; no read outside the table on the way); deviations: %v", n, headList(bad, 3)))
}

func truncate(s string, n int) string {
	if len(s) <= n {
		return s
	}
	return head(s, n) + "…"
}
