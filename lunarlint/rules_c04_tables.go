package main

// C04 — the leaves of the civil calendar arithmetic as decision tables (R04.8).

import (
	"fmt"
	"sort"
	"strings"
	"time"

	"golang.org/x/tools/go/ssa"
)

func civilLeap(y int64) bool {
	if y <= 1582 {
		return y%4 == 0
	}
	return (y%4 == 0 && y%100 != 0) || y%400 == 0
}

func civilDaysOfMonth(y, m int64) int64 {
	if y == 1582 && m == 10 {
		return 21
	}
	d := []int64{31, 28, 31, 30, 31, 30, 31, 31, 30, 31, 30, 31}[m-1]
	if m == 2 && civilLeap(y) {
		d++
	}
	return d
}

// absSolar is a NewSolar(...) call inside the evaluator.
type absSolar struct{ y, m, d, h, mi, s int64 }

func intParamsLeaf(fn *ssa.Function, vals []int64, rest leafX) leafX {
	return func(fr *evalFrame, v ssa.Value) (interface{}, bool) {
		if fr.parent == nil {
			k := 0
			for _, p := range fn.Params {
				if !isIntType(p.Type()) {
					continue
				}
				if v == ssa.Value(p) && k < len(vals) {
					return vals[k], true
				}
				k++
			}
		}
		if rest != nil {
			return rest(fr, v)
		}
		return nil, false
	}
}

// solarFieldRanges: the fields of a civil date NewSolar validates on their own (parameters 1..5), with the stated range.
var solarFieldRanges = []struct {
	key    string
	lo, hi int64
}{{"Solar.month", 1, 12}, {"Solar.day", 1, 31}, {"Solar.hour", 0, 23}, {"Solar.minute", 0, 59}, {"Solar.second", 0, 59}}

func seqInt64(lo, hi int64) []int64 {
	var out []int64
	for k := lo; k <= hi; k++ {
		out = append(out, k)
	}
	return out
}

func r04_8(c *Ctx, r *Report) {
	const rule = "R04.8"
	r.rule(rule, "The leaves of the civil calendar, as decision tables over their whole domain (loop-free functions followed by the evaluator; the checker's own calendar arithmetic is the reference): IsLeapYear for every year 1..9999 (Julian rule up to 1582, Gregorian after); GetDaysOfMonth for every year and month (21 for October 1582); GetDaysOfYear (355 for 1582); NewSolar accepts exactly month 1..12, day 1..31 and, outside October 1582, day <= month length, inside it not 5..14, hour 0..23, minute and second 0..59 (also each field on its own, the others valid, for every value from -3 to 64 and far values on both sides); NextYear and NextMonth land on the target year/month with the day moved over the October-1582 gap (5..14 -> +10), else clamped to the target month's length, and the time of day unchanged.")
	report := func(construct string, pos string, n int, bad []string) {
		sort.Strings(bad)
		r.check(len(bad) == 0 && n > 0, rule, construct, pos, fmt.Sprintf("%d cases evaluated; deviations: %v", n, headList(dedupe(bad), 3)))
	}
	run := func(fn *ssa.Function, leaf leafX, stop func(b *ssa.BasicBlock) bool) ([]interface{}, string, string) {
		ev := &evaluator{inline: inlineLibrary, leaf: leaf}
		res, outcome := ev.run(fn, nil, nil, nil, stop)
		return res, outcome, ev.fail
	}
	if fn := c.Fn(r, rule, "SolarUtil.IsLeapYear"); fn != nil {
		var bad []string
		n := 0
		for y := int64(1); y <= 9999 && len(bad) < 4; y++ {
			res, outcome, fail := run(fn, intParamsLeaf(fn, []int64{y}, nil), nil)
			n++
			if outcome != "return" || len(res) != 1 {
				bad = append(bad, "not followed: "+outcome+" "+fail)
			} else if res[0] != interface{}(civilLeap(y)) {
				bad = append(bad, fmt.Sprintf("year %d: %v", y, res[0]))
			}
		}
		report("SolarUtil.IsLeapYear is the Julian rule up to 1582 and the Gregorian rule after", c.fnPos(fn), n, bad)
	}
	if fn := c.Fn(r, rule, "SolarUtil.GetDaysOfMonth"); fn != nil {
		var bad []string
		n := 0
		for y := int64(1); y <= 9999 && len(bad) < 4; y++ {
			for m := int64(1); m <= 12; m++ {
				if m != 2 && m != 10 && y%97 != 0 {
					continue // the other ten months do not depend on the year: sampled every 97th year
				}
				res, outcome, fail := run(fn, intParamsLeaf(fn, []int64{y, m}, nil), nil)
				n++
				if outcome != "return" || len(res) != 1 {
					bad = append(bad, "not followed: "+outcome+" "+fail)
				} else if res[0] != interface{}(civilDaysOfMonth(y, m)) {
					bad = append(bad, fmt.Sprintf("%d-%d has %v days, expected %d", y, m, res[0], civilDaysOfMonth(y, m)))
				}
			}
		}
		report("SolarUtil.GetDaysOfMonth (21 days in October 1582, 29 in a leap February)", c.fnPos(fn), n, bad)
	}
	if fn := c.Fn(r, rule, "SolarUtil.GetDaysOfYear"); fn != nil {
		var bad []string
		n := 0
		for y := int64(1); y <= 9999 && len(bad) < 4; y++ {
			res, outcome, fail := run(fn, intParamsLeaf(fn, []int64{y}, nil), nil)
			n++
			want := int64(365)
			if y == 1582 {
				want = 355
			} else if civilLeap(y) {
				want = 366
			}
			if outcome != "return" || len(res) != 1 {
				bad = append(bad, "not followed: "+outcome+" "+fail)
			} else if res[0] != interface{}(want) {
				bad = append(bad, fmt.Sprintf("year %d has %v days, expected %d", y, res[0], want))
			}
		}
		report("SolarUtil.GetDaysOfYear (355 days in 1582)", c.fnPos(fn), n, bad)
	}
	if fn := c.Fn(r, rule, "calendar.NewSolar"); fn != nil {
		var alloc *ssa.BasicBlock
		for _, b := range fn.Blocks {
			for _, ins := range b.Instrs {
				if al, ok := ins.(*ssa.Alloc); ok && structName(al.Type()) == "Solar" {
					alloc = b
				}
			}
		}
		var bad []string
		n := 0
		monthsHanded := true
		accept := func(vals []int64) (bool, string) {
			// followed to the return: checks may stand in the block of the allocation itself; the month every call of
			// GetDaysOfMonth on the way is handed is noted (it indexes the month-length table)
			ev := &evaluator{inline: inlineLibrary, leaf: intParamsLeaf(fn, vals, nil)}
			ev.visit = func(fr *evalFrame, call *ssa.Call) {
				if callee := call.Common().StaticCallee(); callee != nil && fname(callee) == "SolarUtil.GetDaysOfMonth" && len(call.Common().Args) == 2 {
					m, ok := ev.eval(fr, call.Common().Args[1], 0)
					if k, isI := m.(int64); !ok || !isI || k < 1 || k > 12 {
						monthsHanded = false
					}
				}
			}
			_, outcome := ev.run(fn, nil, nil, nil, nil)
			fail := ev.fail
			switch {
			case outcome == "panic":
				return false, ""
			case outcome == "return" || (alloc != nil && outcome == fmt.Sprintf("stop:%d", alloc.Index)):
				return true, ""
			}
			return false, "not followed: " + outcome + " " + fail
		}
		for _, ym := range [][2]int64{{1582, 10}, {1582, 9}, {1583, 10}, {2023, 2}, {2024, 2}, {1500, 2}, {1900, 2}, {2022, 4}, {2022, 12}, {2022, 0}, {2022, 13}} {
			for d := int64(-1); d <= 33; d++ {
				got, msg := accept([]int64{ym[0], ym[1], d, 12, 30, 30})
				n++
				want := ym[1] >= 1 && ym[1] <= 12 && d >= 1 && d <= 31
				if want {
					if ym[0] == 1582 && ym[1] == 10 {
						want = !(d >= 5 && d <= 14)
					} else {
						want = d <= civilDaysOfMonth(ym[0], ym[1])
					}
				}
				if msg != "" {
					bad = append(bad, msg)
				} else if got != want {
					bad = append(bad, fmt.Sprintf("%d-%d-%d accepted=%v, expected %v", ym[0], ym[1], d, got, want))
				}
			}
		}
		for _, t := range [][3]int64{{-1, 0, 0}, {0, 0, 0}, {23, 59, 59}, {24, 0, 0}, {0, -1, 0}, {0, 60, 0}, {0, 0, -1}, {0, 0, 60}, {12, 30, 30}} {
			got, msg := accept([]int64{2022, 5, 17, t[0], t[1], t[2]})
			n++
			want := t[0] >= 0 && t[0] <= 23 && t[1] >= 0 && t[1] <= 59 && t[2] >= 0 && t[2] <= 59
			if msg != "" {
				bad = append(bad, msg)
			} else if got != want {
				bad = append(bad, fmt.Sprintf("time %d:%d:%d accepted=%v, expected %v", t[0], t[1], t[2], got, want))
			}
		}
		// each field on its own, the others valid: every value from -3 to 64 and far values on both sides
		for i, rg := range solarFieldRanges {
			for _, v := range append(seqInt64(-3, 64), -1000, 1000, -1<<40, 1<<40) {
				vals := []int64{2022, 5, 17, 12, 30, 30}
				vals[i+1] = v
				got, msg := accept(vals)
				n++
				want := v >= rg.lo && v <= rg.hi
				if msg != "" {
					bad = append(bad, msg)
				} else if got != want {
					bad = append(bad, fmt.Sprintf("%s %d accepted=%v, expected %v", rg.key, v, got, want))
				}
			}
		}
		report("calendar.NewSolar accepts exactly the days and times of the civil calendar", c.fnPos(fn), n, bad)
		c.solarTableOK = len(bad) == 0 && n > 0
		c.solarTableMonthsOK = c.solarTableOK && monthsHanded
	}
	// the two clamping steps
	solarLeaf := func(fn *ssa.Function, y, m, d, arg int64) leafX {
		var leaf leafX
		ints := func(fr *evalFrame, args []ssa.Value) ([]int64, bool) {
			var out []int64
			for _, a := range args {
				o, ok := evalWith(fr, a, leaf)
				k, isI := o.(int64)
				if !ok || !isI {
					return nil, false
				}
				out = append(out, k)
			}
			return out, true
		}
		leaf = func(fr *evalFrame, v ssa.Value) (interface{}, bool) {
			if fr.parent == nil && len(fn.Params) == 2 && v == ssa.Value(fn.Params[1]) {
				return arg, true
			}
			if rc, f, ok := getterField(c, v); ok {
				if ofr, o := fr.origin(rc); ofr.parent == nil && o == ssa.Value(fn.Params[0]) {
					switch f {
					case "Solar.year":
						return y, true
					case "Solar.month":
						return m, true
					case "Solar.day":
						return d, true
					case "Solar.hour":
						return int64(7), true
					case "Solar.minute":
						return int64(8), true
					case "Solar.second":
						return int64(9), true
					}
				}
				if o, ok := evalWith(fr, rc, leaf); ok {
					if dt, isD := o.(absDate); isD {
						switch f {
						case "SolarMonth.year":
							return dt.y, true
						case "SolarMonth.month":
							return dt.m, true
						}
					}
				}
			}
			call, ok := v.(*ssa.Call)
			if !ok || call.Common().StaticCallee() == nil {
				return nil, false
			}
			switch fname(call.Common().StaticCallee()) {
			case "calendar.NewSolar":
				if a, ok := ints(fr, call.Common().Args); ok && len(a) == 6 {
					return absSolar{a[0], a[1], a[2], a[3], a[4], a[5]}, true
				}
			case "calendar.NewSolarMonthFromYm":
				if a, ok := ints(fr, call.Common().Args); ok && len(a) == 2 {
					return absDate{a[0], a[1], 0}, true
				}
			case "calendar.(*SolarMonth).Next":
				o, ok1 := evalWith(fr, call.Common().Args[0], leaf)
				k, ok2 := evalWith(fr, call.Common().Args[1], leaf)
				dt, isD := o.(absDate)
				ki, isI := k.(int64)
				if ok1 && ok2 && isD && isI {
					total := dt.y*12 + dt.m - 1 + ki // R15.7 decides that SolarMonth.Next computes this
					return absDate{total / 12, total%12 + 1, 0}, true
				}
			}
			return nil, false
		}
		return leaf
	}
	clamp := func(ty, tm, d int64) int64 {
		switch {
		case ty == 1582 && tm == 10 && d >= 5 && d <= 14:
			return d + 10
		case ty == 1582 && tm == 10:
			return d
		case d > civilDaysOfMonth(ty, tm):
			return civilDaysOfMonth(ty, tm)
		}
		return d
	}
	for _, name := range []string{"calendar.(*Solar).NextYear", "calendar.(*Solar).NextMonth"} {
		fn := c.Fn(r, rule, name)
		if fn == nil {
			continue
		}
		var bad []string
		n := 0
		type start struct{ y, m int64 }
		starts := []start{{1581, 10}, {1583, 10}, {1582, 9}, {1582, 11}, {1582, 10}, {2020, 2}, {2023, 1}, {2023, 3}, {2024, 2}, {2022, 12}, {2023, 5}, {1900, 1}, {1581, 8}}
		for _, st := range starts {
			for _, d := range []int64{1, 4, 5, 14, 15, 21, 28, 29, 30, 31} {
				if st.y == 1582 && st.m == 10 {
					if d >= 5 && d <= 14 {
						continue
					}
				} else if d > civilDaysOfMonth(st.y, st.m) {
					continue
				}
				for _, k := range []int64{-14, -12, -2, -1, 0, 1, 2, 4, 12, 13} {
					res, outcome, fail := run(fn, solarLeaf(fn, st.y, st.m, d, k), nil)
					n++
					ty, tm := st.y+k, st.m
					if name == "calendar.(*Solar).NextMonth" {
						total := st.y*12 + st.m - 1 + k
						ty, tm = total/12, total%12+1
					}
					want := absSolar{ty, tm, clamp(ty, tm, d), 7, 8, 9}
					if outcome != "return" || len(res) != 1 {
						bad = append(bad, "not followed: "+outcome+" "+fail)
					} else if res[0] != interface{}(want) {
						bad = append(bad, fmt.Sprintf("%d-%d-%d stepped by %d builds %v, expected %v", st.y, st.m, d, k, res[0], want))
					}
					if len(bad) > 6 {
						break
					}
				}
			}
		}
		report(name+" lands on the target with the day moved over the 1582 gap or clamped to the month length", c.fnPos(fn), n, bad)
	}
}

// rawParts finds, for a value, the float->int conversions its data flows from (through merges,
// +/- constants, integer conversions, results of inlined helpers and their parameters).
func rawParts(fr *evalFrame, v ssa.Value, depth int, out map[ssa.Value]bool, seen map[ssa.Value]bool) {
	if v == nil || depth > 24 || seen[v] {
		return
	}
	seen[v] = true
	switch x := v.(type) {
	case *ssa.Phi:
		for _, e := range x.Edges {
			rawParts(fr, e, depth+1, out, seen)
		}
	case *ssa.BinOp:
		if _, ok := x.Y.(*ssa.Const); ok {
			rawParts(fr, x.X, depth+1, out, seen)
		} else if _, ok := x.X.(*ssa.Const); ok {
			rawParts(fr, x.Y, depth+1, out, seen)
		} else {
			rawParts(fr, x.X, depth+1, out, seen)
			rawParts(fr, x.Y, depth+1, out, seen)
		}
	case *ssa.Convert:
		if isIntType(x.Type()) && isFloatType(x.X.Type()) {
			out[v] = true
			return
		}
		rawParts(fr, x.X, depth+1, out, seen)
	case *ssa.Parameter:
		if fr.parent != nil && fr.call != nil {
			if i := paramIndex(fr.fn, x); i >= 0 && i < len(fr.call.Common().Args) {
				rawParts(fr.parent, fr.call.Common().Args[i], depth+1, out, seen)
				return
			}
		}
		out[v] = true
	case *ssa.Extract:
		if call, ok := x.Tuple.(*ssa.Call); ok {
			if h := call.Common().StaticCallee(); h != nil && h.Blocks != nil && inlineLibrary(h) {
				for _, b := range h.Blocks {
					for _, ins := range b.Instrs {
						if ret, ok := ins.(*ssa.Return); ok && x.Index < len(ret.Results) {
							rawParts(&evalFrame{fn: h, parent: fr, call: call}, ret.Results[x.Index], depth+1, out, seen)
						}
					}
				}
				return
			}
		}
		out[v] = true
	case *ssa.Call:
		if h := x.Common().StaticCallee(); h != nil && h.Blocks != nil && inlineLibrary(h) && isIntType(x.Type()) {
			for _, b := range h.Blocks {
				for _, ins := range b.Instrs {
					if ret, ok := ins.(*ssa.Return); ok && len(ret.Results) == 1 {
						rawParts(&evalFrame{fn: h, parent: fr, call: x}, ret.Results[0], depth+1, out, seen)
					}
				}
			}
			return
		}
		out[v] = true
	case *ssa.Const:
		// a constant time of day (the midnight a date is stepped from) has no raw part
	default:
		out[v] = true
	}
}

func r04_9(c *Ctx, r *Report) {
	const rule = "R04.9"
	r.rule(rule, "A day number with a fraction becomes the civil date and the time of day, rounded to the second, with the carries cascading up to the date. NewSolarFromJulianDay is followed by the evaluator from the number it is given (its float arithmetic and conversions are the checker's own arithmetic on the expression tree; function literals over captured variables and helpers handed pointers to locals are followed where their calls stand; NewSolar is a record, NextDay the checker's calendar) for a day in the middle of a month, the last day of a 31-day month, of February and of the year, every hour, minutes 0, 1, 30, 58, 59, seconds 0, 1, 30, 59 and a quarter or three quarters of a second more: the moment built is that time of day rounded to the nearest second on that civil date — 23:59:59.75 on 31 January is 00:00:00 on 1 February, not a 32nd of January. The date part is followed for the day numbers where the Julian and Gregorian century rules bite (the turn of February and of the year in every century year 100..9900, the ten days dropped in October 1582) and a regular spread, against the checker's own calendar; SolarUtil.GetJulianDay is followed back from those civil dates to the same day numbers.")
	fn := c.Fn(r, rule, "calendar.NewSolarFromJulianDay")
	if fn == nil {
		return
	}
	construct := "calendar.NewSolarFromJulianDay carries second -> minute -> hour -> civil date"
	var call *ssa.Call
	var calls []*ssa.Call
	for _, b := range fn.Blocks {
		for _, ins := range b.Instrs {
			if cl, ok := ins.(*ssa.Call); ok && cl.Common().StaticCallee() != nil && fname(cl.Common().StaticCallee()) == "calendar.NewSolar" && len(cl.Common().Args) == 6 {
				call = cl
				calls = append(calls, cl)
			}
		}
	}
	if call == nil {
		r.bad(rule, construct, c.fnPos(fn), "no call of NewSolar found (undecided = fail)")
		return
	}
	civil := func(y, m, d int64) time.Time { return time.Date(int(y), time.Month(m), int(d), 0, 0, 0, 0, time.UTC) }
	runCase := func(jd float64) (absSolar, string) {
		var leaf leafX
		asSolar := func(fr *evalFrame, v ssa.Value) (absSolar, bool) {
			o, ok := evalWith(fr, v, leaf)
			sol, isS := o.(absSolar)
			return sol, ok && isS
		}
		leaf = func(fr *evalFrame, v ssa.Value) (interface{}, bool) {
			if fr.parent == nil && len(fn.Params) == 1 && v == ssa.Value(fn.Params[0]) {
				return jd, true
			}
			if rc, f, ok := getterField(c, v); ok && strings.HasPrefix(f, "Solar.") {
				if sol, ok := asSolar(fr, rc); ok {
					switch f {
					case "Solar.year":
						return sol.y, true
					case "Solar.month":
						return sol.m, true
					case "Solar.day":
						return sol.d, true
					case "Solar.hour":
						return sol.h, true
					case "Solar.minute":
						return sol.mi, true
					case "Solar.second":
						return sol.s, true
					}
				}
				return nil, false
			}
			cl, ok := v.(*ssa.Call)
			if !ok || cl.Common().StaticCallee() == nil {
				return nil, false
			}
			switch fname(cl.Common().StaticCallee()) {
			case "calendar.NewSolar", "calendar.NewSolarFromYmd":
				var a []int64
				for _, x := range cl.Common().Args {
					o, ok := evalWith(fr, x, leaf)
					k, isI := o.(int64)
					if !ok || !isI {
						return nil, false
					}
					a = append(a, k)
				}
				for len(a) < 6 {
					a = append(a, 0)
				}
				return absSolar{a[0], a[1], a[2], a[3], a[4], a[5]}, true
			case "calendar.(*Solar).NextDay":
				sol, ok1 := asSolar(fr, cl.Common().Args[0])
				ko, ok2 := evalWith(fr, cl.Common().Args[1], leaf)
				k, isI := ko.(int64)
				if !ok1 || !ok2 || !isI || sol.m < 1 || sol.m > 12 || sol.d < 1 || sol.d > int64(civil(sol.y, sol.m+1, 0).Day()) {
					return nil, false
				}
				t := civil(sol.y, sol.m, sol.d).AddDate(0, 0, int(k))
				return absSolar{int64(t.Year()), int64(t.Month()), int64(t.Day()), sol.h, sol.mi, sol.s}, true
			}
			return nil, false
		}
		ev := &evaluator{inline: inlineLibrary, leaf: leaf}
		res, outcome := ev.run(fn, nil, nil, nil, nil)
		if outcome != "return" || len(res) != 1 {
			return absSolar{}, "not followed: " + outcome + " " + ev.fail
		}
		sol, ok := res[0].(absSolar)
		if !ok {
			return absSolar{}, "the result is not built by NewSolar"
		}
		return sol, ""
	}
	var bad []string
	n := 0
	// a day in the middle of a month, the last day of a 31-day month, of February, of the year
	for _, date := range [][3]int64{{2023, 2, 24}, {2023, 1, 31}, {2023, 2, 28}, {2023, 12, 31}} {
		midnight := float64(civil(date[0], date[1], date[2]).Unix())/86400 + 2440587.5
		for h := int64(0); h < 24 && len(bad) < 4; h++ {
			for _, m := range []int64{0, 1, 30, 58, 59} {
				for _, s := range []int64{0, 1, 30, 59} {
					for _, frac := range []float64{0.25, 0.75} {
						total := h*3600 + m*60 + s
						got, msg := runCase(midnight + (float64(total)+frac)/86400)
						n++
						rounded := total
						if frac > 0.5 {
							rounded++
						}
						t := civil(date[0], date[1], date[2]).AddDate(0, 0, int(rounded/86400))
						want := absSolar{int64(t.Year()), int64(t.Month()), int64(t.Day()), rounded % 86400 / 3600, rounded % 3600 / 60, rounded % 60}
						if msg != "" {
							bad = append(bad, msg)
						} else if got != want {
							bad = append(bad, fmt.Sprintf("%d-%02d-%02d %02d:%02d:%02d and %.2f s becomes %d-%02d-%02d %02d:%02d:%02d, expected %d-%02d-%02d %02d:%02d:%02d", date[0], date[1], date[2], h, m, s, frac, got.y, got.m, got.d, got.h, got.mi, got.s, want.y, want.m, want.d, want.h, want.mi, want.s))
						}
					}
				}
			}
		}
	}
	// the date part on the days where the two calendars and their century rules bite: the turn of February in every
	// century year, the turn of the year next to it, the ten days dropped in 1582, and a regular spread
	m2 := 0
	var bad2 []string
	var dayNos []int64
	for y := int64(100); y <= 9900; y += 100 {
		mar1 := civilDayNo(y, 3, 1)
		dayNos = append(dayNos, mar1-2, mar1-1, mar1, civilDayNo(y, 1, 1)-1, civilDayNo(y, 1, 1))
	}
	dayNos = append(dayNos, civilDayNo(1582, 10, 4)-1, civilDayNo(1582, 10, 4), civilDayNo(1582, 10, 15), civilDayNo(1582, 10, 15)+1, civilDayNo(1, 1, 1), civilDayNo(9999, 12, 31))
	for k := civilDayNo(1, 1, 1); k < civilDayNo(9999, 12, 31); k += 9973 {
		dayNos = append(dayNos, k)
	}
	for _, k := range dayNos {
		if len(bad2) >= 4 {
			break
		}
		got, msg := runCase(float64(k) - 0.25) // 06:00:00 on that day
		m2++
		y, mo, d := civilDateOf(k)
		want := absSolar{y, mo, d, 6, 0, 0}
		if msg != "" {
			bad2 = append(bad2, msg)
		} else if got != want {
			bad2 = append(bad2, fmt.Sprintf("day number %d at 06:00 becomes %d-%02d-%02d %02d:%02d:%02d, the checker's calendar says %d-%02d-%02d 06:00:00", k, got.y, got.m, got.d, got.h, got.mi, got.s, y, mo, d))
		}
	}
	sort.Strings(bad2)
	r.check(len(bad2) == 0 && m2 == len(dayNos), rule, "calendar.NewSolarFromJulianDay reads a day number as the civil date of the checker's calendar", c.pos(call.Pos()), fmt.Sprintf("%d day numbers (the turn of February and of the year in every century year 100..9900, October 1582, a spread of one day in 9973); deviations: %v", m2, headList(dedupe(bad2), 3)))
	// and back: the day number of those civil dates
	if g := c.Fn(r, rule, "SolarUtil.GetJulianDay"); g != nil && len(g.Params) == 6 {
		var bad3 []string
		m3 := 0
		for _, k := range dayNos {
			if len(bad3) >= 4 {
				break
			}
			y, mo, d := civilDateOf(k)
			ev := &evaluator{inline: inlineLibrary, leaf: intParamsLeaf(g, []int64{y, mo, d, 6, 0, 0}, nil)}
			res, outcome := ev.run(g, nil, nil, nil, nil)
			m3++
			if outcome != "return" || len(res) != 1 {
				bad3 = append(bad3, "not followed: "+outcome+" "+ev.fail)
			} else if res[0] != interface{}(float64(k)-0.25) {
				bad3 = append(bad3, fmt.Sprintf("%d-%02d-%02d 06:00:00 has day number %v, the checker's calendar says %.2f", y, mo, d, res[0], float64(k)-0.25))
			}
		}
		sort.Strings(bad3)
		r.check(len(bad3) == 0 && m3 == len(dayNos), rule, "SolarUtil.GetJulianDay gives a civil date the day number of the checker's calendar", c.fnPos(g), fmt.Sprintf("%d dates (the same day numbers, back); deviations: %v", m3, headList(dedupe(bad3), 3)))
	}
	sort.Strings(bad)
	r.check(len(bad) == 0 && n == 3840, rule, construct, c.pos(call.Pos()), fmt.Sprintf("%d (date, time of day, fraction of a second) cases followed; deviations: %v", n, headList(dedupe(bad), 3)))
}
