package main

// R08.9 — the flat packed-table decoders cut out the record the grammar defines.
//
// R08.5 parses dayShenSha and timeYiJi under the grammar KEY=AA..,BB.. with the checker's own
// parser. This rule evaluates (E12, literal tables folded, helpers inline; the decode loop itself
// is not iterated) what GetDayJiShen / GetDayXiongSha / GetTimeYi / GetTimeJi hand to their decode
// loop for every key they can form, and compares it with the half of the record the accessor
// stands for.

import (
	"fmt"
	"regexp"
	"sort"

	"golang.org/x/tools/go/ssa"
)

func flatRecords(s string, keyLen int) map[string][2]string {
	re := regexp.MustCompile(fmt.Sprintf(`^([0-9A-F]{%d})=([0-9A-F]*),((?:[0-9A-F]{2})*?)(?:([0-9A-F]{%d}=.*))?$`, keyLen, keyLen))
	out := map[string][2]string{}
	rest := s
	for rest != "" {
		m := re.FindStringSubmatch(rest)
		if m == nil {
			return nil
		}
		out[m[1]] = [2]string{m[2], m[3]}
		rest = m[4]
	}
	return out
}

// decodeLoopInput finds the string whose two-character pieces a loop decodes (x[i:i+2] with i a loop
// variable) in fn or a helper of it; returns where the walk of fn has to stop and the value to evaluate there.
func decodeLoopInput(c *Ctx, fn *ssa.Function) (stop *ssa.BasicBlock, fr func() *evalFrame, target ssa.Value, why string) {
	for _, f := range withHelpers(c, fn) {
		for _, b := range f.Blocks {
			for _, ins := range b.Instrs {
				sl, ok := ins.(*ssa.Slice)
				if !ok || !isStringType(sl.X.Type()) || sl.Low == nil {
					continue
				}
				phi, isPhi := sl.Low.(*ssa.Phi)
				if !isPhi {
					continue
				}
				if f == fn {
					return phi.Block(), func() *evalFrame { return nil }, sl.X, ""
				}
				p, isParam := sl.X.(*ssa.Parameter)
				if !isParam {
					return nil, nil, nil, "the decoded string of " + fname(f) + " is not a parameter"
				}
				var site *ssa.Call
				n := 0
				for _, bb := range fn.Blocks {
					for _, ci := range bb.Instrs {
						if call, ok := ci.(*ssa.Call); ok && call.Common().StaticCallee() == f {
							site = call
							n++
						}
					}
				}
				if n != 1 {
					return nil, nil, nil, fmt.Sprintf("%s is called %d times from %s", fname(f), n, fname(fn))
				}
				return site.Block(), func() *evalFrame { return nil }, site.Common().Args[paramIndex(f, p)], ""
			}
		}
	}
	return nil, nil, nil, "no decode loop (x[i:i+2]) found"
}

func r08_9(c *Ctx, r *Report) {
	const rule = "R08.9"
	r.rule(rule, "Flat packed-table decoders and the record grammar agree. For every key the accessors can form (month 1..12 and its negative × 60 day pillars for dayShenSha; 60 × 60 day and hour pillars for timeYiJi), the string that GetDayJiShen / GetDayXiongSha / GetTimeYi / GetTimeJi hand to their two-characters-at-a-time decode loop — evaluated from the code, the tables folded, the loop not iterated — is the first / second code list of the record KEY=AA..,BB.. that the checker's own parser finds for that key, and nothing is decoded when the key has no record. (The loop-searched dayYiJi accessors are not covered.)")
	type acc struct {
		name, table string
		keyLen      int
		half        int
	}
	n := 0
	for _, a := range []acc{{"LunarUtil.GetDayJiShen", "dayShenSha", 3, 0}, {"LunarUtil.GetDayXiongSha", "dayShenSha", 3, 1}, {"LunarUtil.GetTimeYi", "timeYiJi", 4, 0}, {"LunarUtil.GetTimeJi", "timeYiJi", 4, 1}} {
		fn := c.Fn(r, rule, a.name)
		if fn == nil || len(fn.Params) != 2 {
			continue
		}
		s, ok := c.tabStr(r, rule, "LunarUtil", a.table)
		if !ok {
			continue
		}
		recs := flatRecords(s, a.keyLen)
		if recs == nil {
			continue // R08.5 reports the grammar failure
		}
		stop, _, target, why := decodeLoopInput(c, fn)
		if stop == nil {
			// the decode loop is not where it is looked for (it may sit in a shared worker that picks the half itself):
			// the whole accessor is followed instead, decode loop and all, and the names it lists compared
			decoderByEvaluation(c, r, rule, fn, a.name, a.table, a.keyLen, a.half, recs, why)
			n++
			continue
		}
		n++
		var bad []string
		cases := 0
		type kv struct{ p0, p1 int64 }
		var keys []kv
		if a.keyLen == 3 {
			for m := int64(1); m <= 12; m++ {
				for d := int64(0); d < 60; d++ {
					keys = append(keys, kv{m, d}, kv{-m, d})
				}
			}
		} else {
			for d := int64(0); d < 60; d++ {
				for t := int64(0); t < 60; t++ {
					keys = append(keys, kv{d, t})
				}
			}
		}
		for _, k := range keys {
			if len(bad) >= 4 {
				break
			}
			k := k
			leaf := func(fr *evalFrame, v ssa.Value) (interface{}, bool) {
				if p, ok := v.(*ssa.Parameter); ok && fr.parent == nil && fr.fn == fn && isIntType(p.Type()) && paramIndex(fn, p) == 0 {
					return k.p0, true
				}
				if call, ok := v.(*ssa.Call); ok && call.Common().StaticCallee() != nil && call.Common().StaticCallee().Name() == "GetJiaZiIndex" && len(call.Common().Args) == 1 {
					switch topParam(fr, call.Common().Args[0], fn) {
					case 0:
						return k.p0, true
					case 1:
						return k.p1, true
					}
				}
				if call, ok := v.(*ssa.Call); ok && call.Common().StaticCallee() != nil {
					switch call.Common().StaticCallee().String() {
					case "container/list.New":
						return absPtr{"list", false}, true
					case "(*container/list.List).Len":
						return int64(0), true // reached only when the decode loop was not entered
					}
				}
				return nil, false
			}
			ev := &evaluator{leaf: leaf, inline: inlineLibrary}
			fr := &evalFrame{fn: fn, phiFrom: map[*ssa.BasicBlock]*ssa.BasicBlock{}}
			outcome := fmt.Sprintf("stop:%d", stop.Index)
			if stop != fn.Blocks[0] {
				_, outcome = ev.runFrame(fr, nil, func(b *ssa.BasicBlock) bool { return b == stop })
			}
			cases++
			var key string
			if a.keyLen == 3 {
				m := k.p0
				if m < 0 {
					m = -m
				}
				key = fmt.Sprintf("%X%02X", m, k.p1)
			} else {
				key = fmt.Sprintf("%02X%02X", k.p0, k.p1)
			}
			rec, present := recs[key]
			got := ""
			switch {
			case outcome == fmt.Sprintf("stop:%d", stop.Index):
				o, ok := ev.eval(fr, target, 0)
				if str, isS := o.(string); ok && isS {
					got = "decodes " + str
				} else if ev.panicked {
					got = "panics while cutting the record"
				} else {
					got = "not evaluable"
				}
			case outcome == "panic":
				got = "panics while cutting the record"
			case outcome == "fail":
				got = "not evaluable: " + ev.fail
			default:
				got = "decodes nothing"
			}
			want := "decodes nothing"
			if present {
				want = "decodes " + rec[a.half]
				if rec[a.half] == "" && got == "decodes nothing" {
					got = want
				}
			}
			if got != want {
				bad = append(bad, fmt.Sprintf("key %s: %s, the grammar says %s", key, got, want))
			}
		}
		sort.Strings(bad)
		r.check(len(bad) == 0 && cases > 0, rule, a.name+" hands the record's code list to its decode loop", c.fnPos(fn), fmt.Sprintf("%d keys; deviations: %v", cases, headList(bad, 3)))
	}
	r.floor(rule, 4)
	_ = n
}

// decoderByEvaluation: the accessor followed whole (list model, the decode loop as a table over the iteration number)
// for a spread of keys: the names it lists are those of the codes in the half of the record it stands for, or 无.
func decoderByEvaluation(c *Ctx, r *Report, rule string, fn *ssa.Function, name, table string, keyLen, half int, recs map[string][2]string, why string) {
	namesTable := "yiJi"
	if table == "dayShenSha" {
		namesTable = "shenSha"
	}
	names := c.tabStrs(r, rule, "LunarUtil", namesTable)
	jiaZi := c.tabStrs(r, rule, "LunarUtil", "JIA_ZI")
	if len(names) == 0 || len(jiaZi) != 60 {
		return
	}
	type kv struct{ p0, p1 int64 }
	var keys []kv
	step := int64(7)
	if c.Tier == "thorough" {
		step = 1
	}
	if keyLen == 3 {
		for m := int64(1); m <= 12; m++ {
			for d := int64(0); d < 60; d += step {
				keys = append(keys, kv{m, d}, kv{-m, d})
			}
		}
	} else {
		for d := int64(0); d < 60; d += step {
			for t := int64(0); t < 60; t++ {
				keys = append(keys, kv{d, t})
			}
		}
	}
	var bad []string
	cases := 0
	for _, k := range keys {
		if len(bad) >= 4 {
			break
		}
		k := k
		var lm *listModel
		leaf := func(fr *evalFrame, v ssa.Value) (interface{}, bool) {
			if p, ok := v.(*ssa.Parameter); ok && fr.parent == nil && fr.fn == fn {
				switch paramIndex(fn, p) {
				case 0:
					if isIntType(p.Type()) {
						return k.p0, true
					}
					return jiaZi[k.p0], true
				case 1:
					return jiaZi[k.p1], true
				}
			}
			if x, ok := lm.leaf(c, fr, v); ok {
				return x, true
			}
			if call, ok := v.(*ssa.Call); ok && call.Common().StaticCallee() != nil && call.Common().StaticCallee().Name() == "GetJiaZiIndex" && len(call.Common().Args) == 1 {
				// the position of a pillar in the cycle (the search itself is R08.4 / R18.6)
				if o, ok := evalWith(fr, call.Common().Args[0], func(fr2 *evalFrame, v2 ssa.Value) (interface{}, bool) {
					if p, ok := v2.(*ssa.Parameter); ok && fr2.parent == nil && fr2.fn == fn && !isIntType(p.Type()) {
						if paramIndex(fn, p) == 0 {
							return jiaZi[k.p0], true
						}
						return jiaZi[k.p1], true
					}
					return nil, false
				}); ok {
					for i, p := range jiaZi {
						if o == interface{}(p) {
							return int64(i), true
						}
					}
				}
				return nil, false
			}
			return nil, false
		}
		ev := &evaluator{leaf: leaf, inline: inlineLibrary, counted: 400, maxDepth: 200}
		lm = newListModel(ev)
		ev.visit = lm.visit
		res, outcome := ev.run(fn, nil, nil, nil, nil)
		cases++
		var key string
		if keyLen == 3 {
			m := k.p0
			if m < 0 {
				m = -m
			}
			key = fmt.Sprintf("%X%02X", m, k.p1)
		} else {
			key = fmt.Sprintf("%02X%02X", k.p0, k.p1)
		}
		var want []string
		if rec, present := recs[key]; present {
			for i := 0; i+2 <= len(rec[half]); i += 2 {
				var code int
				fmt.Sscanf(rec[half][i:i+2], "%X", &code)
				if code < len(names) {
					want = append(want, names[code])
				} else {
					want = append(want, "?")
				}
			}
		}
		if len(want) == 0 {
			want = []string{"无"}
		}
		got := "not followed: " + outcome + " " + ev.fail
		if outcome == "return" && len(res) == 1 {
			if p, isP := res[0].(absPtr); isP && len(p.tag) > 5 && p.tag[:5] == "list@" {
				got = fmt.Sprint(lm.render(p.tag))
			}
		}
		if got != fmt.Sprint(want) {
			bad = append(bad, fmt.Sprintf("key %s: %s, the record says %s", key, head(got, 80), head(fmt.Sprint(want), 80)))
		}
	}
	sort.Strings(bad)
	r.check(len(bad) == 0 && cases > 0, rule, name+" hands the record's code list to its decode loop", c.fnPos(fn), fmt.Sprintf("followed whole (%s): %d keys; deviations: %v", why, cases, headList(bad, 3)))
}
