package main

// R08.9 — the flat packed-table decoders cut out the record the grammar defines.
//
// R08.5 parses dayShenSha and timeYiJi under the grammar KEY=AA..,BB.. with the checker's own
// parser. This rule evaluates (E12, literal tables folded, helpers inline; the decode loop itself
// is not iterated) what GetDayJiShen / GetDayXiongSha / GetTimeYi / GetTimeJi hand to their decode
// loop for every key they can form, and compares it with the half of the record the accessor
// stands for.

import (
	"fmt"
	"regexp"
	"sort"

	"golang.org/x/tools/go/ssa"
)

func flatRecords(s string, keyLen int) map[string][2]string {
	re := regexp.MustCompile(fmt.Sprintf(`^([0-9A-F]{%d})=([0-9A-F]*),((?:[0-9A-F]{2})*?)(?:([0-9A-F]{%d}=.*))?$`, keyLen, keyLen))
	out := map[string][2]string{}
	rest := s
	for rest != "" {
		m := re.FindStringSubmatch(rest)
		if m == nil {
			return nil
		}
		out[m[1]] = [2]string{m[2], m[3]}
		rest = m[4]
	}
	return out
}

// decodeLoopInput finds the string whose two-character pieces a loop decodes (x[i:i+2] with i a loop
// variable) in fn or a helper of it; returns where the walk of fn has to stop and the value to evaluate there.
func decodeLoopInput(c *Ctx, fn *ssa.Function) (stop *ssa.BasicBlock, fr func() *evalFrame, target ssa.Value, why string) {
	for _, f := range withHelpers(c, fn) {
		for _, b := range f.Blocks {
			for _, ins := range b.Instrs {
				sl, ok := ins.(*ssa.Slice)
				if !ok || !isStringType(sl.X.Type()) || sl.Low == nil {
					continue
				}
				phi, isPhi := sl.Low.(*ssa.Phi)
				if !isPhi {
					continue
				}
				if f == fn {
					return phi.Block(), func() *evalFrame { return nil }, sl.X, ""
				}
				p, isParam := sl.X.(*ssa.Parameter)
				if !isParam {
					return nil, nil, nil, "the decoded string of " + fname(f) + " is not a parameter"
				}
				var site *ssa.Call
				n := 0
				for _, bb := range fn.Blocks {
					for _, ci := range bb.Instrs {
						if call, ok := ci.(*ssa.Call); ok && call.Common().StaticCallee() == f {
							site = call
							n++
						}
					}
				}
				if n != 1 {
					return nil, nil, nil, fmt.Sprintf("%s is called %d times from %s", fname(f), n, fname(fn))
				}
				return site.Block(), func() *evalFrame { return nil }, site.Common().Args[paramIndex(f, p)], ""
			}
		}
	}
	return nil, nil, nil, "no decode loop (x[i:i+2]) found"
}

func r08_9(c *Ctx, r *Report) {
	const rule = "R08.9"
	r.rule(rule, "Flat packed-table decoders and the record grammar agree. For every key the accessors can form (month 1..12 and its negative × 60 day pillars for dayShenSha; 60 × 60 day and hour pillars for timeYiJi), the string that GetDayJiShen / GetDayXiongSha / GetTimeYi / GetTimeJi hand to their two-characters-at-a-time decode loop — evaluated from the code, the tables folded, the loop not iterated — is the first / second code list of the record KEY=AA..,BB.. that the checker's own parser finds for that key, and nothing is decoded when the key has no record. (The loop-searched dayYiJi accessors are not covered.)")
	type acc struct {
		name, table string
		keyLen      int
		half        int
	}
	n := 0
	for _, a := range []acc{{"LunarUtil.GetDayJiShen", "dayShenSha", 3, 0}, {"LunarUtil.GetDayXiongSha", "dayShenSha", 3, 1}, {"LunarUtil.GetTimeYi", "timeYiJi", 4, 0}, {"LunarUtil.GetTimeJi", "timeYiJi", 4, 1}} {
		fn := c.Fn(r, rule, a.name)
		if fn == nil || len(fn.Params) != 2 {
			continue
		}
		s, ok := c.tabStr(r, rule, "LunarUtil", a.table)
		if !ok {
			continue
		}
		recs := flatRecords(s, a.keyLen)
		if recs == nil {
			continue // R08.5 reports the grammar failure
		}
		stop, _, target, why := decodeLoopInput(c, fn)
		if stop == nil {
			r.bad(rule, a.name+" hands the record's code list to its decode loop", c.fnPos(fn), "undecided: "+why)
			continue
		}
		n++
		var bad []string
		cases := 0
		type kv struct{ p0, p1 int64 }
		var keys []kv
		if a.keyLen == 3 {
			for m := int64(1); m <= 12; m++ {
				for d := int64(0); d < 60; d++ {
					keys = append(keys, kv{m, d}, kv{-m, d})
				}
			}
		} else {
			for d := int64(0); d < 60; d++ {
				for t := int64(0); t < 60; t++ {
					keys = append(keys, kv{d, t})
				}
			}
		}
		for _, k := range keys {
			if len(bad) >= 4 {
				break
			}
			k := k
			leaf := func(fr *evalFrame, v ssa.Value) (interface{}, bool) {
				if p, ok := v.(*ssa.Parameter); ok && fr.parent == nil && fr.fn == fn && isIntType(p.Type()) && paramIndex(fn, p) == 0 {
					return k.p0, true
				}
				if call, ok := v.(*ssa.Call); ok && call.Common().StaticCallee() != nil && call.Common().StaticCallee().Name() == "GetJiaZiIndex" && len(call.Common().Args) == 1 {
					switch topParam(fr, call.Common().Args[0], fn) {
					case 0:
						return k.p0, true
					case 1:
						return k.p1, true
					}
				}
				if call, ok := v.(*ssa.Call); ok && call.Common().StaticCallee() != nil {
					switch call.Common().StaticCallee().String() {
					case "container/list.New":
						return absPtr{"list", false}, true
					case "(*container/list.List).Len":
						return int64(0), true // reached only when the decode loop was not entered
					}
				}
				return nil, false
			}
			ev := &evaluator{leaf: leaf, inline: inlineLibrary}
			fr := &evalFrame{fn: fn, phiFrom: map[*ssa.BasicBlock]*ssa.BasicBlock{}}
			outcome := fmt.Sprintf("stop:%d", stop.Index)
			if stop != fn.Blocks[0] {
				_, outcome = ev.runFrame(fr, nil, func(b *ssa.BasicBlock) bool { return b == stop })
			}
			cases++
			var key string
			if a.keyLen == 3 {
				m := k.p0
				if m < 0 {
					m = -m
				}
				key = fmt.Sprintf("%X%02X", m, k.p1)
			} else {
				key = fmt.Sprintf("%02X%02X", k.p0, k.p1)
			}
			rec, present := recs[key]
			got := ""
			switch {
			case outcome == fmt.Sprintf("stop:%d", stop.Index):
				o, ok := ev.eval(fr, target, 0)
				if str, isS := o.(string); ok && isS {
					got = "decodes " + str
				} else if ev.panicked {
					got = "panics while cutting the record"
				} else {
					got = "not evaluable"
				}
			case outcome == "panic":
				got = "panics while cutting the record"
			case outcome == "fail":
				got = "not evaluable: " + ev.fail
			default:
				got = "decodes nothing"
			}
			want := "decodes nothing"
			if present {
				want = "decodes " + rec[a.half]
				if rec[a.half] == "" && got == "decodes nothing" {
					got = want
				}
			}
			if got != want {
				bad = append(bad, fmt.Sprintf("key %s: %s, the grammar says %s", key, got, want))
			}
		}
		sort.Strings(bad)
		r.check(len(bad) == 0 && cases > 0, rule, a.name+" hands the record's code list to its decode loop", c.fnPos(fn), fmt.Sprintf("%d keys; deviations: %v", cases, headList(bad, 3)))
	}
	r.floor(rule, 4)
	_ = n
}
