package main

// Argument roles: a value that is known to be a year, a month, a day of the month, an hour,
// a minute or a second (a field or getter of that name, a parameter of that name) must not be
// passed in the position of a parameter that is named as a different one of these.

import (
	"fmt"
	"sort"
	"strings"

	"golang.org/x/tools/go/ssa"
)

var dateRoles = []string{"year", "month", "day", "hour", "minute", "second"}

func roleOfName(n string) string {
	lower := strings.ToLower(n)
	for _, role := range dateRoles {
		if lower == role || strings.HasSuffix(n, strings.ToUpper(role[:1])+role[1:]) {
			return role
		}
	}
	return ""
}

func valueRole(c *Ctx, v ssa.Value) string {
	if cv, ok := v.(*ssa.Convert); ok {
		v = cv.X
	}
	if _, f, ok := getterField(c, v); ok {
		if i := strings.LastIndex(f, "."); i >= 0 {
			if r := roleOfName(f[i+1:]); r != "" {
				return r
			}
		}
	}
	switch x := v.(type) {
	case *ssa.Call:
		if callee := x.Common().StaticCallee(); callee != nil && callee.Signature.Recv() != nil && strings.HasPrefix(callee.Name(), "Get") && len(x.Common().Args) == 1 {
			return roleOfName(strings.TrimPrefix(callee.Name(), "Get"))
		}
	case *ssa.Parameter:
		return roleOfName(x.Name())
	}
	return ""
}

func argumentRolesRule(c *Ctx, r *Report, rule string, floor int) {
	r.rule(rule, "Argument roles. At every call of a library function, a value that is a year, month, day, hour, minute or second by its origin (a field or Get<Role> accessor of that name, a parameter of that name) is passed only to a parameter that is not named as a different one of the six: a (day, month) transposition type-checks, since both are int, and breaks every rule keyed by month and day. Likewise in every composed string (Sprintf with integer verbs, Itoa concatenation) the date components appear from the larger unit to the smaller (month before day).")
	n := 0
	seen := map[string]int{}
	for _, fn := range c.Funcs {
		for _, b := range fn.Blocks {
			for _, ins := range b.Instrs {
				call, ok := ins.(*ssa.Call)
				if !ok {
					continue
				}
				callee := call.Common().StaticCallee()
				if callee == nil || callee.Pkg == nil || !strings.HasPrefix(callee.Pkg.Pkg.Path(), c.ModPath) {
					continue
				}
				for i, a := range call.Common().Args {
					if i >= len(callee.Params) {
						break
					}
					pr := roleOfName(callee.Params[i].Name())
					ar := valueRole(c, a)
					if pr == "" || ar == "" {
						continue
					}
					n++
					if pr != ar {
						construct := uniq(seen, fmt.Sprintf("%s: argument %d of %s", fname(fn), i, fname(callee)))
						r.bad(rule, construct, c.pos(call.Pos()), fmt.Sprintf("a %s value (%s) is passed as the %s parameter %q", ar, describeValue(a), pr, callee.Params[i].Name()))
					}
				}
			}
		}
	}
	// composed strings (keys and renderings): components appear from the larger unit to the smaller
	rank := map[string]int{}
	for i, role := range dateRoles {
		rank[role] = i
	}
	nt := 0
	for _, fn := range c.Funcs {
		for _, b := range fn.Blocks {
			for _, ins := range b.Instrs {
				v, ok := ins.(ssa.Value)
				if !ok || !isStringType(v.Type()) {
					continue
				}
				if _, isCall := v.(*ssa.Call); !isCall {
					continue
				}
				parts, ok := keyTemplate(v, 0)
				if !ok {
					continue
				}
				prev := ""
				var roles []string
				okOrder := true
				for _, p := range parts {
					if p.val == nil {
						continue
					}
					role := valueRole(c, p.val)
					roles = append(roles, role)
					if role != "" && prev != "" && rank[role] <= rank[prev] {
						okOrder = false
					}
					if role != "" {
						prev = role
					}
				}
				if prev == "" {
					continue
				}
				nt++
				if !okOrder {
					construct := uniq(seen, fmt.Sprintf("%s: composed string %s", fname(fn), templateString(parts, func(v ssa.Value) string { return valueRole(c, v) })))
					r.bad(rule, construct, c.pos(ins.Pos()), fmt.Sprintf("the components are composed in the order %v: every month-day key table and every rendering of the library puts the larger unit first", roles))
				}
			}
		}
	}
	r.check(nt >= 20, rule, "role-typed components of composed strings", "-", fmt.Sprintf("%d composed strings with date components were checked for unit order (floor 20)", nt))
	r.check(n >= floor, rule, "role-typed arguments in the library", "-", fmt.Sprintf("%d arguments with a known role were checked against the role of their parameter (floor %d)", n, floor))
}

func describeValue(v ssa.Value) string {
	if call, ok := v.(*ssa.Call); ok && call.Common().StaticCallee() != nil {
		return call.Common().StaticCallee().Name() + "()"
	}
	return v.Name()
}

func r17_5(c *Ctx, r *Report) { argumentRolesRule(c, r, "R17.5", 150) }

// absLunar is the result of NewLunar(...) inside the evaluator.
type absLunar struct{ y, m, d, h, mi, s int64 }

// absWrap is a Taoist or Buddhist date built around an absLunar.
type absWrap struct {
	kind  string
	lunar absLunar
}

func r17_6(c *Ctx, r *Report) {
	const rule = "R17.6"
	r.rule(rule, "The Taoist and Buddhist constructors accept exactly what the lunar constructor accepts and shift only the year. NewTao, NewTaoFromYmd, NewFoto and NewFotoFromYmd are followed by the evaluator for months 1..12 and leap months -1..-12, days 1, 15, 29, 30 and a time of day: none of them panics or returns early on its own (NewLunar is the only judge of the date), and the object they return wraps NewLunar(year - 2697 resp. year - 544, month, day, h, m, s) with month, day and time unchanged.")
	for _, sp := range []struct {
		fn, kind, wrap string
		year, shift    int64
		withTime       bool
	}{
		{"calendar.NewTao", "Tao", "calendar.NewTaoFromLunar", 4718, -2697, true},
		{"calendar.NewTaoFromYmd", "Tao", "calendar.NewTaoFromLunar", 4718, -2697, false},
		{"calendar.NewFoto", "Foto", "calendar.NewFotoFromLunar", 2564, -544, true},
		{"calendar.NewFotoFromYmd", "Foto", "calendar.NewFotoFromLunar", 2564, -544, false},
	} {
		fn := c.Fn(r, rule, sp.fn)
		if fn == nil {
			continue
		}
		problems := map[string]bool{}
		n := 0
		for _, sign := range []int64{1, -1} {
			for mm := int64(1); mm <= 12; mm++ {
				for _, d := range []int64{1, 15, 29, 30} {
					if len(problems) > 5 {
						break
					}
					m := sign * mm
					args := []int64{sp.year, m, d, 13, 45, 10}
					var leaf leafX
					leaf = func(fr *evalFrame, v ssa.Value) (interface{}, bool) {
						if fr.parent == nil {
							for i, p := range fn.Params {
								if v == ssa.Value(p) {
									return args[i], true
								}
							}
						}
						call, ok := v.(*ssa.Call)
						if !ok || call.Common().StaticCallee() == nil {
							return nil, false
						}
						switch fname(call.Common().StaticCallee()) {
						case "calendar.NewLunar":
							var a []int64
							for _, x := range call.Common().Args {
								o, ok := evalWith(fr, x, leaf)
								k, isI := o.(int64)
								if !ok || !isI {
									return nil, false
								}
								a = append(a, k)
							}
							if len(a) == 6 {
								return absLunar{a[0], a[1], a[2], a[3], a[4], a[5]}, true
							}
						case "calendar.NewLunarFromYmd":
							var a []int64
							for _, x := range call.Common().Args {
								o, ok := evalWith(fr, x, leaf)
								k, isI := o.(int64)
								if !ok || !isI {
									return nil, false
								}
								a = append(a, k)
							}
							if len(a) == 3 {
								return absLunar{a[0], a[1], a[2], 0, 0, 0}, true
							}
						case sp.wrap:
							o, ok := evalWith(fr, call.Common().Args[0], leaf)
							if l, isL := o.(absLunar); ok && isL {
								return absWrap{sp.kind, l}, true
							}
						}
						return nil, false
					}
					ev := &evaluator{inline: inlineLibrary, leaf: leaf}
					res, outcome := ev.run(fn, nil, nil, nil, nil)
					n++
					want := absWrap{sp.kind, absLunar{sp.year + sp.shift, m, d, 0, 0, 0}}
					if sp.withTime {
						want.lunar.h, want.lunar.mi, want.lunar.s = 13, 45, 10
					}
					switch {
					case outcome == "panic":
						problems[fmt.Sprintf("(%d, %d, %d) is rejected by the constructor itself although the lunar constructor was not asked", sp.year, m, d)] = true
					case outcome != "return" || len(res) != 1:
						problems["the constructor could not be followed: "+outcome+" "+ev.fail] = true
					case res[0] != interface{}(want):
						problems[fmt.Sprintf("(%d, %d, %d) builds %+v, expected %+v", sp.year, m, d, res[0], want)] = true
					}
				}
			}
		}
		var ps []string
		for k := range problems {
			ps = append(ps, k)
		}
		sort.Strings(ps)
		r.check(len(ps) == 0 && n == 96, rule, sp.fn+" wraps NewLunar with only the year shifted", c.fnPos(fn), fmt.Sprintf("%d (month, day) cases incl. leap months; deviations: %v", n, headList(ps, 3)))
	}
}
