package main

// C08 — every accessor is total on valid dates and returns well-formed values.

import (
	"fmt"
	"go/constant"
	"go/token"
	"go/types"
	"sort"
	"strings"

	"golang.org/x/tools/go/ssa"
)

func init() {
	register("C08",
		"panics and malformed results that depend on numeric facts outside the named axioms (e.g. a 32nd day after a rounding carry in NewSolarFromJulianDay, the zero-month fall-through of NewLunarFromSolar); nil results of the term searches (AX-TERMS); whether table contents are the classical ones.",
		r08_1, r08_2, r08_4, r08_5, r08_6, r08_7, r08_8, r08_3, r04_8, r13_5, r08_9, r15_9, r08_10, r08_11)
}

// ---------- R08.1 list element types ----------

func r08_1(c *Ctx, r *Report) { listAssertRule(c, r, "R08.1", nil) }

func listAssertRule(c *Ctx, r *Report, rule string, only func(fn *ssa.Function) bool) {
	r.rule(rule, "List element types. Every unchecked assertion e.Value.(T) on an element of a container/list must name exactly the dynamic type of every value pushed into every list the element can come from (lists are followed from list.New() through locals, struct fields, returns and parameters; elements through Front/Back/Next/Prev).")
	lf := newListFlow(c)
	n := 0
	for _, as := range lf.elementAsserts() {
		if only != nil && !only(as.fn) {
			continue
		}
		n++
		want := as.ta.AssertedType
		construct := fmt.Sprintf("%s: .(%s)", fname(as.fn), strings.ReplaceAll(want.String(), c.ModPath+"/", ""))
		if !as.resolved {
			r.bad(rule, construct, c.pos(as.ta.Pos()), "the list this element comes from could not be resolved (undecided = fail)")
			continue
		}
		var wrong []string
		total := 0
		unknown := false
		for s := range as.lists {
			if len(lf.unknown[s]) > 0 {
				unknown = true
			}
			for _, t := range lf.elems[s] {
				total++
				if !types.Identical(t, want) {
					wrong = append(wrong, strings.ReplaceAll(t.String(), c.ModPath+"/", ""))
				}
			}
		}
		sort.Strings(wrong)
		switch {
		case len(wrong) > 0 && as.ta.CommaOk:
			r.ok(rule, construct, c.pos(as.ta.Pos()), "checked (comma-ok) assertion; pushed types differ: "+strings.Join(wrong, ", "))
		case len(wrong) > 0:
			r.bad(rule, construct, c.pos(as.ta.Pos()),
				fmt.Sprintf("the list holds %s but the unchecked assertion names %s: the call panics whenever the list is non-empty; lists: %s",
					strings.Join(lf.elemTypeNames(as.lists), ", "), strings.ReplaceAll(want.String(), c.ModPath+"/", ""), strings.Join(lf.siteNames(as.lists), "; ")))
		case unknown:
			r.bad(rule, construct, c.pos(as.ta.Pos()), "a value of statically unknown dynamic type is pushed into this list (undecided = fail)")
		case total == 0:
			r.ok(rule, construct, c.pos(as.ta.Pos()), "no push reaches this list (always empty)")
		default:
			r.ok(rule, construct, c.pos(as.ta.Pos()), "pushed types: "+strings.Join(lf.elemTypeNames(as.lists), ", ")+"; "+strings.Join(lf.siteNames(as.lists), "; "))
		}
	}
	if only == nil {
		r.floor(rule, 20)
		if len(lf.unknown[-1]) > 0 {
			r.bad(rule, "push into unresolved list", lf.unknown[-1][0], "a PushBack/PushFront receiver could not be resolved to a list.New() (undecided = fail)")
		}
		control(r, rule, "fx.(*Thing).First asserts Thing on a list of *Thing", func(fc *Ctx) bool {
			flf := newListFlow(fc)
			for _, as := range flf.elementAsserts() {
				if fname(as.fn) != "fx.(*Thing).First" || !as.resolved {
					continue
				}
				for s := range as.lists {
					for _, t := range flf.elems[s] {
						if !types.Identical(t, as.ta.AssertedType) {
							return true
						}
					}
				}
			}
			return false
		})
	}
}

// ---------- R08.2 possibly-empty strings into slicing ----------

type emptyCond struct {
	unconditional bool
	field         string // receiver field tested
	op            token.Token
	k             int64
	pos           token.Pos
}

// literalEmptyReturn: the function returns the constant "" on some path; if that
// path is selected by a single entry test on a receiver field, the test is returned.
func literalEmptyReturn(fn *ssa.Function) *emptyCond {
	if fn.Signature.Results().Len() != 1 {
		return nil
	}
	if b, ok := fn.Signature.Results().At(0).Type().Underlying().(*types.Basic); !ok || b.Kind() != types.String {
		return nil
	}
	var found *emptyCond
	for _, b := range fn.Blocks {
		for _, ins := range b.Instrs {
			ret, ok := ins.(*ssa.Return)
			if !ok {
				continue
			}
			cst, ok := ret.Results[0].(*ssa.Const)
			if !ok || cst.Value == nil || cst.Value.Kind() != constant.String || constant.StringVal(cst.Value) != "" {
				continue
			}
			ec := &emptyCond{unconditional: true, pos: ret.Pos()}
			// single-predecessor block reached from an If on a receiver field
			if len(b.Preds) == 1 && len(fn.Params) > 0 {
				p := b.Preds[0]
				if iff, ok := p.Instrs[len(p.Instrs)-1].(*ssa.If); ok {
					if bo, ok := iff.Cond.(*ssa.BinOp); ok {
						if fld, k, op, ok := fieldCmpConst(bo, fn.Params[0]); ok {
							if p.Succs[1] == b {
								op = negateOp(op)
							}
							ec = &emptyCond{field: fld, op: op, k: k, pos: ret.Pos()}
						}
					}
				}
			}
			if found != nil {
				return &emptyCond{unconditional: true, pos: ret.Pos()}
			}
			found = ec
		}
	}
	return found
}

// fieldCmpConst matches load(FieldAddr(recv, f)) <op> const (either order).
func fieldCmpConst(bo *ssa.BinOp, recv ssa.Value) (string, int64, token.Token, bool) {
	try := func(x, y ssa.Value, op token.Token) (string, int64, token.Token, bool) {
		ld, ok := x.(*ssa.UnOp)
		if !ok || ld.Op != token.MUL {
			return "", 0, op, false
		}
		fa, ok := ld.X.(*ssa.FieldAddr)
		if !ok || fa.X != recv {
			return "", 0, op, false
		}
		cst, ok := y.(*ssa.Const)
		if !ok || cst.Value == nil || cst.Value.Kind() != constant.Int {
			return "", 0, op, false
		}
		k, _ := constant.Int64Val(cst.Value)
		return fieldName(fa.X.Type().Underlying().(*types.Pointer).Elem(), fa.Field), k, op, true
	}
	if f, k, op, ok := try(bo.X, bo.Y, bo.Op); ok {
		return f, k, op, true
	}
	return try(bo.Y, bo.X, flipOp(bo.Op))
}

func negateOp(op token.Token) token.Token {
	switch op {
	case token.LSS:
		return token.GEQ
	case token.LEQ:
		return token.GTR
	case token.GTR:
		return token.LEQ
	case token.GEQ:
		return token.LSS
	case token.EQL:
		return token.NEQ
	case token.NEQ:
		return token.EQL
	}
	return op
}

func flipOp(op token.Token) token.Token {
	switch op {
	case token.LSS:
		return token.GTR
	case token.LEQ:
		return token.GEQ
	case token.GTR:
		return token.LSS
	case token.GEQ:
		return token.LEQ
	}
	return op
}

// requiresNonEmpty: parameter indices whose string value is sliced/indexed at a
// constant position without any length test in the function.
func requiresNonEmptyDirect(fn *ssa.Function) map[int]token.Pos {
	out := map[int]token.Pos{}
	hasLenTest := map[ssa.Value]bool{}
	derived := map[ssa.Value]int{} // value -> param index
	for i, p := range fn.Params {
		if b, ok := p.Type().Underlying().(*types.Basic); ok && b.Kind() == types.String {
			derived[p] = i
		}
	}
	if len(derived) == 0 {
		return out
	}
	for iter := 0; iter < 3; iter++ {
		for _, b := range fn.Blocks {
			for _, ins := range b.Instrs {
				switch x := ins.(type) {
				case *ssa.Convert:
					if i, ok := derived[x.X]; ok {
						derived[x] = i
					}
				case *ssa.Phi:
					// a phi of the parameter with something else is no longer the parameter
				}
			}
		}
	}
	for _, b := range fn.Blocks {
		for _, ins := range b.Instrs {
			if call, ok := ins.(*ssa.Call); ok {
				if bi, ok := call.Common().Value.(*ssa.Builtin); ok && bi.Name() == "len" {
					if _, ok := derived[call.Common().Args[0]]; ok {
						hasLenTest[call.Common().Args[0]] = true
					}
				}
			}
		}
	}
	constPos := func(v ssa.Value) bool {
		if v == nil {
			return false
		}
		c, ok := v.(*ssa.Const)
		if !ok || c.Value == nil || c.Value.Kind() != constant.Int {
			return false
		}
		k, _ := constant.Int64Val(c.Value)
		return k > 0
	}
	for _, b := range fn.Blocks {
		for _, ins := range b.Instrs {
			switch x := ins.(type) {
			case *ssa.Slice:
				if i, ok := derived[x.X]; ok && !hasLenTest[x.X] && (constPos(x.High) || constPos(x.Low)) {
					if _, dup := out[i]; !dup {
						out[i] = x.Pos()
					}
				}
			case *ssa.IndexAddr:
				if i, ok := derived[x.X]; ok && !hasLenTest[x.X] {
					if _, isC := x.Index.(*ssa.Const); isC {
						if _, dup := out[i]; !dup {
							out[i] = x.Pos()
						}
					}
				}
			}
		}
	}
	return out
}

func r08_2(c *Ctx, r *Report) {
	const rule = "R08.2"
	r.rule(rule, "Possibly-empty strings into slicing (typestate). A function that returns the literal \"\" on some path is maybe-empty (wrappers that return its result inherit this); a string parameter that is sliced or indexed at a constant position without a length test requires non-empty (callers that pass their own parameter through inherit this). No maybe-empty result may flow into a requires-non-empty parameter unless the call is dominated by the negation of the very receiver-field test under which the callee returns \"\".")
	emptyRes, req := emptinessSummaries(c)
	n := 0
	for _, fn := range c.Funcs {
		for _, b := range fn.Blocks {
			for _, ins := range b.Instrs {
				call, ok := ins.(*ssa.Call)
				if !ok {
					continue
				}
				callee := call.Common().StaticCallee()
				if callee == nil || req[callee] == nil {
					continue
				}
				for idx, why := range req[callee] {
					if idx >= len(call.Common().Args) {
						continue
					}
					arg := call.Common().Args[idx]
					n++
					construct := fmt.Sprintf("%s -> %s(arg %d)", fname(fn), fname(callee), idx)
					src, ok := arg.(*ssa.Call)
					if !ok {
						r.ok(rule, construct, c.pos(call.Pos()), "argument is not the result of a maybe-empty function")
						continue
					}
					sc := src.Common().StaticCallee()
					ec := emptyRes[sc]
					if sc == nil || ec == nil {
						r.ok(rule, construct, c.pos(call.Pos()), "argument comes from "+fname(sc)+", which has no literal empty return")
						continue
					}
					if !ec.unconditional && len(src.Common().Args) > 0 && len(fn.Params) > 0 && src.Common().Args[0] == ssa.Value(fn.Params[0]) &&
						dominatedByFieldGuard(fn, call.Block(), ec) {
						r.ok(rule, construct, c.pos(call.Pos()), fmt.Sprintf("%s returns \"\" only when %s %s %d; this call is dominated by the negation of that test on the same receiver", fname(sc), ec.field, ec.op, ec.k))
						continue
					}
					r.bad(rule, construct, c.pos(call.Pos()),
						fmt.Sprintf("%s can return the literal \"\" (%s) and its result is passed to %s, which slices/indexes it at a constant position without a length test (%s): index out of range at run time",
							fname(sc), c.pos(ec.pos), fname(callee), c.pos(why)))
				}
			}
		}
	}
	nm, nr := 0, 0
	for range emptyRes {
		nm++
	}
	for range req {
		nr++
	}
	r.note("R08.2: %d maybe-empty functions, %d functions with a requires-non-empty parameter, %d flows checked", nm, nr, n)
	r.floor(rule, 15)
	control(r, rule, "fx.Head passes maybe() into head()", func(fc *Ctx) bool {
		er, rq := emptinessSummaries(fc)
		return er[fc.FuncBy["fx.maybe"]] != nil && rq[fc.FuncBy["fx.head"]] != nil
	})
}

func emptinessSummaries(c *Ctx) (map[*ssa.Function]*emptyCond, map[*ssa.Function]map[int]token.Pos) {
	emptyRes := map[*ssa.Function]*emptyCond{}
	req := map[*ssa.Function]map[int]token.Pos{}
	for _, fn := range c.Funcs {
		if ec := literalEmptyReturn(fn); ec != nil {
			emptyRes[fn] = ec
		}
		if m := requiresNonEmptyDirect(fn); len(m) > 0 {
			req[fn] = m
		}
	}
	// propagate: wrappers returning a maybe-empty call result; callers passing a parameter through
	for iter := 0; iter < 10; iter++ {
		ch := false
		for _, fn := range c.Funcs {
			for _, b := range fn.Blocks {
				for _, ins := range b.Instrs {
					switch x := ins.(type) {
					case *ssa.Return:
						if len(x.Results) == 1 && emptyRes[fn] == nil {
							if call, ok := x.Results[0].(*ssa.Call); ok {
								if sc := call.Common().StaticCallee(); sc != nil && emptyRes[sc] != nil {
									// a wrapper that guards the call keeps the callee's condition only when it is the identical receiver
									emptyRes[fn] = &emptyCond{unconditional: true, pos: emptyRes[sc].pos}
									ch = true
								}
							}
						}
					case *ssa.Call:
						sc := x.Common().StaticCallee()
						if sc == nil || req[sc] == nil {
							continue
						}
						for idx, pos := range req[sc] {
							if idx >= len(x.Common().Args) {
								continue
							}
							if p, ok := x.Common().Args[idx].(*ssa.Parameter); ok {
								for pi, fp := range fn.Params {
									if fp == p {
										if req[fn] == nil {
											req[fn] = map[int]token.Pos{}
										}
										if _, ok := req[fn][pi]; !ok {
											req[fn][pi] = pos
											ch = true
										}
									}
								}
							}
						}
					}
				}
			}
		}
		if !ch {
			break
		}
	}
	return emptyRes, req
}

// dominatedByFieldGuard: block b of fn is dominated by a branch edge on which
// "recv.field op k" (the callee's emptiness condition) is false.
func dominatedByFieldGuard(fn *ssa.Function, b *ssa.BasicBlock, ec *emptyCond) bool {
	for _, blk := range fn.Blocks {
		if len(blk.Instrs) == 0 {
			continue
		}
		iff, ok := blk.Instrs[len(blk.Instrs)-1].(*ssa.If)
		if !ok {
			continue
		}
		bo, ok := iff.Cond.(*ssa.BinOp)
		if !ok {
			continue
		}
		fld, k, op, ok := fieldCmpConst(bo, fn.Params[0])
		if !ok || fld != ec.field || k != ec.k {
			continue
		}
		// successor on which the emptiness condition is false
		var safe *ssa.BasicBlock
		if op == ec.op {
			safe = blk.Succs[1]
		} else if op == negateOp(ec.op) {
			safe = blk.Succs[0]
		}
		if safe != nil && len(safe.Preds) == 1 && safe.Dominates(b) {
			return true
		}
	}
	return false
}
