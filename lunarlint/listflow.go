package main

// E7: element-type flow for container/list.
//
// A whole-library inclusion-based analysis restricted to values of type
// *list.List: every call of list.New() is an abstract list; lists flow through
// phis, struct fields, returns, parameters and package variables. For every
// abstract list the set of dynamic types pushed into it (PushBack / PushFront)
// is collected. Every unchecked assertion e.Value.(T) is resolved to the lists
// its element e can come from (Front/Back/Next/Prev chains) and T is compared
// with the pushed types.

import (
	"fmt"
	"go/token"
	"go/types"
	"sort"
	"strings"

	"golang.org/x/tools/go/ssa"
)

type listSite struct {
	id   int
	call *ssa.Call
	fn   *ssa.Function
}

type listFlow struct {
	c       *Ctx
	sites   []*listSite
	pts     map[string]map[int]bool // node -> sites
	elems   map[int]map[string]types.Type
	unknown map[int][]string // pushes whose dynamic type could not be determined
	copies  map[int]map[int]bool
	valKey  map[ssa.Value]string
	nval    int
}

func isListPtr(t types.Type) bool {
	return t.String() == "*container/list.List"
}

func isElemPtr(t types.Type) bool {
	return t.String() == "*container/list.Element"
}

func (lf *listFlow) key(v ssa.Value) string {
	if g, ok := v.(*ssa.Global); ok {
		return "g:" + gname(g)
	}
	if k, ok := lf.valKey[v]; ok {
		return k
	}
	lf.nval++
	k := fmt.Sprintf("v%d", lf.nval)
	lf.valKey[v] = k
	return k
}

func (lf *listFlow) add(node string, sites map[int]bool) bool {
	if len(sites) == 0 {
		return false
	}
	m := lf.pts[node]
	if m == nil {
		m = map[int]bool{}
		lf.pts[node] = m
	}
	ch := false
	for s := range sites {
		if !m[s] {
			m[s] = true
			ch = true
		}
	}
	return ch
}

func fieldNode(fa *ssa.FieldAddr) string {
	st := fa.X.Type().Underlying().(*types.Pointer).Elem()
	n := "?"
	if nt, ok := st.(*types.Named); ok {
		n = nt.Obj().Name()
	}
	return "f:" + n + "." + fieldName(st, fa.Field)
}

func newListFlow(c *Ctx) *listFlow {
	lf := &listFlow{c: c, pts: map[string]map[int]bool{}, elems: map[int]map[string]types.Type{}, unknown: map[int][]string{},
		copies: map[int]map[int]bool{}, valKey: map[ssa.Value]string{}}
	siteOf := map[*ssa.Call]*listSite{}
	for _, fn := range c.Funcs {
		for _, b := range fn.Blocks {
			for _, ins := range b.Instrs {
				if call, ok := ins.(*ssa.Call); ok {
					if callee := call.Common().StaticCallee(); callee != nil && callee.String() == "container/list.New" {
						s := &listSite{id: len(lf.sites), call: call, fn: fn}
						lf.sites = append(lf.sites, s)
						siteOf[call] = s
					}
				}
			}
		}
	}
	// fixpoint over inclusion constraints
	for iter := 0; iter < 50; iter++ {
		changed := false
		for _, fn := range c.Funcs {
			for _, b := range fn.Blocks {
				for _, ins := range b.Instrs {
					switch x := ins.(type) {
					case *ssa.Call:
						if s := siteOf[x]; s != nil {
							if lf.add(lf.key(x), map[int]bool{s.id: true}) {
								changed = true
							}
							continue
						}
						callee := x.Common().StaticCallee()
						if callee == nil && !x.Common().IsInvoke() {
							// a call through a function value with a finite set of known targets
							for _, t := range funcTargets(c, x.Common().Value, 0) {
								if t.Blocks == nil {
									continue
								}
								if t.Synthetic != "" && t.Pkg == nil && t.Object() != nil && t.Prog != nil {
									// the wrapper behind a bound method value returns what the method returns
									if m, ok := t.Object().(*types.Func); ok {
										if real := t.Prog.FuncValue(m); real != nil && real != t {
											if isListPtr(x.Type()) && lf.add(lf.key(x), lf.pts["ret:"+fname(real)]) {
												changed = true
											}
											continue
										}
									}
								}
								if len(t.Params) == len(x.Common().Args) {
									for i, arg := range x.Common().Args {
										if isListPtr(arg.Type()) && lf.add(lf.key(t.Params[i]), lf.pts[lf.key(arg)]) {
											changed = true
										}
									}
								}
								if isListPtr(x.Type()) && lf.add(lf.key(x), lf.pts["ret:"+fname(t)]) {
									changed = true
								}
							}
							continue
						}
						if callee == nil || callee.Blocks == nil {
							continue
						}
						for i, arg := range x.Common().Args {
							if i < len(callee.Params) && isListPtr(arg.Type()) {
								if lf.add(lf.key(callee.Params[i]), lf.pts[lf.key(arg)]) {
									changed = true
								}
							}
						}
						if isListPtr(x.Type()) {
							if lf.add(lf.key(x), lf.pts["ret:"+fname(callee)]) {
								changed = true
							}
						}
					case *ssa.Phi:
						if isListPtr(x.Type()) {
							for _, e := range x.Edges {
								if lf.add(lf.key(x), lf.pts[lf.key(e)]) {
									changed = true
								}
							}
						}
					case *ssa.Store:
						if isListPtr(x.Val.Type()) {
							switch a := x.Addr.(type) {
							case *ssa.FieldAddr:
								if lf.add(fieldNode(a), lf.pts[lf.key(x.Val)]) {
									changed = true
								}
							case *ssa.Global:
								if lf.add(lf.key(a), lf.pts[lf.key(x.Val)]) {
									changed = true
								}
							case *ssa.Alloc:
								if lf.add(lf.key(a), lf.pts[lf.key(x.Val)]) {
									changed = true
								}
							case *ssa.FreeVar:
								if lf.add(lf.key(a), lf.pts[lf.key(x.Val)]) {
									changed = true
								}
							}
						}
					case *ssa.UnOp:
						if x.Op == token.MUL && isListPtr(x.Type()) {
							switch a := x.X.(type) {
							case *ssa.FieldAddr:
								if lf.add(lf.key(x), lf.pts[fieldNode(a)]) {
									changed = true
								}
							case *ssa.Global:
								if lf.add(lf.key(x), lf.pts[lf.key(a)]) {
									changed = true
								}
							case *ssa.Alloc:
								if lf.add(lf.key(x), lf.pts[lf.key(a)]) {
									changed = true
								}
							case *ssa.FreeVar:
								// a variable a function literal captured: the cell its maker bound
								if lf.add(lf.key(x), lf.pts[lf.key(a)]) {
									changed = true
								}
							}
						}
					case *ssa.MakeClosure:
						if f, ok := x.Fn.(*ssa.Function); ok {
							for i, bnd := range x.Bindings {
								if i < len(f.FreeVars) {
									if lf.add(lf.key(f.FreeVars[i]), lf.pts[lf.key(bnd)]) {
										changed = true
									}
								}
							}
						}
					case *ssa.Return:
						for _, res := range x.Results {
							if isListPtr(res.Type()) {
								if lf.add("ret:"+fname(fn), lf.pts[lf.key(res)]) {
									changed = true
								}
							}
						}
					}
				}
			}
		}
		if !changed {
			break
		}
	}
	// pushes
	for _, fn := range c.Funcs {
		for _, b := range fn.Blocks {
			for _, ins := range b.Instrs {
				call, ok := ins.(*ssa.Call)
				if !ok {
					continue
				}
				callee := call.Common().StaticCallee()
				if callee == nil || !strings.HasPrefix(callee.String(), "(*container/list.List).") {
					continue
				}
				args := call.Common().Args
				switch callee.Name() {
				case "PushBack", "PushFront", "InsertBefore", "InsertAfter":
					val := args[1]
					for s := range lf.pts[lf.key(args[0])] {
						if lf.elems[s] == nil {
							lf.elems[s] = map[string]types.Type{}
						}
						if mi, ok := val.(*ssa.MakeInterface); ok {
							lf.elems[s][mi.X.Type().String()] = mi.X.Type()
						} else if src := lf.elemListOfValue(val); src != nil {
							for o := range src {
								if lf.copies[s] == nil {
									lf.copies[s] = map[int]bool{}
								}
								lf.copies[s][o] = true
							}
						} else {
							lf.unknown[s] = append(lf.unknown[s], c.pos(call.Pos()))
						}
					}
					if len(lf.pts[lf.key(args[0])]) == 0 {
						// push into a list of unknown origin
						lf.unknown[-1] = append(lf.unknown[-1], c.pos(call.Pos()))
					}
				case "PushBackList", "PushFrontList":
					for s := range lf.pts[lf.key(args[0])] {
						for o := range lf.pts[lf.key(args[1])] {
							if lf.copies[s] == nil {
								lf.copies[s] = map[int]bool{}
							}
							lf.copies[s][o] = true
						}
					}
				}
			}
		}
	}
	// propagate copies
	for iter := 0; iter < 20; iter++ {
		ch := false
		for s, from := range lf.copies {
			for o := range from {
				for k, t := range lf.elems[o] {
					if lf.elems[s] == nil {
						lf.elems[s] = map[string]types.Type{}
					}
					if _, ok := lf.elems[s][k]; !ok {
						lf.elems[s][k] = t
						ch = true
					}
				}
				if len(lf.unknown[o]) > 0 && len(lf.unknown[s]) == 0 {
					lf.unknown[s] = append(lf.unknown[s], lf.unknown[o]...)
					ch = true
				}
			}
		}
		if !ch {
			break
		}
	}
	return lf
}

// elemListOfValue: if v is (derived from) e.Value of a list element, the lists e can belong to.
func (lf *listFlow) elemListOfValue(v ssa.Value) map[int]bool {
	if ta, ok := v.(*ssa.TypeAssert); ok {
		v = ta.X
	}
	ld, ok := v.(*ssa.UnOp)
	if !ok || ld.Op != token.MUL {
		return nil
	}
	fa, ok := ld.X.(*ssa.FieldAddr)
	if !ok || !isElemPtr(fa.X.Type()) {
		return nil
	}
	lists, ok := lf.listsOfElement(fa.X, map[ssa.Value]bool{})
	if !ok {
		return nil
	}
	return lists
}

// listsOfElement resolves a *list.Element value to the abstract lists it can belong to.
func (lf *listFlow) listsOfElement(e ssa.Value, seen map[ssa.Value]bool) (map[int]bool, bool) {
	out := map[int]bool{}
	if seen[e] {
		return out, true
	}
	seen[e] = true
	switch x := e.(type) {
	case *ssa.Phi:
		for _, ed := range x.Edges {
			if c, ok := ed.(*ssa.Const); ok && c.Value == nil {
				continue
			}
			m, ok := lf.listsOfElement(ed, seen)
			if !ok {
				return nil, false
			}
			for k := range m {
				out[k] = true
			}
		}
		return out, true
	case *ssa.Call:
		callee := x.Common().StaticCallee()
		if callee == nil {
			return nil, false
		}
		switch callee.String() {
		case "(*container/list.List).Front", "(*container/list.List).Back":
			p := lf.pts[lf.key(x.Common().Args[0])]
			if len(p) == 0 {
				return nil, false
			}
			for k := range p {
				out[k] = true
			}
			return out, true
		case "(*container/list.Element).Next", "(*container/list.Element).Prev":
			return lf.listsOfElement(x.Common().Args[0], seen)
		case "(*container/list.List).PushBack", "(*container/list.List).PushFront":
			p := lf.pts[lf.key(x.Common().Args[0])]
			for k := range p {
				out[k] = true
			}
			return out, len(p) > 0
		}
	}
	return nil, false
}

type assertSite struct {
	fn       *ssa.Function
	ta       *ssa.TypeAssert
	lists    map[int]bool
	resolved bool
}

// elementAsserts finds every type assertion applied to the Value of a list element.
func (lf *listFlow) elementAsserts() []assertSite {
	var out []assertSite
	for _, fn := range lf.c.Funcs {
		for _, b := range fn.Blocks {
			for _, ins := range b.Instrs {
				ta, ok := ins.(*ssa.TypeAssert)
				if !ok {
					continue
				}
				ld, ok := ta.X.(*ssa.UnOp)
				if !ok || ld.Op != token.MUL {
					continue
				}
				fa, ok := ld.X.(*ssa.FieldAddr)
				if !ok || !isElemPtr(fa.X.Type()) {
					continue
				}
				lists, ok := lf.listsOfElement(fa.X, map[ssa.Value]bool{})
				out = append(out, assertSite{fn: fn, ta: ta, lists: lists, resolved: ok && len(lists) > 0})
			}
		}
	}
	return out
}

func (lf *listFlow) elemTypeNames(lists map[int]bool) []string {
	m := map[string]bool{}
	for s := range lists {
		for k := range lf.elems[s] {
			m[k] = true
		}
	}
	out := sortedKeys(m)
	for i := range out {
		out[i] = strings.ReplaceAll(out[i], lf.c.ModPath+"/", "")
	}
	return out
}

func (lf *listFlow) siteNames(lists map[int]bool) []string {
	var out []string
	for s := range lists {
		out = append(out, fmt.Sprintf("list.New() in %s (%s)", fname(lf.sites[s].fn), lf.c.pos(lf.sites[s].call.Pos())))
	}
	sort.Strings(out)
	return out
}
