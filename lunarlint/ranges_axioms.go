package main

// Named axioms of the range analysis. Each is a numeric fact the static
// analysis cannot derive (it lives in the astronomy or in date arithmetic);
// every value that depends on one carries its name, and obligations proven with
// its help are reported as PROVEN-UNDER(name).

type axiomDoc struct{ name, text string }

var axiomDocs = []axiomDoc{
	{"AX-YEAR", "civil and lunar years are in [0, 9999] (the properties' own range)"},
	{"AX-JD", "(*Solar).GetJulianDay() lies in [1721057.5, 5373484.5] for those years, so int(jd-11) >= 0 in computeDay"},
	{"AX-MONTHLEN", "LunarMonth.dayCount is 29 or 30 (numeric core of C06/C02)"},
	{"AX-FOUND", "NewLunarFromSolar's month search matches: Lunar.month in [-12,-1] u [1,12], Lunar.day in [1,30]"},
	{"AX-PARITY", "stem and branch indices of one pillar have equal parity, so every pillar string is one of the 60 entries of JIA_ZI and GetJiaZiIndex(pillar) is in [0,59]"},
	{"AX-DATEDIFF", "civil-day arithmetic: a.Subtract(b) >= 0 when the call is guarded by 'a is not before b' (and < k when guarded by 'a is before b.NextDay(k)')"},
	{"AX-SEARCHHIT", "a linear search for a pillar's stem/branch in a 1-based vocabulary table finds it: the found index is >= 1 and the not-found exit is not taken"},
	{"AX-AGE", "a fortune chart starts at or after birth: DaYun.startAge >= 1"},
	{"AX-API", "preconditions of unvalidated entry points: GetDaYunBy/GetLiuNianBy/GetXiaoYunBy(n) with 0 <= n <= 10; week start in [0,6]; month argument of NewSolarMonthFromYm/NewSolarSeasonFromYm/NewSolarHalfYearFromYm in [1,12]"},
}

func axText(name string) string {
	for _, d := range axiomDocs {
		if d.name == name {
			return d.name + ": " + d.text
		}
	}
	return name
}

// closedWorldFns: exported functions whose integer parameters take the join of the
// library's own call sites instead of "any int". C08 quantifies over objects
// reachable from valid dates; these constructors/helpers are called by the library
// with values it computed, and a client that calls them directly with other
// integers builds objects outside that quantifier.
var closedWorldFns = map[string]string{
	"calendar.NewNineStar":         "star objects reachable from a date are built by the nine-star accessors only (R16.1 checks every call site)",
	"calendar.NewLunarMonth":       "month objects are built by LunarYear.compute only",
	"calendar.NewDaYun":            "built by Yun.GetDaYunBy",
	"calendar.NewLiuNian":          "built by DaYun.GetLiuNianBy",
	"calendar.NewXiaoYun":          "built by DaYun.GetXiaoYunBy",
	"calendar.NewLiuYue":           "built by LiuNian.GetLiuYue",
	"calendar.NewShuJiu":           "built by Lunar.GetShuJiu",
	"calendar.NewFu":               "built by Lunar.GetFu",
	"SolarUtil.GetDaysOfMonth":     "called with the month of a validated Solar or a loop counter in 1..12",
	"SolarUtil.GetDaysInYear":      "called with the fields of a validated Solar",
	"SolarUtil.GetDaysBetween":     "called with the fields of validated Solars",
	"SolarUtil.GetWeek":            "called with the fields of a validated Solar",
	"SolarUtil.GetJulianDay":       "called with the fields of a validated Solar",
	"SolarUtil.GetWeeksOfMonth":    "called with the fields of a SolarWeek",
	"FotoUtil.GetXiu":              "called with the month and day of a Lunar",
	"calendar.NewSolarWeekFromYmd": "week objects reachable from a date are built from validated Solars (week start: AX-API)",
}

func installAxioms(e *rangeEngine) {
	for f := range closedWorldFns {
		e.closedWorld[f] = true
	}
	e.retFOverride["SolarUtil.GetJulianDay"] = fval{lo: 1721057.5, hi: 5373484.5, ax: axBit("AX-JD")}
	year := rangeVal(0, 9999).withAx(axBit("AX-YEAR"))
	for _, f := range []string{"Solar.year", "Lunar.year", "LunarYear.year", "LunarMonth.year", "SolarWeek.year", "SolarMonth.year", "SolarSeason.year", "SolarHalfYear.year", "SolarYear.year"} {
		e.fieldOverride[f] = year
	}
	e.retFOverride["calendar.(*Solar).GetJulianDay"] = fval{lo: 1721057.5, hi: 5373484.5, ax: axBit("AX-JD")}
	e.fieldOverride["LunarMonth.dayCount"] = rangeVal(29, 30).withAx(axBit("AX-MONTHLEN"))
	e.fieldOverride["Lunar.month"] = aval{sp: []span{{-12, -1}, {1, 12}}, ax: axBit("AX-FOUND")}
	e.fieldOverride["Lunar.day"] = rangeVal(1, 30).withAx(axBit("AX-FOUND"))
	e.retOverride["LunarUtil.GetJiaZiIndex"] = rangeVal(0, 59).withAx(axBit("AX-PARITY"))
	dd := axBit("AX-DATEDIFF")
	e.siteOverride["calendar.(*Lunar).GetShuJiu|calendar.(*Solar).Subtract"] = rangeVal(0, 80).withAx(dd)
	for _, f := range []string{"GetHou", "GetWuHou"} {
		e.siteOverride["calendar.(*Lunar)."+f+"|calendar.(*Solar).Subtract"] = rangeVal(0, pinf).withAx(dd)
	}
	e.siteOverride["calendar.(*Yun).computeStart|calendar.(*Solar).SubtractMinute"] = rangeVal(0, pinf).withAx(dd)
	e.siteOverride["calendar.(*Yun).computeStart|calendar.(*Solar).Subtract"] = rangeVal(0, pinf).withAx(dd)
	// after the hour borrow the day difference is still >= 0 (end is not before start as an instant)
	e.siteOverride["calendar.(*Yun).computeStart|phi-of:calendar.(*Solar).Subtract"] = rangeVal(0, pinf).withAx(dd)
	e.fieldOverride["DaYun.startAge"] = rangeVal(1, 20000).withAx(axBit("AX-AGE"))
	api := axBit("AX-API")
	e.fieldOverride["SolarWeek.start"] = rangeVal(0, 6).withAx(api)
	for _, f := range []string{"calendar.NewSolarMonthFromYm", "calendar.NewSolarSeasonFromYm", "calendar.NewSolarHalfYearFromYm"} {
		e.paramOverride[f] = map[int]aval{1: rangeVal(1, 12).withAx(api)}
	}
	for _, f := range []string{"calendar.(*Yun).GetDaYunBy", "calendar.(*DaYun).GetLiuNianBy", "calendar.(*DaYun).GetXiaoYunBy"} {
		e.paramOverride[f] = map[int]aval{1: rangeVal(0, 10).withAx(api)}
	}
	for _, f := range []string{"calendar.ListSolarFromBaZi", "calendar.ListSolarFromBaZiBySect", "calendar.ListSolarFromBaZiBySectAndBaseYear"} {
		e.siteOverride[f+"|LunarUtil.Find"] = rangeVal(0, 11).withAx(axBit("AX-SEARCHHIT"))
	}
	for _, f := range []string{"calendar.(*EightChar).GetMingGong", "calendar.(*EightChar).GetShenGong", "LunarUtil.GetXunIndex"} {
		e.searchHit[f] = true
	}
}
