package main

// Branch facts: what is known to hold whenever control reaches a block.
//
// A fact is a branch condition with the polarity every path to the block takes it in, read off
// the dominator tree (a conditional branch D -> S contributes when S dominates the block and D is
// S's only predecessor). A condition that is a call of a loop-free boolean library helper is
// expanded into the facts common to all paths of the helper that can return that truth value, in
// the helper's own frame (so that parameters resolve to the caller's arguments, see
// evalFrame.origin); a block of an unexported helper with a single call site inherits the facts
// at that call site. Nothing is evaluated: facts are syntactic conditions with a frame.

import (
	"go/token"

	"golang.org/x/tools/go/ssa"
)

type fact struct {
	cond  ssa.Value
	truth bool
	fr    *evalFrame
	at    *ssa.BasicBlock // the block (of the function the facts were asked for) whose branch tests it
}

// domFacts: the branch conditions that dominate block b in fr.fn.
func domFacts(fr *evalFrame, b *ssa.BasicBlock) []fact {
	var out []fact
	for d := b.Idom(); d != nil; d = d.Idom() {
		iff, ok := d.Instrs[len(d.Instrs)-1].(*ssa.If)
		if !ok || d.Succs[0] == d.Succs[1] {
			continue
		}
		for i, s := range d.Succs {
			if len(s.Preds) == 1 && (s == b || s.Dominates(b)) {
				out = append(out, fact{iff.Cond, i == 0, fr, d})
			}
		}
	}
	return out
}

// expandFacts expands negations and boolean helper calls.
func expandFacts(c *Ctx, in []fact, depth int) []fact {
	var out []fact
	for _, f := range in {
		if un, ok := f.cond.(*ssa.UnOp); ok && un.Op == token.NOT {
			out = append(out, expandFacts(c, []fact{{un.X, !f.truth, f.fr, f.at}}, depth)...)
			continue
		}
		out = append(out, f)
		if phi, ok := f.cond.(*ssa.Phi); ok && depth <= 4 {
			// a && b / a || b computed as a value: when only one incoming edge can carry the known truth
			// value, control came that way, so what dominates that edge holds as well
			var live []int
			for i, e := range phi.Edges {
				if k, isK := constBool(e); isK && k != f.truth {
					continue
				}
				live = append(live, i)
			}
			if len(live) == 1 {
				i := live[0]
				pred := phi.Block().Preds[i]
				sub := domFacts(f.fr, pred)
				for k := range sub {
					sub[k].at = f.at
				}
				if iff, isIf := pred.Instrs[len(pred.Instrs)-1].(*ssa.If); isIf && pred.Succs[0] != pred.Succs[1] {
					sub = append(sub, fact{iff.Cond, pred.Succs[0] == phi.Block(), f.fr, f.at})
				}
				if _, isK := constBool(phi.Edges[i]); !isK {
					sub = append(sub, fact{phi.Edges[i], f.truth, f.fr, f.at})
				}
				out = append(out, expandFacts(c, sub, depth+1)...)
			}
			continue
		}
		call, ok := f.cond.(*ssa.Call)
		if !ok || depth > 2 {
			continue
		}
		callee := call.Common().StaticCallee()
		if callee == nil || !inlineLibrary(callee) || callee.Signature.Results().Len() != 1 {
			continue
		}
		hf := helperFacts(c, f.fr, call, callee, f.truth, depth+1)
		for k := range hf {
			hf[k].at = f.at
		}
		out = append(out, hf...)
	}
	return out
}

// helperFacts: the facts common to every path of callee on which it can return want.
func helperFacts(c *Ctx, parent *evalFrame, call *ssa.Call, callee *ssa.Function, want bool, depth int) []fact {
	paths, ok := enumPaths(callee.Blocks[0], nil, 4000)
	if !ok {
		return nil
	}
	fr := &evalFrame{fn: callee, parent: parent, call: call}
	type key struct {
		cond  ssa.Value
		truth bool
	}
	var common map[key]bool
	for i := range paths {
		p := &paths[i]
		ret, isRet := p.end.Instrs[len(p.end.Instrs)-1].(*ssa.Return)
		if !isRet || len(ret.Results) != 1 {
			continue // a panicking path returns nothing
		}
		v := p.resolve(ret.Results[0])
		set := map[key]bool{}
		if k, isK := constBool(v); isK {
			if k != want {
				continue
			}
		} else {
			set[key{v, want}] = true
		}
		for _, pc := range p.conds {
			set[key{pc.cond, pc.truth}] = true
		}
		if common == nil {
			common = set
			continue
		}
		for k := range common {
			if !set[k] {
				delete(common, k)
			}
		}
	}
	var fs []fact
	for _, b := range callee.Blocks { // a deterministic order: by the position of the condition's block
		for _, ins := range b.Instrs {
			v, isV := ins.(ssa.Value)
			if !isV {
				continue
			}
			for _, t := range []bool{true, false} {
				if common[key{v, t}] {
					fs = append(fs, fact{v, t, fr, nil})
				}
			}
		}
	}
	return expandFacts(c, fs, depth)
}

// callSitesOf lists the static call sites of fn in the library.
func (c *Ctx) callSitesOf(fn *ssa.Function) []*ssa.Call {
	var out []*ssa.Call
	for _, g := range c.Funcs {
		for _, b := range g.Blocks {
			for _, ins := range b.Instrs {
				if call, ok := ins.(*ssa.Call); ok && call.Common().StaticCallee() == fn {
					out = append(out, call)
				}
			}
		}
	}
	return out
}

// factsAt: the facts that hold at block b of fn, together with the frame b is read in. When fn is
// an unexported helper with one call site, the frame is a child of the caller's and the facts at
// the call site are included.
func factsAt(c *Ctx, fn *ssa.Function, b *ssa.BasicBlock) (*evalFrame, []fact) {
	var build func(fn *ssa.Function, depth int) (*evalFrame, []fact)
	build = func(fn *ssa.Function, depth int) (*evalFrame, []fact) {
		if depth < 3 && isLocalHelper(fn) {
			if sites := c.callSitesOf(fn); len(sites) == 1 {
				pfr, pf := build(sites[0].Parent(), depth+1)
				pf = append(pf, domFacts(pfr, sites[0].Block())...)
				return &evalFrame{fn: fn, parent: pfr, call: sites[0]}, pf
			}
		}
		return &evalFrame{fn: fn}, nil
	}
	fr, fs := build(fn, 0)
	fs = append(fs, domFacts(fr, b)...)
	return fr, expandFacts(c, fs, 0)
}

// isLocalHelper: an unexported function or a function literal: all its callers are in the library.
func isLocalHelper(fn *ssa.Function) bool {
	if fn.Object() != nil {
		return !fn.Object().Exported()
	}
	return fn.Parent() != nil
}

// factsRooted: the ways control reaches b that start in root (a helper shared by several exported entries is
// looked at as part of the entry the rule is about); all ways when none starts there.
func factsRooted(c *Ctx, root, fn *ssa.Function, b *ssa.BasicBlock) []factCtx {
	all := factsAtAll(c, fn, b)
	var out []factCtx
	for _, ctx := range all {
		top := ctx.fr
		for top.parent != nil {
			top = top.parent
		}
		if top.fn == root {
			out = append(out, ctx)
		}
	}
	if len(out) == 0 {
		return all
	}
	return out
}

// factCtx: one way control reaches a block: the frame chain and what is known there.
type factCtx struct {
	fr    *evalFrame
	facts []fact
}

// factsAtAll: like factsAt, once per chain of call sites when a helper or function literal on the way is
// called from several places (what a rule needs must then hold in every context).
func factsAtAll(c *Ctx, fn *ssa.Function, b *ssa.BasicBlock) []factCtx {
	type partial struct {
		fr *evalFrame
		fs []fact
	}
	var build func(fn *ssa.Function, depth int) []partial
	build = func(fn *ssa.Function, depth int) []partial {
		if depth < 3 && isLocalHelper(fn) {
			if sites := c.callSitesOf(fn); len(sites) >= 1 && len(sites) <= 4 {
				var out []partial
				for _, site := range sites {
					for _, p := range build(site.Parent(), depth+1) {
						fs := append(append([]fact{}, p.fs...), domFacts(p.fr, site.Block())...)
						out = append(out, partial{&evalFrame{fn: fn, parent: p.fr, call: site}, fs})
					}
				}
				if len(out) > 0 && len(out) <= 8 {
					return out
				}
			}
		}
		return []partial{{&evalFrame{fn: fn}, nil}}
	}
	var out []factCtx
	for _, p := range build(fn, 0) {
		fs := append(append([]fact{}, p.fs...), domFacts(p.fr, b)...)
		out = append(out, factCtx{p.fr, expandFacts(c, fs, 0)})
	}
	return out
}
