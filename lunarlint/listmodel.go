package main

// A model of container/list for the evaluator (E12): lists a followed function builds and then walks itself.

import (
	"fmt"
	"strconv"
	"strings"

	"golang.org/x/tools/go/ssa"
)

// listModel keeps the elements pushed onto every list created during one walk. A list is an absPtr tagged
// "list@<frame>:<instruction>", an element "elem@<list tag>#<index>". Elements are read when a condition or
// result needs them; the model is for functions that fill a list before they walk it.
type listModel struct {
	ev    *evaluator
	elems map[string][]interface{}
	// onPush, when set, sees every push onto a list (front: PushFront)
	onPush func(list string, el interface{}, ok bool, front bool)
}

func newListModel(ev *evaluator) *listModel {
	return &listModel{ev: ev, elems: map[string][]interface{}{}}
}

func (lm *listModel) elemOf(fr *evalFrame, v ssa.Value) (string, int, bool) {
	o, ok := lm.ev.eval(fr, v, 0)
	p, isP := o.(absPtr)
	if !ok || !isP || p.isNil || !strings.HasPrefix(p.tag, "elem@") {
		return "", 0, false
	}
	i := strings.LastIndex(p.tag, "#")
	k, err := strconv.Atoi(p.tag[i+1:])
	if err != nil {
		return "", 0, false
	}
	return p.tag[len("elem@"):i], k, true
}

func (lm *listModel) listOf(fr *evalFrame, v ssa.Value) (string, bool) {
	o, ok := lm.ev.eval(fr, v, 0)
	p, isP := o.(absPtr)
	if !ok || !isP || p.isNil || !strings.HasPrefix(p.tag, "list@") {
		return "", false
	}
	return p.tag, true
}

func (lm *listModel) at(list string, k int) interface{} {
	if k < 0 || k >= len(lm.elems[list]) {
		return absPtr{"nil", true}
	}
	return absPtr{fmt.Sprintf("elem@%s#%d", list, k), false}
}

// leaf: list.New, Front, Back, Len, Element.Next, Element.Prev and the Value of an element.
func (lm *listModel) leaf(c *Ctx, fr *evalFrame, v ssa.Value) (interface{}, bool) {
	if rc, f, ok := getterField(c, v); ok && f == "Element.Value" {
		if _, isCall := v.(*ssa.Call); !isCall {
			if l, k, ok := lm.elemOf(fr, rc); ok && k < len(lm.elems[l]) && lm.elems[l][k] != nil {
				return lm.elems[l][k], true
			}
			return nil, false
		}
	}
	call, ok := v.(*ssa.Call)
	if !ok || call.Common().StaticCallee() == nil {
		return nil, false
	}
	args := call.Common().Args
	switch call.Common().StaticCallee().String() {
	case "container/list.New":
		// named by where it is created (the chain of calls that leads there), so that copies of a frame agree
		tag := fmt.Sprintf("list@%p", call)
		for f := fr; f != nil && f.call != nil; f = f.parent {
			tag += fmt.Sprintf("<%p", f.call)
		}
		if lm.elems[tag] == nil {
			lm.elems[tag] = []interface{}{}
		}
		return absPtr{tag, false}, true
	case "(*container/list.List).Front":
		if l, ok := lm.listOf(fr, args[0]); ok {
			return lm.at(l, 0), true
		}
	case "(*container/list.List).Back":
		if l, ok := lm.listOf(fr, args[0]); ok {
			return lm.at(l, len(lm.elems[l])-1), true
		}
	case "(*container/list.List).Len":
		if l, ok := lm.listOf(fr, args[0]); ok {
			return int64(len(lm.elems[l])), true
		}
	case "(*container/list.Element).Next":
		if l, k, ok := lm.elemOf(fr, args[0]); ok {
			return lm.at(l, k+1), true
		}
	case "(*container/list.Element).Prev":
		if l, k, ok := lm.elemOf(fr, args[0]); ok {
			return lm.at(l, k-1), true
		}
	}
	return nil, false
}

// visit: PushBack and PushFront.
func (lm *listModel) visit(fr *evalFrame, call *ssa.Call) {
	callee := call.Common().StaticCallee()
	if callee == nil || len(call.Common().Args) != 2 {
		return
	}
	front := callee.String() == "(*container/list.List).PushFront"
	if !front && callee.String() != "(*container/list.List).PushBack" {
		return
	}
	l, ok := lm.listOf(fr, call.Common().Args[0])
	if !ok {
		lm.ev.fail = "a push onto a list the walk did not create"
		return
	}
	el, okE := lm.ev.eval(fr, unwrapIface(call.Common().Args[1]), 0)
	if !okE {
		el = nil
	}
	if front {
		lm.elems[l] = append([]interface{}{el}, lm.elems[l]...)
	} else {
		lm.elems[l] = append(lm.elems[l], el)
	}
	if lm.onPush != nil {
		lm.onPush(l, el, okE, front)
	}
}

// render: the elements of a list as text ("?" for an element the walk could not evaluate).
func (lm *listModel) render(list string) []string {
	out := []string{}
	for _, e := range lm.elems[list] {
		if e == nil {
			out = append(out, "?")
		} else {
			out = append(out, fmt.Sprint(e))
		}
	}
	return out
}
