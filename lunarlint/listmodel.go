package main

// A model of container/list for the evaluator (E12): lists a followed function builds and walks itself, or
// walks after the checker has filled them.

import (
	"fmt"
	"strconv"
	"strings"

	"golang.org/x/tools/go/ssa"
)

// listModel keeps the elements of every list created during one walk. A list is an absPtr tagged
// "list@<where it was created>", an element "elem@<list tag>#<id>" with an id that stays its own when other
// elements are removed. Elements are read when a condition or result needs them; the model is for functions
// that fill or prune a list before, or while, they walk it from one end.
type listModel struct {
	c      *Ctx
	ev     *evaluator
	elems  map[string][]int // list tag -> ids in order
	vals   map[int]interface{}
	nextID int
	// onPush, when set, sees every push onto a list (front: PushFront)
	onPush func(list string, el interface{}, ok bool, front bool)
}

func newListModel(ev *evaluator) *listModel {
	return &listModel{ev: ev, elems: map[string][]int{}, vals: map[int]interface{}{}, nextID: 1}
}

// fill: a list the checker supplies.
func (lm *listModel) fill(tag string, values ...interface{}) {
	lm.elems[tag] = []int{}
	for _, v := range values {
		lm.elems[tag] = append(lm.elems[tag], lm.newElem(v))
	}
}

func (lm *listModel) newElem(v interface{}) int {
	id := lm.nextID
	lm.nextID++
	lm.vals[id] = v
	return id
}

func (lm *listModel) elemOf(fr *evalFrame, v ssa.Value) (list string, pos int, id int, ok bool) {
	o, okE := lm.ev.eval(fr, v, 0)
	p, isP := o.(absPtr)
	if !okE || !isP || p.isNil || !strings.HasPrefix(p.tag, "elem@") {
		return "", 0, 0, false
	}
	i := strings.LastIndex(p.tag, "#")
	id, err := strconv.Atoi(p.tag[i+1:])
	if err != nil {
		return "", 0, 0, false
	}
	list = p.tag[len("elem@"):i]
	for k, e := range lm.elems[list] {
		if e == id {
			return list, k, id, true
		}
	}
	return list, -1, id, true // removed from its list: it has no neighbours any more
}

func (lm *listModel) listOf(fr *evalFrame, v ssa.Value) (string, bool) {
	o, ok := lm.ev.eval(fr, v, 0)
	p, isP := o.(absPtr)
	if !ok || !isP || p.isNil || !strings.HasPrefix(p.tag, "list@") {
		return "", false
	}
	if _, known := lm.elems[p.tag]; !known {
		return "", false
	}
	return p.tag, true
}

func (lm *listModel) at(list string, k int) interface{} {
	if k < 0 || k >= len(lm.elems[list]) {
		return absPtr{"nil", true}
	}
	return absPtr{fmt.Sprintf("elem@%s#%d", list, lm.elems[list][k]), false}
}

// leaf: list.New, Front, Back, Len, Element.Next, Element.Prev and the Value of an element.
func (lm *listModel) leaf(c *Ctx, fr *evalFrame, v ssa.Value) (interface{}, bool) {
	lm.c = c
	if rc, f, ok := getterField(c, v); ok && f == "Element.Value" {
		if _, isCall := v.(*ssa.Call); !isCall {
			if _, _, id, ok := lm.elemOf(fr, rc); ok && lm.vals[id] != nil {
				return lm.vals[id], true
			}
			return nil, false
		}
	}
	call, ok := v.(*ssa.Call)
	if !ok || call.Common().StaticCallee() == nil {
		return nil, false
	}
	args := call.Common().Args
	switch call.Common().StaticCallee().String() {
	case "container/list.New":
		// named by where it is created (the chain of calls that leads there), so that copies of a frame agree
		tag := fmt.Sprintf("list@%p", call)
		for f := fr; f != nil && f.call != nil; f = f.parent {
			tag += fmt.Sprintf("<%p", f.call)
		}
		if lm.elems[tag] == nil {
			lm.elems[tag] = []int{}
		}
		return absPtr{tag, false}, true
	case "(*container/list.List).Front":
		if l, ok := lm.listOf(fr, args[0]); ok {
			return lm.at(l, 0), true
		}
	case "(*container/list.List).Back":
		if l, ok := lm.listOf(fr, args[0]); ok {
			return lm.at(l, len(lm.elems[l])-1), true
		}
	case "(*container/list.List).Len":
		if l, ok := lm.listOf(fr, args[0]); ok {
			return int64(len(lm.elems[l])), true
		}
	case "(*container/list.Element).Next":
		if l, k, _, ok := lm.elemOf(fr, args[0]); ok {
			if k < 0 {
				return absPtr{"nil", true}, true
			}
			return lm.at(l, k+1), true
		}
	case "(*container/list.Element).Prev":
		if l, k, _, ok := lm.elemOf(fr, args[0]); ok {
			if k < 0 {
				return absPtr{"nil", true}, true
			}
			return lm.at(l, k-1), true
		}
	}
	return nil, false
}

// visit: PushBack, PushFront, PushBackList and Remove.
func (lm *listModel) visit(fr *evalFrame, call *ssa.Call) {
	callee := call.Common().StaticCallee()
	if callee == nil {
		return
	}
	// what a list or an element answers is read where the call stands (a later removal must not change it)
	switch callee.String() {
	case "(*container/list.List).Front", "(*container/list.List).Back", "(*container/list.List).Len", "(*container/list.Element).Next", "(*container/list.Element).Prev":
		if fr.vals == nil {
			fr.vals = map[ssa.Value]interface{}{}
		}
		delete(fr.vals, call)
		if lm.c == nil {
			return
		}
		if v, ok := lm.leaf(lm.c, fr, call); ok {
			fr.vals[call] = v
		}
		return
	}
	if len(call.Common().Args) != 2 {
		return
	}
	args := call.Common().Args
	switch callee.String() {
	case "(*container/list.List).PushBack", "(*container/list.List).PushFront":
		front := callee.String() == "(*container/list.List).PushFront"
		l, ok := lm.listOf(fr, args[0])
		if !ok {
			lm.ev.setFail("a push onto a list the walk does not know")
			return
		}
		el, okE := lm.ev.eval(fr, unwrapIface(args[1]), 0)
		if !okE {
			el = nil
		}
		id := lm.newElem(el)
		if front {
			lm.elems[l] = append([]int{id}, lm.elems[l]...)
		} else {
			lm.elems[l] = append(lm.elems[l], id)
		}
		if lm.onPush != nil {
			lm.onPush(l, el, okE, front)
		}
	case "(*container/list.List).PushBackList":
		l, ok1 := lm.listOf(fr, args[0])
		other, ok2 := lm.listOf(fr, args[1])
		if !ok1 || !ok2 {
			lm.ev.setFail("a list appended to a list the walk does not know")
			return
		}
		for _, id := range append([]int{}, lm.elems[other]...) {
			lm.elems[l] = append(lm.elems[l], lm.newElem(lm.vals[id])) // copies of the values, as the library's list makes
		}
	case "(*container/list.List).Remove":
		l, ok := lm.listOf(fr, args[0])
		el, k, _, okE := lm.elemOf(fr, args[1])
		if !ok || !okE {
			lm.ev.setFail("a removal from a list the walk does not know")
			return
		}
		if el == l && k >= 0 {
			lm.elems[l] = append(append([]int{}, lm.elems[l][:k]...), lm.elems[l][k+1:]...)
		}
	}
}

// render: the elements of a list as text ("?" for an element the walk could not evaluate).
func (lm *listModel) render(list string) []string {
	out := []string{}
	for _, id := range lm.elems[list] {
		if e := lm.vals[id]; e == nil {
			out = append(out, "?")
		} else {
			out = append(out, fmt.Sprint(e))
		}
	}
	return out
}
