package main

import (
	"flag"
	"fmt"
	"os"
	"path/filepath"
	"runtime/debug"
	"sort"
	"strings"
	"time"
)

type ruleFn func(c *Ctx, r *Report)

type propDef struct {
	id         string
	notDecided string
	rules      []ruleFn
}

var props = map[string]*propDef{}

var specDir = "/verif/spec"

func register(id, notDecided string, rules ...ruleFn) {
	props[id] = &propDef{id: id, notDecided: notDecided, rules: rules}
}

func main() {
	prop := flag.String("prop", "", "property id (C01..C20) or 'all'")
	tier := flag.String("tier", "quick", "quick|thorough")
	repo := flag.String("repo", "/repo", "repository under analysis")
	evdir := flag.String("evidence-dir", "/verif/evidence", "directory for evidence files ('' = none)")
	findings := flag.String("findings", "/verif/known_findings.json", "known findings file")
	goarch := flag.String("goarch", "", "GOARCH for loading (thorough tier also analyses 386)")
	spec := flag.String("spec", "/verif/spec", "directory of reviewed expectation tables")
	explain := flag.String("explain", "", "print a violations file in readable form and exit")
	list := flag.Bool("list", false, "list registered properties")
	genInputs := flag.Bool("gen-inputs", false, "print the declared-inputs table for the current tree (to be reviewed)")
	flag.Parse()
	specDir = *spec

	if *explain != "" {
		b, err := os.ReadFile(*explain)
		if err != nil {
			fmt.Println(err)
			os.Exit(2)
		}
		fmt.Println(string(b))
		return
	}
	if *list {
		var ids []string
		for id := range props {
			ids = append(ids, id)
		}
		sort.Strings(ids)
		fmt.Println(strings.Join(ids, " "))
		return
	}
	var ids []string
	if *prop == "all" {
		for id := range props {
			ids = append(ids, id)
		}
		sort.Strings(ids)
	} else {
		for _, id := range strings.Split(*prop, ",") {
			if props[id] == nil {
				fmt.Fprintf(os.Stderr, "unknown property %q\n", id)
				os.Exit(2)
			}
			ids = append(ids, id)
		}
	}
	start := time.Now()
	if *genInputs {
		c, err := load(*repo, *tier, *goarch, false)
		if err != nil {
			fmt.Fprintln(os.Stderr, err)
			os.Exit(2)
		}
		genInputSpec(c)
		return
	}
	c, err := load(*repo, *tier, *goarch, false)
	exit := 0
	if err != nil {
		// a tree that does not load or type-check cannot be decided: fail every requested property
		for _, id := range ids {
			r := newReport(id)
			r.NotDecided = props[id].notDecided
			r.bad("E1", "load "+*repo, "-", "cannot load/type-check the tree: "+err.Error())
			ev := ""
			if *evdir != "" {
				ev = filepath.Join(*evdir, id+".json")
			}
			dummy := &Ctx{Repo: *repo, ModPath: "github.com/6tail/lunar-go"}
			if code := r.finish(dummy, *tier, start, ev, *findings, nil); code > exit {
				exit = code
			}
		}
		os.Exit(exit)
	}
	loadTime := time.Since(start)
	var c386 *Ctx
	var err386 error
	for _, id := range ids {
		pstart := time.Now().Add(-loadTime)
		r := newReport(id)
		r.NotDecided = props[id].notDecided
		for _, rf := range props[id].rules {
			runRule(c, r, rf)
		}
		ev := ""
		if *evdir != "" {
			ev = filepath.Join(*evdir, id+".json")
		}
		// thorough: the same rules on GOARCH=386 (32-bit int, build-tagged files)
		if *tier == "thorough" && *goarch == "" && os.Getenv("LUNARLINT_NO_SELFTEST") == "" {
			if c386 == nil && err386 == nil {
				c386, err386 = load(*repo, *tier, "386", false)
			}
			if err386 != nil {
				r.bad("E1", "load GOARCH=386", "-", "the tree does not load/type-check for GOARCH=386: "+err386.Error())
			} else {
				r2 := newReport(id)
				for _, rf := range props[id].rules {
					runRule(c386, r2, rf)
				}
				n386, bad386 := 0, 0
				for _, o := range r2.Obls {
					n386++
					if !o.OK {
						bad386++
						o.Construct = "GOARCH=386: " + o.Construct
						r.Obls = append(r.Obls, o)
					}
				}
				r.ok("E1", "GOARCH=386 re-analysis", "-", fmt.Sprintf("%d obligations re-checked on the 386 build, %d violated", n386, bad386))
			}
		}
		var selftest, benign []selfTestResult
		if *tier == "thorough" && os.Getenv("LUNARLINT_NO_SELFTEST") == "" {
			selftest = runSelfTest(id, c.Repo, *findings, *spec)
			printSelfTest(id, selftest)
			benign = runBenignTest(id, c.Repo, *findings, *spec)
			printBenignTest(id, benign)
		}
		analysed := map[string]interface{}{
			"repo":              c.Repo,
			"module":            c.ModPath,
			"library_packages":  c.LibPkgs,
			"library_functions": len(c.Funcs),
			"goarch":            archOr(c.GoArch),
		}
		if selftest != nil {
			analysed["selftest_seeded_variants"] = selftest
		}
		if benign != nil {
			analysed["selftest_benign_refactorings"] = benign
		}
		if code := r.finish(c, *tier, pstart, ev, *findings, analysed); code > exit {
			exit = code
		}
	}
	os.Exit(exit)
}

func archOr(a string) string {
	if a == "" {
		return "host"
	}
	return a
}

// runRule runs one rule; a panic inside the analyser is a failure of the check
// (undecided is never "pass").
func runRule(c *Ctx, r *Report, rf ruleFn) {
	defer func() {
		if e := recover(); e != nil {
			st := string(debug.Stack())
			if len(st) > 1500 {
				st = st[:1500]
			}
			r.bad("E1", "analyser panic", "-", fmt.Sprintf("the analyser panicked: %v\n%s", e, st))
		}
	}()
	rf(c, r)
}
